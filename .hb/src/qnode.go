package main

// A real Serf node without sockets: memberlist runs on a recording transport
// (every packet the node sends is captured, nothing is delivered), messages are
// injected through the memberlist delegates the node registered in its config.
// Used by C07, C23, C35, C36.

import (
	"fmt"
	"io"
	"log"
	"net"
	"sync"
	"time"

	"github.com/hashicorp/memberlist"
	"github.com/hashicorp/serf/serf"
)

type sentPacket struct {
	Addr string
	Name string
	Buf  []byte
}

type qRecTransport struct {
	advIP    net.IP
	mu       sync.Mutex
	sent     []sentPacket
	packetCh chan *memberlist.Packet
	streamCh chan net.Conn
}

func newQRecTransport() *qRecTransport {
	return &qRecTransport{packetCh: make(chan *memberlist.Packet), streamCh: make(chan net.Conn)}
}

func (t *qRecTransport) FinalAdvertiseAddr(ip string, port int) (net.IP, int, error) {
	if t.advIP != nil {
		return t.advIP, 7946, nil
	}
	return net.ParseIP("127.0.0.1"), 7946, nil
}
func (t *qRecTransport) WriteTo(b []byte, addr string) (time.Time, error) {
	return t.WriteToAddress(b, memberlist.Address{Addr: addr})
}
func (t *qRecTransport) WriteToAddress(b []byte, a memberlist.Address) (time.Time, error) {
	t.mu.Lock()
	t.sent = append(t.sent, sentPacket{Addr: a.Addr, Name: a.Name, Buf: append([]byte{}, b...)})
	t.mu.Unlock()
	return time.Now(), nil
}
func (t *qRecTransport) PacketCh() <-chan *memberlist.Packet { return t.packetCh }
func (t *qRecTransport) DialTimeout(addr string, timeout time.Duration) (net.Conn, error) {
	return nil, fmt.Errorf("qRecTransport: no streams")
}
func (t *qRecTransport) DialAddressTimeout(a memberlist.Address, timeout time.Duration) (net.Conn, error) {
	return nil, fmt.Errorf("qRecTransport: no streams")
}
func (t *qRecTransport) StreamCh() <-chan net.Conn { return t.streamCh }
func (t *qRecTransport) Shutdown() error            { return nil }

func (t *qRecTransport) take() []sentPacket {
	t.mu.Lock()
	defer t.mu.Unlock()
	out := t.sent
	t.sent = nil
	return out
}

type qnode struct {
	s    *serf.Serf
	conf *serf.Config
	tr   *qRecTransport
	evCh chan serf.Event
}

type qnodeOpts struct {
	name            string
	conflictResolve bool
	gossip          time.Duration // GossipInterval (default query timeout = gossip * mult * ceil(log10(n+1)))
	timeoutMult     int
	keyring         *memberlist.Keyring
	respLimit       int
	events          bool // create an EventCh (buffered 4096)
	logw            io.Writer
	advIP           net.IP // advertised (= local) address; default 127.0.0.1 in 16-byte form
}

func newQNode(o qnodeOpts) (*qnode, error) {
	conf := serf.DefaultConfig()
	conf.Init()
	tr := newQRecTransport()
	tr.advIP = o.advIP
	conf.NodeName = o.name
	if conf.NodeName == "" {
		conf.NodeName = "self"
	}
	mc := conf.MemberlistConfig
	mc.Transport = tr
	mc.BindAddr = "127.0.0.1"
	mc.BindPort = 7946
	mc.AdvertisePort = 7946
	mc.EnableCompression = false
	mc.RequireNodeNames = true
	mc.GossipInterval = 200 * time.Millisecond
	if o.gossip != 0 {
		mc.GossipInterval = o.gossip
	}
	mc.ProbeInterval = time.Hour
	mc.PushPullInterval = 0
	mc.Logger = log.New(io.Discard, "", 0)
	mc.Keyring = o.keyring
	if o.keyring != nil {
		mc.GossipVerifyOutgoing = false // captured packets stay readable
	}
	conf.Logger = log.New(io.Discard, "", 0)
	if o.logw != nil {
		conf.Logger = log.New(o.logw, "", 0)
	}
	conf.EnableNameConflictResolution = o.conflictResolve
	conf.ReapInterval = time.Hour
	conf.ReconnectInterval = time.Hour
	if o.timeoutMult != 0 {
		conf.QueryTimeoutMult = o.timeoutMult
	}
	if o.respLimit != 0 {
		conf.QueryResponseSizeLimit = o.respLimit
	}
	n := &qnode{conf: conf, tr: tr}
	if o.events {
		n.evCh = make(chan serf.Event, 4096)
		conf.EventCh = n.evCh
	}
	s, err := serf.Create(conf)
	if err != nil {
		return nil, err
	}
	n.s = s
	return n, nil
}

func (n *qnode) msg(buf []byte) { n.conf.MemberlistConfig.Delegate.NotifyMsg(buf) }

func (n *qnode) shutdown() {
	if n != nil && n.s != nil {
		_ = n.s.Shutdown()
	}
}

// qMlNode builds a memberlist node record for the event delegate.
func qMlNode(name string, ip net.IP, port uint16, pmax uint8) *memberlist.Node {
	return &memberlist.Node{Name: name, Addr: ip, Port: port, PMin: 1, PMax: pmax, PCur: 2, DMin: 2, DMax: 5, DCur: 5}
}

// serfMsgOf strips the memberlist user-message framing of a captured packet and
// returns the serf message (nil if the packet is not a user message).
func serfMsgOf(p sentPacket) []byte {
	b := p.Buf
	if len(b) >= 5 && b[0] == 12 { // hasCrcMsg
		b = b[5:]
	}
	if len(b) >= 1 && b[0] == 8 { // userMsg
		return b[1:]
	}
	return nil
}

// lineLog collects the node's log lines (the vote outcome of resolveNodeConflict is only visible there).
type lineLog struct {
	mu    sync.Mutex
	lines []string
	part  string
}

func (l *lineLog) Write(p []byte) (int, error) {
	l.mu.Lock()
	defer l.mu.Unlock()
	l.part += string(p)
	for {
		i := -1
		for j := 0; j < len(l.part); j++ {
			if l.part[j] == '\n' {
				i = j
				break
			}
		}
		if i < 0 {
			break
		}
		l.lines = append(l.lines, l.part[:i])
		l.part = l.part[i+1:]
	}
	return len(p), nil
}

func (l *lineLog) take() []string {
	l.mu.Lock()
	defer l.mu.Unlock()
	out := l.lines
	l.lines = nil
	return out
}
