package main

import (
	"fmt"
	"math"
	"math/rand"
	"strconv"
	"strings"

	"github.com/hashicorp/serf/coordinate"
)

// C21: Coordinate.DistanceTo on pairs of coordinates.
//   dist <coordA> <coordB>  => ns <d(a,b)> <d(b,a)> | panic-dim      (a direction that panicked prints panic-dim / panic-other in place of its number)
// Coordinates are written as in C20 (math.Float64bits in hex).

func c21one(a, b *coordinate.Coordinate) (res string) {
	defer func() {
		if r := recover(); r != nil {
			if _, is := r.(coordinate.DimensionalityConflictError); is {
				res = "panic-dim"
			} else {
				res = "panic-other"
			}
		}
	}()
	return strconv.FormatInt(int64(a.DistanceTo(b)), 10)
}

// both directions are taken separately; `panic-dim` alone = both raised the dimensionality error
func c21dist(a, b *coordinate.Coordinate) string {
	ab, ba := c21one(a, b), c21one(b, a)
	if ab == "panic-dim" && ba == "panic-dim" {
		return "panic-dim"
	}
	return "ns " + ab + " " + ba
}

func c21Exec(ops []string) []string {
	outs := make([]string, 0, len(ops))
	for _, o := range ops {
		f := strings.Fields(o)
		if len(f) != 3 || f[0] != "dist" {
			outs = append(outs, "bad-op")
			continue
		}
		a, ok1 := c20parseCoord(f[1])
		b, ok2 := c20parseCoord(f[2])
		if !ok1 || !ok2 {
			outs = append(outs, "bad-op")
			continue
		}
		outs = append(outs, c21dist(a, b))
	}
	return outs
}

func c21Gen(rng *rand.Rand, tier string) []Case {
	n := 150
	if tier == "thorough" {
		n = 8000
	}
	per := 25
	mag := func() float64 {
		switch rng.Intn(6) {
		case 0:
			return 1e4
		case 1:
			return 100
		case 2:
			return 1e-3
		}
		return 0.2
	}
	sym := func(m float64) float64 {
		switch rng.Intn(25) {
		case 0:
			return 0
		case 1:
			return m
		case 2:
			return -m
		}
		return (rng.Float64()*2 - 1) * m
	}
	gen := func(dim int, cls int) *coordinate.Coordinate {
		c := &coordinate.Coordinate{Vec: make([]float64, dim)}
		m := mag()
		for i := range c.Vec {
			c.Vec[i] = sym(m)
		}
		c.Height = math.Abs(sym(mag()))
		c.Error = rng.Float64() * 1.5
		c.Adjustment = sym(mag() / 10)
		switch cls {
		case 1: // negative adjustments large enough to drive the adjusted distance negative
			c.Adjustment = -math.Abs(sym(mag())) * 3
		case 2: // "any adjustments": large ones
			c.Adjustment = sym([]float64{1e5, 1e6, 1e7, 1e8, 9.3e9, 1e10, 1e19, 1e300}[rng.Intn(8)])
		case 3: // out of the property's scope: the model must still agree bit for bit
			v := c20Adversarial[rng.Intn(len(c20Adversarial))]
			switch s := rng.Intn(dim + 2); {
			case s < dim:
				c.Vec[s] = v
			case s == dim:
				c.Height = v
			default:
				c.Adjustment = v
			}
		}
		return c
	}
	var out []Case
	for i := 0; i < n; i++ {
		var ops []string
		nt := 0
		tags := map[string]bool{}
		for j := 0; j < per; j++ {
			dim := 8
			if rng.Intn(3) == 0 {
				dim = 1 + rng.Intn(8)
			}
			cls := 0
			switch r := rng.Intn(20); {
			case r < 3:
				cls = 1
			case r < 5:
				cls = 2
			case r < 7:
				cls = 3
			}
			a := gen(dim, cls)
			dimB := dim
			if rng.Intn(15) == 0 {
				dimB = rng.Intn(10)
			}
			b := gen(dimB, cls)
			switch rng.Intn(20) {
			case 0: // same position
				if dimB == dim {
					b.Vec = append([]float64{}, a.Vec...)
				}
			case 1: // one ulp apart
				if dimB == dim {
					b.Vec = append([]float64{}, a.Vec...)
					b.Vec[0] = math.Nextafter(b.Vec[0], 1e9)
				}
			case 2:
				b = &coordinate.Coordinate{Vec: append([]float64{}, a.Vec...), Error: a.Error, Adjustment: a.Adjustment, Height: a.Height}
			case 3:
				// the adjusted distance is exactly 0.0 (the guard's boundary): same position, adjustment = -height
				a.Adjustment = -a.Height
				b = &coordinate.Coordinate{Vec: append([]float64{}, a.Vec...), Error: a.Error, Adjustment: -a.Height, Height: a.Height}
				dimB = dim
			case 4:
				// the adjusted distance is tiny but positive (just above the guard's boundary): same position,
				// the adjustments cancel all but 2^-k seconds of the heights
				eps := math.Ldexp(1, -(10 + rng.Intn(40)))
				h := float64(1+rng.Intn(50)) / 1024
				a.Height, a.Adjustment = h, -h+eps/2
				b = &coordinate.Coordinate{Vec: append([]float64{}, a.Vec...), Error: a.Error, Adjustment: -h + eps/2, Height: h}
				dimB = dim
			}
			if cls == 0 || cls == 1 {
				nt++
			}
			tags[[]string{"in-scope", "negative-adjustment", "huge-adjustment", "adversarial"}[cls]] = true
			if dimB != dim {
				tags["dim-mismatch"] = true
			}
			ops = append(ops, "dist "+c20coord(a, true)+" "+c20coord(b, true))
		}
		var tl []string
		for t := range tags {
			tl = append(tl, t)
		}
		out = append(out, Case{ID: fmt.Sprintf("d%d", i), Ops: ops, Nontrivial: nt >= 10, Tags: tl})
	}
	return out
}

func init() {
	register(&Prop{
		ID: "C21",
		Rule: "25 pairs per case; dimension 8 (2/3) or 1-8; components uniform in ±m or exactly 0, ±m with m from {0.2, 1e-3, 100, 1e4} s, heights in [0, m], adjustments in ±m/10; " +
			"15% with strongly negative adjustments (guard branch), 10% with huge adjustments (1e5 … 1e300 s), 10% with an adversarial value (NaN, ±Inf, 1e308, subnormals, negative heights: outside the property's scope, compared bit for bit only), " +
			"1/15 with a different dimension on the right, 1/20 each: same position, one ulp apart, identical coordinate, adjusted distance exactly 0 (adjustment = -height at the same position). Both d(a,b) and d(b,a) are taken from the real code. " +
			"non-trivial = at least 10 in-scope pairs in the case; distinct = distinct op sequence",
		Gen:  c21Gen,
		Exec: c21Exec,
	})
}
