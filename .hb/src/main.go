// verifharness: the implementation side of the correspondence checks.
//
//	harness <prop> run  -seed S -tier quick|thorough -out DIR   generate cases, execute them on the real code,
//	                                                            write DIR/trace.txt (+ DIR/stats.json)
//	harness <prop> exec                                         read op lines on stdin (with `case` lines), execute
//	                                                            on the real code, write `op => output` lines
//	harness <prop> gen  -seed S -tier T                         only print the generated op lines
//
// One op per line, one output per op; `case <id>` starts a fresh instance.  The
// Lean driver (serfdriver) consumes the trace.  Every random choice derives from
// the seed, so a disagreement replays exactly.
package main

import (
	"bufio"
	"bytes"
	"crypto/sha256"
	"encoding/hex"
	"encoding/json"
	"flag"
	"fmt"
	"io"
	"math/rand"
	"os"
	"os/exec"
	"sort"
	"strings"
	"sync"
	"time"
)

// Case is one generated test case: a list of op lines executed on a fresh instance.
type Case struct {
	ID  string
	Ops []string
	// Nontrivial says whether the case satisfies the property-specific
	// non-triviality rule (DESIGN.md 10.2a); Tags feed the distribution.
	Nontrivial bool
	Tags       []string
}

// Prop is the per-property plug-in.
type Prop struct {
	ID   string
	Rule string // generation + non-triviality rule, copied into the evidence
	// Gen produces the cases for a tier. corpus cases (minimised past failures) come first.
	Gen func(rng *rand.Rand, tier string) []Case
	// Exec runs one case on the real code and returns one output per op.
	// It must not panic for ops it does not understand: return "bad-op".
	Exec func(ops []string) []string
	// Isolate: run Exec in child processes (the case may crash the process).
	Isolate bool
	// Parallel > 1 (with Isolate): the cases are independent and expensive; run that many child
	// processes at a time.  The trace keeps the generated order.
	Parallel int
}

var registry = map[string]*Prop{}

func register(p *Prop) { registry[p.ID] = p }

func hexs(s string) string {
	if len(s) == 0 {
		return "-"
	}
	return hex.EncodeToString([]byte(s))
}

func hexb(b []byte) string {
	if len(b) == 0 {
		return "-"
	}
	return hex.EncodeToString(b)
}

func unhex(s string) []byte {
	if s == "-" {
		return []byte{}
	}
	b, err := hex.DecodeString(s)
	if err != nil {
		return nil
	}
	return b
}

func main() {
	if len(os.Args) < 3 {
		fmt.Fprintln(os.Stderr, "usage: harness <prop> run|exec|gen [flags]")
		os.Exit(2)
	}
	p, ok := registry[os.Args[1]]
	if !ok {
		fmt.Fprintf(os.Stderr, "harness: no property %s\n", os.Args[1])
		os.Exit(2)
	}
	mode := os.Args[2]
	fs := flag.NewFlagSet(mode, flag.ExitOnError)
	seed := fs.Int64("seed", 1, "PRNG seed")
	tier := fs.String("tier", "quick", "quick|thorough")
	out := fs.String("out", "", "output directory (run)")
	_ = fs.Parse(os.Args[3:])

	switch mode {
	case "gen":
		w := bufio.NewWriter(os.Stdout)
		for _, c := range allCases(p, *seed, *tier) {
			fmt.Fprintf(w, "case %s\n", c.ID)
			for _, o := range c.Ops {
				fmt.Fprintln(w, o)
			}
		}
		w.Flush()
	case "exec":
		execStream(p, os.Stdin, os.Stdout)
	case "run":
		if *out == "" {
			fmt.Fprintln(os.Stderr, "run needs -out")
			os.Exit(2)
		}
		runAll(p, *seed, *tier, *out)
	default:
		fmt.Fprintln(os.Stderr, "unknown mode", mode)
		os.Exit(2)
	}
}

func allCases(p *Prop, seed int64, tier string) []Case {
	rng := rand.New(rand.NewSource(seed))
	cases := loadCorpus(p.ID)
	cases = append(cases, p.Gen(rng, tier)...)
	return cases
}

// loadCorpus reads /verif/corpus/<id>/*.case (op lines; optional `case` header ignored).
func loadCorpus(id string) []Case {
	dir := verifDir() + "/corpus/" + id
	ents, err := os.ReadDir(dir)
	if err != nil {
		return nil
	}
	var names []string
	for _, e := range ents {
		if strings.HasSuffix(e.Name(), ".case") {
			names = append(names, e.Name())
		}
	}
	sort.Strings(names)
	var out []Case
	for _, n := range names {
		b, err := os.ReadFile(dir + "/" + n)
		if err != nil {
			continue
		}
		c := Case{ID: "corpus-" + strings.TrimSuffix(n, ".case"), Tags: []string{"corpus"}}
		for _, l := range strings.Split(string(b), "\n") {
			l = strings.TrimRight(l, "\r")
			if l == "" || strings.HasPrefix(l, "case ") || strings.HasPrefix(l, "#") {
				continue
			}
			if i := strings.Index(l, " => "); i >= 0 {
				l = l[:i]
			}
			c.Ops = append(c.Ops, l)
		}
		out = append(out, c)
	}
	return out
}

func verifDir() string {
	if d := os.Getenv("VERIF_DIR"); d != "" {
		return d
	}
	return "/verif"
}

// execStream: ops on r, trace on w, flushing after every line so that a crash
// leaves the crashing op identifiable.
func execStream(p *Prop, r io.Reader, w io.Writer) {
	sc := bufio.NewScanner(r)
	sc.Buffer(make([]byte, 1<<20), 1<<26)
	bw := bufio.NewWriter(w)
	var ops []string
	flush := func() {
		if len(ops) == 0 {
			return
		}
		outs := safeExec(p, ops, bw)
		for i, o := range ops {
			res := "MISSING"
			if i < len(outs) {
				res = outs[i]
			}
			fmt.Fprintf(bw, "%s => %s\n", o, res)
		}
		bw.Flush()
		ops = nil
	}
	for sc.Scan() {
		l := sc.Text()
		if strings.HasPrefix(l, "case ") {
			flush()
			fmt.Fprintln(bw, l)
			bw.Flush()
			continue
		}
		if l == "" {
			continue
		}
		ops = append(ops, l)
	}
	flush()
	bw.Flush()
}

// safeExec runs a case; when the property is not isolated a panic in the real
// code is caught here and attributed to the whole case (outputs "PANIC: …").
func safeExec(p *Prop, ops []string, bw *bufio.Writer) (outs []string) {
	defer func() {
		if r := recover(); r != nil {
			msg := fmt.Sprint(r)
			if len(msg) > 120 {
				msg = msg[:120]
			}
			msg = strings.ReplaceAll(msg, "\n", " ")
			for len(outs) < len(ops) {
				outs = append(outs, "PANIC "+msg)
			}
		}
	}()
	outs = p.Exec(ops)
	return outs
}

type stats struct {
	Property           string         `json:"property"`
	Seed               int64          `json:"seed"`
	Tier               string         `json:"tier"`
	Cases              int            `json:"cases"`
	Ops                int            `json:"ops"`
	DistinctCases      int            `json:"distinct_cases"`
	DistinctNontrivial int            `json:"distinct_nontrivial"`
	Tags               map[string]int `json:"tags"`
	OpMix              map[string]int `json:"op_mix"`
	Rule               string         `json:"rule"`
	Samples            [][]string     `json:"samples"`
	Crashes            int            `json:"crashes"`
	WallS              float64        `json:"wall_s"`
}

func runAll(p *Prop, seed int64, tier string, out string) {
	t0 := time.Now()
	cases := allCases(p, seed, tier)
	st := stats{Property: p.ID, Seed: seed, Tier: tier, Tags: map[string]int{}, OpMix: map[string]int{}, Rule: p.Rule}
	seen := map[[32]byte]bool{}
	for _, c := range cases {
		st.Cases++
		st.Ops += len(c.Ops)
		h := sha256.Sum256([]byte(strings.Join(c.Ops, "\n")))
		if !seen[h] {
			seen[h] = true
			st.DistinctCases++
			if c.Nontrivial {
				st.DistinctNontrivial++
			}
		}
		for _, t := range c.Tags {
			st.Tags[t]++
		}
		for _, o := range c.Ops {
			f := strings.SplitN(o, " ", 2)
			st.OpMix[f[0]]++
		}
	}
	for i := 0; i < len(cases) && len(st.Samples) < 3; i += 1 + len(cases)/3 {
		ops := cases[i].Ops
		if len(ops) > 12 {
			ops = append(append([]string{}, ops[:12]...), fmt.Sprintf("… (%d more ops)", len(cases[i].Ops)-12))
		}
		st.Samples = append(st.Samples, ops)
	}
	tf, err := os.Create(out + "/trace.txt")
	if err != nil {
		fmt.Fprintln(os.Stderr, err)
		os.Exit(2)
	}
	bw := bufio.NewWriterSize(tf, 1<<20)
	if !p.Isolate {
		for _, c := range cases {
			fmt.Fprintf(bw, "case %s\n", c.ID)
			outs := safeExec(p, c.Ops, bw)
			for i, o := range c.Ops {
				res := "MISSING"
				if i < len(outs) {
					res = outs[i]
				}
				fmt.Fprintf(bw, "%s => %s\n", o, res)
			}
		}
	} else if p.Parallel > 1 {
		// chunks of a few cases, p.Parallel children at a time, output in generated order
		chunk := 1 + len(cases)/(4*p.Parallel)
		type res struct {
			buf     bytes.Buffer
			crashes int
		}
		var chunks [][]Case
		for i := 0; i < len(cases); i += chunk {
			j := i + chunk
			if j > len(cases) {
				j = len(cases)
			}
			chunks = append(chunks, cases[i:j])
		}
		results := make([]res, len(chunks))
		sem := make(chan struct{}, p.Parallel)
		var wg sync.WaitGroup
		for k := range chunks {
			wg.Add(1)
			sem <- struct{}{}
			go func(k int) {
				defer wg.Done()
				defer func() { <-sem }()
				w := bufio.NewWriter(&results[k].buf)
				results[k].crashes = runIsolated(p, chunks[k], w)
				w.Flush()
			}(k)
		}
		wg.Wait()
		for k := range results {
			bw.Write(results[k].buf.Bytes())
			st.Crashes += results[k].crashes
		}
	} else {
		const batch = 500
		for i := 0; i < len(cases); i += batch {
			j := i + batch
			if j > len(cases) {
				j = len(cases)
			}
			st.Crashes += runIsolated(p, cases[i:j], bw)
		}
	}
	bw.Flush()
	tf.Close()
	st.WallS = time.Since(t0).Seconds()
	b, _ := json.MarshalIndent(st, "", " ")
	_ = os.WriteFile(out+"/stats.json", b, 0o644)
}

// runIsolated executes a batch in a child process; on a crash the batch is
// re-run case by case so the crashing case (and op) is identified exactly.
func runIsolated(p *Prop, cases []Case, bw *bufio.Writer) int {
	var in strings.Builder
	for _, c := range cases {
		fmt.Fprintf(&in, "case %s\n", c.ID)
		for _, o := range c.Ops {
			in.WriteString(o)
			in.WriteByte('\n')
		}
	}
	outB, ok := childExec(p, in.String())
	if ok {
		bw.Write(outB)
		return 0
	}
	if len(cases) == 1 {
		// Attribute the crash: ops that got an output keep it, the rest are PANIC.
		got := map[int]string{}
		n := 0
		for _, l := range strings.Split(string(outB), "\n") {
			if strings.HasPrefix(l, "case ") || l == "" {
				continue
			}
			if i := strings.Index(l, " => "); i >= 0 {
				got[n] = l[i+4:]
				n++
			}
		}
		fmt.Fprintf(bw, "case %s\n", cases[0].ID)
		for i, o := range cases[0].Ops {
			if r, ok := got[i]; ok {
				fmt.Fprintf(bw, "%s => %s\n", o, r)
			} else {
				fmt.Fprintf(bw, "%s => PANIC process-died\n", o)
			}
		}
		return 1
	}
	crashes := 0
	for i := range cases {
		crashes += runIsolated(p, cases[i:i+1], bw)
	}
	return crashes
}

func childExec(p *Prop, input string) ([]byte, bool) {
	self, _ := os.Executable()
	cmd := exec.Command(self, p.ID, "exec")
	cmd.Stdin = strings.NewReader(input)
	cmd.Env = append(os.Environ(), "GOMEMLIMIT=2GiB")
	var stderr strings.Builder
	cmd.Stderr = &stderr
	done := make(chan struct{})
	var outB []byte
	var err error
	go func() { outB, err = cmd.Output(); close(done) }()
	select {
	case <-done:
	case <-time.After(120 * time.Second):
		_ = cmd.Process.Kill()
		<-done
		return outB, false
	}
	return outB, err == nil
}
