package main

import (
	"fmt"
	"math/rand"
)

// C13: a graceful leave is remembered across restarts. Executor and op
// language: snapshot_common.go. Every life contains a Leave() at a random
// position (events before and after it), both settings of rejoin-after-leave,
// every threshold; 30% of the lives run through the real goroutines
// (NewSnapshotter, channel, Leave(), shutdown, Wait), which is where the
// leave handling of stream() lives.

func c13Gen(rng *rand.Rand, tier string) []Case {
	var out []Case
	// Leave() while the snapshotter is busy with a backlog, shutdown at once (real goroutines)
	for i, c := range [][3]int{{30, 1500, 128 * 1024}, {30, 1000, 200}, {20, 2000, 128 * 1024}} {
		out = append(out, Case{ID: fmt.Sprintf("burst%d", i), Tags: []string{"async", "burst-leave"}, Nontrivial: true,
			Ops: []string{fmt.Sprintf("burstleave %d %d %d", c[0], c[1], c[2])}})
	}
	n := 400
	if tier == "thorough" {
		n = 6000
	}
	for i := 0; i < n; i++ {
		o := snapGenOpts{maxEvents: 30, leave: true}
		switch {
		case i%10 < 3:
			o.async = true
			o.maxEvents = 20
		case i%10 == 3:
			o.long = true
			o.maxEvents = 10
		}
		out = append(out, snapCase(rng, fmt.Sprintf("l%d", i), o))
	}
	return out
}

func init() {
	register(&Prop{
		ID: "C13",
		Rule: "random lives of the real Snapshotter with a Leave() at a random position among ≤30 events (joins incl. multi-member, leave/failed, update/reap, user/query times, clock ticks, flush-interval elapsing, forced compactions, dumps) " +
			"× rejoin-after-leave on/off × thresholds {0,1,64,200,128KiB} × unusual names; 30% through the real goroutines (NewSnapshotter/channel/Leave()/Wait), the rest through the synchronous hooks; then shutdown + reopen by the real NewSnapshotter; " +
			"plus 3 burst cases: 20-30 lives each through the real goroutines with two joins and a backlog of 1000-2000 user events, Leave() and shutdown at once, restart (the leave must always have been recorded); " +
			"non-trivial = at least one join in the life (the rejoin set before the leave is non-empty or was); distinct = distinct op sequence",
		Gen:  c13Gen,
		Exec: snapExec,
	})
}
