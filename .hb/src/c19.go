package main

import (
	"fmt"
	"math/rand"
	"strconv"
	"strings"
	"sync"

	"github.com/hashicorp/serf/serf"
)

// C19: Lamport clock. Sequential differential on the real clock plus concurrent
// observation runs (monitored only).

const maxU64 = ^uint64(0)

func c19Palette(rng *rand.Rand, cur uint64) uint64 {
	switch rng.Intn(12) {
	case 0:
		return 0
	case 1:
		return 1
	case 2:
		return cur
	case 3:
		return cur + 1
	case 4:
		return cur - 1
	case 5:
		return maxU64 - 1
	case 6:
		return maxU64 - 2
	case 7:
		return cur + uint64(rng.Intn(1000))
	case 8:
		return rng.Uint64()
	case 9:
		return uint64(rng.Intn(64))
	case 10:
		return 1 << uint(rng.Intn(64))
	default:
		return cur + uint64(rng.Intn(5))
	}
}

func c19Gen(rng *rand.Rand, tier string) []Case {
	n := 300
	conc := 6
	if tier == "thorough" {
		n = 20000
		conc = 200
	}
	var out []Case
	// the recorded finding's input, replayed on every run
	out = append(out, Case{ID: "witness-max", Ops: []string{"set 42", "witness 18446744073709551615", "time"}, Nontrivial: true, Tags: []string{"boundary"}})
	for i := 0; i < n; i++ {
		var ops []string
		start := uint64(0)
		switch rng.Intn(4) {
		case 0:
			start = uint64(rng.Intn(10))
		case 1:
			start = maxU64 - uint64(rng.Intn(4)) - 2
		case 2:
			start = rng.Uint64() >> uint(rng.Intn(64))
		}
		cur := start
		ops = append(ops, fmt.Sprintf("set %d", start))
		boundary := false
		k := 3 + rng.Intn(17)
		for j := 0; j < k; j++ {
			switch rng.Intn(4) {
			case 0:
				ops = append(ops, "time")
			case 1:
				if cur >= maxU64-1 { // an increment here would wrap: part of the overflow class, kept out of random cases
					ops = append(ops, "time")
				} else {
					ops = append(ops, "inc")
					cur++
				}
			default:
				v := c19Palette(rng, cur)
				if v == maxU64 { // the recorded finding; only in its own case above
					v = maxU64 - 1
				}
				if v >= maxU64-3 || v == cur || v == cur-1 || v == cur+1 {
					boundary = true
				}
				ops = append(ops, fmt.Sprintf("witness %d", v))
				if v >= cur {
					cur = v + 1
				}
			}
		}
		tags := []string{"seq"}
		if boundary {
			tags = append(tags, "boundary")
		}
		out = append(out, Case{ID: fmt.Sprintf("s%d", i), Ops: ops, Nontrivial: boundary, Tags: tags})
	}
	for i := 0; i < conc; i++ {
		out = append(out, Case{ID: fmt.Sprintf("c%d", i), Ops: []string{fmt.Sprintf("conc %d %d %d", 2+rng.Intn(7), 200+rng.Intn(800), rng.Int63())}, Nontrivial: true, Tags: []string{"concurrent"}})
	}
	return out
}

func c19Exec(ops []string) []string {
	var clk serf.LamportClock
	var outs []string
	for _, o := range ops {
		f := strings.Fields(o)
		switch {
		case len(f) == 2 && f[0] == "set":
			v, err := strconv.ParseUint(f[1], 10, 64)
			if err != nil {
				outs = append(outs, "bad-op")
				continue
			}
			clk = serf.LamportClock{}
			if v > 0 {
				clk.Witness(serf.LamportTime(v - 1))
			}
			outs = append(outs, "ok")
		case len(f) == 1 && f[0] == "time":
			outs = append(outs, strconv.FormatUint(uint64(clk.Time()), 10))
		case len(f) == 1 && f[0] == "inc":
			outs = append(outs, strconv.FormatUint(uint64(clk.Increment()), 10))
		case len(f) == 2 && f[0] == "witness":
			v, err := strconv.ParseUint(f[1], 10, 64)
			if err != nil {
				outs = append(outs, "bad-op")
				continue
			}
			clk.Witness(serf.LamportTime(v))
			outs = append(outs, strconv.FormatUint(uint64(clk.Time()), 10))
		case len(f) == 4 && f[0] == "conc":
			// conc <goroutines> <ops each> <seed>: free-running goroutines on one clock; the
			// observations come back as extra `cobs` lines folded into this op's output is not
			// possible (one output per op), so the op's output is a ';'-joined list that
			// execConcExpand turns into cobs lines.
			g, _ := strconv.Atoi(f[1])
			n, _ := strconv.Atoi(f[2])
			sd, _ := strconv.ParseInt(f[3], 10, 64)
			outs = append(outs, c19Conc(g, n, sd))
		default:
			outs = append(outs, "bad-op")
		}
	}
	return outs
}

// c19Conc runs g goroutines × n ops on one real clock and checks, in Go, nothing:
// it returns per-goroutine observation logs; the trace post-processor below turns
// them into `cobs` lines for the Lean monitor.
func c19Conc(g, n int, seed int64) string {
	var clk serf.LamportClock
	clk.Witness(10)
	logs := make([][]string, g)
	var wg sync.WaitGroup
	start := make(chan struct{})
	for t := 0; t < g; t++ {
		wg.Add(1)
		go func(t int) {
			defer wg.Done()
			rng := rand.New(rand.NewSource(seed + int64(t)*7919))
			<-start
			for i := 0; i < n; i++ {
				switch rng.Intn(3) {
				case 0:
					logs[t] = append(logs[t], fmt.Sprintf("%d time 0 %d", t, uint64(clk.Time())))
				case 1:
					logs[t] = append(logs[t], fmt.Sprintf("%d inc 0 %d", t, uint64(clk.Increment())))
				default:
					v := uint64(clk.Time()) + uint64(rng.Intn(4))
					clk.Witness(serf.LamportTime(v))
					logs[t] = append(logs[t], fmt.Sprintf("%d witness %d %d", t, v, uint64(clk.Time())))
				}
			}
		}(t)
	}
	close(start)
	wg.Wait()
	var all []string
	for _, l := range logs {
		all = append(all, l...)
	}
	return "obs " + strings.Join(all, ";")
}

func init() {
	register(&Prop{
		ID: "C19",
		Rule: "sequential op sequences (set/time/inc/witness) on a real LamportClock with start values and witnessed values drawn from a palette " +
			"{0,1,cur-1,cur,cur+1,2^64-2,2^64-3,powers of two,random}; non-trivial = the sequence uses a boundary value (cur±1, cur, or within 3 of 2^64-1); " +
			"plus free-running concurrent runs (2-8 goroutines) whose per-goroutine observations are monitored; distinct = distinct op sequence",
		Gen:  c19Gen,
		Exec: c19Exec,
	})
}
