package main

import (
	"fmt"
	"math/rand"
	"sort"
	"strings"

	"github.com/hashicorp/serf/serf"
)

// C17: member event coalescer. Ops: `ev <kind> <hexname>:<ver>…`, `flush`.

var c17Kinds = []string{"join", "leave", "failed", "update", "reap"}

func c17KindOf(s string) (serf.EventType, bool) {
	switch s {
	case "join":
		return serf.EventMemberJoin, true
	case "leave":
		return serf.EventMemberLeave, true
	case "failed":
		return serf.EventMemberFailed, true
	case "update":
		return serf.EventMemberUpdate, true
	case "reap":
		return serf.EventMemberReap, true
	}
	return 0, false
}

func c17KindName(t serf.EventType) string {
	switch t {
	case serf.EventMemberJoin:
		return "join"
	case serf.EventMemberLeave:
		return "leave"
	case serf.EventMemberFailed:
		return "failed"
	case serf.EventMemberUpdate:
		return "update"
	case serf.EventMemberReap:
		return "reap"
	}
	return fmt.Sprintf("type%d", int(t))
}

func c17Gen(rng *rand.Rand, tier string) []Case {
	var out []Case
	names := []string{"a", "b", "node c", "d-4", ""}
	// exhaustive part: all sequences of ≤ L events over 2 names × 3 kinds, a flush after every prefix split
	L := 3
	if tier == "thorough" {
		L = 4
	}
	alphabet := []string{}
	for _, n := range []string{"a", "b"} {
		for _, k := range []string{"join", "update", "failed"} {
			alphabet = append(alphabet, fmt.Sprintf("ev %s %s:", k, hexs(n)))
		}
	}
	var rec func(prefix []int)
	id := 0
	rec = func(prefix []int) {
		if len(prefix) > 0 {
			// every placement of flushes: bitmask over gaps
			for mask := 0; mask < 1<<uint(len(prefix)); mask++ {
				var ops []string
				hasUpd, flushAfterUpd := false, false
				for i, a := range prefix {
					ops = append(ops, fmt.Sprintf("%s%d", alphabet[a], i+1))
					if strings.Contains(alphabet[a], " update ") {
						hasUpd = true
					}
					if mask&(1<<uint(i)) != 0 {
						ops = append(ops, "flush")
						if hasUpd {
							flushAfterUpd = true
						}
					}
				}
				ops = append(ops, "flush", "flush")
				out = append(out, Case{ID: fmt.Sprintf("x%d", id), Ops: ops, Nontrivial: flushAfterUpd, Tags: []string{"exhaustive"}})
				id++
			}
		}
		if len(prefix) == L {
			return
		}
		for a := range alphabet {
			rec(append(append([]int{}, prefix...), a))
		}
	}
	rec(nil)
	n := 400
	if tier == "thorough" {
		n = 40000
	}
	for i := 0; i < n; i++ {
		var ops []string
		k := 2 + rng.Intn(25)
		ver := 0
		sawUpd, nt := false, false
		for j := 0; j < k; j++ {
			if rng.Intn(4) == 0 {
				ops = append(ops, "flush")
				if sawUpd {
					nt = true
				}
				continue
			}
			kind := c17Kinds[rng.Intn(len(c17Kinds))]
			if kind == "update" {
				sawUpd = true
			}
			m := 1 + rng.Intn(3)
			if rng.Intn(3) > 0 {
				m = 1
			}
			var ms []string
			for x := 0; x < m; x++ {
				ver++
				ms = append(ms, fmt.Sprintf("%s:%d", hexs(names[rng.Intn(len(names))]), ver))
			}
			ops = append(ops, fmt.Sprintf("ev %s %s", kind, strings.Join(ms, " ")))
		}
		ops = append(ops, "flush", "flush")
		out = append(out, Case{ID: fmt.Sprintf("r%d", i), Ops: ops, Nontrivial: nt, Tags: []string{"random"}})
	}
	return out
}

func c17Exec(ops []string) []string {
	co := serf.VerifNewMemberCoalescer()
	var outs []string
	for _, o := range ops {
		f := strings.Fields(o)
		switch {
		case len(f) >= 3 && f[0] == "ev":
			t, ok := c17KindOf(f[1])
			if !ok {
				outs = append(outs, "bad-op")
				continue
			}
			ev := serf.MemberEvent{Type: t}
			bad := false
			for _, m := range f[2:] {
				p := strings.SplitN(m, ":", 2)
				nb := unhex(p[0])
				if len(p) != 2 || nb == nil {
					bad = true
					break
				}
				ev.Members = append(ev.Members, serf.Member{Name: string(nb), Tags: map[string]string{"v": p[1]}})
			}
			if bad {
				outs = append(outs, "bad-op")
				continue
			}
			if !co.Handle(ev) {
				outs = append(outs, "pass")
				continue
			}
			co.Coalesce(ev)
			outs = append(outs, "ok")
		case len(f) == 1 && f[0] == "flush":
			var items []string
			for _, e := range co.Flush() {
				me, ok := e.(serf.MemberEvent)
				if !ok {
					items = append(items, "notmember")
					continue
				}
				for _, m := range me.Members {
					items = append(items, fmt.Sprintf("%s/%s/%s", c17KindName(me.Type), hexs(m.Name), m.Tags["v"]))
				}
			}
			sort.Strings(items)
			if len(items) == 0 {
				outs = append(outs, "-")
			} else {
				outs = append(outs, strings.Join(items, ","))
			}
		default:
			outs = append(outs, "bad-op")
		}
	}
	return outs
}

func init() {
	register(&Prop{
		ID: "C17",
		Rule: "exhaustive: every sequence of ≤3 (thorough ≤4) member events over 2 names × {join,update,failed} with a flush at every subset of positions, plus random sequences over 5 names (incl. empty and with spaces) × 5 kinds with multi-member events; " +
			"non-trivial = a flush follows a quantum that contained an update; distinct = distinct op sequence",
		Gen:  c17Gen,
		Exec: c17Exec,
	})
}
