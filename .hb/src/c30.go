package main

import (
	"encoding/json"
	"fmt"
	"io"
	"math/rand"
	"net"
	"os"
	"path/filepath"
	"sort"
	"strings"
	"time"

	"github.com/hashicorp/serf/client"
	"github.com/hashicorp/serf/cmd/serf/command/agent"
	"github.com/hashicorp/serf/serf"
	"github.com/hashicorp/serf/testutil"
)

// C30: a real agent with a tags file; tag edits through the real RPC path
// (client.UpdateTags -> AgentIPC.handleTags -> Agent.SetTags -> Serf.SetTags).
// Ops: `init <tags>`, `edit <set> <del>`, `restart`.

func c30ShowTags(t map[string]string) string {
	if len(t) == 0 {
		return "_"
	}
	ks := make([]string, 0, len(t))
	for k := range t {
		ks = append(ks, k)
	}
	sort.Strings(ks)
	ps := make([]string, len(ks))
	for i, k := range ks {
		ps[i] = hexs(k) + ":" + hexs(t[k])
	}
	return strings.Join(ps, ",")
}

func c30ParseTags(s string) (map[string]string, bool) {
	out := map[string]string{}
	if s == "_" {
		return out, true
	}
	for _, p := range strings.Split(s, ",") {
		kv := strings.Split(p, ":")
		if len(kv) != 2 {
			return nil, false
		}
		k, v := unhex(kv[0]), unhex(kv[1])
		if k == nil || v == nil {
			return nil, false
		}
		out[string(k)] = string(v)
	}
	return out, true
}

func c30ParseKeys(s string) ([]string, bool) {
	if s == "_" {
		return nil, true
	}
	var out []string
	for _, p := range strings.Split(s, ",") {
		k := unhex(p)
		if k == nil {
			return nil, false
		}
		out = append(out, string(k))
	}
	return out, true
}

type c30Agent struct {
	dir      string
	tagsFile string
	a        *agent.Agent
	ipc      *agent.AgentIPC
	cl       *client.RPCClient
	retIP    func()
}

func (x *c30Agent) stop() {
	if x.cl != nil {
		x.cl.Close()
		x.cl = nil
	}
	if x.ipc != nil {
		x.ipc.Shutdown()
		x.ipc = nil
	}
	if x.a != nil {
		_ = x.a.Shutdown()
		x.a = nil
	}
	if x.retIP != nil {
		x.retIP()
		x.retIP = nil
	}
}

func c30Confs(tagsFile string, ip net.IP) (*agent.Config, *serf.Config) {
	ac := agent.DefaultConfig()
	ac.TagsFile = tagsFile
	sc := serf.DefaultConfig()
	sc.MemberlistConfig.BindAddr = ip.String()
	sc.MemberlistConfig.ProbeInterval = 100 * time.Millisecond
	sc.MemberlistConfig.RequireNodeNames = true
	sc.NodeName = "n-" + ip.String()
	return ac, sc
}

// start creates and starts an agent on the tags file through the real Create (which
// runs the real loader) and Start, plus a real IPC endpoint and RPC client.
func (x *c30Agent) start() bool {
	// other harnesses run in parallel on the same loopback range: when the start fails for any
	// reason other than the tags themselves (address in use), try another address
	for try := 0; try < 20; try++ {
		ok, retry := x.startOnce()
		if ok || !retry {
			return ok
		}
		time.Sleep(50 * time.Millisecond)
	}
	return false
}

// startOnce reports (started, worth retrying on another address).
func (x *c30Agent) startOnce() (bool, bool) {
	ip, ret := testutil.TakeIP()
	x.retIP = ret
	ac, sc := c30Confs(x.tagsFile, ip)
	a, err := agent.Create(ac, sc, io.Discard)
	if err != nil {
		x.stop()
		return false, false // the loader rejected the tags file
	}
	if err := a.Start(); err != nil {
		x.stop()
		return false, !strings.Contains(err.Error(), "Encoded length of tags exceeds limit")
	}
	x.a = a
	l, err := net.Listen("tcp", "127.0.0.1:0")
	if err != nil {
		x.stop()
		return false, true
	}
	lw := agent.NewLogWriter(16)
	x.ipc = agent.NewAgentIPC(a, "", l, io.Discard, lw, false)
	cl, err := client.NewRPCClient(l.Addr().String())
	if err != nil {
		x.stop()
		return false, true
	}
	x.cl = cl
	return true, false
}

// loaded returns the tags a fresh agent.Create loads from the tags file (the real loader).
func (x *c30Agent) loaded() string {
	ac, sc := c30Confs(x.tagsFile, net.IPv4(127, 0, 0, 1))
	if _, err := agent.Create(ac, sc, io.Discard); err != nil {
		return "ERR"
	}
	return c30ShowTags(sc.Tags)
}

func (x *c30Agent) observe(status string) string {
	eff := x.a.Serf().LocalMember().Tags
	conf := x.a.SerfConfig().Tags
	meta := x.a.Serf().Memberlist().LocalNode().Meta
	ms := "*"
	if len(eff) <= 1 {
		ms = hexb(meta)
	}
	return fmt.Sprintf("%s eff=%s conf=%s file=%s metalen=%d meta=%s", status, c30ShowTags(eff), c30ShowTags(conf), x.loaded(), len(meta), ms)
}

func c30Exec(ops []string) []string {
	dir, err := os.MkdirTemp("", "verif-c30-")
	if err != nil {
		panic(err)
	}
	defer os.RemoveAll(dir)
	x := &c30Agent{dir: dir, tagsFile: filepath.Join(dir, "tags.json")}
	defer x.stop()
	var outs []string
	for _, o := range ops {
		f := strings.Fields(o)
		switch {
		case len(f) == 2 && f[0] == "init":
			t, ok := c30ParseTags(f[1])
			if !ok || x.a != nil {
				outs = append(outs, "bad-op")
				continue
			}
			b, _ := json.Marshal(t)
			if err := os.WriteFile(x.tagsFile, b, 0o600); err != nil {
				panic(err)
			}
			if !x.start() {
				outs = append(outs, "start-failed")
				continue
			}
			outs = append(outs, x.observe("ok"))
		case len(f) == 3 && f[0] == "edit":
			set, ok1 := c30ParseTags(f[1])
			del, ok2 := c30ParseKeys(f[2])
			if !ok1 || !ok2 {
				outs = append(outs, "bad-op")
				continue
			}
			if x.a == nil {
				outs = append(outs, "dead")
				continue
			}
			err := x.cl.UpdateTags(set, del)
			status := "ok"
			if err != nil {
				if strings.Contains(err.Error(), "exceeds limit") {
					status = "toolarge"
				} else {
					status = "err"
				}
			}
			outs = append(outs, x.observe(status))
		case len(f) == 1 && f[0] == "restart":
			if x.a == nil {
				outs = append(outs, "dead")
				continue
			}
			x.stop()
			if !x.start() {
				outs = append(outs, "start-failed")
				continue
			}
			outs = append(outs, x.observe("ok"))
		default:
			outs = append(outs, "bad-op")
		}
	}
	return outs
}

// ---- generator

func c30RawLen(l int) int {
	if l < 32 {
		return 1
	} else if l < 65536 {
		return 3
	}
	return 5
}

func c30Size(t map[string]string) int {
	n := 1 + 1
	if len(t) >= 16 {
		n = 1 + 3
	}
	for k, v := range t {
		n += c30RawLen(len(k)) + len(k) + c30RawLen(len(v)) + len(v)
	}
	return n
}

var c30Keys = []string{"role", "a", "b", "dc", "", "ключ", "k=1", "日本", "x y", "é", "A", "tag,1", "t\tab"}
var c30Vals = []string{"", "x", "web", "значение", "a=b,c", "日本語テキスト", "line1\nline2", "ü", "0", strings.Repeat("v", 31), strings.Repeat("w", 32), strings.Repeat("é", 20)}

func c30Gen(rng *rand.Rand, tier string) []Case {
	var out []Case
	n := 36
	if tier == "thorough" {
		n = 1500
	}
	// the recorded history first, as a fixed case: an over-limit edit, then a restart
	big := strings.Repeat("z", 600)
	out = append(out, Case{ID: "fixed-overlimit", Nontrivial: true, Tags: []string{"fixed", "over-limit", "restart"}, Ops: []string{
		"init " + c30ShowTags(map[string]string{"role": "web"}),
		"edit " + c30ShowTags(map[string]string{"big": big}) + " _",
		"edit " + c30ShowTags(map[string]string{"a": "1"}) + " " + hexs("role") + "," + hexs("nope"),
		"edit " + c30ShowTags(map[string]string{"big": big}) + " _",
		"restart",
	}})
	for i := 0; i < n; i++ {
		cur := map[string]string{}
		for j := rng.Intn(4); j > 0; j-- {
			cur[c30Keys[rng.Intn(len(c30Keys))]] = c30Vals[rng.Intn(len(c30Vals))]
		}
		if rng.Intn(6) == 0 {
			// many small tags: map16 header
			for j := 0; j < 16+rng.Intn(4); j++ {
				cur[fmt.Sprintf("t%02d", j)] = fmt.Sprint(j)
			}
		}
		ops := []string{"init " + c30ShowTags(cur)}
		tags := map[string]bool{}
		k := 3 + rng.Intn(8)
		over, both := false, false
		for j := 0; j < k; j++ {
			set := map[string]string{}
			var del []string
			for d := rng.Intn(3); d > 0; d-- {
				switch rng.Intn(3) {
				case 0: // present key
					if len(cur) > 0 {
						ks := make([]string, 0, len(cur))
						for key := range cur {
							ks = append(ks, key)
						}
						sort.Strings(ks)
						del = append(del, ks[rng.Intn(len(ks))])
					}
				case 1:
					del = append(del, c30Keys[rng.Intn(len(c30Keys))])
				default:
					del = append(del, "absent-"+fmt.Sprint(rng.Intn(3)))
					tags["del-absent"] = true
				}
			}
			if len(del) > 0 && rng.Intn(4) == 0 {
				del = append(del, del[0])
			}
			for s := rng.Intn(3); s > 0; s-- {
				set[c30Keys[rng.Intn(len(c30Keys))]] = c30Vals[rng.Intn(len(c30Vals))]
			}
			if len(del) > 0 && rng.Intn(3) == 0 {
				set[del[0]] = c30Vals[rng.Intn(len(c30Vals))]
				tags["set-and-delete-same-key"] = true
			}
			// predicted result (generator-side bookkeeping, only to aim at the limit)
			pred := func() map[string]string {
				nt := map[string]string{}
				for kk, v := range cur {
					dd := false
					for _, d := range del {
						dd = dd || d == kk
					}
					if !dd {
						nt[kk] = v
					}
				}
				for kk, v := range set {
					nt[kk] = v
				}
				return nt
			}
			if rng.Intn(3) == 0 {
				// aim at the boundary: pad one value so that the encoding is 509..515 bytes
				key := "pad"
				if rng.Intn(2) == 0 {
					key = "пад"
				}
				delete(set, key)
				set[key] = ""
				base := c30Size(pred()) // with an empty pad value (header 1)
				target := 509 + rng.Intn(7)
				if rng.Intn(8) == 0 {
					target = 512 + rng.Intn(300)
				}
				want := target - base
				if want >= 32 {
					want -= 2 // raw16 header is 3 bytes
				}
				if want > 0 {
					if rng.Intn(2) == 0 {
						set[key] = strings.Repeat("p", want)
					} else {
						set[key] = strings.Repeat("ж", want/2) + strings.Repeat("p", want%2)
					}
				}
				tags["boundary"] = true
			}
			nt := pred()
			if len(set) > 0 && len(del) > 0 {
				both = true
			}
			ops = append(ops, "edit "+c30ShowTags(set)+" "+c30ShowDel(del))
			if c30Size(nt) > 512 {
				over = true
				tags["over-limit"] = true
			} else {
				cur = nt
			}
			tags[fmt.Sprintf("size-%d", c30Size(nt)/128*128)] = true
		}
		if rng.Intn(2) == 0 {
			ops = append(ops, "restart")
			tags["restart"] = true
		}
		var tl []string
		for t := range tags {
			tl = append(tl, t)
		}
		sort.Strings(tl)
		out = append(out, Case{ID: fmt.Sprintf("r%d", i), Ops: ops, Nontrivial: over && both, Tags: tl})
	}
	return out
}

func c30ShowDel(del []string) string {
	if len(del) == 0 {
		return "_"
	}
	p := make([]string, len(del))
	for i, d := range del {
		p[i] = hexs(d)
	}
	return strings.Join(p, ",")
}

func init() {
	register(&Prop{
		ID:   "C30",
		Rule: "real agent with a tags file, edits through client.UpdateTags; random edit sequences over ASCII/UTF-8/empty keys and values, deleting absent keys, setting and deleting the same key, a third of the edits padded to an encoded size of 509..515 bytes, optional restart; non-trivial = the case contains an edit that both sets and deletes and an edit over the 512-byte limit",
		Gen:  c30Gen,
		Exec: c30Exec,
	})
}
