//go:build verifoverlay

package main

// C12: snapshot I/O failures never crash the node and recording resumes.
//
// The REAL serf/snapshot.go compiled through the file-system shim (overlay); the hook
// makes exactly one operation of a life fail (index k among the operations that reach
// the OS — open, write, sync, close, remove, rename — counted from NewSnapshotter's
// open = 0). Every generated history is executed once per fault index (ALL of them).
//
// Ops: `fault <k>` (before `new`), the ops of snapshot_common.go, `rtime`
// (snapshotErrorRecoveryInterval elapses; sync only), `reopen <rj> <mc>` (only the real
// NewSnapshotter probe). Outputs: state + ` ops=…` where the failed operation is marked
// `!`; `PANIC` when the snapshotter panicked (sync: recovered in-process; through the
// real goroutines the process dies and the framework reports `PANIC process-died`),
// `dead` afterwards.

import (
	"fmt"
	"math/rand"
	"os"
	"os/exec"
	"strconv"
	"strings"
	"time"

	"github.com/hashicorp/serf/serf"
)

type c12Run struct {
	c11Run
	fault   int // -1: none
	n       int // mutating operations seen in this life
	failedAt int
	marks   map[int]bool // indices (into ops) of failed operations
}

func (c *c12Run) hook(op serf.VerifFSOp) error {
	if !c11Mutating(op.Op) {
		return nil
	}
	if c.path == "" {
		c.path = strings.TrimSuffix(op.Path, ".compact")
	}
	idx := c.n
	c.n++
	c.ops = append(c.ops, c11Op{op: op})
	if idx == c.fault {
		c.marks[len(c.ops)-1] = true
		return serf.VerifErrInjected
	}
	return nil
}

func (c *c12Run) render(from int) string {
	var it []string
	for i := from; i < len(c.ops); i++ {
		one := c.c11Run.renderOne(c.ops[i])
		if c.marks[i] {
			one = "!" + one
		}
		it = append(it, one)
	}
	if len(it) == 0 {
		return "-"
	}
	return strings.Join(it, ",")
}

func (c *c11Run) renderOne(o c11Op) string {
	w := c.which(o.op.Path)
	switch o.op.Op {
	case "open":
		if o.op.Arg == "trunc" {
			return "ot:" + w
		}
		return "oa:" + w
	case "write":
		if w == "t" {
			return fmt.Sprintf("w:t:%d", len(o.op.Data))
		}
		return "w:m:" + hexb(o.op.Data)
	case "sync":
		return "s:" + w
	case "close":
		return "c:" + w
	case "remove":
		return "rm:" + w
	case "rename":
		return "rn:" + w + ":" + c.which(o.op.Arg)
	case "truncate":
		return fmt.Sprintf("tr:%s:%d", w, o.op.N)
	}
	return "?"
}

func c12Protected(f func() string) (out string, panicked bool) {
	defer func() {
		if r := recover(); r != nil {
			out, panicked = "PANIC", true
		}
	}()
	return f(), false
}

func c12ExecOnce(ops []string) (outs []string, stalled bool) {
	emit := func(o string) { outs = append(outs, o); c12Emit(o) }
	c := &c12Run{fault: -1, marks: map[int]bool{}}
	serf.VerifSetFSHook(c.hook)
	var r *snapRun
	dead := false
	defer func() {
		serf.VerifSetFSHook(nil)
		defer func() { _ = recover() }()
		if !dead {
			r.cleanup()
		}
	}()
	pending := -1
	for _, o := range ops {
		f := strings.Fields(o)
		if len(f) == 0 {
			emit("bad-op")
			continue
		}
		if f[0] == "fault" && len(f) == 2 {
			k, err := strconv.Atoi(f[1])
			if err != nil {
				emit("bad-op")
				continue
			}
			pending = k
			emit("ok")
			continue
		}
		if dead {
			emit("dead")
			continue
		}
		if f[0] == "new" {
			if len(f) != 4 {
				emit("bad-op")
				continue
			}
			c.ops, c.path, c.n, c.marks = nil, "", 0, map[int]bool{}
			c.fault = pending
		}
		if r == nil && f[0] != "new" {
			emit("bad-op")
			continue
		}
		from := len(c.ops)
		t0 := time.Now()
		out, p := c12Protected(func() string {
			switch f[0] {
			case "rtime":
				if r.async {
					return "bad-op"
				}
				r.vs.ResetRecoveryTimer()
				return r.syncState()
			case "compact":
				if r.async || r.closed {
					return "bad-op"
				}
				_ = r.vs.Compact()
				return r.syncState()
			case "reopen":
				if len(f) != 3 || !r.closed {
					return "bad-op"
				}
				mc, err := strconv.Atoi(f[2])
				if err != nil {
					return "bad-op"
				}
				serf.VerifSetFSHook(nil)
				defer serf.VerifSetFSHook(c.hook)
				p, err := r.probe(f[1] == "1", mc)
				if err != nil {
					return "error-probe"
				}
				return p
			case "dump":
				return "bad-op"
			}
			s := snapExecOp(&r, f)
			if i := strings.Index(s, " file="); i >= 0 {
				s = s[:i]
			}
			return s
		})
		if time.Since(t0) > 300*time.Millisecond || (r != nil && r.stalled) ||
			(r != nil && r.async && !r.closed && time.Since(r.t0) > 350*time.Millisecond) {
			stalled = true
		}
		if p {
			dead = true
			if r != nil && r.dir != "" {
				os.RemoveAll(r.dir)
			}
			emit("PANIC ops="+c.render(from))
			continue
		}
		if out == "bad-op" || f[0] == "reopen" {
			emit(out)
			continue
		}
		emit(out+" ops="+c.render(from))
	}
	return outs, stalled
}

// side-channel for lives that run through the real goroutines: a panic there kills the
// process, so such a case is executed in a child (this binary, `C12 exec`, C12_CHILD=1)
// that appends every op's output to the file C12_SIDE as soon as it is known.
var c12Side *os.File

func c12Emit(line string) {
	if c12Side != nil {
		fmt.Fprintln(c12Side, line)
	}
}

func c12Exec(ops []string) []string {
	async := false
	for _, o := range ops {
		if strings.HasPrefix(o, "new async") {
			async = true
		}
	}
	if async && os.Getenv("C12_CHILD") == "" {
		return c12ExecViaChild(ops)
	}
	if p := os.Getenv("C12_SIDE"); p != "" && c12Side == nil {
		c12Side, _ = os.OpenFile(p, os.O_WRONLY|os.O_APPEND|os.O_CREATE, 0644)
	}
	var outs []string
	for try := 0; try < 4; try++ {
		var st bool
		c12Emit("RETRY")
		outs, st = c12ExecOnce(ops)
		if !st {
			return outs
		}
	}
	return outs
}

func c12ExecViaChild(ops []string) []string {
	side, err := os.CreateTemp("", "verif-c12-side-")
	if err != nil {
		return nil
	}
	side.Close()
	defer os.Remove(side.Name())
	self, _ := os.Executable()
	cmd := exec.Command(self, "C12", "exec")
	cmd.Env = append(os.Environ(), "C12_CHILD=1", "C12_SIDE="+side.Name())
	cmd.Stdin = strings.NewReader("case child\n" + strings.Join(ops, "\n") + "\n")
	done := make(chan error, 1)
	go func() { _, e := cmd.Output(); done <- e }()
	var runErr error
	select {
	case runErr = <-done:
	case <-time.After(60 * time.Second):
		_ = cmd.Process.Kill()
		runErr = <-done
	}
	b, _ := os.ReadFile(side.Name())
	lines := strings.Split(strings.TrimRight(string(b), "\n"), "\n")
	// outputs of the last attempt
	last := 0
	for i, l := range lines {
		if l == "RETRY" {
			last = i + 1
		}
	}
	outs := append([]string{}, lines[last:]...)
	if len(outs) == 1 && outs[0] == "" {
		outs = nil
	}
	if runErr == nil && len(outs) == len(ops) {
		return outs
	}
	for len(outs) < len(ops) {
		outs = append(outs, "PANIC process-died")
	}
	return outs
}

// c12CountOps runs the fault-free life and counts the operations that reach the OS.
func c12CountOps(ops []string) int {
	outs := c12Exec(ops)
	n := 0
	for _, o := range outs {
		i := strings.Index(o, " ops=")
		if i < 0 || o[i+5:] == "-" {
			continue
		}
		n += len(strings.Split(o[i+5:], ","))
	}
	return n
}

func c12Gen(rng *rand.Rand, tier string) []Case {
	var out []Case
	names := []string{"a", "b", "node c", "x:y", "#c"}
	hist := 30
	if tier == "thorough" {
		hist = 400
	}
	add := func(id, mode string, rj bool, mc int, body []string, clk uint64, only []int) {
		life := []string{fmt.Sprintf("new %s %s %d", mode, b01(rj), mc)}
		life = append(life, body...)
		life = append(life, fmt.Sprintf("shutdown %d", clk), fmt.Sprintf("reopen %s %d", b01(rj), mc))
		n := c12CountOps(append([]string{"fault -1"}, life...))
		ks := only
		if ks == nil {
			for k := 1; k < n; k++ {
				ks = append(ks, k)
			}
		}
		for _, k := range ks {
			if k >= n {
				continue
			}
			c := Case{ID: fmt.Sprintf("%s-k%d", id, k), Ops: append([]string{fmt.Sprintf("fault %d", k)}, life...),
				Tags: []string{mode, fmt.Sprintf("mc%d", mc)}, Nontrivial: true}
			out = append(out, c)
		}
	}
	// the recorded finding, through the hooks and through the real goroutines: a forced / threshold compaction whose remove fails
	fixed := []string{"join 2 " + snapMember(rng, "a"), "join 3 " + snapMember(rng, "b"), "gone leave 4 " + hexs("a"), "join 5 " + snapMember(rng, "c"), "user 7", "join 6 " + snapMember(rng, "d")}
	add("fixsync", "sync", false, 64, fixed, 6, nil)
	add("fixasync", "async", false, 64, fixed, 6, nil)
	// compacts at once (nothing alive yet, threshold 0): the remove/rename/reopen faults of a threshold compaction
	fixed2 := []string{"user 5", "query 6", "join 2 " + snapMember(rng, "a"), "join 3 " + snapMember(rng, "b"), "gone failed 4 " + hexs("a"), "user 9"}
	add("fix2sync", "sync", false, 0, fixed2, 4, nil)
	add("fix2async", "async", false, 0, fixed2, 4, nil)
	for i := 0; i < hist; i++ {
		rj := rng.Intn(2) == 1
		mc := []int{0, 64, 64, 200, 128 * 1024}[rng.Intn(5)]
		clk := uint64(1)
		h, _ := snapHistory(rng, snapGenOpts{maxEvents: 7, leave: rng.Intn(6) == 0}, names, &clk)
		var body []string
		for _, o := range h {
			// compact() is only reachable through appendLine/tryAppend in the code; a direct call
			// (the hook) has no error recovery of its own, so it is not part of the fault lives
			if o == "dump" || o == "compact" {
				continue
			}
			body = append(body, o)
			if rng.Intn(5) == 0 {
				body = append(body, "rtime")
			}
		}
		// events after any fault, with the recovery interval elapsed, so that "recording resumes" is observable
		body = append(body, "rtime", "join "+strconv.FormatUint(clk+1, 10)+" "+snapMember(rng, "tail"), "user 41", "rtime", "query 42")
		add(fmt.Sprintf("h%d", i), "sync", rj, mc, body, clk+1, nil)
	}
	return out
}

func init() {
	register(&Prop{
		ID: "C12",
		Rule: "the real Snapshotter compiled through the file-system shim (overlay), ONE operation failing per life: every history (≤7 random events incl. multi-member joins, removals, user/query times, ticks, flush-interval elapsing, forced compactions, recovery-interval elapsing, sometimes a leave; then a fixed tail of further events) is executed once for EVERY fault index k = 1 … N-1 of its N file operations; thresholds {0,64,200,128KiB}; one fixed history also through the real goroutines in child processes (a panic there kills the process); " +
			"after shutdown the real NewSnapshotter recovers from the file; non-trivial = every case (each has a distinct fault point); distinct = distinct op sequence",
		Gen:     c12Gen,
		Exec:    c12Exec,
	})
}
