package main

import (
	"fmt"
	"math/rand"
	"strconv"
	"strings"
	"sync"
	"time"

	"github.com/hashicorp/serf/serf"
)

// C05: user-event de-duplication on a real single node.
// Ops: `cfg N`, `ev lt name payload`, `ignore 0|1`, `pp eventLTime isJoin slot…`
// (see lean/SerfModel/Check/C05.lean).

var c05BufSizes = []int{1, 2, 3, 4, 8, 512}

var c05Names = []string{"a", "b", "deploy", ""}
var c05Payloads = []string{"", "x", "\x00\x01", "x"}

// c05Payload decodes a payload token: hex, `-` = empty (non-nil) byte slice, `~` = nil
// (the two are different on the wire and equal for userEvent.Equals).
func c05Payload(tok string) []byte {
	if tok == "~" {
		return nil
	}
	return unhex(tok)
}

func c05PayloadOK(tok string) bool { return tok == "~" || unhex(tok) != nil }

func c05PayloadTok(p string, isNil bool) string {
	if isNil && p == "" {
		return "~"
	}
	return hexs(p)
}

var c05Seps = []string{":", "", "/", "\x00", " ", "|", "=", "\n", ",", "::"}
var c05Parts = []string{"deploy", "web", "v2", "a", "", "x", "ab", "b", ":", "\x00"}

// c05Family returns distinct (name, payload) items that an ambiguous identity
// (a concatenation of name and payload, with or without a separator; the name
// only; the payload only; lengths) would confuse: different splits of one string
// around each separator, prefixes / suffixes of each other, empty name or payload.
func c05Family(rng *rand.Rand) [][2]string {
	sep := c05Seps[rng.Intn(len(c05Seps))]
	pick := func() string { return c05Parts[rng.Intn(len(c05Parts))] }
	p0, p1, p2 := pick(), pick(), pick()
	if p1 == "" && sep == "" {
		p1 = "w"
	}
	fam := [][2]string{
		{p0, p1 + sep + p2},            // name | rest
		{p0 + sep + p1, p2},            // same concatenation with every separator-joined key, other split
		{p0 + sep + p1 + sep + p2, ""}, // everything in the name
		{"", p0 + sep + p1 + sep + p2}, // everything in the payload
		{p0 + sep, p1 + sep + p2},      // separator moved to the name side
		{p0, sep + p1 + sep + p2},      // … and to the payload side
		{p0 + p1, p2},                  // plain concatenation splits
		{p0, p1 + p2},
		{p2, p0 + sep + p1}, // swapped roles
		{p0, p1},            // prefixes of the above
		{p0, ""},
		{"", p1},
	}
	// drop exact repeats inside the family (they would be genuine duplicates)
	var out [][2]string
	seen := map[[2]string]bool{}
	for _, it := range fam {
		if !seen[it] {
			seen[it] = true
			out = append(out, it)
		}
	}
	rng.Shuffle(len(out), func(i, j int) { out[i], out[j] = out[j], out[i] })
	return out
}

// c05Time draws a Lamport time around the generator's estimate of the node's clock.
func c05Time(rng *rand.Rand, cur uint64, n uint64, used []uint64) uint64 {
	t := c05TimeRaw(rng, cur, n, used)
	if t > cur && t-cur > 1<<62 && rng.Intn(8) != 0 { // an underflow below 0: mostly avoid
		return uint64(rng.Intn(4))
	}
	return t
}

func c05TimeRaw(rng *rand.Rand, cur uint64, n uint64, used []uint64) uint64 {
	switch rng.Intn(16) {
	case 0:
		return cur - n - 1 - uint64(rng.Intn(2)) // just outside the window (may wrap below 0: huge)
	case 1:
		return cur - n // window edge
	case 2:
		return cur - n + 1
	case 3:
		return cur - 1
	case 4:
		return cur
	case 5:
		return cur + 1
	case 6:
		return cur + n*uint64(1+rng.Intn(3)) // same slot as cur, later
	case 7, 8, 9:
		if len(used) > 0 { // slot collision with an earlier time: ± k·N
			u := used[rng.Intn(len(used))]
			k := n * uint64(1+rng.Intn(2))
			if rng.Intn(2) == 0 {
				return u + k
			}
			return u - k
		}
		return cur
	case 10, 11:
		if len(used) > 0 {
			return used[rng.Intn(len(used))]
		}
		return cur
	case 12:
		return uint64(rng.Intn(6))
	case 13:
		return maxU64 - 1 - uint64(rng.Intn(int(n)+2))
	case 14:
		return cur + uint64(rng.Intn(3*int(n)+2))
	default:
		return cur - uint64(rng.Intn(int(n)+3))
	}
}

type c05Gen struct {
	rng    *rand.Rand
	n      uint64
	cur    uint64
	used   []uint64
	sent   []string // "lt name payload" already sent
	ops    []string
	dup    bool
	coll   bool
	bySlot map[uint64]uint64
	// fam: when set, the items of this case come from one ambiguous family and
	// events tend to share Lamport times
	fam [][2]string
}

func (g *c05Gen) note(t uint64) {
	if prev, ok := g.bySlot[t%g.n]; ok && prev != t {
		g.coll = true
	}
	g.bySlot[t%g.n] = t
	g.used = append(g.used, t)
	if t != maxU64 && t+1 > g.cur {
		g.cur = t + 1
	}
}

// item returns a name and a payload token.
func (g *c05Gen) item() (string, string) {
	if g.fam != nil && g.rng.Intn(8) != 0 {
		it := g.fam[g.rng.Intn(len(g.fam))]
		return it[0], c05PayloadTok(it[1], g.rng.Intn(3) == 0)
	}
	p := c05Payloads[g.rng.Intn(len(c05Payloads))]
	return c05Names[g.rng.Intn(len(c05Names))], c05PayloadTok(p, g.rng.Intn(6) == 0)
}

func (g *c05Gen) ev(allowMax bool) {
	if len(g.sent) > 0 && g.rng.Intn(4) == 0 {
		g.ops = append(g.ops, "ev "+g.sent[g.rng.Intn(len(g.sent))])
		g.dup = true
		return
	}
	t := c05Time(g.rng, g.cur, g.n, g.used)
	if g.fam != nil && len(g.used) > 0 && g.rng.Intn(3) > 0 { // another item at the Lamport time just used
		t = g.used[len(g.used)-1]
	}
	if t == maxU64 && !allowMax {
		t = maxU64 - 1
	}
	name, payload := g.item()
	body := fmt.Sprintf("%d %s %s", t, hexs(name), payload)
	for _, s := range g.sent {
		if s == body {
			g.dup = true
		}
	}
	g.sent = append(g.sent, body)
	g.note(t)
	g.ops = append(g.ops, "ev "+body)
}

func (g *c05Gen) pp(allowMax bool) {
	nslots := g.rng.Intn(4)
	if g.rng.Intn(4) == 0 {
		nslots = int(g.n)
		if nslots > 6 {
			nslots = 6
		}
	}
	var slots []string
	for i := 0; i < nslots; i++ {
		if g.rng.Intn(5) == 0 {
			slots = append(slots, "nil")
			continue
		}
		var t uint64
		var items []string
		if len(g.sent) > 0 && g.rng.Intn(2) == 0 {
			f := strings.Fields(g.sent[g.rng.Intn(len(g.sent))])
			t, _ = strconv.ParseUint(f[0], 10, 64)
			items = append(items, f[1]+"."+f[2])
			g.dup = true
		} else {
			t = c05Time(g.rng, g.cur, g.n, g.used)
			if t == maxU64 && !allowMax {
				t = maxU64 - 1
			}
		}
		k := g.rng.Intn(3)
		if g.fam != nil {
			k = 1 + g.rng.Intn(4) // several family members at one Lamport time
		}
		for ; k > 0; k-- {
			name, payload := g.item()
			items = append(items, hexs(name)+"."+payload)
		}
		for _, it := range items {
			p := strings.SplitN(it, ".", 2)
			g.sent = append(g.sent, fmt.Sprintf("%d %s %s", t, p[0], p[1]))
		}
		if len(items) > 0 {
			g.note(t)
		}
		slots = append(slots, fmt.Sprintf("%d:%s", t, strings.Join(items, ";")))
	}
	var e uint64
	switch g.rng.Intn(6) {
	case 0:
		e = 0
	case 1:
		e = g.cur
	case 2:
		e = g.cur + g.n
	case 3:
		e = g.cur + 1
	case 4:
		e = uint64(g.rng.Intn(8))
	default:
		e = c05Time(g.rng, g.cur, g.n, g.used)
	}
	if e > 0 && e-1 != maxU64 && e > g.cur {
		g.cur = e
	}
	g.ops = append(g.ops, strings.TrimSpace(fmt.Sprintf("pp %d %d %s", e, g.rng.Intn(2), strings.Join(slots, " "))))
}

func c05GenCases(rng *rand.Rand, tier string) []Case {
	var out []Case
	M := fmt.Sprint(maxU64)
	// the recorded finding's input (buffer of 2, three messages), replayed on every run
	out = append(out, Case{ID: "wrap-redelivery", Tags: []string{"boundary"}, Nontrivial: true, Ops: []string{
		"cfg 2", "ev 1 61 -", "ev " + M + " 62 -", "ev 1 61 -"}})
	out = append(out, Case{ID: "wrap-redelivery-pp", Tags: []string{"boundary"}, Nontrivial: true, Ops: []string{
		"cfg 2", "ev 1 61 -", "pp 0 0 nil " + M + ":62.-", "pp 2 0 nil 1:61.-"}})
	// distinct events at one Lamport time whose name/payload concatenations coincide
	// under a separator (and the seeded C05-c input itself): each must be delivered
	// exactly once, by gossip and by push/pull
	{
		type pair struct{ n1, p1, n2, p2 string }
		pairs := []pair{{"deploy:web", "v2", "deploy", "web:v2"}}
		for _, sep := range c05Seps {
			pairs = append(pairs,
				pair{"deploy" + sep + "web", "v2", "deploy", "web" + sep + "v2"},
				pair{"a" + sep, "b", "a", sep + "b"},
				pair{"", "a" + sep + "b", "a" + sep + "b", ""},
				pair{"a", "", "", "a"},
				pair{"ab", "c", "a", "bc"})
		}
		for i, pr := range pairs {
			n := []int{1, 2, 4, 512}[i%4]
			t := uint64(1 + i%7)
			e1 := fmt.Sprintf("%d %s %s", t, hexs(pr.n1), hexs(pr.p1))
			e2 := fmt.Sprintf("%d %s %s", t, hexs(pr.n2), hexs(pr.p2))
			ops := []string{fmt.Sprintf("cfg %d", n), "ev " + e1, "ev " + e2, "ev " + e1, "ev " + e2}
			if i%2 == 1 {
				ops = []string{fmt.Sprintf("cfg %d", n),
					fmt.Sprintf("pp 0 0 %d:%s.%s;%s.%s;%s.%s", t, hexs(pr.n1), hexs(pr.p1), hexs(pr.n2), hexs(pr.p2), hexs(pr.n1), hexs(pr.p1)),
					"ev " + e2, "ev " + e1}
			}
			out = append(out, Case{ID: fmt.Sprintf("amb%d", i), Tags: []string{"ambiguous-fixed"}, Nontrivial: true, Ops: ops})
		}
		// nil and empty payloads are the same event
		out = append(out, Case{ID: "nil-empty", Tags: []string{"ambiguous-fixed"}, Nontrivial: true, Ops: []string{
			"cfg 2", "ev 3 61 ~", "ev 3 61 -", "ev 3 - -", "ev 3 - ~", "pp 0 0 3:61.~;61.-;-.~ nil"}})
	}
	// concurrent handling of the same events (gossip and push/pull at the same moment)
	nConc := 4
	if tier == "thorough" {
		nConc = 60
	}
	for i := 0; i < nConc; i++ {
		out = append(out, Case{ID: fmt.Sprintf("conc%d", i), Tags: []string{"concurrent"}, Nontrivial: true, Ops: []string{
			"cfg 4096", fmt.Sprintf("conc %d %d %d", 4+rng.Intn(5), 1500+rng.Intn(1500), rng.Int63())}})
	}
	// exhaustive: every sequence of ≤ L events over a time palette × 2 items, N ∈ {1,2,3}
	L := 3
	if tier == "thorough" {
		L = 4
	}
	times := []uint64{1, 2, 3, 4, 6}
	if tier == "thorough" {
		times = []uint64{1, 2, 3, 4, 5, 7}
	}
	id := 0
	for _, n := range []int{1, 2, 3} {
		var rec func(prefix []string, dup, coll bool, seen map[string]bool, slot map[uint64]uint64)
		rec = func(prefix []string, dup, coll bool, seen map[string]bool, slot map[uint64]uint64) {
			if len(prefix) > 0 {
				ops := append([]string{fmt.Sprintf("cfg %d", n)}, prefix...)
				out = append(out, Case{ID: fmt.Sprintf("x%d", id), Ops: ops, Nontrivial: dup && coll, Tags: []string{"exhaustive"}})
				id++
			}
			if len(prefix) == L {
				return
			}
			for _, t := range times {
				for _, it := range []string{"61 -", "62 78"} {
					body := fmt.Sprintf("%d %s", t, it)
					seen2 := map[string]bool{body: true}
					for k := range seen {
						seen2[k] = true
					}
					slot2 := map[uint64]uint64{t % uint64(n): t}
					c2 := coll
					for k, v := range slot {
						if k == t%uint64(n) && v != t {
							c2 = true
						}
						if k != t%uint64(n) {
							slot2[k] = v
						}
					}
					rec(append(append([]string{}, prefix...), "ev "+body), dup || seen[body], c2, seen2, slot2)
				}
			}
		}
		rec(nil, false, false, map[string]bool{}, map[uint64]uint64{})
	}
	nr := 1200
	if tier == "thorough" {
		nr = 150000
	}
	for i := 0; i < nr; i++ {
		n := uint64(c05BufSizes[rng.Intn(len(c05BufSizes))])
		g := &c05Gen{rng: rng, n: n, cur: 1, bySlot: map[uint64]uint64{}}
		if rng.Intn(3) == 0 {
			g.fam = c05Family(rng)
		}
		g.ops = append(g.ops, fmt.Sprintf("cfg %d", n))
		allowMax := rng.Intn(25) == 0
		tags := []string{"random"}
		// optionally start far up, near the top of the range
		switch rng.Intn(6) {
		case 0:
			t := maxU64 - 2 - uint64(rng.Intn(3*int(n)+3))
			g.ops = append(g.ops, fmt.Sprintf("ev %d 61 -", t))
			g.sent = append(g.sent, fmt.Sprintf("%d 61 -", t))
			g.note(t)
			tags = append(tags, "near-max")
		case 1:
			t := rng.Uint64() >> uint(rng.Intn(60))
			g.ops = append(g.ops, fmt.Sprintf("pp %d 0", t))
			if t > g.cur {
				g.cur = t
			}
		}
		k := 3 + rng.Intn(20)
		hasPP := false
		for j := 0; j < k; j++ {
			switch r := rng.Intn(20); {
			case r < 14:
				g.ev(allowMax)
			case r < 18:
				g.pp(allowMax)
				hasPP = true
			default:
				g.ops = append(g.ops, fmt.Sprintf("ignore %d", rng.Intn(2)))
			}
		}
		if allowMax && rng.Intn(2) == 0 {
			g.ops = append(g.ops, "ev "+M+" 61 -")
			g.ev(true)
			g.ev(true)
			tags = append(tags, "max")
		}
		if hasPP {
			tags = append(tags, "pushpull")
		}
		if g.fam != nil {
			tags = append(tags, "ambiguous-family")
		}
		tags = append(tags, fmt.Sprintf("N=%d", n))
		out = append(out, Case{ID: fmt.Sprintf("r%d", i), Ops: g.ops, Nontrivial: g.dup && g.coll, Tags: tags})
	}
	return out
}

func c05ShowDeliveries(evs []serf.Event) string {
	var items []string
	for _, e := range evs {
		ue, ok := e.(serf.UserEvent)
		if !ok {
			items = append(items, "other:"+hexs(e.String()))
			continue
		}
		items = append(items, fmt.Sprintf("%d/%s/%s", uint64(ue.LTime), hexs(ue.Name), hexb(ue.Payload)))
	}
	if len(items) == 0 {
		return "-"
	}
	return strings.Join(items, ",")
}

// c05Conc: g goroutines deliver the SAME cnt events (increasing times from the current clock) at the same
// moment, half of them by gossip and half by push/pull replay; every event must reach EventCh at most once.
func c05Conc(n *evNode, g, cnt int, seed int64) string {
	base := n.stat("event_time") + 1
	msgs := make([][]byte, cnt)
	var slots []*serf.VerifUserEvents
	for i := 0; i < cnt; i++ {
		name := fmt.Sprintf("c%d", i)
		msgs[i], _ = serf.VerifEncodeUserEvent(base+uint64(i), name, nil, false)
		slots = append(slots, &serf.VerifUserEvents{LTime: base + uint64(i), Events: []serf.VerifUserEvent{{Name: name}}})
	}
	var wg sync.WaitGroup
	start := make(chan struct{})
	done := make(chan struct{})
	seen := map[string]int{}
	total := 0
	go func() { // consumer: keep EventCh from filling up
		for {
			select {
			case e := <-n.ch:
				if ue, ok := e.(serf.UserEvent); ok {
					seen[fmt.Sprintf("%d/%s", uint64(ue.LTime), ue.Name)]++
					total++
				}
			case <-done:
				return
			}
		}
	}()
	for t := 0; t < g; t++ {
		wg.Add(1)
		go func(t int) {
			defer wg.Done()
			<-start
			if t%2 == 0 {
				for i := 0; i < cnt; i++ {
					n.notifyMsg(msgs[i])
				}
			} else {
				// chunks of 8 so that replays interleave with the gossip deliveries
				for i := 0; i < cnt; i += 8 {
					j := i + 8
					if j > cnt {
						j = cnt
					}
					b, _ := serf.VerifEncodePushPull(0, map[string]uint64{}, nil, 0, slots[i:j], 0)
					n.mergeRemoteState(b, false)
				}
			}
		}(t)
	}
	close(start)
	wg.Wait()
	// barrier: everything the handlers emitted has passed the pipeline once the barrier comes out
	n.conf.EventCh <- barrierEvent{}
	deadline := time.After(10 * time.Second)
	for {
		stop := false
		select {
		case <-deadline:
			stop = true
		default:
			time.Sleep(5 * time.Millisecond)
			// the consumer goroutine swallows the barrier too (it is not a UserEvent); wait until the channel is idle
			if len(n.ch) == 0 {
				stop = true
			}
		}
		if stop {
			break
		}
	}
	time.Sleep(20 * time.Millisecond)
	close(done)
	_ = seed
	return fmt.Sprintf("total=%d distinct=%d", total, len(seen))
}

func c05Exec(ops []string) []string {
	var node *evNode
	defer func() {
		if node != nil {
			node.close()
		}
	}()
	var outs []string
	for _, o := range ops {
		f := strings.Fields(o)
		switch {
		case len(f) == 2 && f[0] == "cfg" && node == nil:
			n, err := strconv.Atoi(f[1])
			if err != nil || n <= 0 {
				outs = append(outs, "bad-op")
				continue
			}
			nd, err := newEvNode("verif-node", map[string]string{}, n, n)
			if err != nil {
				outs = append(outs, "create-error")
				continue
			}
			node = nd
			outs = append(outs, "ok")
		case len(f) == 4 && f[0] == "conc" && node != nil:
			g, _ := strconv.Atoi(f[1])
			cnt, _ := strconv.Atoi(f[2])
			seed, _ := strconv.ParseInt(f[3], 10, 64)
			outs = append(outs, c05Conc(node, g, cnt, seed))
		case len(f) == 2 && f[0] == "ignore" && node != nil && (f[1] == "0" || f[1] == "1"):
			node.s.VerifSetEventJoinIgnore(f[1] == "1")
			outs = append(outs, "ok")
		case len(f) == 4 && f[0] == "ev" && node != nil:
			lt, err := strconv.ParseUint(f[1], 10, 64)
			name, payload, pok := unhex(f[2]), c05Payload(f[3]), c05PayloadOK(f[3])
			if err != nil || name == nil || !pok {
				outs = append(outs, "bad-op")
				continue
			}
			msg, err := serf.VerifEncodeUserEvent(lt, string(name), payload, false)
			if err != nil {
				outs = append(outs, "encode-error")
				continue
			}
			q0 := node.stat("event_queue")
			node.notifyMsg(msg)
			evs := node.drain()
			outs = append(outs, fmt.Sprintf("D=%s rb=%d clk=%d", c05ShowDeliveries(evs), node.stat("event_queue")-q0, node.stat("event_time")))
		case len(f) >= 3 && f[0] == "pp" && node != nil && (f[2] == "0" || f[2] == "1"):
			e, err := strconv.ParseUint(f[1], 10, 64)
			if err != nil {
				outs = append(outs, "bad-op")
				continue
			}
			var image []*serf.VerifUserEvents
			bad := false
			for _, s := range f[3:] {
				if s == "nil" {
					image = append(image, nil)
					continue
				}
				p := strings.SplitN(s, ":", 2)
				if len(p) != 2 {
					bad = true
					break
				}
				t, err := strconv.ParseUint(p[0], 10, 64)
				if err != nil {
					bad = true
					break
				}
				slot := &serf.VerifUserEvents{LTime: t}
				if p[1] != "" {
					for _, it := range strings.Split(p[1], ";") {
						np := strings.SplitN(it, ".", 2)
						if len(np) != 2 || unhex(np[0]) == nil || !c05PayloadOK(np[1]) {
							bad = true
							break
						}
						slot.Events = append(slot.Events, serf.VerifUserEvent{Name: string(unhex(np[0])), Payload: c05Payload(np[1])})
					}
				}
				image = append(image, slot)
			}
			if bad {
				outs = append(outs, "bad-op")
				continue
			}
			msg, err := serf.VerifEncodePushPull(0, map[string]uint64{}, nil, e, image, 0)
			if err != nil {
				outs = append(outs, "encode-error")
				continue
			}
			q0 := node.stat("event_queue")
			node.mergeRemoteState(msg, f[2] == "1")
			evs := node.drain()
			outs = append(outs, fmt.Sprintf("D=%s rb=%d clk=%d", c05ShowDeliveries(evs), node.stat("event_queue")-q0, node.stat("event_time")))
		default:
			outs = append(outs, "bad-op")
		}
	}
	return outs
}

func init() {
	register(&Prop{
		ID: "C05",
		Rule: "a real single Serf node per case (serf.Create, recording memberlist transport), EventBuffer N; user events through NotifyMsg, push/pull images through MergeRemoteState (with and without join-ignore). " +
			"exhaustive: every sequence of ≤3 events over times {1,2,3,4,6} (thorough: ≤4 over {1,2,3,4,5,7}) × 2 items for N ∈ {1,2,3}; fixed: pairs of distinct events at one Lamport time whose name/payload concatenations coincide under the separators colon, none, slash, NUL, space, bar, equals, newline, comma, double colon (incl. the seeded deploy:web|v2 vs deploy|web:v2), empty name / empty payload, nil vs empty payload; random: N ∈ {1,2,3,4,8,512}, 3–25 ops, in a third of the cases all items come from one such ambiguous family (splits of one string around a separator, prefixes/suffixes, empty sides) and events share Lamport times, times drawn around cur−N−2…cur+1, ±k·N from earlier times (slot collisions), exact repeats, small values, near 2^64−1 (2^64−1 itself in ≈4% of the cases and in the two fixed boundary cases); " +
			"non-trivial = the case contains an exact duplicate and a slot collision; distinct = distinct op sequence",
		Gen:  c05GenCases,
		Exec: c05Exec,
	})
}
