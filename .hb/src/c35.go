package main

import (
	"fmt"
	"math/rand"
	"net"
	"sort"
	"strconv"
	"strings"
	"time"

	"github.com/hashicorp/serf/serf"
)

// C35: relay member selection.
//   sel <k> <self> <members>          hook VerifKRandomMembers with the relay filter of relayResponse
//   self/join/fail/leaving/members/respond/ackq   a real node on a recording transport: relayResponse itself

func c35Filter(self string) func(serf.Member) bool {
	// the closure of relayResponse (the `respond`/`ackq` ops exercise the real closure)
	return func(m serf.Member) bool {
		return m.Status != serf.StatusAlive || m.ProtocolMax < 5 || m.Name == self
	}
}

var c35Names = []string{"self", "a", "b", "c", "d", "e", "f", "g h", ""}

func c35Gen(rng *rand.Rand, tier string) []Case {
	var out []Case
	n := 3000
	real := 300
	if tier == "thorough" {
		n, real = 300000, 5000
	}
	for i := 0; i < n; i++ {
		k := rng.Intn(5)
		if rng.Intn(10) == 0 {
			k = rng.Intn(12)
		}
		if rng.Intn(12) == 0 {
			k = []int{254, 255, 255, 128, 127}[rng.Intn(5)] // the ends of the uint8 range
		}
		cnt := rng.Intn(9)
		if rng.Intn(20) == 0 {
			cnt = rng.Intn(30)
		}
		var ms []string
		seen := map[string]bool{}
		dup, inel := false, false
		for j := 0; j < cnt; j++ {
			name := c35Names[rng.Intn(len(c35Names))]
			if rng.Intn(3) == 0 {
				name = fmt.Sprintf("n%d", rng.Intn(12))
			}
			status := 1
			if rng.Intn(3) == 0 {
				status = rng.Intn(5)
			}
			pmax := 5
			if rng.Intn(4) == 0 {
				pmax = rng.Intn(8)
			}
			if seen[name] {
				dup = true
			}
			seen[name] = true
			if status != 1 || pmax < 5 || name == "self" {
				inel = true
			}
			ms = append(ms, fmt.Sprintf("%s:%d:%d", hexs(name), status, pmax))
		}
		mstr := "-"
		if len(ms) > 0 {
			mstr = strings.Join(ms, ",")
		}
		out = append(out, Case{ID: fmt.Sprintf("s%d", i), Ops: []string{fmt.Sprintf("sel %d %s %s", k, hexs("self"), mstr)},
			Nontrivial: dup && inel && k > 0, Tags: []string{"hook"}})
	}
	// real node: membership built through the memberlist event delegate, a query arrives, the node answers
	for i := 0; i < real; i++ {
		ops := []string{"self " + hexs("self")}
		others := rng.Intn(7)
		inel := false
		for j := 0; j < others; j++ {
			name := fmt.Sprintf("m%d", j)
			pmax := 5
			if rng.Intn(4) == 0 {
				pmax = 2 + rng.Intn(3)
				inel = true
			}
			ops = append(ops, fmt.Sprintf("join %s %d", hexs(name), pmax))
			switch rng.Intn(6) {
			case 0:
				ops = append(ops, "fail "+hexs(name))
				inel = true
			case 1:
				ops = append(ops, "leaving "+hexs(name))
				inel = true
			case 2:
				ops = append(ops, "leaving "+hexs(name), "fail "+hexs(name))
				inel = true
			}
		}
		ops = append(ops, "members")
		for r := 0; r < 6; r++ {
			k := rng.Intn(4)
			if rng.Intn(3) == 0 {
				k = others + rng.Intn(2) // at the gate: members = others+1
			}
			if rng.Intn(6) == 0 {
				k = []int{255, 255, 254, 128}[rng.Intn(4)] // relay factor at the end of its type: far more than the members known
			}
			if rng.Intn(2) == 0 {
				ops = append(ops, fmt.Sprintf("respond %d", k))
			} else {
				ops = append(ops, fmt.Sprintf("ackq %d", k))
			}
		}
		out = append(out, Case{ID: fmt.Sprintf("n%d", i), Ops: ops, Nontrivial: inel && others >= 2, Tags: []string{"real-node"}})
	}
	return out
}

type c35Node struct {
	n     *qnode
	lt    uint64
	leave uint64
}

func c35Dests(pk []sentPacket) string {
	var ds []string
	for _, p := range pk {
		m := serfMsgOf(p)
		if len(m) == 0 {
			continue
		}
		switch m[0] {
		case 5: // messageQueryResponseType, sent directly
			ds = append(ds, "O")
		case 9: // messageRelayType
			ds = append(ds, "R:"+hexs(p.Name))
		}
	}
	if len(ds) == 0 {
		return "-"
	}
	return strings.Join(ds, ",")
}

func c35Exec(ops []string) []string {
	var outs []string
	var nd *c35Node
	defer func() {
		if nd != nil {
			nd.n.shutdown()
		}
	}()
	node := func() *c35Node {
		if nd == nil {
			n, err := newQNode(qnodeOpts{name: "self", events: true})
			if err != nil {
				panic(err)
			}
			nd = &c35Node{n: n, lt: 10, leave: 10}
		}
		return nd
	}
	ipOf := func(name string) net.IP {
		h := 0
		for _, c := range []byte(name) {
			h = h*31 + int(c)
		}
		return net.IPv4(10, 1, byte(h>>8), byte(h))
	}
	for _, o := range ops {
		f := strings.Fields(o)
		switch {
		case len(f) == 4 && f[0] == "sel":
			k, err := strconv.Atoi(f[1])
			self := unhex(f[2])
			if err != nil || self == nil {
				outs = append(outs, "bad-op")
				continue
			}
			var ms []serf.Member
			bad := false
			if f[3] != "-" {
				for i, p := range strings.Split(f[3], ",") {
					q := strings.Split(p, ":")
					if len(q) != 3 {
						bad = true
						break
					}
					nb := unhex(q[0])
					st, e1 := strconv.Atoi(q[1])
					pm, e2 := strconv.Atoi(q[2])
					if nb == nil || e1 != nil || e2 != nil {
						bad = true
						break
					}
					ms = append(ms, serf.Member{Name: string(nb), Status: serf.MemberStatus(st), ProtocolMax: uint8(pm),
						Tags: map[string]string{"i": strconv.Itoa(i)}})
				}
			}
			if bad {
				outs = append(outs, "bad-op")
				continue
			}
			r := serf.VerifKRandomMembers(k, ms, c35Filter(string(self)))
			var idx []string
			for _, m := range r {
				idx = append(idx, m.Tags["i"])
			}
			if len(idx) == 0 {
				outs = append(outs, "-")
			} else {
				outs = append(outs, strings.Join(idx, ","))
			}
		case len(f) == 2 && f[0] == "self":
			node()
			outs = append(outs, "ok")
		case len(f) == 3 && f[0] == "join":
			nb := unhex(f[1])
			pm, err := strconv.Atoi(f[2])
			if nb == nil || err != nil {
				outs = append(outs, "bad-op")
				continue
			}
			node().n.conf.MemberlistConfig.Events.NotifyJoin(qMlNode(string(nb), ipOf(string(nb)), 7946, uint8(pm)))
			outs = append(outs, "ok")
		case len(f) == 2 && f[0] == "fail":
			nb := unhex(f[1])
			if nb == nil {
				outs = append(outs, "bad-op")
				continue
			}
			node().n.conf.MemberlistConfig.Events.NotifyLeave(qMlNode(string(nb), ipOf(string(nb)), 7946, 5))
			outs = append(outs, "ok")
		case len(f) == 2 && f[0] == "leaving":
			nb := unhex(f[1])
			if nb == nil {
				outs = append(outs, "bad-op")
				continue
			}
			x := node()
			x.leave++
			x.n.msg(serf.VerifEncodeLeaveIntent(serf.LamportTime(x.leave), string(nb)))
			outs = append(outs, "ok")
		case len(f) == 1 && f[0] == "members":
			var ms []string
			for _, m := range node().n.s.Members() {
				ms = append(ms, fmt.Sprintf("%s:%d:%d", hexs(m.Name), int(m.Status), m.ProtocolMax))
			}
			sort.Strings(ms)
			outs = append(outs, strings.Join(ms, ","))
		case len(f) == 2 && (f[0] == "respond" || f[0] == "ackq"):
			k, err := strconv.Atoi(f[1])
			if err != nil || k < 0 || k > 255 {
				outs = append(outs, "bad-op")
				continue
			}
			x := node()
			x.lt++
			x.n.tr.take()
			for len(x.n.evCh) > 0 {
				<-x.n.evCh
			}
			raw := serf.VerifEncodeQueryMsg(serf.LamportTime(x.lt), uint32(x.lt), []byte{10, 9, 9, 9}, 7000, "origin", f[0] == "ackq",
				uint8(k), time.Minute, "q", []byte("p"))
			x.n.msg(raw)
			if f[0] == "respond" {
				var q *serf.Query
				deadline := time.After(5 * time.Second)
			WAIT:
				for {
					select {
					case e := <-x.n.evCh:
						if qq, ok := e.(*serf.Query); ok && uint64(qq.LTime) == x.lt {
							q = qq
							break WAIT
						}
					case <-deadline:
						break WAIT
					}
				}
				if q == nil {
					outs = append(outs, "no-query-delivered")
					continue
				}
				if err := q.Respond([]byte("answer")); err != nil {
					outs = append(outs, "respond-error")
					continue
				}
			}
			outs = append(outs, c35Dests(x.n.tr.take()))
		default:
			outs = append(outs, "bad-op")
		}
	}
	return outs
}

func init() {
	register(&Prop{
		ID: "C35",
		Rule: "hook cases: kRandomMembers with the relay filter on random member lists (0–30 records, names from a pool incl. self, empty and duplicates, every status 0–4, ProtocolMax 0–7), relay factor 0–11 and 127/128/254/255; " +
			"real-node cases: a node on a recording transport learns 0–6 members through the memberlist event delegate (alive, failed, leaving, left, old protocol), a query with relay factor 0–4, exactly at the k+1 gate, or 128/254/255 (the ends of the uint8 range) arrives and is answered (Respond) or acknowledged; the packets it sends are judged; " +
			"non-trivial = the list has an ineligible member and (hook) a duplicate name with k>0 / (real) ≥ 2 other members; distinct = distinct op sequence",
		Gen:  c35Gen,
		Exec: c35Exec,
	})
}
