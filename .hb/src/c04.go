package main

import (
	"fmt"
	"math/rand"

	"github.com/hashicorp/serf/serf"
)

// C04 (membership part): gossip of join/leave intents dies out. Executor: node.go.

var c04Profile = nodeProfile{nj: 8, nl: 6, nu: 1, mj: 22, ml: 28, mg: 10, fl: 2, oj: 1, lv: 1, sd: 0, rp: 4, ls: 0,
	selfBias: 2, pruneBias: 4, maxLen: 26}

// subject states: how the member the messages are about is known to the node
func c04Setup(state int) (subject string, ops []string) {
	a := hexs("a")
	switch state {
	case 0: // unknown
		return "a", nil
	case 1: // alive
		return "a", []string{"nj " + a}
	case 2: // leaving
		return "a", []string{"nj " + a, "ml " + a + " 1 0"}
	case 3: // left
		return "a", []string{"nj " + a, "ml " + a + " 1 0", "nl " + a + " 0"}
	case 4: // failed
		return "a", []string{"nj " + a, "nl " + a + " 0"}
	default: // the local node
		return nodeSelf, nil
	}
}

var c04States = []string{"unknown", "alive", "leaving", "left", "failed", "self"}

func c04Palette(subject string) []string {
	x := hexs(subject)
	return []string{
		"mj " + x + " 2", "mj " + x + " 3",
		"ml " + x + " 2 0", "ml " + x + " 3 0",
		"ml " + x + " 2 1", "ml " + x + " 3 1",
	}
}

func c04Gen(rng *rand.Rand, tier string) []Case {
	L, nr := 3, 150
	if tier == "thorough" {
		L, nr = 4, 12000
	}
	var out []Case
	id := 0
	for st := range c04States {
		subject, setup := c04Setup(st)
		pal := c04Palette(subject)
		var rec func(seq []int)
		rec = func(seq []int) {
			if len(seq) == L {
				ops := append([]string{}, setup...)
				for round := 0; round < 2; round++ { // every message is delivered at least twice
					for _, a := range seq {
						ops = append(ops, pal[a])
					}
				}
				out = append(out, Case{ID: fmt.Sprintf("x%d", id), Ops: ops, Nontrivial: true, Tags: []string{"exhaustive", "subject-" + c04States[st]}})
				id++
				return
			}
			for a := range pal {
				rec(append(append([]int{}, seq...), a))
			}
		}
		rec(nil)
	}
	for i := 0; i < nr; i++ {
		c := nodeRandomCase(rng, c04Profile, fmt.Sprintf("r%d", i))
		// duplicate some deliveries
		var ops []string
		dup := false
		for _, o := range c.Ops {
			ops = append(ops, o)
			if (o[:2] == "mj" || o[:2] == "ml") && rng.Intn(2) == 0 {
				ops = append(ops, o)
				dup = true
				if rng.Intn(3) == 0 {
					ops = append(ops, o)
				}
			}
		}
		c.Ops = ops
		c.Nontrivial = dup
		out = append(out, c)
	}
	// user events and queries delivered repeatedly (the property covers them too): every filter kind × re-broadcast flag
	k := 0
	for _, filt := range []string{"none", "other", "tag"} {
		for _, nb := range []string{"0", "1"} {
			out = append(out, Case{ID: fmt.Sprintf("qd%d", k), Ops: []string{fmt.Sprintf("qrydup %d %s %s %d", 5+k, filt, nb, 2+rng.Intn(5))},
				Nontrivial: true, Tags: []string{"query-duplicates"}})
			k++
		}
	}
	for j := 0; j < 4; j++ {
		out = append(out, Case{ID: fmt.Sprintf("ud%d", j), Ops: []string{fmt.Sprintf("uevdup %d %s %d", 3+j, hexs(fmt.Sprintf("e%d", j)), 2+rng.Intn(5))},
			Nontrivial: true, Tags: []string{"user-event-duplicates"}})
	}
	// two user events whose times are `dist` apart delivered alternately: around the size of the event buffer
	// (512 here) they share a ring slot, and the older one must by then be outside the window
	nb := uint64(serf.DefaultConfig().EventBuffer)
	for j, dist := range []uint64{1, nb - 1, nb, nb + 1, 2 * nb, 3*nb - 1} {
		out = append(out, Case{ID: fmt.Sprintf("ua%d", j), Ops: []string{fmt.Sprintf("uevalt %d %d %d", 1+rng.Intn(2000), dist, 2+rng.Intn(4))},
			Nontrivial: true, Tags: []string{"user-events-alternating"}})
	}
	return out
}

func init() {
	register(&Prop{
		ID: "C04",
		Rule: "one real serf node per case; exhaustive: every sequence of 3 (thorough 4) messages from a palette of 6 (join / leave / prune-leave at two times) about one subject, delivered twice in a row, for subject state ∈ {unknown, alive, leaving, left, failed, the local node}; " +
			"random: mixed histories with merges, reaper ticks and duplicated deliveries; the same user event / query delivered 2-6 times; two user events 1, N-1, N, N+1, 2N, 3N-1 Lamport times apart (N = event buffer size) delivered alternately; non-trivial = some message is delivered at least twice; distinct = distinct op sequence",
		Gen:  c04Gen,
		Exec: nodeExec,
	})
}
