module verifharness

go 1.25.0

require (
	github.com/hashicorp/go-metrics v0.6.0
	github.com/hashicorp/go-msgpack/v2 v2.1.5
	github.com/hashicorp/logutils v1.0.0
	github.com/hashicorp/memberlist v0.5.4
	github.com/hashicorp/serf v0.0.0
)

require (
	github.com/Masterminds/goutils v1.1.1 // indirect
	github.com/Masterminds/semver/v3 v3.2.0 // indirect
	github.com/Masterminds/sprig/v3 v3.2.3 // indirect
	github.com/armon/circbuf v0.0.0-20150827004946-bbbad097214e // indirect
	github.com/armon/go-metrics v0.4.1 // indirect
	github.com/armon/go-radix v1.0.0 // indirect
	github.com/bgentry/speakeasy v0.1.0 // indirect
	github.com/fatih/color v1.16.0 // indirect
	github.com/go-viper/mapstructure/v2 v2.5.0 // indirect
	github.com/google/btree v1.1.3 // indirect
	github.com/google/uuid v1.1.2 // indirect
	github.com/hashicorp/cli v1.1.7 // indirect
	github.com/hashicorp/errwrap v1.1.0 // indirect
	github.com/hashicorp/go-immutable-radix v1.3.1 // indirect
	github.com/hashicorp/go-multierror v1.1.1 // indirect
	github.com/hashicorp/go-sockaddr v1.0.7 // indirect
	github.com/hashicorp/go-syslog v1.0.0 // indirect
	github.com/hashicorp/golang-lru v1.0.2 // indirect
	github.com/hashicorp/mdns v1.0.7 // indirect
	github.com/huandu/xstrings v1.3.3 // indirect
	github.com/imdario/mergo v0.3.11 // indirect
	github.com/mattn/go-colorable v0.1.13 // indirect
	github.com/mattn/go-isatty v0.0.20 // indirect
	github.com/miekg/dns v1.1.72 // indirect
	github.com/mitchellh/copystructure v1.0.0 // indirect
	github.com/mitchellh/reflectwalk v1.0.0 // indirect
	github.com/posener/complete v1.2.3 // indirect
	github.com/sean-/seed v0.0.0-20170313163322-e2103e2c3529 // indirect
	github.com/shopspring/decimal v1.2.0 // indirect
	github.com/spf13/cast v1.3.1 // indirect
	golang.org/x/crypto v0.53.0 // indirect
	golang.org/x/net v0.56.0 // indirect
	golang.org/x/sys v0.46.0 // indirect
)

replace github.com/hashicorp/serf => /tmp/r/panic
