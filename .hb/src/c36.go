package main

import (
	"fmt"
	"math/rand"
	"net"
	"regexp"
	"runtime"
	"strconv"
	"strings"
	"time"

	"github.com/hashicorp/serf/serf"
)

// C36: name-conflict vote.  A case = the replies, then the vote:
//   r <payload>/<class>                      one reply (buffered)
//   vote <flavour> <selfaddr> <selfport>     run the conflict with the buffered replies
// flavour h4|h16: the harness closes the query (hook running the timer closure's body) once all replies
// were consumed; t4|t16: the real query timeout closes it.  4/16 = byte length of the node's own address.
// class: X undecodable, N nil member, A<addr>:<port> a member at that address (what the bytes after the
// type byte decode to; known by construction, the real decoder runs inside resolveNodeConflict).
// Output: `alive m/r` or `shutdown m/r` (m/r = the tallies resolveNodeConflict logged).

type c36Node struct {
	n    *qnode
	log  *lineLog
	dead bool
}

var c36Nodes = map[string]*c36Node{}

func c36Get(flavour string) *c36Node {
	if x := c36Nodes[flavour]; x != nil && !x.dead {
		return x
	}
	if x := c36Nodes[flavour]; x != nil {
		x.n.shutdown()
	}
	lg := &lineLog{}
	o := qnodeOpts{name: "self", conflictResolve: true, logw: lg, gossip: 2 * time.Second}
	if strings.HasSuffix(flavour, "4") {
		o.advIP = net.IPv4(127, 0, 0, 1).To4()
	}
	if strings.HasPrefix(flavour, "t") {
		o.gossip, o.timeoutMult = 5*time.Millisecond, 12
	}
	n, err := newQNode(o)
	if err != nil {
		panic(err)
	}
	x := &c36Node{n: n, log: lg}
	c36Nodes[flavour] = x
	return x
}

// c36Wait polls cond: first by yielding (cheap when the other goroutine is runnable), then sleeping.
func c36Wait(cond func() bool, limit time.Duration) bool {
	t0 := time.Now()
	for i := 0; !cond(); i++ {
		if i < 2000 {
			runtime.Gosched()
			continue
		}
		if time.Since(t0) > limit {
			return false
		}
		time.Sleep(20 * time.Microsecond)
	}
	return true
}

var c36Tally = regexp.MustCompile(`(majority|minority) in name conflict resolution.*\[(\d+) / (\d+)\]`)

// returns (result, ok); ok=false: the case must be retried (a reply missed the real deadline)
func (x *c36Node) vote(replies [][]byte, timer bool) (string, bool) {
	s := x.n.s
	known := map[serf.LamportTime]bool{}
	for _, q := range serf.VerifOpenQueries(s) {
		known[q.LTime] = true
	}
	x.log.take()
	local := s.LocalMember()
	existing := qMlNode(local.Name, local.Addr, local.Port, 5)
	other := qMlNode(local.Name, net.IPv4(10, 77, 0, 9), 7946, 5)
	x.n.conf.MemberlistConfig.Conflict.NotifyConflict(existing, other)
	var oq *serf.VerifOpenQuery
	t0 := time.Now()
	for oq == nil {
		for _, q := range serf.VerifOpenQueries(s) {
			if !known[q.LTime] {
				q := q
				oq = &q
			}
		}
		if oq == nil {
			if time.Since(t0) > 5*time.Second {
				return "no-conflict-query", true
			}
			time.Sleep(20 * time.Microsecond)
		}
	}
	for i, p := range replies {
		x.n.msg(serf.VerifEncodeQueryResponse(oq.LTime, oq.ID, fmt.Sprintf("r%d", i), false, p))
		c36Wait(func() bool { return serf.VerifQueryBacklog(oq.Resp) == 0 }, 5*time.Second)
	}
	late := false
	if timer {
		late = !time.Now().Before(oq.Deadline.Add(-2 * time.Millisecond))
	} else {
		serf.VerifCloseQuery(s, oq.Resp)
	}
	// the outcome: the tallies are logged, a lost vote ends in Shutdown()
	t0 = time.Now()
	for {
		for _, l := range x.log.take() {
			if m := c36Tally.FindStringSubmatch(l); m != nil {
				res := "alive"
				if m[1] == "minority" {
					x.dead = true
					for s.State() != serf.SerfShutdown && time.Since(t0) < 5*time.Second {
						time.Sleep(50 * time.Microsecond)
					}
				} else {
					// give a wrong Shutdown a chance to show
					time.Sleep(20 * time.Microsecond)
				}
				if s.State() == serf.SerfShutdown {
					res = "shutdown"
					x.dead = true
				}
				return fmt.Sprintf("%s %s/%s", res, m[2], m[3]), !late
			}
		}
		if time.Since(t0) > 10*time.Second {
			x.dead = true
			return "no-outcome", true
		}
		time.Sleep(20 * time.Microsecond)
	}
}

func c36Exec(ops []string) []string {
	var outs []string
	var replies [][]byte
	for _, o := range ops {
		f := strings.Fields(o)
		if len(f) == 2 && f[0] == "r" {
			p := strings.SplitN(f[1], "/", 2)
			b := unhex(p[0])
			if len(p) != 2 || b == nil {
				outs = append(outs, "bad-op")
				continue
			}
			replies = append(replies, b)
			outs = append(outs, "ok")
			continue
		}
		if len(f) != 4 || f[0] != "vote" || (f[1] != "h4" && f[1] != "h16" && f[1] != "t4" && f[1] != "t16") {
			outs = append(outs, "bad-op")
			continue
		}
		res := "late"
		for try := 0; try < 6; try++ {
			x := c36Get(f[1])
			r, ok := x.vote(replies, strings.HasPrefix(f[1], "t"))
			if ok {
				res = r
				break
			}
		}
		replies = nil
		outs = append(outs, res)
	}
	return outs
}

func c36Reply(rng *rand.Rand, kind int) (payload []byte, class string, valid bool, mine4 bool) {
	// mine4: names 127.0.0.1:7946 (either byte form)
	mkMember := func(ip net.IP, port uint16) ([]byte, string) {
		m := &serf.Member{Name: "self", Addr: ip, Port: port, Tags: map[string]string{"r": "x"}, Status: serf.StatusAlive,
			ProtocolMin: 1, ProtocolMax: 5, ProtocolCur: 2, DelegateMin: 2, DelegateMax: 5, DelegateCur: 4}
		return serf.VerifEncodeConflictResponse(m), fmt.Sprintf("A%s:%d", hexb(ip), port)
	}
	my4 := net.IPv4(127, 0, 0, 1).To4()
	my16 := net.ParseIP("127.0.0.1")
	switch kind {
	case 0: // mine, 4-byte form
		p, c := mkMember(my4, 7946)
		return p, c, true, true
	case 1: // mine, 16-byte form
		p, c := mkMember(my16, 7946)
		return p, c, true, true
	case 2: // someone else
		ips := []net.IP{net.IPv4(10, 77, 0, 9).To4(), net.IPv4(127, 0, 0, 2).To4(), net.ParseIP("::1"), nil, {127, 0, 0}, net.ParseIP("10.77.0.9")}
		p, c := mkMember(ips[rng.Intn(len(ips))], 7946)
		return p, c, true, false
	case 3: // right address, wrong port
		ip := my4
		if rng.Intn(2) == 0 {
			ip = my16
		}
		p, c := mkMember(ip, []uint16{7947, 0, 7945, 65535}[rng.Intn(4)])
		return p, c, true, false
	case 4: // nil member: "unknown to me"
		return serf.VerifEncodeConflictResponse(nil), "N", true, false
	case 5: // wrong type byte in front of a perfectly good member
		p, c := mkMember(my4, 7946)
		p[0] = []byte{5, 7, 0, 8, 255}[rng.Intn(5)]
		return p, c, false, false
	case 6: // empty payload
		return []byte{}, "X", false, false
	case 7: // truncated msgpack
		p, _ := mkMember(my4, 7946)
		cut := 1 + rng.Intn(len(p)-2)
		return p[:cut], "X", false, false
	case 8: // reserved msgpack byte
		return []byte{6, 0xc1}, "X", false, false
	default: // valid member followed by trailing garbage: the decoder reads one value
		p, c := mkMember(my16, 7946)
		return append(p, 0xc1, 0x00, 0xff), c, true, true
	}
}

// c36Partial hand-encodes a conflict reply as a msgpack map carrying only SOME of Member's fields, in
// random order, possibly with a key Member does not have — what an omit-empty encoder or another release
// sends.  noAddr forces Addr and Port to be absent.  The class is what the bytes decode to starting from a
// zero Member: an absent Addr is a nil address, an absent Port is 0.
func c36Partial(rng *rand.Rand, noAddr bool) (payload []byte, class string) {
	str := func(b []byte, s string) []byte { return append(append(b, 0xa0|byte(len(s))), s...) }
	type field struct {
		name string
		val  []byte
	}
	my4 := []byte(net.IPv4(127, 0, 0, 1).To4())
	my16 := []byte(net.ParseIP("127.0.0.1"))
	addrs := [][]byte{my4, my16, {10, 77, 0, 9}, nil}
	var fs []field
	var addr []byte
	port := 0
	if !noAddr && rng.Intn(2) == 0 {
		addr = addrs[rng.Intn(len(addrs))]
		if addr == nil {
			fs = append(fs, field{"Addr", []byte{0xc0}}) // an explicit nil
		} else {
			fs = append(fs, field{"Addr", append([]byte{0xa0 | byte(len(addr))}, addr...)})
		}
	}
	if !noAddr && rng.Intn(2) == 0 {
		port = []int{7946, 7946, 7947}[rng.Intn(3)]
		fs = append(fs, field{"Port", []byte{0xcd, byte(port >> 8), byte(port)}})
	}
	if rng.Intn(2) == 0 {
		fs = append(fs, field{"Name", str(nil, "self")})
	}
	if rng.Intn(2) == 0 {
		fs = append(fs, field{"Status", []byte{1}})
	}
	if rng.Intn(3) == 0 {
		fs = append(fs, field{"Tags", append([]byte{0x81}, str(str(nil, "r"), "x")...)})
	}
	if rng.Intn(3) == 0 {
		fs = append(fs, field{"ProtocolMax", []byte{5}})
	}
	if rng.Intn(4) == 0 {
		fs = append(fs, field{"Zone", str(nil, "not-a-field")}) // a key Member does not have
	}
	rng.Shuffle(len(fs), func(i, j int) { fs[i], fs[j] = fs[j], fs[i] })
	b := []byte{6, 0x80 | byte(len(fs))}
	for _, f := range fs {
		b = append(str(b, f.name), f.val...)
	}
	return b, fmt.Sprintf("A%s:%d", hexb(addr), port)
}

func c36Gen(rng *rand.Rand, tier string) []Case {
	var out []Case
	n, nt := 800, 24
	if tier == "thorough" {
		n, nt = 60000, 600
	}
	mk := func(id string, flavour string) Case {
		valid := rng.Intn(8)
		if rng.Intn(10) == 0 {
			valid = rng.Intn(20)
		}
		// mine count near the majority threshold
		mine := valid/2 + rng.Intn(3) - 1
		if rng.Intn(5) == 0 {
			mine = rng.Intn(valid + 1)
		}
		if mine < 0 {
			mine = 0
		}
		if mine > valid {
			mine = valid
		}
		malformed := rng.Intn(4)
		var rs []string
		add := func(kind int) {
			p, c, _, _ := c36Reply(rng, kind)
			rs = append(rs, "r "+hexb(p)+"/"+c)
		}
		for i := 0; i < mine; i++ {
			add([]int{0, 1, 9}[rng.Intn(3)])
		}
		for i := 0; i < valid-mine; i++ {
			add([]int{2, 3, 4}[rng.Intn(3)])
		}
		for i := 0; i < malformed; i++ {
			add(5 + rng.Intn(4))
		}
		// decodable replies with missing fields: each is judged on its own, from a zero Member
		partial := 0
		if rng.Intn(2) == 0 {
			partial = 1 + rng.Intn(3)
		}
		noAddr := rng.Intn(2) == 0
		for i := 0; i < partial; i++ {
			p, c := c36Partial(rng, noAddr)
			rs = append(rs, "r "+hexb(p)+"/"+c)
		}
		rng.Shuffle(len(rs), func(i, j int) { rs[i], rs[j] = rs[j], rs[i] })
		addr := hexb(net.ParseIP("127.0.0.1"))
		if strings.HasSuffix(flavour, "4") {
			addr = hexb(net.IPv4(127, 0, 0, 1).To4())
		}
		ops := append(rs, fmt.Sprintf("vote %s %s 7946", flavour, addr))
		d := 2*mine - valid
		return Case{ID: id, Ops: ops, Nontrivial: malformed > 0 && d >= -1 && d <= 2, Tags: []string{flavour}}
	}
	for i := 0; i < n; i++ {
		out = append(out, mk("h"+strconv.Itoa(i), []string{"h4", "h16"}[rng.Intn(2)]))
	}
	for i := 0; i < nt; i++ {
		out = append(out, mk("t"+strconv.Itoa(i), []string{"t4", "t16"}[rng.Intn(2)]))
	}
	return out
}

func init() {
	register(&Prop{
		ID: "C36",
		Rule: "each case = one name conflict on a real node (NotifyConflict through the conflict delegate, conflict query found through the open-queries hook, replies injected as messageQueryResponse through NotifyMsg one at a time, query closed by the hook running the timer closure's body [h4/h16] or by the real timeout [t4/t16]); " +
			"0–19 valid replies (mine in 4- and 16-byte address form, with trailing bytes; other address, wrong port, nil address, nil member) with the mine count within ±1 of the threshold in 80% of cases, 0–3 malformed (wrong type byte, empty, truncated msgpack, reserved byte), in half of the cases 1–3 decodable hand-encoded msgpack maps that carry only a subset of Member's fields (Addr and/or Port absent or an explicit nil, unknown keys, any field order; absent = zero value), shuffled; node address in 4- or 16-byte form; " +
			"non-trivial = at least one malformed reply and 2*mine-valid in [-1,2]; distinct = distinct op",
		Gen:  c36Gen,
		Exec: c36Exec,
	})
}
