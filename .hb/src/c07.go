package main

import (
	"fmt"
	"math/rand"
	"strconv"
	"strings"
	"sync"
	"sync/atomic"
	"time"

	"github.com/hashicorp/serf/serf"
)

// C07: query reply routing on a real node.  See lean/SerfModel/Check/C07.lean for the ops.

type c07Obj struct {
	resp  *serf.QueryResponse
	short bool
}

const c07ShortTimer = 120 * time.Millisecond

func c07Drain(r *serf.QueryResponse) string {
	var as, rs []string
	ca, cr := "x", "0"
	if ch := r.AckCh(); ch != nil {
		ca = "0"
	ACK:
		for {
			select {
			case a, ok := <-ch:
				if !ok {
					ca = "1"
					break ACK
				}
				as = append(as, hexs(a))
			default:
				break ACK
			}
		}
	}
RESP:
	for {
		select {
		case x, ok := <-r.ResponseCh():
			if !ok {
				cr = "1"
				break RESP
			}
			rs = append(rs, hexs(x.From)+":"+string(x.Payload))
		default:
			break RESP
		}
	}
	j := func(l []string) string {
		if len(l) == 0 {
			return "-"
		}
		return strings.Join(l, ",")
	}
	return fmt.Sprintf("a=%s r=%s closed=%s%s", j(as), j(rs), ca, cr)
}

// c07Race: free-running, 8 independent workers.  Per round a fresh query (acks requested, roomy channels) is registered through the
// real registerQueryResponse; one goroutine delivers acks and responses of distinct senders the way the
// memberlist packet handler does (Delegate.NotifyMsg, messages encoded beforehand), another
// calls the public QueryResponse.Close() at a varying moment.  A reply must be delivered or dropped: a send
// on a closed stream panics ("send on closed channel") and is reported; so is a sender seen twice.
func c07Race(n *qnode, rounds int) string {
	const perRound = 96 // small: every query object stays referenced by its (one hour) timer
	const workers = 8
	names := make([]string, perRound)
	for i := range names {
		names[i] = "r" + strconv.Itoa(i)
	}
	var firstBad atomic.Value
	t0 := time.Now()
	var all sync.WaitGroup
	for w := 0; w < workers; w++ {
		all.Add(1)
		go func(w int) {
			defer all.Done()
			// a worker uses one Lamport time and id for all its rounds (the previous round's query is closed and
			// deregistered), so the wire messages are encoded once and the delivery loop is tight
			lt, id := serf.LamportTime(1000001+w), uint32(77+w)
			msgs := make([][]byte, perRound)
			for i := range msgs {
				msgs[i] = serf.VerifEncodeQueryResponse(lt, id, names[i], i%2 == 0, nil)
			}
			lateResp := serf.VerifEncodeQueryResponse(lt, id, "late", false, nil)
			lateAck := serf.VerifEncodeQueryResponse(lt, id, "late", true, nil)
			deliver := func(raw []byte) {
				defer func() {
					if r := recover(); r != nil {
						firstBad.CompareAndSwap(nil, "panic:"+strings.ReplaceAll(fmt.Sprint(r), " ", "-"))
					}
				}()
				n.msg(raw)
			}
			for round := 1; round <= rounds/workers && firstBad.Load() == nil && time.Since(t0) < 20*time.Second; round++ {
				q := serf.VerifRegisterQuery2(n.s, 2*perRound, lt, id, true, time.Hour, time.Hour)
				started := make(chan struct{})
				done := make(chan struct{})
				go func() {
					defer close(done)
					<-started
					for spin := 0; spin < (round%64)*20; spin++ {
						_ = q.Finished()
					}
					q.Close()
					q.Close()
				}()
				close(started)
				for i := 0; i < perRound; i++ {
					deliver(msgs[i])
					if q.Finished() {
						deliver(lateResp)
						deliver(lateAck)
						break
					}
				}
				<-done
				serf.VerifCloseQuery(n.s, q) // deregister (Close is idempotent)
				seen := map[string]bool{}
				for r := range q.ResponseCh() {
					if seen[r.From] {
						firstBad.CompareAndSwap(nil, "dup:response-"+hexs(r.From))
					}
					seen[r.From] = true
				}
				seenA := map[string]bool{}
				for a := range q.AckCh() {
					if seenA[a] {
						firstBad.CompareAndSwap(nil, "dup:ack-"+hexs(a))
					}
					seenA[a] = true
				}
			}
		}(w)
	}
	all.Wait()
	if p := firstBad.Load(); p != nil {
		return fmt.Sprint(p)
	}
	return "ok"
}

// c07Exec: a real timer that fired before the case reached its `sleep` op (a stalled machine) makes the
// run meaningless; it is detected and the case is run again.
func c07Exec(ops []string) []string {
	for try := 0; ; try++ {
		outs, premature := c07ExecOnce(ops)
		if !premature || try == 4 {
			return outs
		}
	}
}

func c07ExecOnce(ops []string) (outs []string, premature bool) {
	n, err := newQNode(qnodeOpts{name: "self", gossip: time.Second, timeoutMult: 60})
	if err != nil {
		panic(err)
	}
	defer n.shutdown()
	var objs []*c07Obj
	lastShort := time.Time{}
	for _, o := range ops {
		f := strings.Fields(o)
		switch {
		case len(f) == 7 && f[0] == "reg":
			lt, e1 := strconv.ParseUint(f[1], 10, 64)
			id, e2 := strconv.ParseUint(f[2], 10, 32)
			cp, e3 := strconv.Atoi(f[4])
			if e1 != nil || e2 != nil || e3 != nil || (f[3] != "0" && f[3] != "1") || cp < 0 || cp > 64 ||
				(f[5] != "far" && f[5] != "past") || (f[6] != "long" && f[6] != "short") {
				outs = append(outs, "bad-op")
				continue
			}
			timer := time.Hour
			if f[6] == "short" {
				timer = c07ShortTimer
				lastShort = time.Now()
			}
			dl := time.Hour
			if f[5] == "past" {
				dl = -time.Second
			}
			r := serf.VerifRegisterQuery2(n.s, cp, serf.LamportTime(lt), uint32(id), f[3] == "1", dl, timer)
			objs = append(objs, &c07Obj{resp: r, short: f[6] == "short"})
			outs = append(outs, "ok")
		case len(f) == 2 && f[0] == "query" && (f[1] == "0" || f[1] == "1"):
			r, err := n.s.Query("q", []byte("x"), &serf.QueryParam{RequestAck: f[1] == "1", Timeout: time.Hour})
			if err != nil {
				outs = append(outs, "query-error")
				continue
			}
			objs = append(objs, &c07Obj{resp: r})
			lt, id := serf.VerifQueryIdent(r)
			outs = append(outs, fmt.Sprintf("%d %d %d", lt, id, cap(r.ResponseCh())))
		case len(f) == 6 && f[0] == "reply":
			lt, e1 := strconv.ParseUint(f[1], 10, 64)
			id, e2 := strconv.ParseUint(f[2], 10, 32)
			from := unhex(f[3])
			_, e3 := strconv.Atoi(f[5])
			if e1 != nil || e2 != nil || e3 != nil || from == nil || (f[4] != "0" && f[4] != "1") {
				outs = append(outs, "bad-op")
				continue
			}
			n.msg(serf.VerifEncodeQueryResponse(serf.LamportTime(lt), uint32(id), string(from), f[4] == "1", []byte(f[5])))
			outs = append(outs, "ok")
		case len(f) == 5 && f[0] == "replyto":
			i, e1 := strconv.Atoi(f[1])
			from := unhex(f[2])
			_, e3 := strconv.Atoi(f[4])
			if e1 != nil || e3 != nil || from == nil || (f[3] != "0" && f[3] != "1") || i < 0 || i >= len(objs) {
				outs = append(outs, "bad-op")
				continue
			}
			lt, id := serf.VerifQueryIdent(objs[i].resp)
			n.msg(serf.VerifEncodeQueryResponse(lt, id, string(from), f[3] == "1", []byte(f[4])))
			outs = append(outs, "ok")
		case len(f) == 2 && f[0] == "race":
			rounds, err := strconv.Atoi(f[1])
			if err != nil || rounds < 0 || rounds > 1000000 {
				outs = append(outs, "bad-op")
				continue
			}
			outs = append(outs, c07Race(n, rounds))
		case len(f) == 2 && f[0] == "close":
			i, err := strconv.Atoi(f[1])
			if err != nil || i < 0 {
				outs = append(outs, "bad-op")
				continue
			}
			if i < len(objs) {
				serf.VerifCloseQuery(n.s, objs[i].resp)
			}
			outs = append(outs, "ok")
		case len(f) == 1 && f[0] == "sleep":
			for _, o := range objs {
				if o.short && serf.VerifQueryClosed(o.resp) {
					premature = true
				}
			}
			if !lastShort.IsZero() {
				if d := time.Until(lastShort.Add(c07ShortTimer + 15*time.Millisecond)); d > 0 {
					time.Sleep(d)
				}
				// the timer goroutines must have run: wait until every short object reports closed
				t0 := time.Now()
				for _, o := range objs {
					for o.short && !serf.VerifQueryClosed(o.resp) && time.Since(t0) < 2*time.Second {
						time.Sleep(time.Millisecond)
					}
				}
			}
			outs = append(outs, "ok")
		case len(f) == 2 && f[0] == "drain":
			i, err := strconv.Atoi(f[1])
			if err != nil || i < 0 || i >= len(objs) {
				outs = append(outs, "bad-op")
				continue
			}
			outs = append(outs, c07Drain(objs[i].resp))
		default:
			outs = append(outs, "bad-op")
		}
	}
	return outs, premature
}

func c07Gen(rng *rand.Rand, tier string) []Case {
	var out []Case
	n, nSleep := 400, 12
	if tier == "thorough" {
		n, nSleep = 40000, 300
	}
	senders := []string{"a", "b", "c", "d", ""}
	mk := func(id string, withSleep bool) Case {
		var ops []string
		type obj struct {
			lt, id uint64
			short  bool
		}
		var objs []obj
		isQuery := map[int]bool{}
		tag := 0
		dup, mismatch, late, shared := false, false, false, false
		closed := map[int]bool{}
		newObj := func() {
			lt := uint64(5 + rng.Intn(3))
			qid := uint64(100 + rng.Intn(3))
			for _, o := range objs {
				if o.lt == lt {
					shared = true
				}
			}
			if !withSleep && rng.Intn(5) == 0 {
				ops = append(ops, fmt.Sprintf("query %d", rng.Intn(2)))
				isQuery[len(objs)] = true
				objs = append(objs, obj{lt: 0, id: 0}) // time and id are chosen by the node: addressed with `replyto`
				return
			}
			dl := "far"
			if rng.Intn(6) == 0 {
				dl = "past"
				late = true
			}
			tm := "long"
			if withSleep && rng.Intn(2) == 0 {
				tm = "short"
			}
			ops = append(ops, fmt.Sprintf("reg %d %d %d %d %s %s", lt, qid, rng.Intn(2), 1+rng.Intn(3), dl, tm))
			objs = append(objs, obj{lt: lt, id: qid, short: tm == "short"})
		}
		newObj()
		steps := 6 + rng.Intn(25)
		seen := map[string]bool{}
		for s := 0; s < steps; s++ {
			switch x := rng.Intn(20); {
			case x < 2:
				if len(objs) < 5 {
					newObj()
				}
			case x < 14:
				oi := rng.Intn(len(objs))
				o := objs[oi]
				if isQuery[oi] {
					from := senders[rng.Intn(len(senders))]
					a := rng.Intn(2)
					key := fmt.Sprintf("q%d/%s/%d", oi, from, a)
					if seen[key] {
						dup = true
					}
					seen[key] = true
					tag++
					ops = append(ops, fmt.Sprintf("replyto %d %s %d %d", oi, hexs(from), a, tag))
					continue
				}
				lt, qid := o.lt, o.id
				switch rng.Intn(8) {
				case 0:
					qid = uint64(100 + rng.Intn(4))
					mismatch = true
				case 1:
					lt = uint64(4 + rng.Intn(5))
					mismatch = true
				}
				from := senders[rng.Intn(len(senders))]
				ack := rng.Intn(3) == 0
				key := fmt.Sprintf("%d/%d/%s/%v", lt, qid, from, ack)
				if seen[key] {
					dup = true
				}
				seen[key] = true
				tag++
				a := 0
				if ack {
					a = 1
				}
				ops = append(ops, fmt.Sprintf("reply %d %d %s %d %d", lt, qid, hexs(from), a, tag))
			case x < 15:
				i := rng.Intn(len(objs))
				if objs[i].short {
					// only its own timer closes a real-timer object before `sleep`: the harness recognises
					// that the timer has run by the object being closed
					continue
				}
				if closed[i] {
					late = true
				}
				closed[i] = true
				ops = append(ops, fmt.Sprintf("close %d", i))
			default:
				ops = append(ops, fmt.Sprintf("drain %d", rng.Intn(len(objs))))
			}
		}
		if withSleep {
			ops = append(ops, "sleep")
			for k := 0; k < 3; k++ {
				o := objs[rng.Intn(len(objs))]
				tag++
				ops = append(ops, fmt.Sprintf("reply %d %d %s 0 %d", o.lt, o.id, hexs("z"), tag))
			}
			late = true
		}
		for i := range objs {
			ops = append(ops, fmt.Sprintf("drain %d", i))
		}
		for i := range objs {
			if rng.Intn(2) == 0 {
				ops = append(ops, fmt.Sprintf("close %d", i), fmt.Sprintf("drain %d", i))
			}
		}
		_ = shared
		tags := []string{"hook-close"}
		if withSleep {
			tags = []string{"real-timer"}
		}
		return Case{ID: id, Ops: ops, Nontrivial: dup && mismatch && late, Tags: tags}
	}
	for i := 0; i < n; i++ {
		out = append(out, mk(fmt.Sprintf("c%d", i), false))
	}
	for i := 0; i < nSleep; i++ {
		out = append(out, mk(fmt.Sprintf("t%d", i), true))
	}
	raceRounds := 8000
	if tier == "thorough" {
		raceRounds = 80000
	}
	out = append(out, Case{ID: "race", Ops: []string{fmt.Sprintf("race %d", raceRounds)}, Nontrivial: true, Tags: []string{"race"}})
	return out
}

func init() {
	register(&Prop{
		ID: "C07",
		Rule: "each case = one real node; 1–5 concurrently open queries registered through the real newQueryResponse/registerQueryResponse (Lamport times from {5,6,7} so that times are shared and map entries overwritten; ids from 3 values; with/without acks; channel capacity 1–3; deadline far or already over) or through the real s.Query; " +
			"6–30 steps: replies injected through NotifyMsg (matching, wrong id, wrong time, duplicates, acks to queries without acks, 5 sender names incl. empty), closes (body of the timer closure, also repeated), drains of AckCh/ResponseCh; real-timer cases let 120 ms timers fire and send replies afterwards; " +
			"non-trivial = the case has a duplicate, a mismatching id/time and a reply after a close/deadline; distinct = distinct op sequence. one free-running race case: 8000 (thorough 80000) rounds over 8 concurrently open queries, each with reply delivery by one goroutine against the public Close() from another (stops at the first send on a closed stream, 20 s cap). Interleavings of the timer with the individual steps of handleQueryResponse are not driven on the real code (theorems only)",
		Gen:  c07Gen,
		Exec: c07Exec,
	})
}
