package main

import (
	"fmt"
	"io"
	"math"
	"math/rand"
	"net"
	"sort"
	"strconv"
	"strings"
	"sync"
	"time"

	"github.com/hashicorp/memberlist"
	"github.com/hashicorp/serf/serf"
)

// C32: message / tag / filter / relay codecs.  Line protocol: see lean/SerfModel/Check/C32.lean.

// ---------------------------------------------------------------- tokens

func c32OB(b []byte) string {
	if b == nil {
		return "n"
	}
	return hexb(b)
}

func c32ParseOB(s string) ([]byte, bool) {
	if s == "n" {
		return nil, true
	}
	b := unhex(s)
	return b, b != nil
}

func c32Bool(b bool) string {
	if b {
		return "t"
	}
	return "f"
}

func c32List(n int, isNil bool, sep string, f func(i int) string) string {
	if isNil {
		return "n"
	}
	if n == 0 {
		return "_"
	}
	parts := make([]string, n)
	for i := range parts {
		parts[i] = f(i)
	}
	return strings.Join(parts, sep)
}

func c32SplitList(s, sep string) (items []string, isNil bool) {
	if s == "n" {
		return nil, true
	}
	if s == "_" {
		return []string{}, false
	}
	return strings.Split(s, sep), false
}

// ---------------------------------------------------------------- canonical printing

func c32ShowJoin(m *serf.VerifMsgJoin) string { return fmt.Sprintf("%d %s", uint64(m.LTime), hexs(m.Node)) }
func c32ShowLeave(m *serf.VerifMsgLeave) string {
	return fmt.Sprintf("%d %s %s", uint64(m.LTime), hexs(m.Node), c32Bool(m.Prune))
}
func c32ShowUserEv(m *serf.VerifMsgUserEvent) string {
	return fmt.Sprintf("%d %s %s %s", uint64(m.LTime), hexs(m.Name), c32OB(m.Payload), c32Bool(m.CC))
}
func c32ShowQuery(m *serf.VerifMsgQuery) string {
	fl := c32List(len(m.Filters), m.Filters == nil, ",", func(i int) string { return c32OB(m.Filters[i]) })
	return fmt.Sprintf("%d %d %s %d %s %s %d %d %d %s %s", uint64(m.LTime), m.ID, c32OB(m.Addr), m.Port, hexs(m.SourceNode),
		fl, m.Flags, m.RelayFactor, int64(m.Timeout), hexs(m.Name), c32OB(m.Payload))
}
func c32ShowQResp(m *serf.VerifMsgQueryResponse) string {
	return fmt.Sprintf("%d %d %s %d %s", uint64(m.LTime), m.ID, hexs(m.From), m.Flags, c32OB(m.Payload))
}
func c32ShowUEvents(e *serf.VerifMsgUserEvents) string {
	if e == nil {
		return "n"
	}
	evs := c32List(len(e.Events), e.Events == nil, "|", func(i int) string {
		return hexs(e.Events[i].Name) + ":" + c32OB(e.Events[i].Payload)
	})
	return fmt.Sprintf("%d/%s", uint64(e.LTime), evs)
}
func c32ShowPushPull(m *serf.VerifMsgPushPull) string {
	var st string
	if m.StatusLTimes == nil {
		st = "n"
	} else if len(m.StatusLTimes) == 0 {
		st = "_"
	} else {
		var items []string
		for k, v := range m.StatusLTimes {
			items = append(items, fmt.Sprintf("%s:%d", hexs(k), uint64(v)))
		}
		sort.Strings(items)
		st = strings.Join(items, ",")
	}
	left := c32List(len(m.LeftMembers), m.LeftMembers == nil, ",", func(i int) string { return hexs(m.LeftMembers[i]) })
	evs := c32List(len(m.Events), m.Events == nil, ";", func(i int) string { return c32ShowUEvents(m.Events[i]) })
	return fmt.Sprintf("%d %s %s %d %s %d", uint64(m.LTime), st, left, uint64(m.EventLTime), evs, uint64(m.QueryLTime))
}
func c32ShowFilterNode(m serf.VerifFilterNode) string {
	return c32List(len(m), m == nil, ",", func(i int) string { return hexs(m[i]) })
}
func c32ShowFilterTag(m *serf.VerifFilterTag) string { return hexs(m.Tag) + " " + hexs(m.Expr) }

func c32ShowTags(t map[string]string) string {
	if len(t) == 0 {
		return "_"
	}
	var items []string
	for k, v := range t {
		items = append(items, hexs(k)+":"+hexs(v))
	}
	sort.Strings(items)
	return strings.Join(items, ",")
}

// ---------------------------------------------------------------- parsing of field tokens

type c32Kind struct {
	typ    uint8
	filter bool
	parse  func(f []string) (any, bool)
	dec    func(body []byte) (string, error)
}

func pu(s string, bits int) (uint64, bool) {
	v, err := strconv.ParseUint(s, 10, bits)
	return v, err == nil
}

func c32ParseQResp(f []string) (*serf.VerifMsgQueryResponse, bool) {
	if len(f) != 5 {
		return nil, false
	}
	lt, ok1 := pu(f[0], 64)
	id, ok2 := pu(f[1], 32)
	from := unhex(f[2])
	fl, ok3 := pu(f[3], 32)
	pl, ok4 := c32ParseOB(f[4])
	if !(ok1 && ok2 && ok3 && ok4) || from == nil {
		return nil, false
	}
	return &serf.VerifMsgQueryResponse{LTime: serf.LamportTime(lt), ID: uint32(id), From: string(from), Flags: uint32(fl), Payload: pl}, true
}

func c32ParseUEvents(s string) (*serf.VerifMsgUserEvents, bool) {
	if s == "n" {
		return nil, true
	}
	p := strings.SplitN(s, "/", 2)
	if len(p) != 2 {
		return nil, false
	}
	lt, ok := pu(p[0], 64)
	if !ok {
		return nil, false
	}
	out := &serf.VerifMsgUserEvents{LTime: serf.LamportTime(lt)}
	items, isNil := c32SplitList(p[1], "|")
	if !isNil {
		out.Events = []serf.VerifMsgUserEventItem{}
		for _, it := range items {
			q := strings.SplitN(it, ":", 2)
			if len(q) != 2 {
				return nil, false
			}
			nm := unhex(q[0])
			pl, ok := c32ParseOB(q[1])
			if nm == nil || !ok {
				return nil, false
			}
			out.Events = append(out.Events, serf.VerifMsgUserEventItem{Name: string(nm), Payload: pl})
		}
	}
	return out, true
}

var c32Kinds = map[string]*c32Kind{
	"join": {typ: 1, parse: func(f []string) (any, bool) {
		if len(f) != 2 {
			return nil, false
		}
		lt, ok := pu(f[0], 64)
		n := unhex(f[1])
		return &serf.VerifMsgJoin{LTime: serf.LamportTime(lt), Node: string(n)}, ok && n != nil
	}, dec: func(b []byte) (string, error) {
		var o serf.VerifMsgJoin
		err := serf.VerifDecodeMessage(b, &o)
		return c32ShowJoin(&o), err
	}},
	"leave": {typ: 0, parse: func(f []string) (any, bool) {
		if len(f) != 3 {
			return nil, false
		}
		lt, ok := pu(f[0], 64)
		n := unhex(f[1])
		return &serf.VerifMsgLeave{LTime: serf.LamportTime(lt), Node: string(n), Prune: f[2] == "t"}, ok && n != nil
	}, dec: func(b []byte) (string, error) {
		var o serf.VerifMsgLeave
		err := serf.VerifDecodeMessage(b, &o)
		return c32ShowLeave(&o), err
	}},
	"userevent": {typ: 3, parse: func(f []string) (any, bool) {
		if len(f) != 4 {
			return nil, false
		}
		lt, ok := pu(f[0], 64)
		n := unhex(f[1])
		pl, ok2 := c32ParseOB(f[2])
		return &serf.VerifMsgUserEvent{LTime: serf.LamportTime(lt), Name: string(n), Payload: pl, CC: f[3] == "t"}, ok && ok2 && n != nil
	}, dec: func(b []byte) (string, error) {
		var o serf.VerifMsgUserEvent
		err := serf.VerifDecodeMessage(b, &o)
		return c32ShowUserEv(&o), err
	}},
	"query": {typ: 4, parse: func(f []string) (any, bool) {
		if len(f) != 11 {
			return nil, false
		}
		lt, ok1 := pu(f[0], 64)
		id, ok2 := pu(f[1], 32)
		addr, ok3 := c32ParseOB(f[2])
		port, ok4 := pu(f[3], 16)
		src := unhex(f[4])
		items, isNil := c32SplitList(f[5], ",")
		var filters [][]byte
		if !isNil {
			filters = [][]byte{}
			for _, it := range items {
				b, ok := c32ParseOB(it)
				if !ok {
					return nil, false
				}
				filters = append(filters, b)
			}
		}
		flags, ok5 := pu(f[6], 32)
		rf, ok6 := pu(f[7], 8)
		to, err := strconv.ParseInt(f[8], 10, 64)
		nm := unhex(f[9])
		pl, ok7 := c32ParseOB(f[10])
		if !(ok1 && ok2 && ok3 && ok4 && ok5 && ok6 && ok7) || err != nil || src == nil || nm == nil {
			return nil, false
		}
		return &serf.VerifMsgQuery{LTime: serf.LamportTime(lt), ID: uint32(id), Addr: addr, Port: uint16(port), SourceNode: string(src),
			Filters: filters, Flags: uint32(flags), RelayFactor: uint8(rf), Timeout: time.Duration(to), Name: string(nm), Payload: pl}, true
	}, dec: func(b []byte) (string, error) {
		var o serf.VerifMsgQuery
		err := serf.VerifDecodeMessage(b, &o)
		return c32ShowQuery(&o), err
	}},
	"qresp": {typ: 5, parse: func(f []string) (any, bool) {
		m, ok := c32ParseQResp(f)
		return m, ok
	}, dec: func(b []byte) (string, error) {
		var o serf.VerifMsgQueryResponse
		err := serf.VerifDecodeMessage(b, &o)
		return c32ShowQResp(&o), err
	}},
	"pushpull": {typ: 2, parse: func(f []string) (any, bool) {
		if len(f) != 6 {
			return nil, false
		}
		lt, ok1 := pu(f[0], 64)
		elt, ok2 := pu(f[3], 64)
		qlt, ok3 := pu(f[5], 64)
		if !(ok1 && ok2 && ok3) {
			return nil, false
		}
		m := &serf.VerifMsgPushPull{LTime: serf.LamportTime(lt), EventLTime: serf.LamportTime(elt), QueryLTime: serf.LamportTime(qlt)}
		if items, isNil := c32SplitList(f[1], ","); !isNil {
			m.StatusLTimes = map[string]serf.LamportTime{}
			for _, it := range items {
				p := strings.SplitN(it, ":", 2)
				if len(p) != 2 {
					return nil, false
				}
				k := unhex(p[0])
				v, ok := pu(p[1], 64)
				if k == nil || !ok {
					return nil, false
				}
				m.StatusLTimes[string(k)] = serf.LamportTime(v)
			}
		}
		if items, isNil := c32SplitList(f[2], ","); !isNil {
			m.LeftMembers = []string{}
			for _, it := range items {
				b := unhex(it)
				if b == nil {
					return nil, false
				}
				m.LeftMembers = append(m.LeftMembers, string(b))
			}
		}
		if items, isNil := c32SplitList(f[4], ";"); !isNil {
			m.Events = []*serf.VerifMsgUserEvents{}
			for _, it := range items {
				e, ok := c32ParseUEvents(it)
				if !ok {
					return nil, false
				}
				m.Events = append(m.Events, e)
			}
		}
		return m, true
	}, dec: func(b []byte) (string, error) {
		var o serf.VerifMsgPushPull
		err := serf.VerifDecodeMessage(b, &o)
		return c32ShowPushPull(&o), err
	}},
	"filternode": {typ: 0, filter: true, parse: func(f []string) (any, bool) {
		if len(f) != 1 {
			return nil, false
		}
		items, isNil := c32SplitList(f[0], ",")
		var m serf.VerifFilterNode
		if !isNil {
			m = serf.VerifFilterNode{}
			for _, it := range items {
				b := unhex(it)
				if b == nil {
					return nil, false
				}
				m = append(m, string(b))
			}
		}
		return m, true
	}, dec: func(b []byte) (string, error) {
		var o serf.VerifFilterNode
		err := serf.VerifDecodeMessage(b, &o)
		return c32ShowFilterNode(o), err
	}},
	"filtertag": {typ: 1, filter: true, parse: func(f []string) (any, bool) {
		if len(f) != 2 {
			return nil, false
		}
		t, e := unhex(f[0]), unhex(f[1])
		return &serf.VerifFilterTag{Tag: string(t), Expr: string(e)}, t != nil && e != nil
	}, dec: func(b []byte) (string, error) {
		var o serf.VerifFilterTag
		err := serf.VerifDecodeMessage(b, &o)
		return c32ShowFilterTag(&o), err
	}},
}

func c32ParseTags(s string) (map[string]string, bool) {
	items, isNil := c32SplitList(s, ",")
	if isNil {
		return nil, true
	}
	m := map[string]string{}
	for _, it := range items {
		p := strings.SplitN(it, ":", 2)
		if len(p) != 2 {
			return nil, false
		}
		k, v := unhex(p[0]), unhex(p[1])
		if k == nil || v == nil {
			return nil, false
		}
		m[string(k)] = string(v)
	}
	return m, true
}

// ---------------------------------------------------------------- live nodes (relay, SetTags)

type c32Recorder struct{ ch chan []byte }

func (r *c32Recorder) NodeMeta(limit int) []byte { return nil }
func (r *c32Recorder) NotifyMsg(b []byte) {
	c := make([]byte, len(b))
	copy(c, b)
	select {
	case r.ch <- c:
	default:
	}
}
func (r *c32Recorder) GetBroadcasts(overhead, limit int) [][]byte { return nil }
func (r *c32Recorder) LocalState(join bool) []byte                { return nil }
func (r *c32Recorder) MergeRemoteState(buf []byte, join bool)     {}

type c32Live struct {
	net   memberlist.MockNetwork
	nodes map[uint8]*serf.Serf
	dests map[string]*c32Recorder // by destination name
	addrs map[string]string       // destination name -> "ip:port"
	err   error
}

var (
	c32live     *c32Live
	c32liveOnce sync.Once
)

var c32DestNames = []string{"dst", "d\xff\x00 node/2"}

func c32Node(proto uint8) (*serf.Serf, error) {
	c32liveOnce.Do(func() {
		c32live = &c32Live{nodes: map[uint8]*serf.Serf{}, dests: map[string]*c32Recorder{}, addrs: map[string]string{}}
		for _, nm := range c32DestNames {
			tr := c32live.net.NewTransport(nm)
			rec := &c32Recorder{ch: make(chan []byte, 16)}
			mc := memberlist.DefaultLANConfig()
			mc.Name = nm
			mc.Transport = tr
			mc.Delegate = rec
			mc.LogOutput = io.Discard
			mc.BindAddr = "127.0.0.1"
			if _, err := memberlist.Create(mc); err != nil {
				c32live.err = err
				return
			}
			ip, port, _ := tr.FinalAdvertiseAddr("", 0)
			c32live.dests[nm] = rec
			c32live.addrs[nm] = net.JoinHostPort(ip.String(), strconv.Itoa(port))
		}
	})
	if c32live.err != nil {
		return nil, c32live.err
	}
	if s, ok := c32live.nodes[proto]; ok {
		return s, nil
	}
	name := fmt.Sprintf("node-p%d", proto)
	conf := serf.DefaultConfig()
	conf.Init()
	conf.NodeName = name
	conf.ProtocolVersion = proto
	conf.LogOutput = io.Discard
	conf.MemberlistConfig = memberlist.DefaultLANConfig()
	conf.MemberlistConfig.Transport = c32live.net.NewTransport(name)
	conf.MemberlistConfig.BindAddr = "127.0.0.1"
	conf.MemberlistConfig.LogOutput = io.Discard
	s, err := serf.Create(conf)
	if err != nil {
		return nil, err
	}
	c32live.nodes[proto] = s
	c32liveDelegates[proto] = conf.MemberlistConfig.Delegate
	return s, nil
}

var c32liveDelegates = map[uint8]memberlist.Delegate{}

func c32ParseHdr(f []string) (net.UDPAddr, string, bool) {
	ip, ok1 := c32ParseOB(f[0])
	port, err := strconv.ParseInt(f[1], 10, 64)
	zone := unhex(f[2])
	name := unhex(f[3])
	if !ok1 || err != nil || zone == nil || name == nil {
		return net.UDPAddr{}, "", false
	}
	return net.UDPAddr{IP: net.IP(ip), Port: int(port), Zone: string(zone)}, string(name), true
}

// ---------------------------------------------------------------- executor

func c32Exec(ops []string) []string {
	outs := make([]string, 0, len(ops))
	for _, o := range ops {
		outs = append(outs, c32One(strings.Fields(o)))
	}
	return outs
}

func c32One(f []string) string {
	switch {
	case len(f) >= 3 && f[0] == "enc":
		k, ok := c32Kinds[f[1]]
		if !ok {
			return "bad-op"
		}
		msg, ok := k.parse(f[2:])
		if !ok {
			return "bad-op"
		}
		var raw []byte
		var err error
		if k.filter {
			raw, err = serf.VerifEncodeFilter(k.typ, msg)
		} else {
			raw, err = serf.VerifEncodeMessage(k.typ, msg, false)
		}
		if err != nil {
			return "err"
		}
		back, err := k.dec(raw[1:])
		if err != nil {
			back = "err"
		}
		return hexb(raw) + " " + back
	case len(f) == 3 && f[0] == "dec":
		k, ok := c32Kinds[f[1]]
		b := unhex(f[2])
		if !ok || b == nil {
			return "bad-op"
		}
		s, err := k.dec(b)
		if err != nil {
			return "err"
		}
		return "ok " + s
	case len(f) == 3 && f[0] == "tags":
		p, ok1 := pu(f[1], 8)
		tags, ok2 := c32ParseTags(f[2])
		if !ok1 || !ok2 {
			return "bad-op"
		}
		raw := serf.VerifEncodeTags(uint8(p), tags)
		// decoded by a node of the newest protocol: decodeTags does not depend on the version
		return hexb(raw) + " " + c32ShowTags(serf.VerifDecodeTags(5, raw))
	case len(f) == 2 && f[0] == "dectags":
		b := unhex(f[1])
		if b == nil {
			return "bad-op"
		}
		return c32ShowTags(serf.VerifDecodeTags(5, b))
	case len(f) == 10 && (f[0] == "relayenc" || f[0] == "relay"):
		addr, name, ok1 := c32ParseHdr(f[1:5])
		m, ok2 := c32ParseQResp(f[5:])
		if !ok1 || !ok2 {
			return "bad-op"
		}
		raw, err := serf.VerifEncodeRelayMessage(5, addr, name, m)
		if err != nil {
			return "err"
		}
		if f[0] == "relayenc" {
			return hexb(raw)
		}
		direct, err := serf.VerifEncodeMessage(5, m, false)
		if err != nil {
			return "err"
		}
		if _, err := c32Node(5); err != nil {
			return "bad-op node: " + err.Error()
		}
		var rec *c32Recorder
		if name != "" {
			rec = c32live.dests[name]
		} else {
			for nm, a := range c32live.addrs {
				if a == addr.String() {
					rec = c32live.dests[nm]
				}
			}
		}
		if rec == nil {
			return "bad-op no such destination"
		}
		for len(rec.ch) > 0 {
			<-rec.ch
		}
		c32liveDelegates[5].NotifyMsg(raw)
		select {
		case got := <-rec.ch:
			return hexb(raw) + " " + hexb(direct) + " " + hexb(got)
		case <-time.After(700 * time.Millisecond):
			return hexb(raw) + " " + hexb(direct) + " none"
		}
	case len(f) == 3 && f[0] == "metaeff":
		// what the node advertises (delegate.NodeMeta) before and after a SetTags call: a refused
		// tag set must leave the advertised meta data as it was, an accepted one must be advertised
		p, ok1 := pu(f[1], 8)
		tags, ok2 := c32ParseTags(f[2])
		if !ok1 || !ok2 {
			return "bad-op"
		}
		s, err := c32Node(uint8(p))
		if err != nil {
			return "bad-op node: " + err.Error()
		}
		adv := func() (res string) {
			defer func() {
				if r := recover(); r != nil {
					res = "PANIC-NodeMeta"
				}
			}()
			// canonical: the decoded tags, sorted (Go map order makes the raw bytes vary between calls)
			return c32ShowTags(serf.VerifDecodeTags(5, c32liveDelegates[uint8(p)].NodeMeta(512)))
		}
		prev := adv()
		verdict := "acc"
		if err := s.SetTags(tags); err != nil {
			verdict = "rej"
		}
		return prev + " " + adv() + " " + verdict
	case len(f) == 3 && f[0] == "meta":
		p, ok1 := pu(f[1], 8)
		tags, ok2 := c32ParseTags(f[2])
		if !ok1 || !ok2 {
			return "bad-op"
		}
		s, err := c32Node(uint8(p))
		if err != nil {
			return "bad-op node: " + err.Error()
		}
		n := len(serf.VerifEncodeTags(uint8(p), tags))
		if err := s.SetTags(tags); err != nil {
			if strings.Contains(err.Error(), "exceeds limit") {
				return fmt.Sprintf("rej %d", n)
			}
			return "err " + err.Error()
		}
		return fmt.Sprintf("acc %d", n)
	}
	return "bad-op"
}

// ---------------------------------------------------------------- generators

var c32UintBounds = []uint64{0, 1, 127, 128, 255, 256, 65535, 65536, math.MaxUint32, 1 << 32, math.MaxInt64, 1 << 63, math.MaxUint64}
var c32IntBounds = []int64{0, 1, 127, 128, 255, 256, 32767, 32768, 65535, 65536, math.MaxInt32, 1 << 31, math.MaxUint32, 1 << 32, math.MaxInt64,
	-1, -32, -33, -128, -129, -32768, -32769, math.MinInt32, math.MinInt32 - 1, math.MinInt64, int64(15 * time.Second)}
var c32LenBounds = []int{0, 1, 15, 16, 31, 32, 33, 255, 256, 257}
var c32BigLens = []int{65535, 65536, 65537}

func c32Clamp(v uint64, bits int) uint64 {
	if bits >= 64 {
		return v
	}
	return v & (1<<uint(bits) - 1)
}

type c32Gen struct {
	rng   *rand.Rand
	big   bool // allow ≥ 64 KiB strings
	plain bool // keep bytes out of the ext/0xc1 range (for mutation cases)
}

func (g *c32Gen) u(bits int) uint64 {
	switch g.rng.Intn(3) {
	case 0:
		return c32Clamp(c32UintBounds[g.rng.Intn(len(c32UintBounds))], bits)
	case 1:
		return c32Clamp(g.rng.Uint64(), bits)
	}
	return c32Clamp(uint64(g.rng.Intn(300)), bits)
}

func (g *c32Gen) i64() int64 {
	switch g.rng.Intn(3) {
	case 0:
		return c32IntBounds[g.rng.Intn(len(c32IntBounds))]
	case 1:
		return int64(g.rng.Uint64())
	}
	return int64(g.rng.Intn(400) - 200)
}

func (g *c32Gen) length() int {
	switch x := g.rng.Intn(20); {
	case x < 8:
		return g.rng.Intn(6)
	case x < 17:
		return c32LenBounds[g.rng.Intn(len(c32LenBounds))]
	case x < 19 || !g.big:
		return g.rng.Intn(300)
	}
	return c32BigLens[g.rng.Intn(len(c32BigLens))]
}

func (g *c32Gen) bytesN(n int) []byte {
	b := make([]byte, n)
	for i := range b {
		if g.plain {
			b[i] = byte('a' + g.rng.Intn(26))
		} else {
			b[i] = byte(g.rng.Intn(256))
		}
	}
	return b
}

func (g *c32Gen) str() string { return hexb(g.bytesN(g.length())) }

func (g *c32Gen) ob() string {
	if g.rng.Intn(5) == 0 {
		return "n"
	}
	return g.str()
}

func (g *c32Gen) list(sep string, nilOK bool, maxLen int, elem func() string) string {
	switch x := g.rng.Intn(10); {
	case x == 0 && nilOK:
		return "n"
	case x == 1:
		return "_"
	}
	n := 1 + g.rng.Intn(maxLen)
	if g.rng.Intn(6) == 0 {
		n = []int{15, 16, 17}[g.rng.Intn(3)]
	}
	parts := make([]string, n)
	for i := range parts {
		parts[i] = elem()
	}
	return strings.Join(parts, sep)
}

func (g *c32Gen) fields(kind string) string {
	switch kind {
	case "join":
		return fmt.Sprintf("%d %s", g.u(64), g.str())
	case "leave":
		return fmt.Sprintf("%d %s %s", g.u(64), g.str(), c32Bool(g.rng.Intn(2) == 0))
	case "userevent":
		return fmt.Sprintf("%d %s %s %s", g.u(64), g.str(), g.ob(), c32Bool(g.rng.Intn(2) == 0))
	case "query":
		return fmt.Sprintf("%d %d %s %d %s %s %d %d %d %s %s", g.u(64), g.u(32), g.ob(), g.u(16), g.str(),
			g.list(",", true, 4, g.ob), g.u(32), g.u(8), g.i64(), g.str(), g.ob())
	case "qresp":
		return fmt.Sprintf("%d %d %s %d %s", g.u(64), g.u(32), g.str(), g.u(32), g.ob())
	case "pushpull":
		seen := map[string]bool{}
		status := g.list(",", true, 5, func() string {
			for {
				k := g.str()
				if !seen[k] {
					seen[k] = true
					return fmt.Sprintf("%s:%d", k, g.u(64))
				}
			}
		})
		events := g.list(";", true, 3, func() string {
			if g.rng.Intn(5) == 0 {
				return "n"
			}
			return fmt.Sprintf("%d/%s", g.u(64), g.list("|", true, 3, func() string { return g.str() + ":" + g.ob() }))
		})
		return fmt.Sprintf("%d %s %s %d %s %d", g.u(64), status, g.list(",", true, 4, g.str), g.u(64), events, g.u(64))
	case "filternode":
		return g.list(",", true, 5, g.str)
	case "filtertag":
		return g.str() + " " + g.str()
	}
	return ""
}

func (g *c32Gen) tags(forceRole string) string {
	seen := map[string]bool{}
	withRole := forceRole != "" || g.rng.Intn(2) == 0
	s := g.list(",", true, 5, func() string {
		for {
			k := g.str()
			if !seen[k] && k != hexs("role") {
				seen[k] = true
				return k + ":" + g.str()
			}
		}
	})
	if withRole {
		role := forceRole
		if role == "" {
			role = g.str()
		}
		if s == "n" || s == "_" {
			return hexs("role") + ":" + role
		}
		return s + "," + hexs("role") + ":" + role
	}
	return s
}

var c32KindNames = []string{"join", "leave", "userevent", "query", "qresp", "pushpull", "filternode", "filtertag"}

// systematic boundary cases: every numeric field at every bound, every string field at every length
func c32Systematic(big bool) []string {
	var ops []string
	s := func(n int) string { return hexb([]byte(strings.Repeat("x", n))) }
	lens := append([]int{}, c32LenBounds...)
	if big {
		lens = append(lens, c32BigLens...)
	}
	for _, v := range c32UintBounds {
		ops = append(ops, fmt.Sprintf("enc join %d 61", v))
		ops = append(ops, fmt.Sprintf("enc leave %d 61 t", v))
		ops = append(ops, fmt.Sprintf("enc userevent %d 61 62 f", v))
		ops = append(ops, fmt.Sprintf("enc qresp %d %d 61 %d n", v, c32Clamp(v, 32), c32Clamp(v, 32)))
		ops = append(ops, fmt.Sprintf("enc query %d %d n %d 61 n %d %d 0 62 n", v, c32Clamp(v, 32), c32Clamp(v, 16), c32Clamp(v, 32), c32Clamp(v, 8)))
		ops = append(ops, fmt.Sprintf("enc pushpull %d 61:%d _ %d %d/n %d", v, v, v, v, v))
	}
	for _, v := range c32IntBounds {
		ops = append(ops, fmt.Sprintf("enc query 1 2 7f000001 7946 61 _ 0 0 %d 62 -", v))
		ops = append(ops, fmt.Sprintf("relayenc 7f000001 %d - 64 1 2 61 0 n", v))
	}
	for _, n := range lens {
		ops = append(ops, fmt.Sprintf("enc join 1 %s", s(n)))
		ops = append(ops, fmt.Sprintf("enc userevent 1 %s %s t", s(n), s(n)))
		ops = append(ops, fmt.Sprintf("enc qresp 1 2 %s 0 %s", s(n), s(n)))
		ops = append(ops, fmt.Sprintf("enc query 1 2 %s 3 %s %s,n,- 0 0 5 %s %s", s(n), s(n), s(n), s(n), s(n)))
		ops = append(ops, fmt.Sprintf("enc filtertag %s %s", s(n), s(n)))
		ops = append(ops, fmt.Sprintf("enc filternode %s,-", s(n)))
		ops = append(ops, fmt.Sprintf("enc pushpull 1 %s:1 %s 2 3/%s:%s 4", s(n), s(n), s(n), s(n)))
		ops = append(ops, fmt.Sprintf("tags 5 %s:%s", s(n), s(n)))
		ops = append(ops, fmt.Sprintf("relayenc %s 1 %s %s 1 2 61 0 n", s(n), s(n), s(n)))
	}
	// container sizes around fixarray/fixmap/16-bit limits
	for _, n := range []int{0, 1, 15, 16, 17} {
		var l, kv, ev, tg []string
		for i := 0; i < n; i++ {
			l = append(l, hexs(fmt.Sprintf("m%d", i)))
			kv = append(kv, fmt.Sprintf("%s:%d", hexs(fmt.Sprintf("m%d", i)), i))
			ev = append(ev, fmt.Sprintf("%d/_", i))
			tg = append(tg, fmt.Sprintf("%s:%s", hexs(fmt.Sprintf("k%d", i)), hexs("v")))
		}
		if n == 0 {
			l, kv, ev, tg = []string{"_"}, []string{"_"}, []string{"_"}, []string{"_"}
		}
		ops = append(ops, "enc filternode "+strings.Join(l, ","))
		ops = append(ops, fmt.Sprintf("enc pushpull 1 %s %s 2 %s 3", strings.Join(kv, ","), strings.Join(l, ","), strings.Join(ev, ";")))
		ops = append(ops, "tags 4 "+strings.Join(tg, ","))
	}
	if big {
		var l []string
		for i := 0; i < 65536; i++ {
			l = append(l, "61")
		}
		ops = append(ops, "enc filternode "+strings.Join(l[:65535], ","), "enc filternode "+strings.Join(l, ","))
	}
	ops = append(ops, "enc filternode n", "enc pushpull 0 n n 0 n 0", "tags 3 n", "tags 2 n", "tags 3 _", "tags 2 _")
	return ops
}

var c32Markers = []byte{0x00, 0x01, 0x7f, 0x80, 0x81, 0x8f, 0x90, 0x91, 0xa0, 0xa1, 0xbf, 0xc0, 0xc2, 0xc3, 0xc4, 0xc5, 0xc6, 0xca, 0xcb,
	0xcc, 0xcd, 0xce, 0xcf, 0xd0, 0xd1, 0xd2, 0xd3, 0xd9, 0xda, 0xdb, 0xdc, 0xdd, 0xde, 0xdf, 0xe0, 0xff}

func (g *c32Gen) mutate(b []byte) []byte {
	out := append([]byte{}, b...)
	if len(out) == 0 {
		return []byte{c32Markers[g.rng.Intn(len(c32Markers))]}
	}
	switch g.rng.Intn(7) {
	case 0: // truncate
		return out[:g.rng.Intn(len(out))]
	case 1: // marker substitution
		out[g.rng.Intn(len(out))] = c32Markers[g.rng.Intn(len(c32Markers))]
	case 2: // bit flip
		i := g.rng.Intn(len(out))
		out[i] ^= 1 << uint(g.rng.Intn(8))
	case 3: // insert a marker
		i := g.rng.Intn(len(out) + 1)
		out = append(out[:i], append([]byte{c32Markers[g.rng.Intn(len(c32Markers))]}, out[i:]...)...)
	case 4: // delete a byte
		i := g.rng.Intn(len(out))
		out = append(out[:i], out[i+1:]...)
	case 5: // append garbage
		out = append(out, g.bytesN(1+g.rng.Intn(4))...)
	case 6: // header count off by one
		if out[0]&0xf0 == 0x80 || out[0]&0xf0 == 0x90 {
			if g.rng.Intn(2) == 0 && out[0]&0x0f < 15 {
				out[0]++
			} else if out[0]&0x0f > 0 {
				out[0]--
			}
		}
	}
	return out
}

// hand-written non-canonical but valid encodings (wider integer formats, str8/bin, unknown and repeated keys, nil values)
var c32Alt = []string{
	"dec leave 83a54c54696d65d005a44e6f6465d90161a55072756e65c3",
	"dec leave 83a54c54696d65cf0000000000000005a44e6f6465c40161a55072756e65c2",
	"dec leave 84a54c54696d6505a44e6f6465a161a15801a54c54696d6506",
	"dec leave 83a54c54696d65c0a44e6f6465c0a55072756e65c0",
	"dec leave 81a54c54696d65d0ff",
	"dec leave 81a54c54696d65ff",
	"dec leave 81a54c54696d65ca3f800000",
	"dec leave c0",
	"dec leave 05",
	"dec leave -",
	"dec leave 81c005",
	"dec leave 810505",
	"dec leave de0001a54c54696d6505",
	"dec leave df00000001a54c54696d65d3000000000000007b",
	"dec query 81a24944cf0000000100000000",
	"dec query 81a24944ceffffffff",
	"dec query 81a4506f7274ce00010000",
	"dec query 81ab52656c6179466163746f72cd0100",
	"dec query 81a754696d656f7574cfffffffffffffffff",
	"dec query 81a754696d656f7574cc80",
	"dec query 81a754696d656f7574d080",
	"dec query 81a754696d656f7574c0",
	"dec query 81a746696c7465727392c0a101",
	"dec query 81a746696c74657273a101",
	"dec query 81a746696c7465727305",
	"dec query 81a441646472c0",
	"dec query 81a44164647205",
	"dec query 81a746696c74657273dc0002c0c0",
	"dec query 81a746696c74657273dd00000001c40100",
	"dec pushpull 81ac5374617475734c54696d657382a16105a16106",
	"dec pushpull 81ac5374617475734c54696d6573de0001a16105",
	"dec pushpull 81a64576656e747391c0",
	"dec pushpull 81a64576656e74739181a54c54696d6507",
	"dec filternode 92a161d90162",
	"dec filternode c0",
	"dec filternode 90",
	"dec filternode 80",
	"dec filtertag 82a3546167a174a445787072c0",
	"dectags ff81a161a162",
	"dectags ff82a161a162a161a163",
	"dectags ffc0",
	"dectags ff80",
	"dectags ff",
	"dectags -",
	"dectags 61",
	"dectags ff81a161",
	"dectags ff81a16105",
	"dectags ff8105a161",
	"dectags ffde0001d90161c40162",
}

func c32GenCases(rng *rand.Rand, tier string) []Case {
	thorough := tier == "thorough"
	var out []Case
	chunk := func(prefix string, ops []string, per int, nt bool, tag string) {
		for i := 0; i < len(ops); i += per {
			j := i + per
			if j > len(ops) {
				j = len(ops)
			}
			out = append(out, Case{ID: fmt.Sprintf("%s%d", prefix, i/per), Ops: ops[i:j], Nontrivial: nt, Tags: []string{tag}})
		}
	}
	chunk("sys", c32Systematic(thorough), 1, true, "boundary")
	chunk("alt", c32Alt, 1, true, "noncanonical")

	g := &c32Gen{rng: rng, big: true}
	nEnc, nMut, nTags, nRelay, nMeta := 60, 120, 150, 40, 120
	if thorough {
		nEnc, nMut, nTags, nRelay, nMeta = 3000, 6000, 6000, 400, 3000
	}
	// random values of every kind: byte-exact encoding + what the receiver decodes
	for _, k := range c32KindNames {
		for i := 0; i < nEnc; i++ {
			g.big = rng.Intn(40) == 0
			out = append(out, Case{ID: fmt.Sprintf("enc-%s-%d", k, i), Ops: []string{"enc " + k + " " + g.fields(k)}, Nontrivial: true, Tags: []string{"enc-" + k}})
		}
	}
	// decode agreement on Go-encoded and mutated inputs
	gp := &c32Gen{rng: rng, plain: true}
	for _, k := range c32KindNames {
		kd := c32Kinds[k]
		for i := 0; i < nMut; i++ {
			msg, ok := kd.parse(strings.Fields(gp.fields(k)))
			if !ok {
				continue
			}
			var raw []byte
			if kd.filter {
				raw, _ = serf.VerifEncodeFilter(kd.typ, msg)
			} else {
				raw, _ = serf.VerifEncodeMessage(kd.typ, msg, false)
			}
			body := raw[1:]
			ops := []string{"dec " + k + " " + hexb(body)}
			for j := 0; j < 4; j++ {
				m := gp.mutate(body)
				if rng.Intn(4) == 0 {
					m = gp.mutate(m)
				}
				ops = append(ops, "dec "+k+" "+hexb(m))
			}
			out = append(out, Case{ID: fmt.Sprintf("mut-%s-%d", k, i), Ops: ops, Nontrivial: true, Tags: []string{"mutated-" + k}})
		}
	}
	// tags: all protocol versions, roles with and without the magic byte
	g.big = false
	for i := 0; i < nTags; i++ {
		proto := 2 + rng.Intn(4)
		role := ""
		if rng.Intn(6) == 0 {
			role = hexb(append([]byte{0xfe + byte(rng.Intn(2))}, g.bytesN(rng.Intn(4))...))
		}
		tg := g.tags(role)
		ops := []string{fmt.Sprintf("tags %d %s", proto, tg)}
		raw := serf.VerifEncodeTags(5, map[string]string{"k": "v", "role": "r"})
		ops = append(ops, "dectags "+hexb(gp.mutate(raw)))
		out = append(out, Case{ID: fmt.Sprintf("tags-%d", i), Ops: ops, Nontrivial: true, Tags: []string{fmt.Sprintf("tags-p%d", proto)}})
	}
	// known finding witnesses (protocol 2 role starting with 0xFF)
	out = append(out, Case{ID: "tags-ff-1", Ops: []string{"tags 2 " + hexs("role") + ":ff616263"}, Nontrivial: true, Tags: []string{"tags-ff"}})
	out = append(out, Case{ID: "tags-ff-2", Ops: []string{"tags 2 " + hexs("role") + ":ff81a161a162"}, Nontrivial: true, Tags: []string{"tags-ff"}})
	// metadata limit: encoded length within ±3 of 512, both protocol families, real SetTags
	for i := 0; i < nMeta; i++ {
		proto := 2 + rng.Intn(4)
		target := 505 + rng.Intn(12)
		if rng.Intn(5) == 0 {
			target = rng.Intn(1200)
		}
		out = append(out, Case{ID: fmt.Sprintf("meta-%d", i), Ops: []string{fmt.Sprintf("meta %d %s", proto, c32TagsOfSize(rng, proto, target))},
			Nontrivial: true, Tags: []string{"meta"}})
		out[len(out)-1].Ops = append(out[len(out)-1].Ops, strings.Replace(out[len(out)-1].Ops[len(out[len(out)-1].Ops)-1], "meta ", "metaeff ", 1))
	}
	// relay through the real NotifyMsg
	for i := 0; i < nRelay; i++ {
		name := c32DestNames[rng.Intn(len(c32DestNames))]
		// memberlist insists on a parseable host:port even when it routes by name: 4- or 16-byte IP, 16-bit port, no zone
		ipLen := []int{4, 16}[rng.Intn(2)]
		hdr := fmt.Sprintf("%s %d - %s", hexb(g.bytesN(ipLen)), g.u(16), hexs(name))
		out = append(out, Case{ID: fmt.Sprintf("relayenc-%d", i), Ops: []string{fmt.Sprintf("relayenc %s %d %s %s %s", g.ob(), g.i64(), g.str(), g.str(), g.fields("qresp"))},
			Nontrivial: true, Tags: []string{"relayenc"}})
		if rng.Intn(3) == 0 {
			// by address: a name-less header must carry the destination's real address
			for di, dn := range c32DestNames {
				if dn == name {
					hdr = fmt.Sprintf("7f000001 %d - -", di+1) // MockNetwork hands out 127.0.0.1:1, :2 … in creation order
				}
			}
		}
		out = append(out, Case{ID: fmt.Sprintf("relay-%d", i), Ops: []string{"relay " + hdr + " " + g.fields("qresp")}, Nontrivial: true, Tags: []string{"relay"}})
		if i%4 == 0 {
			// large wrapped replies (clusters may raise QueryResponseSizeLimit): sizes around 1 KiB, 4 KiB and up to 9 KiB
			size := []int{1000, 1024, 1025, 1200, 4096, 5000, 9000}[rng.Intn(7)] + rng.Intn(8)
			out = append(out, Case{ID: fmt.Sprintf("relaybig-%d", i),
				Ops:        []string{fmt.Sprintf("relay %s %d %d %s 0 %s", hdr, g.u(32), g.u(32), hexs("big"), hexb(g.bytesN(size)))},
				Nontrivial: true, Tags: []string{"relay-large"}})
		}
	}
	return out
}

// c32TagsOfSize builds a tag map whose encoding has (about) the wanted length.
func c32TagsOfSize(rng *rand.Rand, proto int, target int) string {
	if proto < 3 {
		return hexs("role") + ":" + hexb([]byte(strings.Repeat("r", target)))
	}
	// 0xFF + map header (1) + entries; entry = keyhdr+key + valhdr+val
	n := 1 + rng.Intn(6)
	remaining := target - 2
	var items []string
	for i := 0; i < n && remaining > 4; i++ {
		key := fmt.Sprintf("k%d", i)
		var vlen int
		if i == n-1 {
			vlen = remaining - (1 + len(key)) - 1
			if vlen >= 32 {
				vlen -= 2
			}
		} else {
			vlen = rng.Intn(remaining/2 + 1)
		}
		if vlen < 0 {
			vlen = 0
		}
		items = append(items, hexs(key)+":"+hexb([]byte(strings.Repeat("v", vlen))))
		hdr := 1
		if vlen >= 32 {
			hdr = 3
		}
		remaining -= 1 + len(key) + hdr + vlen
	}
	if len(items) == 0 {
		return "_"
	}
	return strings.Join(items, ",")
}

func init() {
	register(&Prop{
		ID: "C32",
		Rule: "systematic: every numeric field of every message kind at 0,1,127,128,255,256,65535,65536,2^32-1,2^32,2^63-1,2^63,2^64-1 (clamped to the field width), signed fields at every int8/16/32/64 boundary, every string field at lengths 0,1,15,16,31,32,33,255,256,257 (thorough: 65535..65537), containers of 0,1,15,16,17 (thorough: 65535/65536) elements, nil vs empty; " +
			"random values of all 8 kinds with arbitrary bytes; decode agreement on Go-encoded bodies and 4 mutations each (truncate, marker substitution, bit flip, insert, delete, append, count±1) plus hand-written non-canonical encodings; tags for protocol 2-5 incl. roles starting with 0xFE/0xFF; SetTags on live nodes with encodings within ±6 of 512; relays through the real NotifyMsg to a recording memberlist; " +
			"non-trivial = every case (each exercises an encoder/decoder path on a distinct value); distinct = distinct op text",
		Gen:  c32GenCases,
		Exec: c32Exec,
	})
}
