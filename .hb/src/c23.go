package main

import (
	"fmt"
	"math/rand"
	"regexp"
	"sort"
	"strconv"
	"strings"
	"time"

	"github.com/hashicorp/memberlist"
	"github.com/hashicorp/serf/serf"
)

// C23: key operation aggregation and key-list truncation.  See lean/SerfModel/Check/C23.lean for the ops.

var c23Trunc = regexp.MustCompile(`^truncated key list response, showing first (\d+) of (\d+) keys$`)

func c23Counts(m map[string]int) string {
	var xs []string
	for k, v := range m {
		xs = append(xs, fmt.Sprintf("%s:%d", hexs(k), v))
	}
	sort.Strings(xs)
	if len(xs) == 0 {
		return "-"
	}
	return strings.Join(xs, ",")
}

func c23Msgs(m map[string]string) string {
	var xs []string
	for k, v := range m {
		c := "M" + hexs(v)
		if strings.HasPrefix(v, "Invalid key query response type: ") {
			c = "I"
		} else if strings.HasPrefix(v, "Failed to decode key query response: ") {
			c = "F"
		}
		xs = append(xs, hexs(k)+":"+c)
	}
	sort.Strings(xs)
	if len(xs) == 0 {
		return "-"
	}
	return strings.Join(xs, ",")
}

// c23ParseReply: `<from>/<cls>` → NodeResponse with a payload built by the real encoder.
func c23ParseReply(s string) (serf.NodeResponse, bool) {
	p := strings.Split(s, "/")
	from := unhex(p[0])
	if from == nil || len(p) < 2 {
		return serf.NodeResponse{}, false
	}
	nr := serf.NodeResponse{From: string(from)}
	switch {
	case len(p) == 2 && (p[1][0] == 'T' || p[1][0] == 'U'):
		b := unhex(p[1][1:])
		if b == nil {
			return nr, false
		}
		nr.Payload = b
		return nr, true
	case len(p) == 6 && len(p[1]) > 1 && p[1][0] == 'R' && (p[2] == "D0" || p[2] == "D1"):
		b := unhex(p[1][1:])
		if b == nil {
			return nr, false
		}
		nr.Payload = b
		return nr, true
	case len(p) == 5 && (p[1] == "D0" || p[1] == "D1"):
		msg, prim := unhex(p[2]), unhex(p[3])
		if msg == nil || prim == nil {
			return nr, false
		}
		var keys []string
		if p[4] != "_" {
			for _, k := range strings.Split(p[4], ".") {
				kb := unhex(k)
				if kb == nil {
					return nr, false
				}
				keys = append(keys, string(kb))
			}
		}
		nr.Payload = serf.VerifEncodeKeyResponse(p[1] == "D1", string(msg), keys, string(prim))
		return nr, true
	}
	return nr, false
}

// c23Partial hand-encodes a key reply as a msgpack map carrying only the chosen fields (in the given
// order) — what a release without some field, or an encoder that omits empty fields, sends.  It returns the
// payload (with the type byte) and the op-line description of what it decodes to: absent = zero value.
func c23Partial(fields []string, result bool, msg string, keys []string, prim string) (payload []byte, desc string) {
	str := func(b []byte, s string) []byte {
		if len(s) < 32 {
			b = append(b, 0xa0|byte(len(s)))
		} else {
			b = append(b, 0xd9, byte(len(s)))
		}
		return append(b, s...)
	}
	b := []byte{8, 0x80 | byte(len(fields))}
	dRes, dMsg, dPrim, dKeys := false, "", "", []string(nil)
	for _, f := range fields {
		b = str(b, f)
		switch f {
		case "Result":
			if result {
				b = append(b, 0xc3)
			} else {
				b = append(b, 0xc2)
			}
			dRes = result
		case "Message":
			b = str(b, msg)
			dMsg = msg
		case "PrimaryKey":
			b = str(b, prim)
			dPrim = prim
		case "Keys":
			b = append(b, 0x90|byte(len(keys)))
			for _, k := range keys {
				b = str(b, k)
			}
			dKeys = keys
		}
	}
	d := "D0"
	if dRes {
		d = "D1"
	}
	ks := "_"
	if len(dKeys) > 0 {
		var hs []string
		for _, k := range dKeys {
			hs = append(hs, hexs(k))
		}
		ks = strings.Join(hs, ".")
	}
	return b, fmt.Sprintf("R%s/%s/%s/%s/%s", hexb(b), d, hexs(dMsg), hexs(dPrim), ks)
}

type c23Node struct {
	n *qnode
}

var c23Nodes = map[string]*c23Node{}

func c23Get(flavour string) *c23Node {
	if x := c23Nodes[flavour]; x != nil {
		return x
	}
	o := qnodeOpts{name: "self", gossip: 50 * time.Millisecond, timeoutMult: 40}
	switch flavour {
	case "enc", "tiny":
		k1 := []byte("0123456789abcdef")
		k2 := []byte("fedcba9876543210fedcba9876543210")
		kr, err := memberlist.NewKeyring([][]byte{k1, k2}, k1)
		if err != nil {
			panic(err)
		}
		o.keyring = kr
		if flavour == "tiny" {
			o.respLimit = 40
			o.gossip, o.timeoutMult = 5*time.Millisecond, 4
		}
	}
	n, err := newQNode(o)
	if err != nil {
		panic(err)
	}
	x := &c23Node{n: n}
	c23Nodes[flavour] = x
	return x
}

func c23ListKeys(flavour string) string {
	x := c23Get(flavour)
	x.n.tr.take()
	type res struct {
		r   *serf.KeyResponse
		err error
	}
	done := make(chan res, 1)
	go func() {
		r, err := x.n.s.KeyManager().ListKeys()
		done <- res{r, err}
	}()
	for {
		select {
		case d := <-done:
			e := "none"
			if d.err != nil {
				msg := d.err.Error()
				var a, b int
				if _, err := fmt.Sscanf(msg, "%d/%d nodes reported failure", &a, &b); err == nil && strings.HasSuffix(msg, "failure") {
					e = fmt.Sprintf("fail:%d/%d", a, b)
				} else if _, err := fmt.Sscanf(msg, "%d/%d nodes reported success", &a, &b); err == nil && strings.HasSuffix(msg, "success") {
					e = fmt.Sprintf("miss:%d/%d", a, b)
				} else {
					e = "other"
				}
			}
			return fmt.Sprintf("%d %d %d err=%s k=%s p=%s", d.r.NumNodes, d.r.NumResp, d.r.NumErr, e, c23Counts(d.r.Keys), c23Counts(d.r.PrimaryKeys))
		default:
		}
		// the transport: deliver the node's packets to itself
		for _, p := range x.n.tr.take() {
			if m := serfMsgOf(p); m != nil && p.Name == "self" {
				x.n.msg(m)
			}
		}
		time.Sleep(50 * time.Microsecond)
	}
}

func c23Exec(ops []string) []string {
	var outs []string
	for _, o := range ops {
		f := strings.Fields(o)
		switch {
		case len(f) >= 2 && f[0] == "agg":
			n, err := strconv.Atoi(f[1])
			if err != nil {
				outs = append(outs, "bad-op")
				continue
			}
			var rs []serf.NodeResponse
			bad := false
			for _, r := range f[2:] {
				nr, ok := c23ParseReply(r)
				if !ok {
					bad = true
					break
				}
				rs = append(rs, nr)
			}
			if bad {
				outs = append(outs, "bad-op")
				continue
			}
			kr := serf.VerifStreamKeyResp(n, rs)
			outs = append(outs, fmt.Sprintf("%d %d k=%s p=%s m=%s", kr.NumResp, kr.NumErr, c23Counts(kr.Keys), c23Counts(kr.PrimaryKeys), c23Msgs(kr.Messages)))
		case len(f) == 2 && f[0] == "listkeys" && (f[1] == "enc" || f[1] == "noenc" || f[1] == "tiny"):
			outs = append(outs, c23ListKeys(f[1]))
		case len(f) == 9 && f[0] == "klist":
			outs = append(outs, c23KList(f))
		default:
			outs = append(outs, "bad-op")
		}
	}
	return outs
}

// klist <limit> <actual> <sfull> <sizes> <keylen> <nodename> <lt> <id>   (the last four fields are not read by the checker)
type c23KL struct {
	limit, actual, keylen int
	node                  string
	lt                    uint64
	id                    uint32
}

func (c c23KL) keys() []string {
	ks := make([]string, c.actual)
	for i := range ks {
		s := fmt.Sprintf("%04d", i)
		for len(s) < c.keylen {
			s += "KfCPZAKdgHUOdb202afZfE8EbdZqj4+ReTbfJUkfKsg="
		}
		ks[i] = s[:c.keylen]
	}
	return ks
}

func (c c23KL) notice(i int) string {
	return fmt.Sprintf("truncated key list response, showing first %d of %d keys", i, c.actual)
}

func (c c23KL) op() string {
	ks := c.keys()
	prim := ""
	if len(ks) > 0 {
		prim = ks[0]
	}
	sfull := serf.VerifKeyListSize(c.node, serf.LamportTime(c.lt), c.id, ks, prim, "")
	m := c.limit / 25
	if m > c.actual {
		m = c.actual
	}
	var sz []string
	for j := 1; j <= m; j++ {
		sz = append(sz, strconv.Itoa(serf.VerifKeyListSize(c.node, serf.LamportTime(c.lt), c.id, ks[:j], prim, c.notice(j))))
	}
	szs := "-"
	if len(sz) > 0 {
		szs = strings.Join(sz, ",")
	}
	return fmt.Sprintf("klist %d %d %d %s %d %s %d %d", c.limit, c.actual, sfull, szs, c.keylen, hexs(c.node), c.lt, c.id)
}

func c23KList(f []string) string {
	var c c23KL
	var e1, e2, e3, e4, e5 error
	c.limit, e1 = strconv.Atoi(f[1])
	c.actual, e2 = strconv.Atoi(f[2])
	c.keylen, e3 = strconv.Atoi(f[5])
	nb := unhex(f[6])
	c.lt, e4 = strconv.ParseUint(f[7], 10, 64)
	id, e5 := strconv.ParseUint(f[8], 10, 32)
	if e1 != nil || e2 != nil || e3 != nil || e4 != nil || e5 != nil || nb == nil || c.actual > 5000 || c.keylen < 4 || c.keylen > 200 {
		return "bad-op"
	}
	c.node, c.id = string(nb), uint32(id)
	ks := c.keys()
	prim := ""
	if len(ks) > 0 {
		prim = ks[0]
	}
	rawLen, shown, msg, err := serf.VerifKeyListResponse(c.limit, c.node, serf.LamportTime(c.lt), c.id, append([]string{}, ks...), prim, "")
	if err != nil {
		return "err"
	}
	prefix := 1
	if len(shown) > len(ks) {
		prefix = 0
	} else {
		for i := range shown {
			if shown[i] != ks[i] {
				prefix = 0
			}
		}
	}
	notice := "?"
	if msg == "" {
		notice = "-"
	} else if m := c23Trunc.FindStringSubmatch(msg); m != nil {
		notice = "t" + m[1] + "/" + m[2]
	}
	return fmt.Sprintf("ok %d %d %s prefix=%d", rawLen, len(shown), notice, prefix)
}

func c23Gen(rng *rand.Rand, tier string) []Case {
	var out []Case
	nAgg, nKL, nLK := 1500, 500, 4
	if tier == "thorough" {
		nAgg, nKL, nLK = 150000, 50000, 40
	}
	names := []string{"a", "b", "c", "d", "e", "node f", ""}
	keyPool := []string{"k1", "k2", "KfCPZAKdgHUOdb202afZfE8EbdZqj4+ReTbfJUkfKsg=", "", "k3"}
	for i := 0; i < nAgg; i++ {
		numNodes := rng.Intn(7)
		cnt := rng.Intn(9)
		var rs []string
		kinds := map[string]bool{}
		for j := 0; j < cnt; j++ {
			from := names[rng.Intn(len(names))]
			if rng.Intn(2) == 0 {
				from = fmt.Sprintf("n%d", j)
			}
			switch rng.Intn(9) {
			case 7, 8: // well-formed reply that omits fields (older release / minimal encoder), any field order
				all := []string{"Result", "Message", "Keys", "PrimaryKey"}
				rng.Shuffle(len(all), func(a, b int) { all[a], all[b] = all[b], all[a] })
				fields := all[:rng.Intn(4)]
				if rng.Intn(3) == 0 {
					fields = []string{"Result"} // minimal {Result: …}
				} else if rng.Intn(3) == 0 {
					fields = []string{"Result", "Message", "Keys"} // a release without PrimaryKey
				}
				var keys []string
				for x, nk := 0, rng.Intn(3); x < nk; x++ {
					keys = append(keys, keyPool[rng.Intn(len(keyPool))])
				}
				msg := []string{"", "boom", "note"}[rng.Intn(3)]
				_, desc := c23Partial(fields, rng.Intn(4) != 0, msg, keys, keyPool[rng.Intn(len(keyPool))])
				rs = append(rs, hexs(from)+"/"+desc)
				kinds["partial"] = true
			case 0: // wrong type byte / empty payload
				p := [][]byte{{}, {5, 0x80}, {6}, {0}, append([]byte{7}, serf.VerifEncodeKeyResponse(true, "", nil, "")[1:]...)}[rng.Intn(5)]
				rs = append(rs, hexs(from)+"/T"+hexb(p))
				kinds["T"] = true
			case 1: // right type byte, broken msgpack
				good := serf.VerifEncodeKeyResponse(true, "m", []string{"k1", "k2"}, "k1")
				p := [][]byte{{8}, {8, 0xc1}, good[:1+rng.Intn(len(good)-2)], {8, 0xa5, 'a'}}[rng.Intn(4)]
				rs = append(rs, hexs(from)+"/U"+hexb(p))
				kinds["U"] = true
			default:
				res := rng.Intn(4) != 0
				msg := ""
				if rng.Intn(3) == 0 {
					msg = []string{"boom", "warn: x", "truncated key list response, showing first 1 of 2 keys"}[rng.Intn(3)]
				}
				var keys []string
				nk := rng.Intn(4)
				for x := 0; x < nk; x++ {
					keys = append(keys, hexs(keyPool[rng.Intn(len(keyPool))]))
				}
				ks := "_"
				if len(keys) > 0 {
					ks = strings.Join(keys, ".")
				}
				prim := keyPool[rng.Intn(len(keyPool))]
				d := "D0"
				if res {
					d = "D1"
					kinds["ok"] = true
				} else {
					kinds["failed"] = true
				}
				rs = append(rs, fmt.Sprintf("%s/%s/%s/%s/%s", hexs(from), d, hexs(msg), hexs(prim), ks))
			}
		}
		op := fmt.Sprintf("agg %d", numNodes)
		if len(rs) > 0 {
			op += " " + strings.Join(rs, " ")
		}
		out = append(out, Case{ID: fmt.Sprintf("a%d", i), Ops: []string{op},
			Nontrivial: kinds["ok"] && (kinds["failed"] || kinds["partial"]) && (kinds["T"] || kinds["U"]), Tags: []string{"agg"}})
	}
	for i := 0; i < nKL; i++ {
		c := c23KL{limit: rng.Intn(4097), actual: rng.Intn(201), keylen: []int{4, 5, 8, 24, 44, 44, 44, 64}[rng.Intn(8)],
			node: []string{"", "n", "node-with-a-long-name-0123456789"}[rng.Intn(3)], lt: uint64(rng.Intn(3)) * 70000, id: uint32(rng.Intn(2)) * 4000000000}
		switch rng.Intn(6) {
		case 0:
			c.limit = rng.Intn(200)
		case 1:
			c.actual = rng.Intn(4)
		case 2: // around the point where everything just fits
			c.actual = 1 + rng.Intn(30)
			c.limit = serf.VerifKeyListSize(c.node, serf.LamportTime(c.lt), c.id, c.keys(), c.keys()[0], "") + rng.Intn(5) - 2
			if c.limit < 0 {
				c.limit = 0
			}
		}
		op := c.op()
		// non-trivial: truncation happens and succeeds — decided by the sizes: full does not fit, some prefix fits
		f := strings.Fields(op)
		sfull, _ := strconv.Atoi(f[3])
		nt := false
		if sfull > c.limit && f[4] != "-" {
			for _, s := range strings.Split(f[4], ",") {
				if v, _ := strconv.Atoi(s); v <= c.limit {
					nt = true
				}
			}
		}
		out = append(out, Case{ID: fmt.Sprintf("k%d", i), Ops: []string{op}, Nontrivial: nt, Tags: []string{"klist"}})
	}
	for i := 0; i < nLK; i++ {
		out = append(out, Case{ID: fmt.Sprintf("l%d", i), Ops: []string{"listkeys enc", "listkeys noenc", "listkeys tiny"}, Nontrivial: true, Tags: []string{"real-node"}})
	}
	return out
}

func init() {
	register(&Prop{
		ID: "C23",
		Rule: "agg: the real streamKeyResp on 0–8 replies for 0–6 members: ok / Result=false / wrong type byte or empty / broken msgpack / well-formed msgpack maps that omit fields (minimal {Result}, no PrimaryKey, any subset in any field order; absent fields decode to zero values), sender names with repeats, keys from a pool of 5 (repeats within a reply allowed), with and without messages; " +
			"klist: the real truncation loop for limits 0–4096 (and just around the size of the full reply), 0–200 keys of length 4–64, three node-name lengths, small and large Lamport time/id; sizes of the full reply and of every prefix M…1 with its notice come from the real encoders; " +
			"listkeys: ListKeys() on three real nodes (keyring: success; no keyring: a failed reply; response limit too small for any reply: nobody answers before the timeout); " +
			"non-trivial = agg mixes ok, failed-or-partial and undecodable replies / klist truncates and succeeds / listkeys; distinct = distinct op",
		Gen:  c23Gen,
		Exec: c23Exec,
	})
}
