package main

import (
	"errors"
	"io"
	"net"
	"strconv"
	"sync"
	"time"

	"github.com/hashicorp/memberlist"
	"github.com/hashicorp/serf/serf"
)

// A real single Serf node (serf.Create + a real memberlist) for C05 / C08. The
// memberlist transport is replaced by a recording one: the node has no peers, so
// nothing is ever sent except what Serf itself sends through
// memberlist.SendToAddress (query acks, replies); those packets are captured.

type recPacket struct {
	addr string
	data []byte
}

type recTransport struct {
	mu       sync.Mutex
	packets  []recPacket
	packetCh chan *memberlist.Packet
	streamCh chan net.Conn
}

func newRecTransport() *recTransport {
	return &recTransport{packetCh: make(chan *memberlist.Packet), streamCh: make(chan net.Conn)}
}

func (t *recTransport) FinalAdvertiseAddr(ip string, port int) (net.IP, int, error) {
	return net.IPv4(127, 0, 0, 1), 7946, nil
}

func (t *recTransport) WriteTo(b []byte, addr string) (time.Time, error) {
	t.mu.Lock()
	t.packets = append(t.packets, recPacket{addr: addr, data: append([]byte(nil), b...)})
	t.mu.Unlock()
	return time.Now(), nil
}

func (t *recTransport) PacketCh() <-chan *memberlist.Packet { return t.packetCh }

func (t *recTransport) DialTimeout(addr string, timeout time.Duration) (net.Conn, error) {
	return nil, errors.New("verif: no network")
}

func (t *recTransport) StreamCh() <-chan net.Conn { return t.streamCh }

func (t *recTransport) Shutdown() error { return nil }

// take returns and clears the packets written to addr; packets to other
// addresses (late replies of earlier internal queries) are dropped.
func (t *recTransport) take(addr string) [][]byte {
	t.mu.Lock()
	defer t.mu.Unlock()
	var out [][]byte
	for _, p := range t.packets {
		if p.addr == addr {
			out = append(out, p.data)
		}
	}
	t.packets = nil
	return out
}

// barrierEvent is pushed through the node's event pipeline to know that
// everything queued before it has reached the application channel.
type barrierEvent struct{}

func (barrierEvent) EventType() serf.EventType { return serf.EventType(-1) }
func (barrierEvent) String() string            { return "verif-barrier" }

type evNode struct {
	s    *serf.Serf
	conf *serf.Config
	ch   chan serf.Event
	tr   *recTransport
}

func newEvNode(name string, tags map[string]string, eventBuf, queryBuf int) (*evNode, error) {
	conf := serf.DefaultConfig()
	conf.Init()
	conf.NodeName = name
	conf.Tags = tags
	conf.EventBuffer = eventBuf
	conf.QueryBuffer = queryBuf
	conf.CoalescePeriod = 0
	conf.UserCoalescePeriod = 0
	conf.LogOutput = io.Discard
	conf.MemberlistConfig.LogOutput = io.Discard
	conf.MemberlistConfig.BindAddr = "127.0.0.1"
	conf.MemberlistConfig.EnableCompression = false
	tr := newRecTransport()
	conf.MemberlistConfig.Transport = tr
	ch := make(chan serf.Event, 1<<14)
	conf.EventCh = ch
	s, err := serf.Create(conf)
	if err != nil {
		return nil, err
	}
	n := &evNode{s: s, conf: conf, ch: ch, tr: tr}
	n.drain() // the node's own join event
	return n, nil
}

func (n *evNode) close() { _ = n.s.Shutdown() }

// drain returns everything that reached the application channel so far. After
// Create, conf.EventCh is the entry of the node's internal pipeline (the
// internal-query interceptor, serfQueries.stream); the barrier travels the same
// FIFO path as the node's own deliveries.
func (n *evNode) drain() []serf.Event {
	n.conf.EventCh <- barrierEvent{}
	var out []serf.Event
	for e := range n.ch {
		if _, ok := e.(barrierEvent); ok {
			return out
		}
		out = append(out, e)
	}
	return out
}

func (n *evNode) stat(key string) uint64 {
	v, _ := strconv.ParseUint(n.s.Stats()[key], 10, 64)
	return v
}

func (n *evNode) notifyMsg(b []byte) { n.conf.MemberlistConfig.Delegate.NotifyMsg(b) }

func (n *evNode) mergeRemoteState(b []byte, isJoin bool) {
	n.conf.MemberlistConfig.Delegate.MergeRemoteState(b, isJoin)
}
