package main

import (
	"bytes"
	"encoding/binary"
	"fmt"
	"io"
	"math/rand"
	"net"
	"os"
	"reflect"
	"sort"
	"strconv"
	"strings"
	"sync"
	"time"

	"github.com/hashicorp/go-msgpack/v2/codec"
	"github.com/hashicorp/serf/cmd/serf/command/agent"
	"github.com/hashicorp/serf/serf"
	"github.com/hashicorp/serf/testutil"
)

// C24: a real agent + AgentIPC listeners on loopback TCP (one listener per auth key),
// a raw TCP client that writes arbitrary msgpack object sequences, and observation of
// the agent side: the agent's own log (one line per agent method called), the events
// delivered to a registered event handler, the local member's tags, the Serf state.

// ---------------------------------------------------------------- msgpack text form

func mpInt(b *bytes.Buffer, s string) bool {
	if strings.HasPrefix(s, "-") {
		n, err := strconv.ParseInt(s, 10, 64)
		if err != nil {
			return false
		}
		switch {
		case n >= -32:
			b.WriteByte(byte(n))
		case n >= -128:
			b.WriteByte(0xd0)
			b.WriteByte(byte(n))
		case n >= -32768:
			b.WriteByte(0xd1)
			_ = binary.Write(b, binary.BigEndian, int16(n))
		case n >= -2147483648:
			b.WriteByte(0xd2)
			_ = binary.Write(b, binary.BigEndian, int32(n))
		default:
			b.WriteByte(0xd3)
			_ = binary.Write(b, binary.BigEndian, n)
		}
		return true
	}
	n, err := strconv.ParseUint(s, 10, 64)
	if err != nil {
		return false
	}
	switch {
	case n < 128:
		b.WriteByte(byte(n))
	case n <= 0xff:
		b.WriteByte(0xcc)
		b.WriteByte(byte(n))
	case n <= 0xffff:
		b.WriteByte(0xcd)
		_ = binary.Write(b, binary.BigEndian, uint16(n))
	case n <= 0xffffffff:
		b.WriteByte(0xce)
		_ = binary.Write(b, binary.BigEndian, uint32(n))
	default:
		b.WriteByte(0xcf)
		_ = binary.Write(b, binary.BigEndian, n)
	}
	return true
}

func mpStr(b *bytes.Buffer, s []byte) {
	switch n := len(s); {
	case n < 32:
		b.WriteByte(0xa0 | byte(n))
	case n < 256:
		b.WriteByte(0xd9)
		b.WriteByte(byte(n))
	default:
		b.WriteByte(0xda)
		_ = binary.Write(b, binary.BigEndian, uint16(n))
	}
	b.Write(s)
}

func mpBin(b *bytes.Buffer, s []byte) {
	if len(s) < 256 {
		b.WriteByte(0xc4)
		b.WriteByte(byte(len(s)))
	} else {
		b.WriteByte(0xc5)
		_ = binary.Write(b, binary.BigEndian, uint16(len(s)))
	}
	b.Write(s)
}

func mpLen(b *bytes.Buffer, n int, fix, big byte) {
	if n < 16 {
		b.WriteByte(fix | byte(n))
	} else {
		b.WriteByte(big)
		_ = binary.Write(b, binary.BigEndian, uint16(n))
	}
}

func mpAtom(b *bytes.Buffer, s string) bool {
	if s == "" {
		return false
	}
	switch s[0] {
	case 'n':
		b.WriteByte(0xc0)
		return len(s) == 1
	case 't':
		b.WriteByte(0xc3)
		return len(s) == 1
	case 'f':
		b.WriteByte(0xc2)
		return len(s) == 1
	case 'i':
		return mpInt(b, s[1:])
	case 's':
		x := unhex(s[1:])
		if x == nil {
			return false
		}
		mpStr(b, x)
		return true
	case 'b':
		x := unhex(s[1:])
		if x == nil {
			return false
		}
		mpBin(b, x)
		return true
	}
	return false
}

func splitNE(s, sep string) []string {
	if s == "" {
		return nil
	}
	return strings.Split(s, sep)
}

func mpVal(b *bytes.Buffer, s string) bool {
	if s == "" {
		return false
	}
	switch s[0] {
	case 'L':
		items := splitNE(s[1:], ";")
		mpLen(b, len(items), 0x90, 0xdc)
		for _, it := range items {
			if !mpAtom(b, it) {
				return false
			}
		}
		return true
	case 'D':
		items := splitNE(s[1:], ";")
		mpLen(b, len(items), 0x80, 0xde)
		for _, it := range items {
			kv := strings.Split(it, ":")
			if len(kv) != 2 {
				return false
			}
			k := unhex(kv[0])
			if k == nil {
				return false
			}
			mpStr(b, k)
			if !mpAtom(b, kv[1]) {
				return false
			}
		}
		return true
	}
	return mpAtom(b, s)
}

// c24Encode turns the text form of an object (see IpcCodec.lean) into msgpack bytes.
// `X` is an invalid object: the reserved type byte 0xc1.
func c24Encode(s string) ([]byte, bool) {
	var b bytes.Buffer
	if s == "" {
		return nil, false
	}
	switch s[0] {
	case 'X':
		return []byte{0xc1}, len(s) == 1
	case 'V':
		ok := mpAtom(&b, s[1:])
		return b.Bytes(), ok
	case 'A':
		items := splitNE(s[1:], ",")
		mpLen(&b, len(items), 0x90, 0xdc)
		for _, it := range items {
			if !mpVal(&b, it) {
				return nil, false
			}
		}
		return b.Bytes(), true
	case 'M':
		items := splitNE(s[1:], ",")
		mpLen(&b, len(items), 0x80, 0xde)
		for _, it := range items {
			kv := strings.Split(it, "=")
			if len(kv) != 2 {
				return nil, false
			}
			k := unhex(kv[0])
			if k == nil {
				return nil, false
			}
			mpStr(&b, k)
			if !mpVal(&b, kv[1]) {
				return nil, false
			}
		}
		return b.Bytes(), true
	}
	return nil, false
}

// ---------------------------------------------------------------- the agent under test

type c24Log struct {
	mu    sync.Mutex
	lines []string
}

func (l *c24Log) Write(p []byte) (int, error) {
	l.mu.Lock()
	l.lines = append(l.lines, strings.TrimRight(string(p), "\n"))
	if len(l.lines) > 200000 {
		l.lines = l.lines[100000:]
	}
	l.mu.Unlock()
	return len(p), nil
}

func (l *c24Log) mark() int {
	l.mu.Lock()
	defer l.mu.Unlock()
	return len(l.lines)
}

func (l *c24Log) since(m int) []string {
	l.mu.Lock()
	defer l.mu.Unlock()
	if m > len(l.lines) {
		m = 0
	}
	return append([]string{}, l.lines[m:]...)
}

type c24Handler struct {
	mu      sync.Mutex
	evs     []string
	onQuery func(q *serf.Query) // set by the C25 end-to-end query runs
}

func (h *c24Handler) HandleEvent(e serf.Event) {
	var s string
	switch ev := e.(type) {
	case serf.UserEvent:
		c := "0"
		if ev.Coalesce {
			c = "1"
		}
		s = "u:" + hexs(ev.Name) + ":" + hexb(ev.Payload) + ":" + c
	case *serf.Query:
		s = "q:" + hexs(ev.Name) + ":" + hexb(ev.Payload)
		h.mu.Lock()
		f := h.onQuery
		h.mu.Unlock()
		if f != nil {
			f(ev)
		}
	default:
		return
	}
	h.mu.Lock()
	h.evs = append(h.evs, s)
	h.mu.Unlock()
}

func (h *c24Handler) take() []string {
	h.mu.Lock()
	defer h.mu.Unlock()
	out := h.evs
	h.evs = nil
	return out
}

func (h *c24Handler) peek() []string {
	h.mu.Lock()
	defer h.mu.Unlock()
	return append([]string{}, h.evs...)
}

type c24Env struct {
	agent   *agent.Agent
	release func()
	log     *c24Log
	newIPC  func(key string, l net.Listener) *agent.AgentIPC
	handler *c24Handler
	ipcs    map[string]*agent.AgentIPC
	addrs   map[string]string
	n       int
}

var c24env *c24Env

// c24NewEnv retries with further loopback addresses: other processes on the machine may
// hold the one testutil hands out.
func c24NewEnv() (*c24Env, error) {
	var err error
	for i := 0; i < 40; i++ {
		var e *c24Env
		if e, err = c24NewEnvOnce(); err == nil {
			return e, nil
		}
		time.Sleep(time.Duration(5*(i+1)) * time.Millisecond)
	}
	return nil, err
}

func c24NewEnvOnce() (*c24Env, error) {
	// testutil reports retries on os.Stdout, which in exec mode carries the trace
	stdout := os.Stdout
	os.Stdout = os.Stderr
	ip, ret := testutil.TakeIP()
	os.Stdout = stdout
	sc := serf.DefaultConfig()
	sc.Init()
	sc.MemberlistConfig.BindAddr = ip.String()
	sc.MemberlistConfig.ProbeInterval = 100 * time.Millisecond
	sc.MemberlistConfig.TCPTimeout = 200 * time.Millisecond
	sc.MemberlistConfig.RequireNodeNames = true
	sc.NodeName = "node-" + ip.String()
	sc.LeavePropagateDelay = 2 * time.Millisecond
	sc.BroadcastTimeout = 200 * time.Millisecond
	sc.ReapInterval = time.Hour
	sc.ReconnectInterval = time.Hour
	lg := &c24Log{}
	lw := agent.NewLogWriter(512)
	a, err := agent.Create(agent.DefaultConfig(), sc, io.MultiWriter(lg, lw))
	if err != nil {
		return nil, err
	}
	h := &c24Handler{}
	a.RegisterEventHandler(h)
	if err := a.Start(); err != nil {
		_ = a.Shutdown()
		return nil, err
	}
	newIPC := func(key string, l net.Listener) *agent.AgentIPC { return agent.NewAgentIPC(a, key, l, lg, lw, false) }
	return &c24Env{agent: a, release: ret, log: lg, newIPC: newIPC, handler: h, ipcs: map[string]*agent.AgentIPC{}, addrs: map[string]string{}}, nil
}

func (e *c24Env) close() {
	for _, i := range e.ipcs {
		i.Shutdown()
	}
	_ = e.agent.Shutdown()
	e.release()
}

func (e *c24Env) alive() bool {
	return e.agent.Serf().State() == serf.SerfAlive
}

func (e *c24Env) addr(key string) (string, error) {
	if a, ok := e.addrs[key]; ok {
		return a, nil
	}
	l, err := net.Listen("tcp", "127.0.0.1:0")
	if err != nil {
		return "", err
	}
	e.ipcs[key] = e.newIPC(key, l)
	e.addrs[key] = l.Addr().String()
	return e.addrs[key], nil
}

func c24GetEnv() (*c24Env, error) {
	if c24env != nil && !c24env.alive() {
		c24env.close()
		c24env = nil
	}
	if c24env == nil {
		e, err := c24NewEnv()
		if err != nil {
			return nil, err
		}
		c24env = e
	}
	return c24env, nil
}

// ---------------------------------------------------------------- reply stream

type c24Reply struct {
	seq  uint64
	err  string
	data bool
}

func c24IsHeader(v any) (uint64, string, bool) {
	m, ok := v.(map[string]any)
	if !ok || len(m) != 2 {
		return 0, "", false
	}
	s, ok1 := m["Seq"]
	e, ok2 := m["Error"]
	if !ok1 || !ok2 {
		return 0, "", false
	}
	var seq uint64
	switch x := s.(type) {
	case uint64:
		seq = x
	case int64:
		seq = uint64(x)
	default:
		return 0, "", false
	}
	es, ok := e.(string)
	if !ok {
		if eb, ok2 := e.([]byte); ok2 {
			es = string(eb)
		} else {
			return 0, "", false
		}
	}
	return seq, es, true
}

func c24IsStreamRecord(v any) bool {
	m, ok := v.(map[string]any)
	if !ok {
		return false
	}
	for _, k := range []string{"Event", "Type", "Log"} {
		if _, ok := m[k]; ok {
			return true
		}
	}
	return false
}

// c24ParseReplies splits the raw reply bytes into command replies and stream records.
func c24ParseReplies(raw []byte) (replies []c24Reply, recSeqs []uint64, recs []map[string]any, malformed bool) {
	h := &codec.MsgpackHandle{}
	h.RawToString = true
	h.MapType = reflect.TypeOf(map[string]any{})
	dec := codec.NewDecoder(bytes.NewReader(raw), h)
	var objs []any
	for {
		var v any
		if err := dec.Decode(&v); err != nil {
			break
		}
		objs = append(objs, v)
	}
	for i := 0; i < len(objs); i++ {
		seq, es, ok := c24IsHeader(objs[i])
		if !ok {
			return replies, recSeqs, recs, true
		}
		r := c24Reply{seq: seq, err: es}
		if i+1 < len(objs) {
			if _, _, isH := c24IsHeader(objs[i+1]); !isH {
				i++
				if c24IsStreamRecord(objs[i]) {
					recSeqs = append(recSeqs, seq)
					recs = append(recs, objs[i].(map[string]any))
					continue
				}
				r.data = true
			}
		}
		replies = append(replies, r)
	}
	return replies, recSeqs, recs, false
}

func c24ErrName(e string) string {
	switch e {
	case "Handshake required":
		return "hs-required"
	case "Authentication required":
		return "auth-required"
	case "Invalid authentication token":
		return "bad-token"
	case "Unsupported IPC version":
		return "bad-version"
	case "Handshake already performed":
		return "dup-handshake"
	case "Unsupported command":
		return "bad-command"
	}
	return "ok" // "" or whatever the agent method returned for an accepted command
}

func c24Calls(lines []string) []string {
	var out []string
	between := func(l, a, b string) (string, bool) {
		i := strings.Index(l, a)
		if i < 0 {
			return "", false
		}
		rest := l[i+len(a):]
		if b == "" {
			return rest, true
		}
		j := strings.Index(rest, b)
		if j < 0 {
			return "", false
		}
		return rest[:j], true
	}
	for _, l := range lines {
		if n, ok := between(l, "agent: Requesting user event send: ", ". Coalesced:"); ok {
			out = append(out, "event:"+hexs(n))
		} else if n, ok := between(l, "agent: Requesting query send: ", ". Payload:"); ok {
			out = append(out, "query:"+hexs(n))
		} else if n, ok := between(l, "agent: joining: [", "] replay: "); ok {
			rp, _ := between(l, "] replay: ", "")
			var hx []string
			for _, a := range splitNE(n, " ") {
				hx = append(hx, hexs(a))
			}
			r := "0"
			if rp == "true" {
				r = "1"
			}
			out = append(out, "join:l"+strings.Join(hx, ";")+":"+r)
		} else if n, ok := between(l, "agent: Force leaving node (prune): ", ""); ok {
			out = append(out, "force-leave:"+hexs(n)+":1")
		} else if n, ok := between(l, "agent: Force leaving node: ", ""); ok {
			out = append(out, "force-leave:"+hexs(n)+":0")
		} else if strings.Contains(l, "agent: requesting graceful leave") {
			out = append(out, "leave")
		} else if strings.Contains(l, "agent: Initiating key installation") {
			out = append(out, "install-key")
		} else if strings.Contains(l, "agent: Initiating primary key change") {
			out = append(out, "use-key")
		} else if strings.Contains(l, "agent: Initiating key removal") {
			out = append(out, "remove-key")
		} else if strings.Contains(l, "agent: Initiating key listing") {
			out = append(out, "list-keys")
		}
	}
	return out
}

func c24Join(l []string) string {
	if len(l) == 0 {
		return "-"
	}
	return strings.Join(l, "+")
}

const c24Deadline = 60 * time.Second

func c24Exec(ops []string) []string {
	outs := make([]string, 0, len(ops))
	var key string
	var wire bytes.Buffer
	recs := -1
	for _, op := range ops {
		f := strings.Fields(op)
		switch {
		case len(f) == 2 && f[0] == "conn":
			k := unhex(f[1])
			if k == nil {
				outs = append(outs, "bad-op")
				continue
			}
			key = string(k)
			outs = append(outs, "ok")
		case len(f) == 2 && f[0] == "obj":
			b, ok := c24Encode(f[1])
			if !ok {
				outs = append(outs, "bad-op")
				continue
			}
			wire.Write(b)
			outs = append(outs, "ok")
		case len(f) == 1 && f[0] == "run":
			res, n := c24Run(key, wire.Bytes())
			recs = n
			outs = append(outs, res)
		case len(f) == 1 && f[0] == "recs":
			outs = append(outs, strconv.Itoa(recs))
		default:
			outs = append(outs, "bad-op")
		}
	}
	return outs
}

func c24Run(key string, wire []byte) (string, int) {
	env, err := c24GetEnv()
	if err != nil {
		return "ERR env " + err.Error(), -1
	}
	if len(env.agent.Serf().LocalMember().Tags) != 0 {
		if err := env.agent.SetTags(map[string]string{}); err != nil {
			return "ERR reset-tags " + err.Error(), -1
		}
	}
	addr, err := env.addr(key)
	if err != nil {
		return "ERR listen " + err.Error(), -1
	}
	env.handler.take()
	mark := env.log.mark()
	c, err := net.Dial("tcp", addr)
	if err != nil {
		return "ERR dial " + err.Error(), -1
	}
	defer c.Close()
	_ = c.SetDeadline(time.Now().Add(c24Deadline))
	// read concurrently so that a long reply stream can never block the agent's writes
	type rd struct {
		b   []byte
		err error
	}
	ch := make(chan rd, 1)
	go func() {
		b, err := io.ReadAll(c)
		ch <- rd{b, err}
	}()
	if _, err := c.Write(wire); err != nil {
		// the agent may already have closed the connection (handshake gate); not an error
		_ = err
	}
	_ = c.(*net.TCPConn).CloseWrite()
	r := <-ch
	if r.err != nil {
		// a reset after the agent closed with unread input is fine; a deadline is not
		if ne, ok := r.err.(net.Error); ok && ne.Timeout() {
			return "ERR read-timeout", -1
		}
	}
	replies, _, recs, malformed := c24ParseReplies(r.b)
	if malformed {
		return "MALFORMED-REPLY-STREAM " + hexb(r.b), len(recs)
	}
	calls := c24Calls(env.log.since(mark))
	state := "alive"
	if !env.alive() {
		state = "down"
	}
	var evs []string
	if state == "alive" {
		// everything the case fired is delivered before this sentinel (one FIFO pipeline)
		env.n++
		sent := fmt.Sprintf("verif-sentinel-%d", env.n)
		if err := env.agent.UserEvent(sent, nil, false); err != nil {
			return "ERR sentinel " + err.Error(), len(recs)
		}
		want := "u:" + hexs(sent) + ":-:0"
		dl := time.Now().Add(c24Deadline)
		for {
			cur := env.handler.peek()
			if len(cur) > 0 && cur[len(cur)-1] == want {
				evs = cur[:len(cur)-1]
				break
			}
			if time.Now().After(dl) {
				return "ERR sentinel-timeout", len(recs)
			}
			time.Sleep(200 * time.Microsecond)
		}
		env.handler.take()
	} else {
		evs = env.handler.take()
	}
	var rs []string
	for _, rp := range replies {
		d := "0"
		if rp.data {
			d = "1"
		}
		rs = append(rs, fmt.Sprintf("%d:%s:%s", rp.seq, c24ErrName(rp.err), d))
	}
	tags := env.agent.Serf().LocalMember().Tags
	var ts []string
	for k, v := range tags {
		ts = append(ts, hexs(k)+":"+hexs(v))
	}
	sort.Strings(ts)
	t := "-"
	if len(ts) > 0 {
		t = strings.Join(ts, ";")
	}
	return fmt.Sprintf("R=%s|E=%s|V=%s|T=%s|S=%s", c24Join(rs), c24Join(calls), c24Join(evs), t, state), len(recs)
}

// ---------------------------------------------------------------- generator

type c24G struct{ rng *rand.Rand }

func (g *c24G) pick(l []string) string { return l[g.rng.Intn(len(l))] }

func mS(s string) string { return "s" + hexs(s) }

func mKV(k, v string) string { return hexs(k) + "=" + v }

func (g *c24G) seq() string {
	return "i" + g.pick([]string{"0", "1", "2", "3", "7", "9", "41", "300", "70000", "4294967296", "18446744073709551615"})
}

var c24Cmds = []string{"event", "force-leave", "join", "members", "members-filtered", "stream", "monitor", "stop",
	"install-key", "use-key", "remove-key", "list-keys", "tags", "query", "respond", "stats", "get-coordinate"}

var c24NoBody = map[string]bool{"members": true, "leave": true, "list-keys": true, "stats": true}

func (g *c24G) hdr(cmd string) string {
	return "M" + mKV("Command", mS(cmd)) + "," + mKV("Seq", g.seq())
}

// header variants: swapped order, array form, missing fields, nil, extra keys
func (g *c24G) hdrVariant(cmd string) string {
	switch g.rng.Intn(10) {
	case 0:
		return "M" + mKV("Seq", g.seq()) + "," + mKV("Command", mS(cmd))
	case 1:
		return "A" + mS(cmd) + "," + g.seq()
	case 2:
		return "A" + mS(cmd)
	case 3:
		return "M" + mKV("Command", mS(cmd))
	case 4:
		return "M" + mKV("Command", mS(cmd)) + "," + mKV("Seq", g.seq()) + "," + mKV("Extra", "Ls61;n")
	case 5:
		return "M" + mKV("Command", "b"+hexs(cmd)) + "," + mKV("Seq", g.seq())
	default:
		return g.hdr(cmd)
	}
}

func (g *c24G) name() string {
	return g.pick([]string{"deploy", "a", "x1", "restart-now", "fin"})
}

func (g *c24G) body(cmd string) string {
	switch cmd {
	case "handshake":
		return "M" + mKV("Version", "i1")
	case "auth":
		return "M" + mKV("AuthKey", mS("wrong"))
	case "event":
		b := "M" + mKV("Name", mS(g.name())) + "," + mKV("Payload", g.pick([]string{"b" + hexs("pl"), "n", "s" + hexs("text"), "b-"})) + "," + mKV("Coalesce", g.pick([]string{"t", "f", "n"}))
		if g.rng.Intn(4) == 0 {
			b = "A" + mS(g.name()) + ",b" + hexs("q") + ",t"
		}
		return b
	case "force-leave":
		return "M" + mKV("Node", mS(g.pick([]string{"ghost", "nobody", ""}))) + "," + mKV("Prune", g.pick([]string{"t", "f"}))
	case "join":
		return "M" + mKV("Existing", g.pick([]string{"L", "n", "L" + mS("127.0.0.1:1"), "L" + mS("127.0.0.1:1") + ";" + mS("127.0.0.1:2")})) + "," + mKV("Replay", g.pick([]string{"t", "f"}))
	case "members-filtered":
		return "M" + mKV("Tags", g.pick([]string{"n", "D", "D" + hexs("role") + ":" + mS("web")})) + "," + mKV("Status", mS(g.pick([]string{"", "alive", "left", "al.*"}))) + "," + mKV("Name", mS(g.pick([]string{"", "node-.*", "zz"})))
	case "stream":
		return "M" + mKV("Type", mS(g.pick([]string{"*", "user", "user:deploy", "member-join,user:a", "query", "", "bogus", "member-update", "user:nomatch"})))
	case "monitor":
		return "M" + mKV("LogLevel", mS(g.pick([]string{"DEBUG", "info", "ERR", "nolevel"})))
	case "stop":
		return "M" + mKV("Stop", g.seq())
	case "install-key", "use-key", "remove-key":
		return "M" + mKV("Key", mS(g.pick([]string{"", "notbase64", "T9jncgl9mbLus+baTTa7q7nPSUrXwbDi2dhbtqir37s="})))
	case "tags":
		return "M" + mKV("Tags", g.pick([]string{"n", "D", "D" + hexs("role") + ":" + mS("web"), "D" + hexs("dc") + ":" + mS("east") + ";" + hexs("role") + ":" + mS("db")})) + "," +
			mKV("DeleteTags", g.pick([]string{"n", "L", "L" + mS("role"), "L" + mS("dc") + ";" + mS("zz")}))
	case "query":
		return "M" + mKV("Name", mS(g.name())) + "," + mKV("Payload", g.pick([]string{"b" + hexs("ask"), "n"})) + "," + mKV("Timeout", g.pick([]string{"i20000000", "i5000000", "i60000000"})) +
			"," + mKV("RequestAck", g.pick([]string{"t", "f"})) + "," + mKV("RelayFactor", g.pick([]string{"i0", "i1", "n"}))
	case "respond":
		return "M" + mKV("ID", g.seq()) + "," + mKV("Payload", "b"+hexs("r"))
	case "get-coordinate":
		return "M" + mKV("Node", mS(g.pick([]string{"", "ghost"})))
	}
	return "M"
}

// a body that, decoded as a request header, looks like another command
func (g *c24G) crafted(cmd string) string {
	target := g.pick([]string{"leave", "event", "tags", "join", "stats", "members", "auth", "handshake", "query"})
	base := g.body(cmd)
	switch g.rng.Intn(4) {
	case 0:
		return "M" + mKV("Command", mS(target)) + "," + mKV("Seq", g.seq())
	case 1:
		if strings.HasPrefix(base, "M") && len(base) > 1 {
			return base + "," + mKV("Command", mS(target)) + "," + mKV("Seq", g.seq())
		}
		return "M" + mKV("Command", mS(target))
	case 2:
		if strings.HasPrefix(base, "M") && len(base) > 1 {
			return base + "," + mKV("Command", mS(target))
		}
		return "A" + mS(target) + "," + g.seq()
	default:
		return "A" + mS(target) + "," + g.seq()
	}
}

func (g *c24G) junk() string {
	return g.pick([]string{"Vn", "Vi5", "Vt", "V" + mS("handshake"), "X", "M", "A", "M" + mKV("Command", "i5"), "M" + mKV("Seq", mS("x")), "M" + mKV("Seq", "i-1"),
		"M" + mKV("command", mS("stats")) + "," + mKV("seq", "i4"), "M" + mKV("Seq", "i12"), "M" + mKV("Command", "n"), "A" + "n,i3", "M" + mKV("Command", "t")})
}

// request = header + body (if the command has one)
func (g *c24G) request(cmd string, variant bool) []string {
	h := g.hdr(cmd)
	if variant {
		h = g.hdrVariant(cmd)
	}
	if c24NoBody[cmd] {
		return []string{h}
	}
	return []string{h, g.body(cmd)}
}

func c24Mentions(objs []string, w string) int {
	// first index of an object mentioning the string (as str or bin atom, or as a key), -1 if none
	hx := hexs(w)
	for i, o := range objs {
		for _, tok := range strings.FieldsFunc(o, func(r rune) bool { return r == ',' || r == '=' || r == ';' || r == ':' }) {
			t := tok
			if len(t) > 0 && (t[0] == 'M' || t[0] == 'A' || t[0] == 'V' || t[0] == 'L' || t[0] == 'D') {
				t = t[1:]
			}
			if t == hx || t == "s"+hx || t == "b"+hx {
				return i
			}
		}
	}
	return -1
}

func c24Case(id string, key string, objs []string, nt bool, tags ...string) Case {
	ops := []string{"conn " + hexs(key)}
	for _, o := range objs {
		ops = append(ops, "obj "+o)
	}
	ops = append(ops, "run", "recs")
	return Case{ID: id, Ops: ops, Nontrivial: nt, Tags: tags}
}

func c24Gen(rng *rand.Rand, tier string) []Case {
	g := &c24G{rng}
	var out []Case
	hs := func() []string { return []string{g.hdr("handshake"), "M" + mKV("Version", "i1")} }
	auth := func(k string) []string { return []string{g.hdr("auth"), "M" + mKV("AuthKey", mS(k))} }
	keys := []string{"sekret", "k2", "handshake"}

	// fixed boundary cases (every run)
	fixed := [][]string{
		{g.hdr("event"), g.body("event")},
		append(hs(), "M"+mKV("Command", mS("event"))+","+mKV("Seq", "i7"), "M"+mKV("Command", mS("leave"))+","+mKV("Seq", "i9"), "M"+mKV("Command", mS("stats"))+","+mKV("Seq", "i10")),
		append(hs(), "M"+mKV("Command", mS("event"))+","+mKV("Seq", "i7"), "M"+mKV("Seq", "i9")),
		append(hs(), "M"+mKV("Seq", "i4"), "M"+mKV("Command", mS("stats"))+","+mKV("Seq", "i6")),
		append(hs(), "Vn", "Vn"),
		append(append(hs(), "M"+mKV("Command", mS("event"))+","+mKV("Seq", "i7"), "M"+mKV("Command", mS("auth"))), "M"+mKV("AuthKey", mS("sekret")), "M"+mKV("Command", mS("stats"))+","+mKV("Seq", "i11")),
		append(append(hs(), g.hdr("auth"), "A"+mS("sekret")), g.hdr("members")),
		append(append(hs(), g.hdr("auth"), "Vn"), g.hdr("members")),
		{g.hdr("handshake"), "M" + mKV("Version", "i2"), g.hdr("stats")},
		append(hs(), hs()...),
		append(hs(), g.hdr("bogus"), g.hdr("stats")),
		append(append(hs(), auth("sekret")...), g.hdr("bogus"), g.hdr("stats")),
		append(append(hs(), auth("sekret")...), g.hdr("stats"), g.hdr("leave")),
	}
	badV := func(v string) []string { return []string{g.hdr("handshake"), "M" + mKV("Version", "i"+v)} }
	fixed = append(fixed,
		append(badV("2"), g.hdr("event"), "M"+mKV("Name", mS("deploy"))+","+mKV("Payload", "b"+hexs("pl"))),
		append(badV("-1"), g.hdr("members")),
		append(badV("2147483647"), g.hdr("stats"), g.hdr("tags"), "M"+mKV("Tags", "D"+hexs("role")+":"+mS("web"))),
		append(append(badV("3"), auth("sekret")...), g.hdr("members")),
	)
	// almost the key (the fixed cases run with key "sekret"): a proper prefix, one byte, an extension, another case, empty
	for _, nk := range []string{"sekre", "s", "sekretx", "SEKRET", ""} {
		fixed = append(fixed, append(append(hs(), auth(nk)...), g.hdr("members"), g.hdr("event"), "M"+mKV("Name", mS("deploy"))))
	}
	for i, objs := range fixed {
		out = append(out, c24Case(fmt.Sprintf("fixed%d", i), "sekret", objs, true, "fixed"))
		out = append(out, c24Case(fmt.Sprintf("fixed%d-nokey", i), "", objs, true, "fixed"))
	}

	n := 450
	if tier == "thorough" {
		n = 12000
	}
	for i := 0; i < n; i++ {
		key := g.pick(keys)
		if rng.Intn(5) == 0 {
			key = ""
		}
		var objs []string
		kind := rng.Intn(10)
		tag := ""
		variant := rng.Intn(3) == 0
		leaveOK := false
		switch {
		case kind <= 1: // well-formed, never authenticated: every request (and its body, re-read as a header) is rejected
			tag = "unauth"
			objs = hs()
			k := 1 + rng.Intn(5)
			for j := 0; j < k; j++ {
				cmd := g.pick(append(c24Cmds, "leave"))
				r := g.request(cmd, variant)
				if len(r) == 2 && rng.Intn(2) == 0 {
					r[1] = g.crafted(cmd)
				}
				objs = append(objs, r...)
			}
			if key == "" {
				// no key configured: these all take effect; keep `leave` out unless it is last
				objs = c24DropLeave(objs)
			}
		case kind == 4 && key != "" && rng.Intn(2) == 0: // almost the key: proper prefixes, extensions, case variants, empty — never the key itself
			tag = "near-key"
			objs = hs()
			near := []string{key[:len(key)-1], key[:1], key + "x", key + " ", " " + key, strings.ToUpper(key), strings.ToUpper(key[:1]) + key[1:], "", key[1:]}
			for n := 1 + rng.Intn(3); n > 0; n-- {
				nk := g.pick(near)
				if nk == key {
					nk = key[:1]
				}
				objs = append(objs, g.hdr("auth"), g.pick([]string{"M" + mKV("AuthKey", mS(nk)), "M" + mKV("AuthKey", "b"+hexs(nk)), "A" + mS(nk)}))
				k := 1 + rng.Intn(3)
				for j := 0; j < k; j++ {
					objs = append(objs, g.request(g.pick(c24Cmds), false)...)
				}
			}
		case kind <= 4: // rejected prefix, wrong keys, the right key, then accepted requests
			tag = "auth-late"
			objs = hs()
			k := rng.Intn(3)
			for j := 0; j < k; j++ {
				cmd := g.pick(append(c24Cmds, "leave"))
				r := g.request(cmd, variant)
				if len(r) == 2 && rng.Intn(3) == 0 {
					r[1] = g.crafted(cmd)
				}
				objs = append(objs, r...)
			}
			if key == "" {
				objs = c24DropLeave(objs)
			}
			for rng.Intn(3) == 0 {
				objs = append(objs, auth(g.pick([]string{"wrong", "", "sekre", "sekret2"}))...)
			}
			if rng.Intn(8) == 0 {
				objs = append(objs, g.hdr("auth"), g.pick([]string{"A" + mS(key), "M" + mKV("AuthKey", "b"+hexs(key)), "M" + mKV("AuthKey", "n"), "M" + mKV("AuthKey", "i5")}))
			} else {
				objs = append(objs, auth(key)...)
			}
			k = 1 + rng.Intn(5)
			withLeave := key != "" && rng.Intn(12) == 0
			for j := 0; j < k; j++ {
				cmd := g.pick(c24Cmds)
				if withLeave && (cmd == "event" || cmd == "query") {
					cmd = "stats"
				}
				objs = append(objs, g.request(cmd, variant)...)
			}
			if withLeave {
				objs = append(objs, g.hdr("leave"))
				leaveOK = true
			}
		case kind == 5 && rng.Intn(2) == 0: // handshakes REJECTED for an unsupported non-zero version, then ordinary commands
			tag = "bad-version"
			vers := []string{"2", "-1", "3", "255", "-128", "65536", "2147483647", "-2147483648", "0"}
			for n := 1 + rng.Intn(2); n > 0; n-- {
				h := g.hdr("handshake")
				if variant {
					h = g.hdrVariant("handshake")
				}
				v := g.pick(vers)
				objs = append(objs, h, g.pick([]string{"M" + mKV("Version", "i"+v), "Ai" + v, "M" + mKV("Version", "i"+v) + "," + mKV("Extra", "i1")}))
			}
			if key != "" && rng.Intn(2) == 0 {
				objs = append(objs, auth(key)...)
			}
			k := 1 + rng.Intn(4)
			for j := 0; j < k; j++ {
				objs = append(objs, g.request(g.pick(c24Cmds), false)...)
			}
		case kind == 5: // no handshake at all, or a failing one
			tag = "no-handshake"
			if rng.Intn(2) == 0 {
				objs = []string{g.hdr("handshake"), g.pick([]string{"M" + mKV("Version", "i0"), "M" + mKV("Version", "i2"), "M", "Vn", "M" + mKV("Version", "i1099511627776"), "M" + mKV("Version", mS("1")), "M" + mKV("version", "i1")})}
			}
			k := 1 + rng.Intn(3)
			for j := 0; j < k; j++ {
				objs = append(objs, g.request(g.pick(append(c24Cmds, "leave", "auth")), variant)...)
			}
		default: // soup: headers of any command, bodies, crafted bodies, junk, in any order
			tag = "soup"
			if rng.Intn(4) != 0 {
				objs = hs()
			}
			k := 2 + rng.Intn(8)
			authed := false
			for j := 0; j < k; j++ {
				switch rng.Intn(9) {
				case 0:
					objs = append(objs, g.junk())
				case 1:
					objs = append(objs, hs()...)
				case 2:
					if rng.Intn(2) == 0 {
						objs = append(objs, auth(key)...)
						authed = true
					} else {
						objs = append(objs, auth("wrong")...)
					}
				case 3:
					cmd := g.pick(c24Cmds)
					objs = append(objs, g.hdrVariant(cmd)) // header without its body
				case 4:
					objs = append(objs, g.body(g.pick(c24Cmds))) // body without a header
				case 5:
					cmd := g.pick(c24Cmds)
					objs = append(objs, g.hdr(cmd), g.crafted(cmd))
				default:
					cmds := c24Cmds
					if !authed && key != "" && c24Mentions(objs, key) < 0 {
						cmds = append(append([]string{}, c24Cmds...), "leave")
					}
					objs = append(objs, g.request(g.pick(cmds), variant)...)
				}
			}
			if key == "" || authed {
				objs = c24DropLeave(objs)
			}
		}
		if rng.Intn(15) == 0 {
			objs = append(objs, "X")
		}
		_ = leaveOK
		nt := c24Mentions(objs, "handshake") >= 0 && len(objs) > 3
		out = append(out, c24Case(fmt.Sprintf("c%d", i), key, objs, nt, tag))
		// the prefix before the key is first mentioned must be effect-free: run it on its own
		if key != "" {
			if p := c24Mentions(objs, key); p > 2 && rng.Intn(2) == 0 {
				out = append(out, c24Case(fmt.Sprintf("c%d-prefix", i), key, objs[:p], true, "prefix"))
			}
		}
	}
	return out
}

// c24DropLeave rewrites `leave` mentions (they would take effect and shut the shared agent down).
func c24DropLeave(objs []string) []string {
	out := make([]string, len(objs))
	for i, o := range objs {
		out[i] = strings.ReplaceAll(o, hexs("leave"), hexs("stats"))
	}
	return out
}

func init() {
	register(&Prop{
		ID: "C24",
		Rule: "one case = one TCP connection to a real agent's IPC listener (auth key per case); the client writes a generated msgpack object sequence " +
			"(requests in any order, wrong/right keys, bodies re-read as headers, crafted bodies, array/nil/partial headers, type-confused and invalid objects, " +
			"key-free prefixes of authenticated cases); non-trivial = a handshake is mentioned and more than 3 objects are sent",
		Gen:  c24Gen,
		Exec: c24Exec,
	})
}
