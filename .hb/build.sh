#!/bin/bash
export GOFLAGS=-mod=mod GOPROXY=off
rm -rf /tmp/w/panic/.hb/src && cp -r /tmp/w/panic/harness /tmp/w/panic/.hb/src && cd /tmp/w/panic/.hb/src && sed -i 's#=> /repo#=> /tmp/r/panic#' go.mod && cp /tmp/r/panic/go.sum . && go build -tags verif -o ../harness .
