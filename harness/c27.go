package main

import (
	"bytes"
	"io"
	"fmt"
	"log"
	"math/rand"
	"net"
	"os"
	"path/filepath"
	"sort"
	"strconv"
	"strings"
	"sync"
	"time"

	"github.com/hashicorp/serf/cmd/serf/command/agent"
	"github.com/hashicorp/serf/serf"
)

// C27: ParseEventScript / EventFilter.Invoke directly (pure, many cases) and the real
// ScriptEventHandler.HandleEvent with /bin/sh scripts that record their environment and
// stdin (few cases: every run forks). Queries come from a real node so that Respond works.

var (
	c27Mu    sync.Mutex
	c27Nodes = map[int]*testNode{}
)

// c27GetNode returns the real node whose QueryResponseSizeLimit is limit (1024 = default).
func c27GetNode(limit int) *testNode {
	c27Mu.Lock()
	defer c27Mu.Unlock()
	if n, ok := c27Nodes[limit]; ok {
		return n
	}
	for _, kv := range os.Environ() {
		if strings.HasPrefix(kv, "SERF_") {
			os.Unsetenv(strings.SplitN(kv, "=", 2)[0])
		}
	}
	// other harnesses run in parallel on the same loopback range: an address may be taken
	var n *testNode
	var err error
	for try := 0; try < 20; try++ {
		n, err = newTestNode(func(c *serf.Config) { c.QueryResponseSizeLimit = limit })
		if err == nil {
			break
		}
		time.Sleep(50 * time.Millisecond)
	}
	if err != nil {
		panic(err)
	}
	c27Nodes[limit] = n
	return n
}

func c27Tags(s string) (map[string]string, bool) { return c30ParseTags(s) }

func c27Kind(k string) (serf.EventType, bool) {
	switch k {
	case "mj":
		return serf.EventMemberJoin, true
	case "ml":
		return serf.EventMemberLeave, true
	case "mf":
		return serf.EventMemberFailed, true
	case "mu":
		return serf.EventMemberUpdate, true
	case "mr":
		return serf.EventMemberReap, true
	}
	return 0, false
}

// c27Event builds the event; for a query it issues a real query on the node and returns
// the *serf.Query the node delivered plus the response handle.
func c27Event(s string, needNode bool, limit int) (serf.Event, *serf.QueryResponse, bool) {
	f := strings.Split(s, "/")
	switch {
	case len(f) == 2:
		t, ok := c27Kind(f[0])
		if !ok {
			return nil, nil, false
		}
		me := serf.MemberEvent{Type: t}
		if f[1] != "_" {
			for _, ms := range strings.Split(f[1], "+") {
				p := strings.Split(ms, "~")
				if len(p) != 3 {
					return nil, nil, false
				}
				name := unhex(p[0])
				tags, ok := c27Tags(p[2])
				if name == nil || !ok {
					return nil, nil, false
				}
				var ip net.IP
				if p[1] != "nil" {
					ip = net.ParseIP(p[1]).To4()
				}
				me.Members = append(me.Members, serf.Member{Name: string(name), Addr: ip, Tags: tags})
			}
		}
		return me, nil, true
	case len(f) == 4 && f[0] == "u":
		name, payload := unhex(f[1]), unhex(f[3])
		lt, err := strconv.ParseUint(f[2], 10, 64)
		if name == nil || payload == nil || err != nil {
			return nil, nil, false
		}
		return serf.UserEvent{LTime: serf.LamportTime(lt), Name: string(name), Payload: payload}, nil, true
	case len(f) == 3 && f[0] == "q":
		name, payload := unhex(f[1]), unhex(f[2])
		if name == nil || payload == nil {
			return nil, nil, false
		}
		if !needNode {
			return &serf.Query{Name: string(name), Payload: payload}, nil, true
		}
		n := c27GetNode(limit)
		for len(n.Events) > 0 {
			<-n.Events
		}
		resp, err := n.S.Query(string(name), payload, &serf.QueryParam{Timeout: 120 * time.Second})
		if err != nil {
			return nil, nil, false
		}
		deadline := time.After(30 * time.Second)
		for {
			select {
			case e := <-n.Events:
				if q, ok := e.(*serf.Query); ok {
					return q, resp, true
				}
			case <-deadline:
				return nil, nil, false
			}
		}
	}
	return nil, nil, false
}

func c27Pattern(n, seed int) []byte {
	out := make([]byte, n)
	for i := range out {
		if i%97 == 96 {
			out[i] = 10
		} else {
			out[i] = byte(33 + (i*31+seed)%90)
		}
	}
	return out
}

// c27Reload is the reloadable handler of the hconf / hupdate / hfire ops of one case.
type c27Reload struct {
	h        *agent.ScriptEventHandler
	dir      string
	selfName string
	selfTags map[string]string
}

// c27Handlers turns `_` or `id:filterhex,…` into the agent's own configuration form; the script
// of id i appends a line to <dir>/runs.<i> and consumes its input.
func c27Handlers(dir, sp string) ([]agent.EventScript, bool) {
	var specs []string
	if sp != "_" {
		for _, item := range strings.Split(sp, ",") {
			p := strings.Split(item, ":")
			if len(p) != 2 {
				return nil, false
			}
			if _, err := strconv.Atoi(p[0]); err != nil {
				return nil, false
			}
			script := fmt.Sprintf("echo x >> %[1]s/runs.%[2]s; cat /proc/self/environ > %[1]s/env.%[2]s; cat > /dev/null", dir, p[0])
			if p[1] == "!" {
				specs = append(specs, script)
				continue
			}
			fl := unhex(p[1])
			if fl == nil {
				return nil, false
			}
			specs = append(specs, string(fl)+"="+script)
		}
	}
	// exactly what the agent does at start and on reload (command.go): Config.EventScripts()
	conf := agent.DefaultConfig()
	conf.EventHandlers = specs
	return conf.EventScripts(), true
}

func c27Exec(ops []string) []string {
	var outs []string
	var rl *c27Reload
	defer func() {
		if rl != nil {
			os.RemoveAll(rl.dir)
		}
	}()
	for _, o := range ops {
		f := strings.Fields(o)
		switch {
		case len(f) == 2 && (f[0] == "hconf" || f[0] == "hupdate"):
			if f[0] == "hconf" {
				if rl != nil {
					outs = append(outs, "bad-op")
					continue
				}
				dir, err := os.MkdirTemp("", "verif-c27r-")
				if err != nil {
					panic(err)
				}
				rl = &c27Reload{dir: dir}
			}
			if rl == nil {
				outs = append(outs, "bad-op")
				continue
			}
			scripts, ok := c27Handlers(rl.dir, f[1])
			if !ok {
				outs = append(outs, "bad-op")
				continue
			}
			if f[0] == "hconf" {
				r := rl
				rl.h = &agent.ScriptEventHandler{
					SelfFunc: func() serf.Member { return serf.Member{Name: r.selfName, Tags: r.selfTags} },
					Scripts:  scripts,
					Logger:   log.New(io.Discard, "", 0),
				}
			} else {
				rl.h.UpdateScripts(scripts)
			}
			outs = append(outs, "ok")
		case len(f) == 4 && f[0] == "hfire":
			selfName := unhex(f[1])
			selfTags, ok := c27Tags(f[2])
			ev, _, ok2 := c27Event(f[3], false, 0)
			if rl == nil || selfName == nil || !ok || !ok2 {
				outs = append(outs, "bad-op")
				continue
			}
			rl.selfName, rl.selfTags = string(selfName), selfTags
			old, _ := filepath.Glob(filepath.Join(rl.dir, "runs.*"))
			for _, p := range old {
				os.Remove(p)
			}
			rl.h.HandleEvent(ev)
			files, _ := filepath.Glob(filepath.Join(rl.dir, "runs.*"))
			type rc struct{ id, n int }
			var ran []rc
			for _, p := range files {
				id, err := strconv.Atoi(strings.TrimPrefix(filepath.Base(p), "runs."))
				if err != nil {
					continue
				}
				b, _ := os.ReadFile(p)
				ran = append(ran, rc{id, bytes.Count(b, []byte("\n"))})
			}
			sort.Slice(ran, func(i, j int) bool { return ran[i].id < ran[j].id })
			var ps []string
			for _, r := range ran {
				if r.n > 0 {
					ps = append(ps, fmt.Sprintf("%d:%d", r.id, r.n))
				}
			}
			envOut := "-"
			for _, r := range ran {
				if r.n == 0 {
					continue
				}
				eb, _ := os.ReadFile(filepath.Join(rl.dir, fmt.Sprintf("env.%d", r.id)))
				var vars []string
				for _, kv := range strings.Split(string(eb), "\x00") {
					if strings.HasPrefix(kv, "SERF_") {
						vars = append(vars, kv)
					}
				}
				sort.Strings(vars)
				envOut = hexs(strings.Join(vars, "\x00"))
				break
			}
			for _, p := range files {
				os.Remove(strings.Replace(p, "runs.", "env.", 1))
			}
			if len(ps) == 0 {
				outs = append(outs, "ran=- env=-")
			} else {
				outs = append(outs, "ran="+strings.Join(ps, ",")+" env="+envOut)
			}
		case len(f) == 2 && f[0] == "parse":
			v := unhex(f[1])
			if v == nil {
				outs = append(outs, "bad-op")
				continue
			}
			var p []string
			for _, es := range agent.ParseEventScript(string(v)) {
				p = append(p, hexs(es.Event)+"/"+hexs(es.Name)+"/"+hexs(es.Script))
			}
			outs = append(outs, strings.Join(p, ";"))
		case len(f) == 4 && f[0] == "invoke":
			ev, name := unhex(f[1]), unhex(f[2])
			e, _, ok := c27Event(f[3], false, 0)
			if ev == nil || name == nil || !ok {
				outs = append(outs, "bad-op")
				continue
			}
			fl := agent.EventFilter{Event: string(ev), Name: string(name)}
			outs = append(outs, fmt.Sprint(fl.Invoke(e)))
		case len(f) == 9 && f[0] == "run":
			outs = append(outs, c27Run(f))
		default:
			outs = append(outs, "bad-op")
		}
	}
	return outs
}

func c27Run(f []string) string {
	selfName := unhex(f[2])
	selfTags, ok := c27Tags(f[3])
	olen, e1 := strconv.Atoi(f[5])
	seed, e2 := strconv.Atoi(f[6])
	exit, e3 := strconv.Atoi(f[7])
	limit, e4 := strconv.Atoi(f[8])
	if selfName == nil || !ok || e1 != nil || e2 != nil || e3 != nil || e4 != nil {
		return "bad-op"
	}
	dir, err := os.MkdirTemp("", "verif-c27-")
	if err != nil {
		panic(err)
	}
	defer os.RemoveAll(dir)
	if err := os.WriteFile(filepath.Join(dir, "out"), c27Pattern(olen, seed), 0o600); err != nil {
		panic(err)
	}
	specs := strings.Split(f[1], ",")
	var scripts []agent.EventScript
	for i, sp := range specs {
		script := fmt.Sprintf("echo x >> %[1]s/runs.%[2]d; cat /proc/self/environ > %[1]s/env.%[2]d; cat > %[1]s/stdin.%[2]d; cat %[1]s/out; exit %[3]d", dir, i, exit)
		if sp == "!" {
			scripts = append(scripts, agent.ParseEventScript(script)...)
			continue
		}
		fl := unhex(sp)
		if fl == nil {
			return "bad-op"
		}
		scripts = append(scripts, agent.ParseEventScript(string(fl)+"="+script)...)
	}
	ev, qresp, ok := c27Event(f[4], true, limit)
	if !ok {
		return "bad-op"
	}
	var logBuf bytes.Buffer
	h := &agent.ScriptEventHandler{
		SelfFunc: func() serf.Member { return serf.Member{Name: string(selfName), Tags: selfTags} },
		Scripts:  scripts,
		Logger:   log.New(&logBuf, "", 0),
	}
	h.HandleEvent(ev)

	runs := make([]string, len(specs))
	env, stdin := "-", "-"
	same := true
	for i := range specs {
		b, _ := os.ReadFile(filepath.Join(dir, fmt.Sprintf("runs.%d", i)))
		n := bytes.Count(b, []byte("\n"))
		runs[i] = strconv.Itoa(n)
		if n == 0 {
			continue
		}
		eb, _ := os.ReadFile(filepath.Join(dir, fmt.Sprintf("env.%d", i)))
		var vars []string
		tagVars := 0
		for _, kv := range strings.Split(string(eb), "\x00") {
			if strings.HasPrefix(kv, "SERF_") {
				vars = append(vars, kv)
				if strings.HasPrefix(kv, "SERF_TAG_") {
					tagVars++
				}
			}
		}
		sort.Strings(vars)
		e := hexs(strings.Join(vars, "\x00"))
		// when two tags collapse into one variable name the survivor depends on map order: the checker allows for it
		sb, _ := os.ReadFile(filepath.Join(dir, fmt.Sprintf("stdin.%d", i)))
		s := hexb(sb)
		// every script sees the same environment; its stdin may differ in the order of a member's
		// tags (map iteration per invocation): the first script's stdin is reported
		// (when two tags collapse into one variable the surviving value may differ between invocations:
		// only the number of variables is compared then)
		if env != "-" && (strings.Count(env, "00") != strings.Count(e, "00") && len(env) != len(e) || len(stdin) != len(s)) {
			same = false
		}
		if env != "-" && env != e && tagVars >= len(selfTags) {
			same = false
		}
		if env == "-" {
			env, stdin = e, s
		}
	}
	if !same {
		env = "DIFFERENT-PER-SCRIPT"
	}
	resp, qs := "none", "-"
	if q, isQ := ev.(*serf.Query); isQ {
		qs = fmt.Sprintf("%d:%d:%s", uint64(q.LTime), serf.VerifQueryID(q), hexs(c27GetNode(limit).Conf.NodeName))
		logged := logBuf.String()
		if strings.Contains(logged, "exceeds limit") {
			resp = "toolarge"
		} else {
			wait := 200 * time.Millisecond
			if exit == 0 && strings.Join(runs, "") != strings.Repeat("0", len(runs)) {
				wait = 1500 * time.Millisecond // a script ran successfully without output: make sure nothing is sent
			}
			if olen > 0 && exit == 0 && strings.Join(runs, "") != strings.Repeat("0", len(runs)) {
				wait = 20 * time.Second // a response is on its way over loopback UDP
			}
			select {
			case r, ok := <-qresp.ResponseCh():
				if ok {
					resp = hexb(r.Payload)
					if len(r.Payload) == 0 {
						resp = "-" // an empty response was sent
					}
				}
			case <-time.After(wait):
			}
		}
		qresp.Close()
	}
	return fmt.Sprintf("runs=%s env=%s stdin=%s resp=%s q=%s", strings.Join(runs, ","), env, stdin, resp, qs)
}

// ---- generator

// event / query names are free-form: colons, '=', spaces and the empty name included
var c27Names = []string{"deploy", "load", "", "a b", "tab\there", "nl\nx", "k=v", "日本", "user", "query", "x,y", "ü:1", "*",
	"deploy:prod", "a:b:c", ":", "load:", ":x", " ", "user:deploy", "a=b:c"}
var c27FilterItems = []string{"member-join", "member-leave", "member-failed", "member-update", "member-reap", "user", "query", "*",
	"user:deploy", "query:load", "user:", "query:", "user:a b", "query:日本", "user:load", "query:deploy", "member-bogus", "", "user:k", "USER", "query:x",
	// the name is everything after the first colon: further colons, '=', spaces belong to it
	"user:deploy:prod", "query:deploy:prod", "user:a:b:c", "query:a:b:c", "user::", "query::x", "user:load:", "query:ü:1",
	"user: ", "query:a b", "user:user:deploy", "query:query", "member-join:x", "user:k=v", "query:a=b:c", ":user", "user :x"}
// tag NAMES are free-form strings too: tabs, newlines, '=' and ',' in them must be escaped in the
// member line exactly like in names, roles and values
var c27TagKeys = []string{"role", "dc", "a-b", "ünï", "x.y", "9lives", "k=v", "sp ace", "ıſ", "\u212aey", "UP", "",
	"rack\tid", "note\nx", "a,b", "e=q\t,\n", "\t", "\n"}
var c27TagVals = []string{"web", "", "east 1", "a=b,c", "tab\there", "line\nbreak", "日本", "ü", "\x01\x7f"}

func c27ShowTags(rng *rand.Rand, maxN int, keys []string) string {
	t := map[string]string{}
	for n := rng.Intn(maxN + 1); n > 0; n-- {
		t[keys[rng.Intn(len(keys))]] = c27TagVals[rng.Intn(len(c27TagVals))]
	}
	return c30ShowTags(t)
}

func c27GenEvent(rng *rand.Rand) (string, string) {
	switch rng.Intn(3) {
	case 0:
		k := []string{"mj", "ml", "mf", "mu", "mr"}[rng.Intn(5)]
		n := rng.Intn(4)
		if n == 0 {
			return k + "/_", "member"
		}
		var ms []string
		for i := 0; i < n; i++ {
			addr := fmt.Sprintf("%d.%d.%d.%d", rng.Intn(256), rng.Intn(256), rng.Intn(256), rng.Intn(256))
			if rng.Intn(8) == 0 {
				addr = "nil"
			}
			ms = append(ms, hexs(c27Names[rng.Intn(len(c27Names))]+fmt.Sprint(i))+"~"+addr+"~"+c27ShowTags(rng, 3, c27TagKeys))
		}
		return k + "/" + strings.Join(ms, "+"), "member"
	case 1:
		return "u/" + hexs(c27Names[rng.Intn(len(c27Names))]) + "/" + fmt.Sprint(rng.Uint64()>>uint(rng.Intn(64))) + "/" + hexs(c27Payload(rng)), "user"
	default:
		return "q/" + hexs(c27Names[rng.Intn(len(c27Names))]) + "/" + hexs(c27Payload(rng)), "query"
	}
}

// c27AwkwardTagName: some member of the event carries a tag whose name contains a tab or newline.
func c27AwkwardTagName(ev string) bool {
	f := strings.Split(ev, "/")
	if len(f) != 2 || f[1] == "_" {
		return false
	}
	for _, m := range strings.Split(f[1], "+") {
		p := strings.Split(m, "~")
		if len(p) != 3 || p[2] == "_" {
			continue
		}
		for _, kv := range strings.Split(p[2], ",") {
			k := unhex(strings.Split(kv, ":")[0])
			if bytes.ContainsAny(k, "\t\n") {
				return true
			}
		}
	}
	return false
}

func c27Payload(rng *rand.Rand) string {
	switch rng.Intn(6) {
	case 0:
		return ""
	case 1:
		return "\n"
	case 2:
		return "payload\n"
	case 3:
		return "two\nlines"
	case 4:
		return "bin\x00\xff\n\n"
	}
	return "no newline"
}

func c27Filter(rng *rand.Rand) string {
	n := 1 + rng.Intn(3)
	var it []string
	for i := 0; i < n; i++ {
		it = append(it, c27FilterItems[rng.Intn(len(c27FilterItems))])
	}
	return strings.Join(it, ",")
}

func c27Gen(rng *rand.Rand, tier string) []Case {
	var out []Case
	nPure, nRun := 800, 22
	if tier == "thorough" {
		nPure, nRun = 60000, 700
	}
	// pure: parse + invoke
	for i := 0; i < nPure; i++ {
		var ops []string
		for j := 0; j < 4; j++ {
			spec := c27Filter(rng)
			switch rng.Intn(4) {
			case 0:
				spec = "handler.sh" // no '='
			case 1:
				spec += "=sh -c 'X=1 run'"
			default:
				spec += "=script.sh"
			}
			ops = append(ops, "parse "+hexs(spec))
			fl := c27FilterItems[rng.Intn(len(c27FilterItems))]
			evn, name := fl, ""
			if strings.HasPrefix(fl, "user:") {
				evn, name = "user", fl[5:]
			} else if strings.HasPrefix(fl, "query:") {
				evn, name = "query", fl[6:]
			}
			if rng.Intn(10) == 0 {
				name = c27Names[rng.Intn(len(c27Names))] // a name on a non user/query filter
			}
			e, _ := c27GenEvent(rng)
			ops = append(ops, "invoke "+hexs(evn)+" "+hexs(name)+" "+e)
		}
		out = append(out, Case{ID: fmt.Sprintf("p%d", i), Ops: ops, Nontrivial: true, Tags: []string{"pure"}})
	}
	// real handler runs
	fixed := [][]string{
		// output around the 8 KiB buffer and the response limit
		{"run " + hexs("query") + " " + hexs("n1") + " " + c30ShowTags(map[string]string{"role": "web"}) + " q/" + hexs("load") + "/" + hexs("x") + " 9000 3 0 1024"},
		{"run " + hexs("query") + " " + hexs("n1") + " _ q/" + hexs("load") + "/" + hexs("x") + " 9000 3 0 12000"},
		{"run " + hexs("query") + " " + hexs("n1") + " _ q/" + hexs("load") + "/" + hexs("x") + " 8192 4 0 12000"},
		{"run " + hexs("query:load") + "," + hexs("*") + " " + hexs("n1") + " _ q/" + hexs("load") + "/- 500 5 0 1024"},
		{"run " + hexs("member-join,member-join") + ",! " + hexs("node\t1") + " " + c30ShowTags(map[string]string{"role": "a\tb", "a-b": "1"}) + " mj/" + hexs("m\n1") + "~10.0.0.1~" + c30ShowTags(map[string]string{"role": "r\n", "t": "a,b=c"}) + "+" + hexs("m2") + "~nil~_ 10 1 0 1024"},
		{"run " + hexs("member-update") + " " + hexs("n") + " " + c30ShowTags(map[string]string{"rack\tid": "r1", "k=v": "x"}) + " mu/" + hexs("web") + "~1.2.3.4~" + c30ShowTags(map[string]string{"role": "we\tb", "rack\tid": "r1"}) + "+" + hexs("db1") + "~1.2.3.5~" + c30ShowTags(map[string]string{"note\nx": "y", "a,b": "c=d"}) + " 0 1 0 1024"},
		{"run " + hexs("*") + " " + hexs("n") + " _ mf/" + hexs("m") + "~nil~" + c30ShowTags(map[string]string{"\n": "v"}) + "+" + hexs("m2") + "~9.9.9.9~" + c30ShowTags(map[string]string{"\t": "", "e=q\t,\n": "\t"}) + " 5 2 0 1024"},
		{"run " + hexs("user:deploy:prod") + "," + hexs("user:deploy") + "," + hexs("user:deploy:prod,query:deploy:prod") + " " + hexs("n") + " _ u/" + hexs("deploy:prod") + "/3/" + hexs("p") + " 0 1 0 1024"},
		{"run " + hexs("user:deploy:prod") + "," + hexs("user:deploy") + " " + hexs("n") + " _ u/" + hexs("deploy") + "/4/- 0 1 0 1024"},
		{"run " + hexs("query:a:b:c") + "," + hexs("query:a") + "," + hexs("query::") + " " + hexs("n") + " _ q/" + hexs("a:b:c") + "/- 3 1 0 1024"},
		{"run " + hexs("*") + "," + hexs("query:load") + " " + hexs("n") + " " + c30ShowTags(map[string]string{"x.y": "1", "a-b": "2", "a,b": "3"}) + " q/" + hexs("load") + "/" + hexs("p") + " 0 1 0 1024"},
		{"run " + hexs("user:deploy") + "," + hexs("user") + " " + hexs("n") + " _ u/" + hexs("deploy") + "/18446744073709551615/" + hexs("no newline") + " 0 1 0 1024"},
		{"run " + hexs("user") + " " + hexs("n") + " _ u/" + hexs("a\x00b") + "/7/" + hexs("p") + " 0 1 0 1024"},
	}
	for i, ops := range fixed {
		out = append(out, Case{ID: fmt.Sprintf("f%d", i), Ops: ops, Nontrivial: true, Tags: []string{"fixed", "run"}})
	}
	// reload histories: configure, fire, reload (also to NO handlers and back), fire again
	hx := func(s string) string { return hexs(s) }
	ue := func(name string) string { return "u/" + hexs(name) + "/1/" + hexs("p") }
	out = append(out, Case{ID: "reload-to-none", Nontrivial: true, Tags: []string{"fixed", "reload", "reload-to-empty"}, Ops: []string{
		"hconf 0:" + hx("*") + ",1:" + hx("user:deploy"), "hfire " + hx("n") + " _ " + ue("deploy"),
		"hupdate _", "hfire " + hx("n") + " _ " + ue("deploy"), "hfire " + hx("n") + " _ mj/_",
		"hupdate 2:" + hx("user"), "hfire " + hx("n") + " _ " + ue("deploy"),
		"hupdate 3:" + hx("query") + ",0:!", "hupdate _", "hupdate 4:" + hx("user:deploy,user"), "hfire " + hx("n") + " _ " + ue("deploy"),
		"hupdate _", "hfire " + hx("n") + " _ " + ue("x")}})
	out = append(out, Case{ID: "reload-from-none", Nontrivial: true, Tags: []string{"fixed", "reload"}, Ops: []string{
		"hconf _", "hfire " + hx("n") + " _ " + ue("deploy"), "hupdate 0:!", "hfire " + hx("n") + " _ mf/_", "hfire " + hx("n") + " _ " + ue("a")}})
	out = append(out, Case{ID: "self-changes", Nontrivial: true, Tags: []string{"fixed", "reload", "self-changes"}, Ops: []string{
		"hconf 0:" + hx("*"),
		"hfire " + hx("n") + " " + c30ShowTags(map[string]string{"role": "web", "dc": "east"}) + " " + ue("deploy"),
		"hfire " + hx("n") + " " + c30ShowTags(map[string]string{"role": "db"}) + " " + ue("deploy"),
		"hfire " + hx("n") + " " + c30ShowTags(map[string]string{"role": "db", "rack": "r1"}) + " q/" + hx("load") + "/-",
		"hfire " + hx("n2") + " _ " + ue("x"),
		"hfire " + hx("n2") + " " + c30ShowTags(map[string]string{"role": "web"}) + " mj/_",
		"hfire " + hx("n2") + " " + c30ShowTags(map[string]string{"role": "cache"}) + " " + ue("x")}})
	nReload := 5
	if tier == "thorough" {
		nReload = 150
	}
	for i := 0; i < nReload; i++ {
		genSpecs := func() string {
			n := rng.Intn(4)
			if n == 0 {
				return "_"
			}
			var ps []string
			for j := 0; j < n; j++ {
				id := rng.Intn(5)
				dup := false
				for _, p := range ps {
					dup = dup || strings.HasPrefix(p, fmt.Sprint(id)+":")
				}
				if dup {
					continue
				}
				fl := "!"
				if rng.Intn(5) > 0 {
					fl = hexs(strings.ReplaceAll([]string{"*", "user", "user:deploy", "member-join", "member-join,user", "query", "user:x,user:deploy"}[rng.Intn(7)], "=", "-"))
				}
				ps = append(ps, fmt.Sprintf("%d:%s", id, fl))
			}
			return strings.Join(ps, ",")
		}
		// what SelfFunc answers changes between events (tag edits, also a rename), and user events /
		// queries are fired right after a change with no member event in between
		selfName, selfTags := "n", map[string]string{}
		fire := func() string {
			ev := []string{ue("deploy"), ue("x"), "mj/_", "ml/" + hexs("m") + "~1.2.3.4~_", "q/" + hexs("deploy") + "/-", ue("deploy")}[rng.Intn(6)]
			switch rng.Intn(4) {
			case 0:
				selfTags[[]string{"role", "dc", "rack"}[rng.Intn(3)]] = []string{"web", "db", "east", ""}[rng.Intn(4)]
			case 1:
				if len(selfTags) > 0 {
					ks := make([]string, 0, len(selfTags))
					for k := range selfTags {
						ks = append(ks, k)
					}
					sort.Strings(ks) // the choice must depend on rng only, not on map order
					delete(selfTags, ks[rng.Intn(len(ks))])
				}
			case 2:
				if rng.Intn(3) == 0 {
					selfName = []string{"n", "n2", "node three"}[rng.Intn(3)]
				}
			}
			return "hfire " + hexs(selfName) + " " + c30ShowTags(selfTags) + " " + ev
		}
		ops := []string{"hconf " + genSpecs(), fire()}
		tags := []string{"reload"}
		for j := 0; j < 2+rng.Intn(3); j++ {
			sp := genSpecs()
			if rng.Intn(3) == 0 {
				sp = "_"
			}
			if sp == "_" {
				tags = append(tags, "reload-to-empty")
			}
			ops = append(ops, "hupdate "+sp)
			if rng.Intn(4) > 0 {
				ops = append(ops, fire())
			}
		}
		ops = append(ops, fire())
		out = append(out, Case{ID: fmt.Sprintf("h%d", i), Ops: ops, Nontrivial: true, Tags: tags})
	}
	for i := 0; i < nRun; i++ {
		e, kind := c27GenEvent(rng)
		ns := 1 + rng.Intn(3)
		var specs []string
		named := false
		for j := 0; j < ns; j++ {
			if rng.Intn(6) == 0 {
				specs = append(specs, "!")
			} else {
				fl := c27Filter(rng)
				if rng.Intn(2) == 0 { // make a match likely
					fl = map[string]string{"member": "*", "user": "user", "query": "query"}[kind]
					if kind != "member" && rng.Intn(2) == 0 {
						// user:NAME / query:NAME with the event's own name (when a filter can express it)
						if nm := string(unhex(strings.Split(e, "/")[1])); nm != "" && !strings.ContainsAny(nm, ",=") {
							fl = kind + ":" + nm
							if rng.Intn(4) == 0 && strings.Contains(nm, ":") {
								fl = kind + ":" + nm[:strings.Index(nm, ":")] // the name cut at its colon must NOT match
							}
							named = true
						}
					}
				}
				// the spec is `<filter>=<script>` and splits at the first '=': a filter of a real run
				// cannot contain one (such filters are exercised by the pure `parse` cases only)
				fl = strings.ReplaceAll(fl, "=", "-")
				specs = append(specs, hexs(fl))
			}
		}
		olen := 0
		switch rng.Intn(6) {
		case 0:
		case 1:
			olen = 1 + rng.Intn(40)
		case 2:
			olen = 940 + rng.Intn(60) // around the 1024-byte response limit
		case 3:
			olen = 8185 + rng.Intn(15) // around the 8 KiB buffer
		default:
			olen = 1 + rng.Intn(900)
		}
		exit := 0
		if rng.Intn(7) == 0 {
			exit = 1 + rng.Intn(3)
		}
		self := c27Names[rng.Intn(len(c27Names))] + "-self"
		tags := []string{"run", kind}
		if named {
			tags = append(tags, "named-filter-for-event")
		}
		if kind != "member" && strings.Contains(string(unhex(strings.Split(e, "/")[1])), ":") {
			tags = append(tags, "event-name-with-colon")
		}
		if c27AwkwardTagName(e) {
			tags = append(tags, "tag-name-with-tab-or-newline")
		}
		selfTagKeys := c27TagKeys
		if rng.Intn(4) != 0 {
			selfTagKeys = []string{"role", "dc", "ünï", "9lives", "x.y", ""} // no two collapse to the same variable
		} else {
			tags = append(tags, "tag-collision-possible")
		}
		limit := 1024
		if olen > 2000 || rng.Intn(5) == 0 {
			limit = 12000 // a node with a large response limit makes the 8 KiB truncation observable
		}
		op := fmt.Sprintf("run %s %s %s %s %d %d %d %d", strings.Join(specs, ","), hexs(self), c27ShowTags(rng, 3, selfTagKeys), e, olen, rng.Intn(90), exit, limit)
		out = append(out, Case{ID: fmt.Sprintf("r%d", i), Ops: []string{op}, Nontrivial: olen > 0, Tags: tags})
	}
	return out
}

func init() {
	register(&Prop{
		ID:   "C27",
		Rule: "pure: ParseEventScript on generated specs and EventFilter.Invoke on generated filters x events (event/query names and filter names with colons, '=', spaces, tabs, newlines, non-ASCII, empty); runs: the real ScriptEventHandler.HandleEvent with 1-3 /bin/sh scripts recording environment and stdin, member events with 0-3 members (member names, roles, tag NAMES and tag values with tabs, newlines, '=', ',' and non-ASCII, nil address), user events, real queries on a real node (payload with/without trailing newline, empty, binary), script output 0 / small / around 1024 / around 8192 bytes, non-zero exit; reload histories on one handler (Config.EventScripts + UpdateScripts, also to the empty list and back) with the scripts that ran recorded per id; non-trivial = pure case, reload history, or a run whose script prints output",
		Gen:  c27Gen,
		Exec: c27Exec,
	})
}
