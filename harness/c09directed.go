package main

import (
	"fmt"
	"math"
	"net"
	"time"
)

// Directed byte-level families for C09 (deterministic, independent of the seed):
//
//	prefix     every prefix of a canonical valid encoding of every message kind (and of a push/pull state, a ping
//	           payload, a tags blob, filters and key requests inside a query)
//	relay      relay envelopes nested 1..6 deep around every kind, headers only, headers followed by 1 byte
//	typebyte   every type byte 0..255 with an empty body, a nil body and a valid body of another kind
//	hugelen    msgpack length prefixes announcing 2^32-1 / 2^16-1 elements (array, map, bin, str) spliced over
//	           every position of a valid encoding
//	replies    the answers to the node's own open queries: ack flag on a query that did not ask for acks, plain
//	           replies on one that did, duplicates, replies after the channel filled up
//	zerobuf    the configuration precondition is necessary: a node with EventBuffer = QueryBuffer = 0 divides by zero
//	           on a message at Lamport time 2^64-1 (predicted by the model; not a network-input defect)

func c09Canonical() map[string][]byte {
	q := &wireQuery{LTime: 5, ID: 77, Addr: []byte{127, 0, 0, 1}, Port: 7946, SourceNode: "n1",
		Filters: [][]byte{append([]byte{0}, mp([]string{c09Self, "n1"})...), append([]byte{1}, mp(wireFilterTag{"role", "web"})...)},
		Flags:   1, RelayFactor: 1, Timeout: time.Second, Name: "_serf_install-key", Payload: append([]byte{7}, mp(wireKeyRequest{c09Key()})...)}
	pp := &wirePushPull{LTime: 9, StatusLTimes: map[string]uint64{"n1": 3, c09Self: 1}, LeftMembers: []string{"n2"}, EventLTime: 4,
		Events: []*wireUserEvents{{LTime: 2, Events: []wireUE{{"deploy", []byte("x")}}}, nil}, QueryLTime: 6}
	return map[string][]byte{
		"leave":    encodeWire(msgLeaveType, &wireLeave{3, "n1", true}),
		"join":     encodeWire(msgJoinType, &wireJoin{4, "n1"}),
		"pushpull": encodeWire(msgPushPullType, pp),
		"event":    encodeWire(msgUserEventType, &wireUserEvent{6, "deploy", []byte("payload"), true}),
		"query":    encodeWire(msgQueryType, q),
		"response": encodeWire(msgQueryResponseType, &wireQueryResponse{5, 77, "n1", 1, []byte("r")}),
		"conflict": encodeWire(6, &wireMember{Name: "n1", Addr: net.IP{10, 0, 0, 1}, Port: 1, Status: 1}),
		"keyreq":   encodeWire(7, &wireKeyRequest{c09Key()}),
		"keyresp":  encodeWire(8, &wireKeyResponse{Result: true, Keys: []string{"k1", "k2"}, PrimaryKey: "k1"}),
		"relay": append(append([]byte{9}, mp(wireRelayHeader{DestAddr: net.UDPAddr{IP: net.IP{127, 0, 0, 1}, Port: 7946}, DestName: "n1"})...),
			encodeWire(msgQueryResponseType, &wireQueryResponse{5, 77, "n1", 0, []byte("r")})...),
	}
}

var c09Kinds = []string{"leave", "join", "pushpull", "event", "query", "response", "conflict", "keyreq", "keyresp", "relay"}

func c09Directed() []Case {
	canon := c09Canonical()
	var out []Case
	add := func(id, tag string, ops []string) {
		const per = 400
		for i, n := 0, 0; i < len(ops); i, n = i+per, n+1 {
			j := i + per
			if j > len(ops) {
				j = len(ops)
			}
			c := append([]string{"inj qlocal " + hexs("deploy") + " - 0"}, ops[i:j]...)
			out = append(out, Case{ID: fmt.Sprintf("%s%d", id, n), Ops: append(c, "alive"), Nontrivial: true, Tags: []string{tag}})
		}
	}

	// prefix
	var ops []string
	for _, k := range c09Kinds {
		b := canon[k]
		for n := 0; n <= len(b); n++ {
			ops = append(ops, "inj msg "+hexb(b[:n]))
			if k == "pushpull" {
				ops = append(ops, fmt.Sprintf("inj merge%d %s", n%2, hexb(b[:n])))
			}
		}
	}
	coord := append([]byte{1}, mp(&wireCoord{Vec: make([]float64, 8), Error: 1.5, Height: 1e-5})...)
	for n := 0; n <= len(coord); n++ {
		ops = append(ops, fmt.Sprintf("inj ping 1000000 %s %s", hexs("n1"), hexb(coord[:n])))
	}
	meta := append([]byte{0xff}, mp(map[string]string{"role": "db", "dc": "west"})...)
	for n := 0; n <= len(meta); n++ {
		ops = append(ops, fmt.Sprintf("inj join %s 0a000001 %s 1 0", hexs("n1"), hexb(meta[:n])), fmt.Sprintf("inj nalive %s 0a000001 %s 1 0", hexs("n4"), hexb(meta[:n])))
	}
	// a query whose filters / key payload are cut at every length (fresh Lamport time each so that it is processed)
	lt := uint64(100)
	fl := append([]byte{1}, mp(wireFilterTag{"role", "web"})...)
	kp := append([]byte{7}, mp(wireKeyRequest{c09Key()})...)
	for n := 0; n <= len(fl); n++ {
		lt++
		ops = append(ops, "inj msg "+hexb(encodeWire(msgQueryType, &wireQuery{LTime: lt, ID: uint32(lt), Name: "deploy", Filters: [][]byte{fl[:n]}})))
	}
	for _, name := range []string{"_serf_install-key", "_serf_use-key", "_serf_remove-key", "_serf_list-keys", "_serf_conflict", "_serf_ping"} {
		for n := 0; n <= len(kp); n++ {
			lt++
			ops = append(ops, "inj msg "+hexb(encodeWire(msgQueryType, &wireQuery{LTime: lt, ID: uint32(lt), Name: name, Payload: kp[:n], Flags: 1, Addr: []byte{127, 0, 0, 1}, Port: 1})))
		}
	}
	add("p", "prefix", ops)

	// relay
	ops = nil
	hdr := append([]byte{9}, mp(wireRelayHeader{DestAddr: net.UDPAddr{IP: net.IP{127, 0, 0, 1}, Port: 7946}, DestName: "n1"})...)
	ops = append(ops, "inj msg "+hexb(hdr)) // header only: nothing behind it
	for b := 0; b < 256; b += 5 {
		ops = append(ops, "inj msg "+hexb(append(append([]byte{}, hdr...), byte(b)))) // header + one byte
	}
	for _, k := range c09Kinds {
		inner := canon[k]
		for depth := 1; depth <= 6; depth++ {
			inner = append(append([]byte{}, hdr...), inner...)
			ops = append(ops, "inj msg "+hexb(inner))
		}
		ops = append(ops, "inj msg "+hexb(append(append([]byte{}, hdr...), hdr...))) // envelope around a header-only envelope
	}
	for _, h := range []wireRelayHeader{{DestAddr: net.UDPAddr{}, DestName: ""}, {DestAddr: net.UDPAddr{IP: net.IP{1, 2, 3}, Port: -1, Zone: "%"}, DestName: c09Self},
		{DestAddr: net.UDPAddr{IP: make(net.IP, 16), Port: math.MaxInt32}, DestName: "x"}} {
		ops = append(ops, "inj msg "+hexb(append([]byte{9}, mp(h)...)), "inj msg "+hexb(append(append([]byte{9}, mp(h)...), canon["response"]...)))
	}
	add("r", "relay", ops)

	// typebyte
	ops = nil
	for t := 0; t < 256; t++ {
		ops = append(ops, "inj msg "+hexb([]byte{byte(t)}), "inj msg "+hexb([]byte{byte(t), 0xc0}),
			"inj msg "+hexb(append([]byte{byte(t)}, canon[c09Kinds[t%len(c09Kinds)]][1:]...)))
		if t%8 == 0 {
			ops = append(ops, fmt.Sprintf("inj merge%d %s", t%2, hexb(append([]byte{byte(t)}, canon["pushpull"][1:]...))))
		}
	}
	add("t", "typebyte", ops)

	// hugelen
	ops = nil
	huge := [][]byte{{0xdd, 0xff, 0xff, 0xff, 0xff}, {0xdf, 0xff, 0xff, 0xff, 0xff}, {0xc6, 0xff, 0xff, 0xff, 0xff}, {0xdb, 0xff, 0xff, 0xff, 0xff},
		{0xdc, 0xff, 0xff}, {0xde, 0xff, 0xff}, {0xc5, 0xff, 0xff}, {0xda, 0xff, 0xff}, {0xc6, 0x7f, 0xff, 0xff, 0xff}, {0xdd, 0x00, 0x10, 0x00, 0x00}}
	for _, k := range c09Kinds {
		b := canon[k]
		for i := 1; i < len(b); i += 1 + len(b)/24 {
			for hi, h := range huge {
				if (i+hi)%2 == 0 {
					continue
				}
				m := append(append(append([]byte{}, b[:i]...), h...), b[i+1:]...)
				if k == "pushpull" && hi%2 == 1 {
					ops = append(ops, "inj merge1 "+hexb(m))
				} else {
					ops = append(ops, "inj msg "+hexb(m))
				}
			}
		}
	}
	for _, h := range huge {
		ops = append(ops, fmt.Sprintf("inj ping 1000000 %s %s", hexs("n1"), hexb(append([]byte{1}, h...))),
			fmt.Sprintf("inj join %s 0a000001 %s 1 0", hexs("n5"), hexb(append([]byte{0xff}, h...))),
			fmt.Sprintf("inj respopen 0 %s %s", hexs("n1"), hexb(append([]byte{8}, h...))))
	}
	add("h", "hugelen", ops)

	// replies to the node's own queries
	ops = nil
	for round := 0; round < 4; round++ {
		ops = append(ops, fmt.Sprintf("inj qlocal %s - %d", hexs("deploy"), round%2), "inj keyop "+[]string{"list", "install", "use", "remove"}[round])
		for _, flags := range []int{0, 1, 2, 3} {
			for _, from := range []string{"n1", "n1", "n2", c09Self, ""} {
				for _, pay := range [][]byte{nil, {8}, canon["keyresp"], canon["conflict"], {6}, []byte("r")} {
					ops = append(ops, fmt.Sprintf("inj respopen %d %s %s", flags, hexs(from), hexb(pay)))
				}
			}
		}
	}
	add("a", "replies", ops)

	// zerobuf: the model predicts the division by zero of a misconfigured node; a correctly configured one is unaffected
	out = append(out, Case{ID: "z0", Ops: []string{"inj zerobuffers", "inj wrapevent", "inj wrapquery", "alive"}, Nontrivial: true, Tags: []string{"zerobuf"}})
	out = append(out, Case{ID: "z1", Ops: []string{"inj wrapevent", "inj wrapquery", "alive"}, Nontrivial: true, Tags: []string{"zerobuf"}})
	return out
}
