package main

import (
	"fmt"
	"math"
	"math/rand"
	"strconv"
	"strings"
	"sync"
	"time"

	"github.com/hashicorp/serf/coordinate"
)

// C21: Coordinate.DistanceTo on pairs of coordinates.
//   conc <G> <iters> <a1> <b1> …  => seq <d1,…> mismatches=<n> first=<…>   (concurrent vs sequential estimates)
//   law <x> <y>  => bits of x+y, y+x, (x-y)*(x-y), (y-x)*(y-x)
//   dist <coordA> <coordB>  => ns <d(a,b)> <d(b,a)> | panic-dim      (a direction that panicked prints panic-dim / panic-other in place of its number)
// Coordinates are written as in C20 (math.Float64bits in hex).

func c21one(a, b *coordinate.Coordinate) (res string) {
	defer func() {
		if r := recover(); r != nil {
			if _, is := r.(coordinate.DimensionalityConflictError); is {
				res = "panic-dim"
			} else {
				res = "panic-other"
			}
		}
	}()
	return strconv.FormatInt(int64(a.DistanceTo(b)), 10)
}

// both directions are taken separately; `panic-dim` alone = both raised the dimensionality error
func c21dist(a, b *coordinate.Coordinate) string {
	ab, ba := c21one(a, b), c21one(b, a)
	if ab == "panic-dim" && ba == "panic-dim" {
		return "panic-dim"
	}
	return "ns " + ab + " " + ba
}

// conc <G> <iters> <a1> <b1> [<a2> <b2> …]: every pair (valid, equal dimension) is estimated sequentially, through
// Coordinate.DistanceTo and through Client.DistanceTo (a client whose coordinate is a), then G goroutines estimate
// all pairs <iters> times concurrently, both ways; every concurrent result must be bit-equal to the sequential one.
// Output: `seq <d1,d2,…> mismatches=<n> first=<pair:path:got:want | ->`.  SCHEDULE-DEPENDENT: a shared-state defect
// shows up only when two calls overlap; G and iters make that overwhelmingly likely, not certain.
func c21conc(f []string) string {
	g, err1 := strconv.Atoi(f[1])
	iters, err2 := strconv.Atoi(f[2])
	if err1 != nil || err2 != nil || g < 1 || g > 64 || iters < 1 || iters > 1000000 || (len(f)-3)%2 != 0 {
		return "bad-op"
	}
	type pair struct {
		a, b *coordinate.Coordinate
		cl   *coordinate.Client
		want time.Duration
	}
	var pairs []*pair
	for i := 3; i+1 < len(f); i += 2 {
		a, ok1 := c20parseCoord(f[i])
		b, ok2 := c20parseCoord(f[i+1])
		if !ok1 || !ok2 || len(a.Vec) != len(b.Vec) || len(a.Vec) == 0 || !a.IsValid() || !b.IsValid() {
			return "bad-op"
		}
		cfg := coordinate.DefaultConfig()
		cfg.Dimensionality = uint(len(a.Vec))
		cl, err := coordinate.NewClient(cfg)
		if err != nil || cl.SetCoordinate(a) != nil {
			return "bad-op"
		}
		pairs = append(pairs, &pair{a: a, b: b, cl: cl})
	}
	var seq []string
	for _, p := range pairs {
		p.want = p.a.DistanceTo(p.b)
		if w2 := p.cl.DistanceTo(p.b); w2 != p.want {
			return fmt.Sprintf("seq-client-differs %d %d", int64(w2), int64(p.want))
		}
		seq = append(seq, strconv.FormatInt(int64(p.want), 10))
	}
	var mu sync.Mutex
	mismatches := 0
	first := "-"
	note := func(i int, path string, got, want time.Duration) {
		mu.Lock()
		mismatches++
		if first == "-" {
			first = fmt.Sprintf("%d:%s:%d:%d", i, path, int64(got), int64(want))
		}
		mu.Unlock()
	}
	var wg sync.WaitGroup
	start := make(chan struct{})
	for w := 0; w < g; w++ {
		wg.Add(1)
		go func(w int) {
			defer wg.Done()
			<-start
			for it := 0; it < iters; it++ {
				for k := range pairs {
					i := (k + w) % len(pairs)
					p := pairs[i]
					if d := p.a.DistanceTo(p.b); d != p.want {
						note(i, "coordinate", d, p.want)
					}
					if d := p.b.DistanceTo(p.a); d != p.want {
						note(i, "reverse", d, p.want)
					}
					if d := p.cl.DistanceTo(p.b); d != p.want {
						note(i, "client", d, p.want)
					}
				}
			}
		}(w)
	}
	close(start)
	wg.Wait()
	return fmt.Sprintf("seq %s mismatches=%d first=%s", strings.Join(seq, ","), mismatches, first)
}

func c21Exec(ops []string) []string {
	outs := make([]string, 0, len(ops))
	for _, o := range ops {
		f := strings.Fields(o)
		if len(f) >= 5 && f[0] == "conc" {
			outs = append(outs, c21conc(f))
			continue
		}
		if len(f) == 3 && f[0] == "law" {
			// the two IEEE-754 facts behind C21_symm (CommLaws), sampled on the real float64 arithmetic
			x, ok1 := c20parseF(f[1])
			y, ok2 := c20parseF(f[2])
			if !ok1 || !ok2 {
				outs = append(outs, "bad-op")
				continue
			}
			d1, d2 := x-y, y-x
			outs = append(outs, c20f(x+y)+" "+c20f(y+x)+" "+c20f(d1*d1)+" "+c20f(d2*d2))
			continue
		}
		if len(f) != 3 || f[0] != "dist" {
			outs = append(outs, "bad-op")
			continue
		}
		a, ok1 := c20parseCoord(f[1])
		b, ok2 := c20parseCoord(f[2])
		if !ok1 || !ok2 {
			outs = append(outs, "bad-op")
			continue
		}
		outs = append(outs, c21dist(a, b))
	}
	return outs
}

// c21raw: the unadjusted distance in the former association order ((m + ha) + hb), used only to aim at the guard
func c21raw(a, b *coordinate.Coordinate) float64 {
	s := 0.0
	for i := range a.Vec {
		d := a.Vec[i] - b.Vec[i]
		s += d * d
	}
	return math.Sqrt(s) + a.Height + b.Height
}

func c21Gen(rng *rand.Rand, tier string) []Case {
	n := 150
	if tier == "thorough" {
		n = 8000
	}
	per := 25
	mag := func() float64 {
		switch rng.Intn(6) {
		case 0:
			return 1e4
		case 1:
			return 100
		case 2:
			return 1e-3
		}
		return 0.2
	}
	sym := func(m float64) float64 {
		switch rng.Intn(25) {
		case 0:
			return 0
		case 1:
			return m
		case 2:
			return -m
		}
		return (rng.Float64()*2 - 1) * m
	}
	gen := func(dim int, cls int) *coordinate.Coordinate {
		c := &coordinate.Coordinate{Vec: make([]float64, dim)}
		m := mag()
		for i := range c.Vec {
			c.Vec[i] = sym(m)
		}
		c.Height = math.Abs(sym(mag()))
		c.Error = rng.Float64() * 1.5
		c.Adjustment = sym(mag() / 10)
		switch cls {
		case 1: // negative adjustments large enough to drive the adjusted distance negative
			c.Adjustment = -math.Abs(sym(mag())) * 3
		case 2: // "any adjustments": large ones
			c.Adjustment = sym([]float64{1e5, 1e6, 1e7, 1e8, 9.3e9, 1e10, 1e19, 1e300}[rng.Intn(8)])
		case 3: // out of the property's scope: the model must still agree bit for bit
			v := c20Adversarial[rng.Intn(len(c20Adversarial))]
			switch s := rng.Intn(dim + 2); {
			case s < dim:
				c.Vec[s] = v
			case s == dim:
				c.Height = v
			default:
				c.Adjustment = v
			}
		}
		return c
	}
	var out []Case
	for i := 0; i < n; i++ {
		var ops []string
		nt := 0
		tags := map[string]bool{}
		for j := 0; j < per; j++ {
			dim := 8
			if rng.Intn(3) == 0 {
				dim = 1 + rng.Intn(8)
			}
			cls := 0
			switch r := rng.Intn(20); {
			case r < 3:
				cls = 1
			case r < 5:
				cls = 2
			case r < 7:
				cls = 3
			}
			a := gen(dim, cls)
			dimB := dim
			if rng.Intn(15) == 0 {
				dimB = rng.Intn(10)
			}
			b := gen(dimB, cls)
			switch rng.Intn(20) {
			case 0: // same position
				if dimB == dim {
					b.Vec = append([]float64{}, a.Vec...)
				}
			case 1: // one ulp apart
				if dimB == dim {
					b.Vec = append([]float64{}, a.Vec...)
					b.Vec[0] = math.Nextafter(b.Vec[0], 1e9)
				}
			case 2:
				b = &coordinate.Coordinate{Vec: append([]float64{}, a.Vec...), Error: a.Error, Adjustment: a.Adjustment, Height: a.Height}
			case 5, 6:
				// the adjusted distance is within a rounding error of 0.0: b's adjustment cancels raw + a's adjustment as
				// computed in one association order (the input class of the repaired defect 4a3f085), +/- one ulp
				if dimB == dim {
					b.Vec = append([]float64{}, a.Vec...)
					if rng.Intn(2) == 0 {
						b.Vec[0] = a.Vec[0] + sym(0.01)
					}
					raw := c21raw(a, b)
					a.Adjustment = -rng.Float64() * raw
					b.Adjustment = -(raw + a.Adjustment)
					switch rng.Intn(4) {
					case 0:
						b.Adjustment = math.Nextafter(b.Adjustment, 0)
					case 1:
						b.Adjustment = math.Nextafter(b.Adjustment, -1e9)
					case 2:
						b.Adjustment = -raw - a.Adjustment
					}
					tags["guard-boundary"] = true
				}
			case 3:
				// the adjusted distance is exactly 0.0 (the guard's boundary): same position, adjustment = -height
				a.Adjustment = -a.Height
				b = &coordinate.Coordinate{Vec: append([]float64{}, a.Vec...), Error: a.Error, Adjustment: -a.Height, Height: a.Height}
				dimB = dim
			case 4:
				// the adjusted distance is tiny but positive (just above the guard's boundary): same position,
				// the adjustments cancel all but 2^-k seconds of the heights
				eps := math.Ldexp(1, -(10 + rng.Intn(40)))
				h := float64(1+rng.Intn(50)) / 1024
				a.Height, a.Adjustment = h, -h+eps/2
				b = &coordinate.Coordinate{Vec: append([]float64{}, a.Vec...), Error: a.Error, Adjustment: -h + eps/2, Height: h}
				dimB = dim
			}
			if cls == 0 || cls == 1 {
				nt++
			}
			tags[[]string{"in-scope", "negative-adjustment", "huge-adjustment", "adversarial"}[cls]] = true
			if dimB != dim {
				tags["dim-mismatch"] = true
			}
			ops = append(ops, "dist "+c20coord(a, true)+" "+c20coord(b, true))
		}
		var tl []string
		for t := range tags {
			tl = append(tl, t)
		}
		out = append(out, Case{ID: fmt.Sprintf("d%d", i), Ops: ops, Nontrivial: nt >= 10, Tags: tl})
	}
	// concurrent estimates: G goroutines over fixed in-scope pairs of several dimensions
	nc := 6
	if tier == "thorough" {
		nc = 40
	}
	for i := 0; i < nc; i++ {
		np := 2 + rng.Intn(5)
		var fs []string
		for k := 0; k < np; k++ {
			dim := 1 + rng.Intn(8)
			if rng.Intn(2) == 0 {
				dim = 8
			}
			a, b := gen(dim, 0), gen(dim, 0)
			fs = append(fs, c20coord(a, true), c20coord(b, true))
		}
		g, iters := 8, 4000
		if tier == "thorough" {
			g, iters = 4+rng.Intn(13), 8000
		}
		out = append(out, Case{ID: fmt.Sprintf("conc%d", i), Ops: []string{fmt.Sprintf("conc %d %d %s", g, iters, strings.Join(fs, " "))},
			Nontrivial: true, Tags: []string{"concurrent"}})
	}
	// law sampling: every pair of the adversarial palette, plus random pairs of mixed magnitudes
	var lops []string
	for _, x := range c20Adversarial {
		for _, y := range c20Adversarial {
			lops = append(lops, "law "+c20fin(x)+" "+c20fin(y))
		}
	}
	out = append(out, Case{ID: "laws-palette", Ops: lops, Nontrivial: true, Tags: []string{"laws"}})
	nl := 40
	if tier == "thorough" {
		nl = 2000
	}
	for i := 0; i < nl; i++ {
		var ops []string
		for j := 0; j < 50; j++ {
			x := (rng.Float64()*2 - 1) * math.Pow(10, float64(rng.Intn(40)-20))
			y := (rng.Float64()*2 - 1) * math.Pow(10, float64(rng.Intn(40)-20))
			if rng.Intn(4) == 0 {
				y = math.Nextafter(x, y)
			}
			ops = append(ops, "law "+c20fin(x)+" "+c20fin(y))
		}
		out = append(out, Case{ID: fmt.Sprintf("laws%d", i), Ops: ops, Nontrivial: true, Tags: []string{"laws"}})
	}
	return out
}

func init() {
	register(&Prop{
		ID: "C21",
		Rule: "25 pairs per case; dimension 8 (2/3) or 1-8; components uniform in ±m or exactly 0, ±m with m from {0.2, 1e-3, 100, 1e4} s, heights in [0, m], adjustments in ±m/10; " +
			"15% with strongly negative adjustments (guard branch), 10% with huge adjustments (1e5 … 1e300 s), 10% with an adversarial value (NaN, ±Inf, 1e308, subnormals, negative heights: outside the property's scope, compared bit for bit only), " +
			"1/15 with a different dimension on the right, 1/10: adjusted distance within one rounding error of the guard threshold 0 (b's adjustment cancels raw + a's adjustment, ±1 ulp); 1/20 each: same position, one ulp apart, identical coordinate, adjusted distance exactly 0 (adjustment = -height at the same position). Both d(a,b) and d(b,a) are taken from the real code. Plus `conc` ops: 8 (thorough 4-16) goroutines estimating 2-6 fixed in-scope pairs 4000 (thorough 8000) times each way through Coordinate.DistanceTo and Client.DistanceTo, every result compared bit for bit with the sequential estimate of the same pair (SCHEDULE-DEPENDENT: a shared-state defect is found only if two calls overlap, which these counts make overwhelmingly likely but not certain). Plus `law x y` ops sampling x+y = y+x and (x-y)^2 = (y-x)^2 on float64 (all pairs of a 32-value adversarial palette and random pairs over 40 decades). " +
			"non-trivial = at least 10 in-scope pairs in the case; distinct = distinct op sequence",
		Gen:  c21Gen,
		Exec: c21Exec,
	})
}
