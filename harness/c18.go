package main

import (
	"fmt"
	"math/rand"
	"sort"
	"strconv"
	"strings"
	"time"

	"github.com/hashicorp/serf/serf"
)

// C18: user event coalescer and the coalesce loop. Ops: see lean/SerfModel/Check/C18.lean.

func c18Flag(b bool) string {
	if b {
		return "c"
	}
	return "n"
}

func c18Item(e serf.Event) string {
	switch v := e.(type) {
	case serf.UserEvent:
		return fmt.Sprintf("%s/%d/%s/%s", hexs(v.Name), uint64(v.LTime), c18Flag(v.Coalesce), c18Payload(v.Payload))
	case serf.MemberEvent:
		if len(v.Members) == 1 {
			return "o/" + v.Members[0].Name
		}
		return "o/badmember"
	case *serf.Query:
		return fmt.Sprintf("o/%d", uint64(v.LTime))
	}
	return "unknown"
}

// c18Canon: non-user events first, then user events grouped by name (hex order), stable inside a name.
func c18Canon(evs []serf.Event) string {
	var others []string
	type ue struct{ hn, item string }
	var us []ue
	for _, e := range evs {
		if u, ok := e.(serf.UserEvent); ok {
			us = append(us, ue{hexs(u.Name), c18Item(e)})
		} else {
			others = append(others, c18Item(e))
		}
	}
	sort.SliceStable(us, func(i, j int) bool { return us[i].hn < us[j].hn })
	items := others
	for _, u := range us {
		items = append(items, u.item)
	}
	if len(items) == 0 {
		return "-"
	}
	return strings.Join(items, ",")
}

func c18Raw(evs []serf.Event) string {
	var items []string
	for _, e := range evs {
		items = append(items, c18Item(e))
	}
	if len(items) == 0 {
		return "-"
	}
	return strings.Join(items, ",")
}

// payload field of the protocol: decimal digits are the payload bytes themselves; `e` is the empty
// (non-nil) payload and `z` the nil payload — two different events that byte-compare equal.
func c18Payload(b []byte) string {
	if b == nil {
		return "z"
	}
	if len(b) == 0 {
		return "e"
	}
	return string(b)
}

func c18User(f []string) (serf.UserEvent, bool) {
	if len(f) != 4 {
		return serf.UserEvent{}, false
	}
	nb := unhex(f[0])
	lt, err := strconv.ParseUint(f[1], 10, 64)
	if nb == nil || err != nil || (f[2] != "c" && f[2] != "n") {
		return serf.UserEvent{}, false
	}
	var payload []byte
	switch f[3] {
	case "z":
		payload = nil
	case "e":
		payload = []byte{}
	default:
		if _, err := strconv.ParseUint(f[3], 10, 64); err != nil {
			return serf.UserEvent{}, false
		}
		payload = []byte(f[3])
	}
	return serf.UserEvent{LTime: serf.LamportTime(lt), Name: string(nb), Payload: payload, Coalesce: f[2] == "c"}, true
}

func c18Other(id string) (serf.Event, bool) {
	n, err := strconv.ParseUint(id, 10, 32)
	if err != nil {
		return nil, false
	}
	if n%2 == 0 {
		return serf.MemberEvent{Type: serf.EventMemberJoin, Members: []serf.Member{{Name: id}}}, true
	}
	return &serf.Query{LTime: serf.LamportTime(n), Name: "q"}, true
}

func c18Exec(ops []string) []string {
	co := serf.VerifNewUserCoalescer()
	var outs []string
	// loop mode
	var inCh chan<- serf.Event
	var outCh chan serf.Event
	var shutdownCh chan struct{}
	var done <-chan struct{}
	var maxPeriod time.Duration
	closed := false
	sent := 0
	defer func() {
		if shutdownCh != nil && !closed {
			close(shutdownCh)
		}
	}()
	drainNow := func(acc []serf.Event) []serf.Event {
		for {
			select {
			case e := <-outCh:
				acc = append(acc, e)
			default:
				return acc
			}
		}
	}
	send := func(e serf.Event, forwarded bool) string {
		if inCh == nil {
			return "bad-op"
		}
		select {
		case inCh <- e:
		case <-time.After(2 * time.Second):
			return "timeout"
		}
		if !forwarded {
			return "ok"
		}
		select {
		case x := <-outCh:
			return "fwd " + c18Raw(drainNow([]serf.Event{x}))
		case <-time.After(c18Patience()):
			c18Timeouts++
			return "timeout"
		}
	}
	for _, o := range ops {
		f := strings.Fields(o)
		switch {
		case len(f) == 5 && f[0] == "ev":
			u, ok := c18User(f[1:])
			if !ok {
				outs = append(outs, "bad-op")
				continue
			}
			if !co.Handle(u) {
				outs = append(outs, "pass")
				continue
			}
			co.Coalesce(u)
			sent++
			outs = append(outs, "ok")
		case len(f) == 2 && f[0] == "oev":
			e, ok := c18Other(f[1])
			if !ok {
				outs = append(outs, "bad-op")
				continue
			}
			if !co.Handle(e) {
				outs = append(outs, "pass")
				continue
			}
			co.Coalesce(e)
			sent++
			outs = append(outs, "ok")
		case len(f) == 1 && f[0] == "flush":
			// a flush can emit at most what was coalesced since the start (generous: never reset)
			evs, ok := co.FlushCap(2*sent + 8)
			if !ok {
				outs = append(outs, "flush-blocked")
				continue
			}
			outs = append(outs, c18Canon(evs))
		case len(f) == 3 && f[0] == "loop":
			cp, e1 := strconv.Atoi(f[1])
			qp, e2 := strconv.Atoi(f[2])
			if e1 != nil || e2 != nil || cp <= 0 || qp <= 0 || inCh != nil {
				outs = append(outs, "bad-op")
				continue
			}
			outCh = make(chan serf.Event, 4096)
			shutdownCh = make(chan struct{})
			cpd, qpd := time.Duration(cp)*time.Millisecond, time.Duration(qp)*time.Millisecond
			maxPeriod = cpd
			if qpd < cpd {
				maxPeriod = qpd // the shorter one is the one that fires
			}
			inCh, done = serf.VerifCoalesceLoop(outCh, shutdownCh, cpd, qpd, co)
			outs = append(outs, "ok")
		case len(f) == 5 && f[0] == "lev":
			u, ok := c18User(f[1:])
			if !ok {
				outs = append(outs, "bad-op")
				continue
			}
			// "not marked coalescable" is a property of the input, not of the model
			outs = append(outs, send(u, !u.Coalesce))
		case len(f) == 2 && f[0] == "loev":
			e, ok := c18Other(f[1])
			if !ok {
				outs = append(outs, "bad-op")
				continue
			}
			outs = append(outs, send(e, true))
		case len(f) == 1 && f[0] == "lshutdown":
			if inCh == nil || closed {
				outs = append(outs, "bad-op")
				continue
			}
			close(shutdownCh)
			closed = true
			select {
			case <-done:
				outs = append(outs, "out "+c18Canon(drainNow(nil)))
			case <-time.After(3 * time.Second):
				outs = append(outs, "timeout")
			}
		case len(f) == 1 && f[0] == "lwait":
			if inCh == nil {
				outs = append(outs, "bad-op")
				continue
			}
			var got []serf.Event
			quiet := 2*maxPeriod + 40*time.Millisecond
			select {
			case x := <-outCh:
				got = append(got, x)
			collect:
				for {
					select {
					case x := <-outCh:
						got = append(got, x)
					case <-time.After(quiet):
						break collect
					}
				}
			case <-time.After(2 * c18Patience()):
				c18Timeouts++
			}
			outs = append(outs, "got "+c18Raw(got))
		default:
			outs = append(outs, "bad-op")
		}
	}
	return outs
}

// c18Timeouts bounds the total time lost on an implementation that holds events back: after a few
// full waits every further wait is short (the first timeouts already are the failing inputs).
var c18Timeouts = 0

func c18Patience() time.Duration {
	if c18Timeouts < 4 {
		return 1500 * time.Millisecond
	}
	return 40 * time.Millisecond
}

const c18Long = 3600000 // one hour in ms: a timer that never fires during a case

func c18Gen(rng *rand.Rand, tier string) []Case {
	var out []Case
	id := 0
	// --- exhaustive, direct coalescer: sequences over 2 names x 3 times x coalesce flag, every flush placement
	type sym struct {
		name string
		lt   int
		c    bool
	}
	var full, coal []sym
	for _, n := range []string{"a", "b"} {
		for _, lt := range []int{0, 1, 2} {
			coal = append(coal, sym{n, lt, true})
			for _, c := range []bool{true, false} {
				full = append(full, sym{n, lt, c})
			}
		}
	}
	emit := func(seq []sym, tag string) {
		for mask := 0; mask < 1<<uint(len(seq)); mask++ {
			if tag == "exhaustive-coalescable-len4" && mask != 0 && mask != 1 && mask != 5 && mask != 6 && mask != 8 && mask != 10 {
				continue // quick tier: six of the sixteen flush placements for the length-4 sequences
			}
			var ops []string
			tie := false
			seen := map[string]int{}
			for i, s := range seq {
				ops = append(ops, fmt.Sprintf("ev %s %d %s %d", hexs(s.name), s.lt, c18Flag(s.c), i+1))
				if s.c {
					key := fmt.Sprintf("%s/%d", s.name, s.lt)
					seen[key]++
					if seen[key] > 1 || len(seen) > 1 {
						tie = true
					}
				}
				if mask&(1<<uint(i)) != 0 {
					ops = append(ops, "flush")
					seen = map[string]int{}
				}
			}
			ops = append(ops, "flush", "flush")
			out = append(out, Case{ID: fmt.Sprintf("x%d", id), Ops: ops, Nontrivial: tie, Tags: []string{tag}})
			id++
		}
	}
	var rec func(alpha []sym, prefix []sym, L int, minLen int, tag string)
	rec = func(alpha []sym, prefix []sym, L int, minLen int, tag string) {
		if len(prefix) >= minLen && len(prefix) > 0 {
			emit(prefix, tag)
		}
		if len(prefix) == L {
			return
		}
		for _, a := range alpha {
			rec(alpha, append(append([]sym{}, prefix...), a), L, minLen, tag)
		}
	}
	if tier == "thorough" {
		rec(full, nil, 4, 1, "exhaustive")
	} else {
		rec(full, nil, 3, 1, "exhaustive")
		rec(coal, nil, 4, 4, "exhaustive-coalescable-len4")
	}
	// --- exhaustive, same name: times {1,2} x payloads {7, 8, empty, nil} WITH repeats, every flush placement:
	// events that are equal in name, time and payload (or differ only in nil vs empty payload) are all kept
	{
		type dsym struct {
			lt  int
			pay string
		}
		var dalpha []dsym
		for _, lt := range []int{1, 2} {
			for _, pay := range []string{"7", "8", "e", "z"} {
				dalpha = append(dalpha, dsym{lt, pay})
			}
		}
		L := 3
		var drec func(prefix []dsym)
		drec = func(prefix []dsym) {
			if len(prefix) > 0 {
				for mask := 0; mask < 1<<uint(len(prefix)); mask++ {
					if tier != "thorough" && len(prefix) == 3 && mask != 0 && mask != 2 && mask != 5 {
						continue
					}
					var ops []string
					dup := false
					seen := map[string]bool{}
					for i, d := range prefix {
						ops = append(ops, fmt.Sprintf("ev %s %d c %s", hexs("a"), d.lt, d.pay))
						key := fmt.Sprintf("%d/%s", d.lt, strings.NewReplacer("z", "e").Replace(d.pay))
						if seen[key] {
							dup = true
						}
						seen[key] = true
						if mask&(1<<uint(i)) != 0 {
							ops = append(ops, "flush")
							seen = map[string]bool{}
						}
					}
					ops = append(ops, "flush", "flush")
					out = append(out, Case{ID: fmt.Sprintf("d%d", id), Ops: ops, Nontrivial: dup, Tags: []string{"exhaustive-equal-payloads"}})
					id++
				}
			}
			if len(prefix) == L {
				return
			}
			for _, a := range dalpha {
				drec(append(append([]dsym{}, prefix...), a))
			}
		}
		drec(nil)
	}
	// --- random, direct
	names := []string{"a", "b", "deploy", "", "x y", "a/b,c"}
	lts := []uint64{0, 1, 2, 3, 7, 1 << 32, 1<<64 - 2, 1<<64 - 1}
	n := 600
	if tier == "thorough" {
		n = 40000
	}
	randEv := func(op string, i int) (string, bool) {
		if rng.Intn(8) == 0 {
			if op == "ev" {
				return fmt.Sprintf("oev %d", i), false
			}
			return fmt.Sprintf("loev %d", i), false
		}
		c := rng.Intn(5) != 0
		pay := strconv.Itoa(i)
		if rng.Intn(3) == 0 { // payloads that repeat inside a window, the empty and the nil payload
			pay = []string{"1", "2", "e", "z"}[rng.Intn(4)]
		}
		return fmt.Sprintf("%s %s %d %s %s", op, hexs(names[rng.Intn(len(names))]), lts[rng.Intn(len(lts))], c18Flag(c), pay), c
	}
	for i := 0; i < n; i++ {
		var ops []string
		k := 2 + rng.Intn(30)
		handled := 0
		nt := false
		for j := 0; j < k; j++ {
			if rng.Intn(5) == 0 {
				ops = append(ops, "flush")
				if handled >= 2 {
					nt = true
				}
				handled = 0
				continue
			}
			o, c := randEv("ev", j+1)
			if c {
				handled++
			}
			ops = append(ops, o)
		}
		ops = append(ops, "flush", "flush")
		out = append(out, Case{ID: fmt.Sprintf("r%d", i), Ops: ops, Nontrivial: nt || handled >= 2, Tags: []string{"random"}})
	}
	// --- the real coalesceLoop, timers that never fire: pass-through is immediate, shutdown flushes
	nl := 150
	if tier == "thorough" {
		nl = 3000
	}
	for i := 0; i < nl; i++ {
		ops := []string{fmt.Sprintf("loop %d %d", c18Long, c18Long)}
		k := 1 + rng.Intn(12)
		pendingBeforePass := false
		handled := 0
		for j := 0; j < k; j++ {
			o, c := randEv("lev", j+1)
			if c {
				handled++
			} else if handled > 0 {
				pendingBeforePass = true
			}
			ops = append(ops, o)
		}
		ops = append(ops, "loev 999998", "lshutdown")
		out = append(out, Case{ID: fmt.Sprintf("l%d", i), Ops: ops, Nontrivial: pendingBeforePass, Tags: []string{"loop-shutdown"}})
	}
	// --- the real coalesceLoop with a short quantum or quiescent timer: flush by timer
	nt := 6
	if tier == "thorough" {
		nt = 60
	}
	for i := 0; i < nt; i++ {
		var ops []string
		tag := "loop-quantum-timer"
		if i%2 == 0 {
			ops = append(ops, fmt.Sprintf("loop %d %d", 25, c18Long))
		} else {
			ops = append(ops, fmt.Sprintf("loop %d %d", c18Long, 15))
			tag = "loop-quiescent-timer"
		}
		rounds := 1 + rng.Intn(2)
		for r := 0; r < rounds; r++ {
			k := 1 + rng.Intn(5)
			for j := 0; j < k; j++ {
				ops = append(ops, fmt.Sprintf("lev %s %d c %d", hexs(names[rng.Intn(2)]), lts[rng.Intn(4)], r*10+j+1))
			}
			ops = append(ops, "lwait")
		}
		ops = append(ops, "loev 999998", "lshutdown")
		out = append(out, Case{ID: fmt.Sprintf("t%d", i), Ops: ops, Nontrivial: true, Tags: []string{tag}})
	}
	return out
}

func init() {
	register(&Prop{
		ID: "C18",
		Rule: "direct coalescer: exhaustive — every sequence of ≤3 user events over 2 names × times {0,1,2} × coalesce flag (thorough: ≤4) with a flush at every subset of positions (quick adds all length-4 sequences of coalescable events with 6 of the 16 flush placements); " +
			"every sequence of ≤3 same-name events over times {1,2} × payloads {7,8,empty,nil} with repeats (equal events, nil vs empty payload) at flush placements; random sequences over 6 names (incl. empty, separators) × 8 times (incl. 0, 2^64-1) × flag, with other-kind events; " +
			"real coalesceLoop goroutine: hour-long timers, every unhandled event must come out before the next is sent, flush by shutdown; short quantum / quiescent timers, flush by timer judged by the monitor for some placement of flush points. " +
			"non-trivial = a flush follows ≥2 coalescable events that tie or differ in name/time (direct), an unhandled event is sent while coalesced events are pending (loop), any timer case; distinct = distinct op sequence",
		Gen:  c18Gen,
		Exec: c18Exec,
	})
}
