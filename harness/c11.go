//go:build verifoverlay

package main

// C11: a crash at any point never loses snapshot state that was already written.
//
// Built only through the file-system-shim overlay (/verif/overlaygen): every file
// operation of the REAL serf/snapshot.go calls a hook first. The executor
//   (1) records the exact operation sequence of every op of a life (compared with the
//       model's FsOp list:  `ops=` field),
//   (2) before every operation k copies the snapshot directory as it is on disk (= the
//       state after a process crash just before k; bufio contents are lost), and for
//       writes to the snapshot file also the states with the write cut after 1, len/2
//       and len-1 bytes,
//   (3) at `crashall` runs the real NewSnapshotter on every copy and reports what it
//       recovers; for the cut copies additionally what is recovered after ONE MORE life
//       on the copy (join of member "zz", shutdown, restart).
//
// Ops: those of snapshot_common.go (sync mode only; every output gets ` ops=…`) and
//   crashall  →  `n=<N> <k>.<cut>.<r|j>=<main01><tmp01>;<alive>;<c>;<e>;<q>|…`

import (
	"fmt"
	"math/rand"
	"net"
	"os"
	"path/filepath"
	"sort"
	"strings"
	"time"

	"github.com/hashicorp/serf/serf"
)

type c11Op struct {
	op   serf.VerifFSOp
	main []byte // content of the snapshot file just before the op (nil: does not exist)
	tmp  []byte
	hasM bool
	hasT bool
}

type c11Run struct {
	ops  []c11Op
	path string // set once known
}

func c11Read(p string) ([]byte, bool) {
	b, err := os.ReadFile(p)
	if err != nil {
		return nil, false
	}
	return b, true
}

func c11Mutating(op string) bool {
	switch op {
	case "open", "write", "sync", "close", "remove", "rename", "truncate":
		return true
	}
	return false
}

func (c *c11Run) hook(op serf.VerifFSOp) error {
	if !c11Mutating(op.Op) {
		return nil
	}
	if c.path == "" {
		c.path = strings.TrimSuffix(op.Path, ".compact")
	}
	rec := c11Op{op: op}
	rec.main, rec.hasM = c11Read(c.path)
	rec.tmp, rec.hasT = c11Read(c.path + ".compact")
	c.ops = append(c.ops, rec)
	return nil
}

func (c *c11Run) which(p string) string {
	if strings.HasSuffix(p, ".compact") {
		return "t"
	}
	return "m"
}

func (c *c11Run) render(from int) string {
	var it []string
	for _, o := range c.ops[from:] {
		w := c.which(o.op.Path)
		switch o.op.Op {
		case "open":
			if o.op.Arg == "trunc" {
				it = append(it, "ot:"+w)
			} else {
				it = append(it, "oa:"+w)
			}
		case "write":
			if w == "t" {
				it = append(it, fmt.Sprintf("w:t:%d", len(o.op.Data)))
			} else {
				it = append(it, "w:m:"+hexb(o.op.Data))
			}
		case "sync":
			it = append(it, "s:"+w)
		case "close":
			it = append(it, "c:"+w)
		case "remove":
			it = append(it, "rm:"+w)
		case "rename":
			it = append(it, "rn:"+w+":"+c.which(o.op.Arg))
		case "truncate":
			it = append(it, fmt.Sprintf("tr:%s:%d", w, o.op.N))
		}
	}
	if len(it) == 0 {
		return "-"
	}
	return strings.Join(it, ",")
}

// materialize writes the crash state before op k (with `cut` bytes of a write to the
// snapshot file already on disk) into a fresh directory.
func (c *c11Run) materialize(k, cut int) (dir, path string, hasM, hasT bool, err error) {
	dir, err = os.MkdirTemp("", "verif-crash-")
	if err != nil {
		return
	}
	path = filepath.Join(dir, "snap")
	var st c11Op
	if k < len(c.ops) {
		st = c.ops[k]
	} else {
		// after the last operation: the directory as it is now
		st.main, st.hasM = c11Read(c.path)
		st.tmp, st.hasT = c11Read(c.path + ".compact")
	}
	m := st.main
	if cut > 0 && k < len(c.ops) {
		m = append(append([]byte{}, m...), c.ops[k].op.Data[:cut]...)
	}
	if st.hasM {
		if err = os.WriteFile(path, m, 0644); err != nil {
			return
		}
	}
	if st.hasT {
		if err = os.WriteFile(path+".compact", st.tmp, 0644); err != nil {
			return
		}
	}
	return dir, path, st.hasM, st.hasT, nil
}

func c11Cuts(n int) []int {
	var out []int
	seen := map[int]bool{}
	for _, c := range []int{1, n / 2, n - 1} {
		if c >= 1 && c < n && !seen[c] {
			seen[c] = true
			out = append(out, c)
		}
	}
	// ascending
	for i := 0; i < len(out); i++ {
		for j := i + 1; j < len(out); j++ {
			if out[j] < out[i] {
				out[i], out[j] = out[j], out[i]
			}
		}
	}
	return out
}

func (c *c11Run) recoverEntry(k, cut int, kind string, rj bool, mc int) string {
	dir, path, hasM, hasT, err := c.materialize(k, cut)
	if err != nil {
		return fmt.Sprintf("%d.%d.%s=error", k, cut, kind)
	}
	defer os.RemoveAll(dir)
	r := &snapRun{dir: "", path: path}
	if kind == "j" {
		if err := r.openSync(rj, mc); err != nil {
			return fmt.Sprintf("%d.%d.%s=error-open", k, cut, kind)
		}
		r.vs.SetClock(snapClock(1))
		if !r.vs.FlushPending() {
			r.vs.SetFlushDue(false)
		}
		r.vs.Dispatch(serf.MemberEvent{Type: serf.EventMemberJoin, Members: []serf.Member{{Name: "zz", Addr: net.IPv4(10, 9, 9, 9).To4(), Port: 1}}})
		r.vs.Shutdown()
		r.closed = true
	}
	if kind == "c" {
		// one more life on the copy that drops every recovered member, joins zz and COMPACTS:
		// a path.compact left behind by the crash must not leak into the new snapshot
		if err := r.openSync(rj, mc); err != nil {
			return fmt.Sprintf("%d.%d.%s=error-open", k, cut, kind)
		}
		r.vs.SetClock(snapClock(1))
		if !r.vs.FlushPending() {
			r.vs.SetFlushDue(false)
		}
		var names []string
		for n := range r.vs.Alive() {
			names = append(names, n)
		}
		sort.Strings(names)
		for _, n := range names {
			r.vs.Dispatch(serf.MemberEvent{Type: serf.EventMemberFailed, Members: []serf.Member{{Name: n}}})
		}
		r.vs.Dispatch(serf.MemberEvent{Type: serf.EventMemberJoin, Members: []serf.Member{{Name: "zz", Addr: net.IPv4(10, 9, 9, 9).To4(), Port: 1}}})
		_ = r.vs.Compact()
		r.vs.Shutdown()
		r.closed = true
	}
	p, err := r.probe(rj, mc)
	if err != nil {
		return fmt.Sprintf("%d.%d.%s=error-probe", k, cut, kind)
	}
	// p = "alive=A c=C e=E q=Q"
	f := strings.Fields(p)
	vals := make([]string, 0, 4)
	for _, x := range f {
		if i := strings.Index(x, "="); i >= 0 {
			vals = append(vals, x[i+1:])
		}
	}
	return fmt.Sprintf("%d.%d.%s=%s%s;%s", k, cut, kind, b01(hasM), b01(hasT), strings.Join(vals, ";"))
}

func (c *c11Run) crashAll(rj bool, mc int) string {
	serf.VerifSetFSHook(nil)
	defer serf.VerifSetFSHook(c.hook)
	var it []string
	n := len(c.ops)
	stale := 0
	for k := 0; k <= n; k++ {
		it = append(it, c.recoverEntry(k, 0, "r", rj, mc))
		// crash points where path.compact exists next to the snapshot (the first three of a life)
		if k < n && c.ops[k].hasM && c.ops[k].hasT && stale < 3 {
			stale++
			it = append(it, c.recoverEntry(k, 0, "c", rj, mc))
		}
		if k < n && c.ops[k].op.Op == "write" && c.which(c.ops[k].op.Path) == "m" {
			for _, cut := range c11Cuts(len(c.ops[k].op.Data)) {
				it = append(it, c.recoverEntry(k, cut, "r", rj, mc))
				it = append(it, c.recoverEntry(k, cut, "j", rj, mc))
			}
		}
	}
	return fmt.Sprintf("n=%d %s", n, strings.Join(it, "|"))
}

func c11ExecOnce(ops []string) (outs []string, stalled bool) {
	c := &c11Run{}
	serf.VerifSetFSHook(c.hook)
	defer serf.VerifSetFSHook(nil)
	var r *snapRun
	defer func() { serf.VerifSetFSHook(nil); r.cleanup() }()
	rj, mc := false, 0
	for _, o := range ops {
		f := strings.Fields(o)
		if len(f) == 0 {
			outs = append(outs, "bad-op")
			continue
		}
		if f[0] == "createonly" {
			// the crash window between remove and rename, restarted through serf.Create: only <snapshot>.compact exists
			if len(f) != 2 || unhex(f[1]) == nil {
				outs = append(outs, "bad-op")
				continue
			}
			serf.VerifSetFSHook(nil)
			outs = append(outs, c11CreateOnly(unhex(f[1])))
			serf.VerifSetFSHook(c.hook)
			continue
		}
		if f[0] == "crashall" {
			if r == nil {
				outs = append(outs, "bad-op")
				continue
			}
			outs = append(outs, c.crashAll(rj, mc))
			continue
		}
		if f[0] == "reopen" || f[0] == "dump" || (f[0] == "new" && (len(f) != 4 || f[1] != "sync")) {
			outs = append(outs, "bad-op")
			continue
		}
		if f[0] == "new" {
			rj = f[2] == "1"
			fmt.Sscanf(f[3], "%d", &mc)
			c.ops, c.path = nil, ""
		}
		from := len(c.ops)
		t0 := time.Now()
		out := snapExecOp(&r, f)
		if time.Since(t0) > 300*time.Millisecond || (r != nil && r.stalled) {
			stalled = true
		}
		if out == "bad-op" {
			outs = append(outs, out)
			continue
		}
		outs = append(outs, out+" ops="+c.render(from))
	}
	return outs, stalled
}

// c11CreateOnly starts a real node (serf.Create) twice on the same snapshot bytes: (a) the bytes are only in
// <snapshot>.compact (what a crash between the remove and the rename of a compaction leaves), (b) the bytes are the
// snapshot itself. Reported: the clocks each node restored.
func c11CreateOnly(content []byte) string {
	one := func(name string) string {
		dir, err := os.MkdirTemp("", "verif-c11c-")
		if err != nil {
			return "env-error"
		}
		defer os.RemoveAll(dir)
		if os.WriteFile(dir+"/"+name, content, 0644) != nil {
			return "env-error"
		}
		nd, err := c14Node(dir, 4, 4)
		if err != nil {
			return "env-error"
		}
		defer nd.close()
		return fmt.Sprintf("%d/%d/%d", nd.stat("member_time"), nd.stat("event_time"), nd.stat("query_time"))
	}
	a, b := one("snap.compact"), one("snap")
	if a == "env-error" || b == "env-error" {
		return "env-error"
	}
	return "a=" + a + " b=" + b
}

func c11Exec(ops []string) []string {
	var outs []string
	for try := 0; try < 4; try++ {
		var st bool
		outs, st = c11ExecOnce(ops)
		if !st {
			return outs
		}
	}
	return outs
}

func c11Gen(rng *rand.Rand, tier string) []Case {
	var out []Case
	// the two-event history of the remove..rename finding, every threshold that compacts at once
	out = append(out, Case{ID: "window", Tags: []string{"fixed"}, Nontrivial: true, Ops: []string{
		"new sync 0 0", "join 2 " + snapMember(rng, "a"), "compact", "join 3 " + snapMember(rng, "b"), "shutdown 3", "crashall"}})
	// every user event compacts (nothing alive, threshold 0): the compaction must write the clock just recorded
	out = append(out, Case{ID: "evclock", Tags: []string{"fixed"}, Nontrivial: true, Ops: []string{
		"new sync 0 0", "user 5", "user 7", "query 3", "shutdown 1", "crashall"}})
	// restart through serf.Create when only <snapshot>.compact exists (crash between remove and rename)
	for i, content := range []string{
		"alive: n1 10.0.0.1:7946\nclock: 9\nevent-clock: 3\nquery-clock: 7\n",
		"clock: 120\nevent-clock: 77\nquery-clock: 5\n",
		"alive: n1 10.0.0.1:7946\nalive: n2 10.0.0.2:7946\nclock: 4\nevent-clock: 40\nquery-clock: 41\n"} {
		out = append(out, Case{ID: fmt.Sprintf("createonly%d", i), Tags: []string{"fixed", "create-on-compact-only"}, Nontrivial: true,
			Ops: []string{"createonly " + hexs(content)}})
	}
	n := 30
	if tier == "thorough" {
		n = 1500
	}
	for i := 0; i < n; i++ {
		names := append([]string{}, snapNames...)
		rng.Shuffle(len(names), func(a, b int) { names[a], names[b] = names[b], names[a] })
		names = names[:2+rng.Intn(4)]
		rj := rng.Intn(2) == 1
		mc := []int{0, 1, 64, 200, 128 * 1024}[rng.Intn(5)]
		if rng.Intn(2) == 0 {
			mc = []int{64, 200}[rng.Intn(2)]
		}
		clk := uint64(1)
		h, st := snapHistory(rng, snapGenOpts{maxEvents: 10}, names, &clk)
		var ops []string
		ops = append(ops, fmt.Sprintf("new sync %s %d", b01(rj), mc))
		for _, o := range h {
			if o == "dump" {
				continue
			}
			ops = append(ops, o)
		}
		ops = append(ops, fmt.Sprintf("shutdown %d", clk), "crashall")
		c := Case{ID: fmt.Sprintf("h%d", i), Ops: ops, Tags: []string{fmt.Sprintf("mc%d", mc)}}
		c.Nontrivial = st["join"] >= 1 && (mc <= 200 || st["compact"] > 0)
		out = append(out, c)
	}
	return out
}

func init() {
	register(&Prop{
		ID: "C11",
		Rule: "3 directed cases start a real node through serf.Create on a directory that holds the snapshot bytes only as <snapshot>.compact and on the same bytes as the snapshot (restored clocks must agree); the real Snapshotter compiled through the file-system shim (overlay): lives of ≤10 events (joins incl. multi-member, leave/failed, user/query times, clock ticks, flush-interval elapsing, forced compactions) × thresholds {0,1,64,200,128KiB} × both flag settings; " +
			"the operation sequence of every op is compared with the model's; at EVERY operation index (and for writes to the snapshot file with the write cut after 1, len/2, len-1 bytes) the directory as it is on disk is copied and the real NewSnapshotter recovers from the copy; for cut writes also after one more life on the copy; " +
			"non-trivial = the life contains a join and compacts (threshold ≤200 or forced); distinct = distinct op sequence",
		Gen:  c11Gen,
		Exec: c11Exec,
	})
}
