package main

import (
	"fmt"
	"math/rand"
	"net"
	"strings"
	"sync"
	"time"

	"github.com/hashicorp/serf/serf"
)

// C34: lifecycle calls on one real node.

func c34Call(n *testNode, op string) (res string) {
	// a panic inside a lifecycle call (e.g. memberlist's "leave after shutdown") is reported as the call's result
	defer func() {
		if r := recover(); r != nil {
			res = "panic-" + strings.ReplaceAll(fmt.Sprint(r), " ", "-")
		}
	}()
	switch op {
	case "leave":
		if err := n.S.Leave(); err != nil {
			return "err"
		}
		return "ok"
	case "shutdown":
		if err := n.S.Shutdown(); err != nil {
			return "err"
		}
		return "ok"
	case "join":
		_, err := n.S.Join([]string{"127.0.0.1:1"}, false)
		if err != nil && strings.Contains(err.Error(), "can't Join after Leave or Shutdown") {
			return "refused"
		}
		return "attempted"
	case "state":
		return n.S.State().String()
	}
	return "bad-op"
}

func c34Gen(rng *rand.Rand, tier string) []Case {
	var out []Case
	calls := []string{"leave", "shutdown", "join"}
	// exhaustive: every sequence of ≤ 3 calls (quick) / ≤ 4 (thorough), state read after each
	L := 3
	nConc := 10
	if tier == "thorough" {
		L = 4
		nConc = 150
	}
	id := 0
	var rec func(prefix []string)
	rec = func(prefix []string) {
		if len(prefix) > 0 {
			ops := []string{"state"}
			for _, c := range prefix {
				ops = append(ops, c, "state")
			}
			out = append(out, Case{ID: fmt.Sprintf("x%d", id), Ops: ops, Nontrivial: len(prefix) >= 2, Tags: []string{"exhaustive"}})
			id++
		}
		if len(prefix) == L {
			return
		}
		for _, c := range calls {
			rec(append(append([]string{}, prefix...), c))
		}
	}
	rec(nil)
	out = append(out, Case{ID: "leave-during-join", Ops: []string{"leaveduringjoin"}, Nontrivial: true, Tags: []string{"directed"}})
	out = append(out, Case{ID: "leave-stalled", Ops: []string{"leavestall"}, Nontrivial: true, Tags: []string{"directed"}})
	out = append(out, Case{ID: "join-during-leave", Ops: []string{"joinduringleave"}, Nontrivial: true, Tags: []string{"directed"}})
	for i := 0; i < nConc; i++ {
		k := 2 + rng.Intn(3)
		var cs []string
		for j := 0; j < k; j++ {
			cs = append(cs, calls[rng.Intn(3)])
		}
		out = append(out, Case{ID: fmt.Sprintf("c%d", i), Ops: []string{"conc " + strings.Join(cs, " ")}, Nontrivial: true, Tags: []string{"concurrent"}})
	}
	return out
}

// c34JoinDuringLeave: a Leave with a long propagate delay is started, and as soon as State() reports
// `leaving` a Join is attempted: the leave has begun, so the join must be refused.
func c34JoinDuringLeave() string {
	n, err := newTestNode(func(c *serf.Config) {
		c.BroadcastTimeout = 5 * time.Millisecond
		c.LeavePropagateDelay = 400 * time.Millisecond
	})
	if err != nil {
		return nodeErr(err)
	}
	defer n.Close()
	done := make(chan struct{})
	go func() { _ = n.S.Leave(); close(done) }()
	deadline := time.Now().Add(5 * time.Second)
	for n.S.State() != serf.SerfLeaving && time.Now().Before(deadline) {
		time.Sleep(time.Millisecond)
	}
	if n.S.State() != serf.SerfLeaving {
		<-done
		return "leaving-not-observed"
	}
	res := c34Call(n, "join")
	<-done
	return res + " " + n.S.State().String()
}

// c34LeaveDuringJoin: a Join to a peer that accepts the connection and never answers is in flight (it holds
// joinLock); Leave is called, and 40 ms later a second Join.  The leave had begun before the second Join was
// called, so that Join must be refused — whether or not the first Join has finished.
func c34LeaveDuringJoin() string {
	n, err := newTestNode(func(c *serf.Config) {
		c.MemberlistConfig.TCPTimeout = 500 * time.Millisecond
		c.BroadcastTimeout = 5 * time.Millisecond
		c.LeavePropagateDelay = 3 * time.Millisecond
	})
	if err != nil {
		return nodeErr(err)
	}
	defer n.Close()
	ln, lerr := net.Listen("tcp", "127.0.0.1:0")
	if lerr != nil {
		return "env-error"
	}
	defer ln.Close()
	accepted := make(chan net.Conn, 8)
	go func() {
		for {
			c, err := ln.Accept()
			if err != nil {
				return
			}
			accepted <- c // held open, never answered
		}
	}()
	j1 := make(chan struct{})
	go func() { _, _ = n.S.Join([]string{"blackhole/" + ln.Addr().String()}, false); close(j1) }()
	select {
	case c := <-accepted:
		defer c.Close()
	case <-time.After(3 * time.Second):
		return "env-error"
	}
	lres := make(chan string, 1)
	go func() { lres <- c34Call(n, "leave") }()
	time.Sleep(40 * time.Millisecond)
	jr := c34Call(n, "join")
	lr := <-lres
	<-j1
	return "leave:" + lr + ",join:" + jr + " " + n.S.State().String()
}

// c34LeaveStall: a node that knows a live peer and whose gossip is stalled (nothing leaves its broadcast queue)
// calls Leave: both the serf-level leave broadcast and memberlist's own leave time out.  Whatever Leave returns,
// the state a polling observer sees must only move forward, and a Join issued afterwards must be refused
// (the leave had begun before it).
func c34LeaveStall() string {
	peer, err := newTestNode(nil)
	if err != nil {
		return nodeErr(err)
	}
	defer peer.Close()
	n, err := newTestNode(func(c *serf.Config) {
		c.MemberlistConfig.GossipInterval = time.Hour
		c.BroadcastTimeout = 60 * time.Millisecond
		c.LeavePropagateDelay = 20 * time.Millisecond
	})
	if err != nil {
		return nodeErr(err)
	}
	defer n.Close()
	addr := fmt.Sprintf("%s/%s:%d", peer.Conf.NodeName, peer.Conf.MemberlistConfig.BindAddr, peer.Conf.MemberlistConfig.BindPort)
	if _, err := n.S.Join([]string{addr}, false); err != nil || n.S.NumNodes() != 2 {
		return "env-error" // the set-up join to the helper peer did not complete (loaded machine)
	}
	stop := make(chan struct{})
	var samples []string
	var ow sync.WaitGroup
	ow.Add(1)
	go func() {
		defer ow.Done()
		last := ""
		for {
			st := n.S.State().String()
			if st != last {
				samples = append(samples, st)
				last = st
			}
			select {
			case <-stop:
				samples = append(samples, n.S.State().String())
				return
			default:
			}
		}
	}()
	lr := c34Call(n, "leave")
	jr := c34Call(n, "join")
	close(stop)
	ow.Wait()
	return "obs " + strings.Join(samples, ",") + "|leave:" + lr + ",join:" + jr
}

func c34Exec(ops []string) []string {
	n, err := newTestNode(func(c *serf.Config) {
		c.BroadcastTimeout = 5 * time.Millisecond
		c.LeavePropagateDelay = 3 * time.Millisecond
	})
	if err != nil {
		outs := make([]string, len(ops))
		for i := range outs {
			outs[i] = nodeErr(err)
		}
		return outs
	}
	defer n.Close()
	var outs []string
	for _, o := range ops {
		f := strings.Fields(o)
		if len(f) >= 2 && f[0] == "conc" {
			var wg sync.WaitGroup
			results := make([]string, len(f)-1)
			start := make(chan struct{})
			stop := make(chan struct{})
			var samples []string
			var ow sync.WaitGroup
			ow.Add(1)
			go func() {
				defer ow.Done()
				last := ""
				for {
					s := n.S.State().String()
					if s != last {
						samples = append(samples, s)
						last = s
					}
					select {
					case <-stop:
						samples = append(samples, n.S.State().String())
						return
					default:
					}
				}
			}()
			for i, c := range f[1:] {
				wg.Add(1)
				go func(i int, c string) {
					defer wg.Done()
					<-start
					results[i] = c + ":" + c34Call(n, c)
				}(i, c)
			}
			close(start)
			wg.Wait()
			close(stop)
			ow.Wait()
			outs = append(outs, "obs "+strings.Join(samples, ",")+"|"+strings.Join(results, ","))
			continue
		}
		if len(f) == 1 && f[0] == "leaveduringjoin" {
			outs = append(outs, c34LeaveDuringJoin())
			continue
		}
		if len(f) == 1 && f[0] == "leavestall" {
			outs = append(outs, c34LeaveStall())
			continue
		}
		if len(f) == 1 && f[0] == "joinduringleave" {
			outs = append(outs, c34JoinDuringLeave())
			continue
		}
		if len(f) == 1 {
			outs = append(outs, c34Call(n, f[0]))
		} else {
			outs = append(outs, "bad-op")
		}
	}
	return outs
}

func init() {
	register(&Prop{
		ID: "C34",
		Rule: "a real single Serf node per case: every sequence of ≤3 (thorough ≤4) Leave/Shutdown/Join calls with State() read after each (exhaustive), plus free-running concurrent groups of 2-4 calls with a polling State() observer, a Join issued while a Leave is in progress, a Leave and then a Join issued while an earlier Join is still in flight, and a Leave whose broadcasts time out (live peer, stalled gossip) followed by a Join; " +
			"non-trivial = at least two calls; distinct = distinct op sequence",
		Gen:  c34Gen,
		Exec: c34Exec,
	})
}
