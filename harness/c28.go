package main

import (
	"bufio"
	"fmt"
	"math/rand"
	"net"
	"strconv"
	"strings"
	"sync"
	"sync/atomic"
	"time"

	"github.com/hashicorp/go-msgpack/v2/codec"
	"github.com/hashicorp/logutils"
	"github.com/hashicorp/serf/client"
)

// C28: the real RPC client against a fake agent that floods stream / monitor /
// query records, while user goroutines call Stop and Close.  A send on a closed
// subscriber channel or a double close panics in a goroutine and kills the process,
// hence Isolate.

type c28Hdr struct {
	Command string
	Seq     uint64
}
type c28Resp struct {
	Seq   uint64
	Error string
}

type c28Server struct {
	ln net.Listener
}

// c28SlowBody > 0 makes the fake agent pause that long between a record's header and its
// body, so that Stop/Close can land while the reader goroutine is inside Handle.
var c28SlowBody time.Duration

func c28Serve(conn net.Conn) {
	defer conn.Close()
	r := bufio.NewReader(conn)
	w := bufio.NewWriter(conn)
	h := &codec.MsgpackHandle{}
	dec := codec.NewDecoder(r, h)
	enc := codec.NewEncoder(w, h)
	var wl sync.Mutex
	send := func(objs ...any) error {
		wl.Lock()
		defer wl.Unlock()
		for _, o := range objs {
			if err := enc.Encode(o); err != nil {
				return err
			}
		}
		return w.Flush()
	}
	// a record whose body follows its header after a pause: the pair stays one frame on the wire (as the real
	// agent writes header and body under one lock); another reply cannot slip in between
	sendSlow := func(hdr, body any, pause time.Duration) error {
		wl.Lock()
		defer wl.Unlock()
		if err := enc.Encode(hdr); err != nil {
			return err
		}
		if err := w.Flush(); err != nil {
			return err
		}
		time.Sleep(pause)
		if err := enc.Encode(body); err != nil {
			return err
		}
		return w.Flush()
	}
	var mu sync.Mutex
	stopped := map[uint64]time.Time{}
	for {
		var hd c28Hdr
		if err := dec.Decode(&hd); err != nil {
			return
		}
		var body any
		if err := dec.Decode(&body); err != nil {
			return
		}
		switch hd.Command {
		case "handshake":
			_ = send(&c28Resp{Seq: hd.Seq})
		case "stream", "monitor", "query":
			// a subscription the agent refuses (invalid filter / log level): an error header and nothing else
			if strings.Contains(strings.ToLower(fmt.Sprintf("%s", body)), "refuse-me") {
				_ = send(&c28Resp{Seq: hd.Seq, Error: "refused"})
				continue
			}
			_ = send(&c28Resp{Seq: hd.Seq})
			go func(seq uint64, kind string) {
				i := 0
				for {
					mu.Lock()
					t, st := stopped[seq]
					mu.Unlock()
					// keep flooding for a while after the stop request: late records race with Cleanup
					if st && time.Since(t) > 3*time.Millisecond {
						return
					}
					var rec any
					switch kind {
					case "stream":
						rec = map[string]any{"Event": "user", "LTime": i, "Name": "x", "Payload": []byte("p"), "Coalesce": false}
					case "monitor":
						rec = map[string]any{"Log": "line " + strconv.Itoa(i)}
					default:
						typ := "ack"
						if i%2 == 1 {
							typ = "response"
						}
						rec = map[string]any{"Type": typ, "From": "n" + strconv.Itoa(i), "Payload": []byte("r")}
					}
					if c28SlowBody > 0 {
						if err := sendSlow(&c28Resp{Seq: seq}, rec, c28SlowBody); err != nil {
							return
						}
					} else if err := send(&c28Resp{Seq: seq}, rec); err != nil {
						return
					}
					i++
				}
			}(hd.Seq, hd.Command)
		case "stop":
			if m, ok := body.(map[string]any); ok {
				if v, ok := m["Stop"]; ok {
					var s uint64
					switch x := v.(type) {
					case uint64:
						s = x
					case int64:
						s = uint64(x)
					}
					mu.Lock()
					stopped[s] = time.Now()
					mu.Unlock()
				}
			}
			_ = send(&c28Resp{Seq: hd.Seq})
		default:
			_ = send(&c28Resp{Seq: hd.Seq, Error: "Unsupported command"})
		}
	}
}

func c28Gen(rng *rand.Rand, tier string) []Case {
	var out []Case
	n := 6
	iters := 40
	if tier == "thorough" {
		n = 90
		iters = 200
	}
	kinds := []string{"stream", "monitor", "query"}
	// Stop / Close landing between a record's header and body (slow server), and a Stop issued
	// after Close (second deregistration of the same handler)
	for i, k := range []string{"stream", "monitor", "query"} {
		out = append(out, Case{ID: fmt.Sprintf("slow%d", i), Ops: []string{fmt.Sprintf("race %s slowstop %d %d", k, iters/4, rng.Int63())}, Nontrivial: true, Tags: []string{k + "-slowstop"}})
		if k != "query" {
			out = append(out, Case{ID: fmt.Sprintf("rf%d", i), Ops: []string{fmt.Sprintf("race %s refused %d %d", k, iters/4, rng.Int63())}, Nontrivial: true, Tags: []string{k + "-refused"}})
		}
		out = append(out, Case{ID: fmt.Sprintf("cc%d", i), Ops: []string{fmt.Sprintf("race %s closeclose %d %d", k, iters, rng.Int63())}, Nontrivial: true, Tags: []string{k + "-closeclose"}})
		out = append(out, Case{ID: fmt.Sprintf("cs%d", i), Ops: []string{fmt.Sprintf("race %s closestop %d %d", k, iters/4, rng.Int63())}, Nontrivial: true, Tags: []string{k + "-closestop"}})
	}
	for i := 0; i < n; i++ {
		k := kinds[i%3]
		end := "stop"
		if i%2 == 1 {
			end = "close"
		}
		out = append(out, Case{ID: fmt.Sprintf("r%d", i),
			Ops:        []string{fmt.Sprintf("race %s %s %d %d", k, end, iters, rng.Int63())},
			Nontrivial: true, Tags: []string{k + "-" + end}})
	}
	return out
}

func c28Exec(ops []string) []string {
	var outs []string
	for _, o := range ops {
		f := strings.Fields(o)
		if len(f) != 5 || f[0] != "race" {
			outs = append(outs, "bad-op")
			continue
		}
		iters, _ := strconv.Atoi(f[3])
		seed, _ := strconv.ParseInt(f[4], 10, 64)
		outs = append(outs, c28Race(f[1], f[2], iters, seed))
	}
	return outs
}

// c28Race: `iters` times: subscribe, let records flood in, then Stop the handle (or, for
// end=close, Close the whole client and reconnect) at a random moment. Every subscriber
// channel must end up closed exactly once (a second close or a late send would panic).
func c28Race(kind, end string, iters int, seed int64) string {
	ln, err := net.Listen("tcp", "127.0.0.1:0")
	if err != nil {
		return "listen-error"
	}
	defer ln.Close()
	go func() {
		for {
			c, err := ln.Accept()
			if err != nil {
				return
			}
			go c28Serve(c)
		}
	}()
	rng := rand.New(rand.NewSource(seed))
	c28SlowBody = 0
	if end == "slowstop" {
		c28SlowBody = 2 * time.Millisecond
	}
	closed := 0
	var cl *client.RPCClient
	for i := 0; i < iters; i++ {
		if cl == nil {
			cl, err = client.ClientFromConfig(&client.Config{Addr: ln.Addr().String(), Timeout: 2 * time.Second})
			if err != nil {
				return "connect-error"
			}
		}
		done := make(chan struct{})
		var h client.StreamHandle
		filter, level := "*", "DEBUG"
		if end == "refused" {
			filter, level = "refuse-me", "REFUSE-ME"
		}
		switch kind {
		case "stream":
			ch := make(chan map[string]any, 4)
			go func() {
				for range ch {
				}
				close(done)
			}()
			h, err = cl.Stream(filter, ch)
		case "monitor":
			ch := make(chan string, 4)
			go func() {
				for range ch {
				}
				close(done)
			}()
			h, err = cl.Monitor(logutils.LogLevel(level), ch)
		default:
			ack := make(chan string, 4)
			resp := make(chan client.NodeResponse, 4)
			go func() {
				for range ack {
				}
				for range resp {
				}
				close(done)
			}()
			err = cl.Query(&client.QueryParam{Name: "q", RequestAck: true, AckCh: ack, RespCh: resp})
		}
		if end == "refused" && kind != "query" {
			// the agent refused: the call reports the error, the subscriber channel is closed exactly once (a second
			// close would panic), and a later Stop / Close of the client finds nothing left to clean up
			if err == nil {
				return "refusal-not-reported"
			}
			_ = cl.Stop(h)
			if i%2 == 1 {
				_ = cl.Close()
				cl = nil
			}
			select {
			case <-done:
				closed++
			case <-time.After(2 * time.Second):
			}
			continue
		}
		if err != nil {
			return "subscribe-error " + err.Error()
		}
		if end == "slowstop" {
			time.Sleep(time.Duration(1000+rng.Intn(4000)) * time.Microsecond)
		} else {
			time.Sleep(time.Duration(rng.Intn(300)) * time.Microsecond)
		}
		switch {
		case end == "closeclose":
			// several goroutines (the application, and the reader on a dropped connection) close the client
			// at once; afterwards a request on the closed client must fail with an error, not crash
			var cw sync.WaitGroup
			var ready atomic.Int32
			const closers = 8
			for g := 0; g < closers; g++ {
				cw.Add(1)
				go func() {
					defer cw.Done()
					ready.Add(1)
					for ready.Load() < closers { // spin barrier: all closers enter Close together
					}
					_ = cl.Close()
				}()
			}
			cw.Wait()
			_ = cl.Stop(h)
			_, _ = cl.Members()
			cl = nil
		case (end == "stop" || end == "slowstop") && kind != "query":
			_ = cl.Stop(h)
		case end == "closestop":
			_ = cl.Close()
			_ = cl.Stop(h) // a second deregistration must not close the channel again
			cl = nil
		default:
			_ = cl.Close()
			cl = nil
		}
		select {
		case <-done:
			closed++
		case <-time.After(2 * time.Second):
		}
	}
	if cl != nil {
		_ = cl.Close()
	}
	return fmt.Sprintf("closed %d/%d", closed, iters)
}

func init() {
	register(&Prop{
		ID: "C28",
		Rule: "the real RPC client against an in-process fake agent that floods stream/monitor/query records (and keeps flooding for 3 ms after a stop request); per case 40 (thorough 200) subscribe→random delay→Stop or Close iterations (also: eight goroutines closing the client at once, then a request on the closed client; subscriptions the agent refuses, followed by Stop / Close); " +
			"every case is non-trivial (records race with Stop/Close); distinct = distinct (kind, end, seed)",
		Gen:     c28Gen,
		Exec:    c28Exec,
		Isolate: true,
	})
}
