package main

import (
	"fmt"
	"io"
	"math/rand"
	"net"
	"os"
	"sort"
	"strconv"
	"strings"
	"sync"
	"time"

	metrics "github.com/hashicorp/go-metrics/compat"
	"github.com/hashicorp/memberlist"
	"github.com/hashicorp/serf/serf"
	"github.com/hashicorp/serf/testutil"
)

// C16: the event pipeline of a REAL serf node. Ops: see lean/SerfModel/Check/C16.lean.

var (
	c16IPOnce sync.Once
	c16IP     net.IP
)

func c16BindIP() net.IP {
	c16IPOnce.Do(func() {
		// testutil reports retries on os.Stdout, which in exec mode is the trace
		// (and ./check merges stderr into it), so they go nowhere
		old := os.Stdout
		if dn, err := os.OpenFile(os.DevNull, os.O_WRONLY, 0); err == nil {
			os.Stdout = dn
			defer dn.Close()
		} else {
			os.Stdout = os.Stderr
		}
		ip, _ := testutil.TakeIP() // kept for the life of the process
		os.Stdout = old
		c16IP = ip
	})
	return c16IP
}

// c16Sink is the process-wide metrics sink. Every handler that reports a status change bumps a
// counter (serf.member.join / failed / left / update) between applying the change and sending the
// event; the sink lets the harness hold a handler exactly there (one shot) while another
// goroutine delivers a message about the same member.
type c16Sink struct {
	metrics.BlackholeSink
	mu   sync.Mutex
	key  string
	hook func()
}

func (s *c16Sink) IncrCounterWithLabels(key []string, val float32, labels []metrics.Label) {
	s.mu.Lock()
	h := s.hook
	hit := false
	if h != nil {
		for _, k := range key {
			if k == s.key {
				hit = true
			}
		}
	}
	if hit {
		s.hook = nil
	}
	s.mu.Unlock()
	if hit {
		h()
	}
}

var (
	c16SinkOnce sync.Once
	c16TheSink  = &c16Sink{}
)

func c16InstallSink() {
	c16SinkOnce.Do(func() {
		conf := metrics.DefaultConfig("")
		conf.EnableHostname = false
		conf.EnableHostnameLabel = false
		conf.EnableRuntimeMetrics = false
		_, _ = metrics.NewGlobal(conf, c16TheSink)
	})
}

// c16Held runs a() with the handler held at its `key` counter, starts b() while it is held, gives b
// a moment to get through (it cannot, when a holds the member lock), then lets a continue.
func c16Held(key string, a, b func()) {
	reached := make(chan struct{})
	release := make(chan struct{})
	c16TheSink.mu.Lock()
	c16TheSink.key = key
	c16TheSink.hook = func() {
		close(reached)
		select {
		case <-release:
		case <-time.After(5 * time.Second):
		}
	}
	c16TheSink.mu.Unlock()
	aDone := make(chan struct{})
	go func() { defer close(aDone); a() }()
	select {
	case <-reached:
	case <-aDone: // the handler never got to the counter: run b afterwards
	case <-time.After(5 * time.Second):
	}
	bDone := make(chan struct{})
	go func() { defer close(bDone); b() }()
	select {
	case <-bDone:
	case <-time.After(20 * time.Millisecond):
	}
	close(release)
	<-aDone
	<-bDone
	c16TheSink.mu.Lock()
	c16TheSink.hook = nil
	c16TheSink.mu.Unlock()
}

func c16Rec(role string, code int) string {
	v, err := strconv.Atoi(role)
	if err != nil {
		return "x" + role
	}
	return strconv.Itoa(4*v + code)
}

type c16Node struct {
	s        *serf.Serf
	conf     *serf.Config
	evCh     chan serf.Event
	dir      string
	coalesce bool

	mu       sync.Mutex
	got      []string // items since the last wait
	lastAt   time.Time
	lastKind map[string]string // per member: last kind received (settling only)
	userGot  int
	gotM     int // member events / user events / queries received since the last wait
	gotU     int
	gotQ     int
	gate     sync.Mutex // held while the application is "not reading"
	stop     chan struct{}
	paused   bool

	emitLast  map[string]string // per member: last kind emitted (settling only)
	emitCount int               // events put in since the last wait
	userCoal  int               // coalescable user events since the last wait
	expM      int               // events sent since the last wait that no stage may hold back or merge
	expU      int
	expQ      int
	ucoal     bool
	mcoal     bool
	ltime     uint64
}

func (n *c16Node) collector() {
	for {
		n.gate.Lock()
		n.gate.Unlock() //nolint:staticcheck
		select {
		case e := <-n.evCh:
			n.mu.Lock()
			switch v := e.(type) {
			case serf.MemberEvent:
				k := c17KindName(v.Type)
				for _, m := range v.Members {
					n.got = append(n.got, fmt.Sprintf("%s/%s/%s", k, hexs(m.Name), c16V(m)))
					n.lastKind[m.Name] = k
					n.gotM++
				}
			case serf.UserEvent:
				n.got = append(n.got, fmt.Sprintf("u/%s/%s", hexs(v.Name), string(v.Payload)))
				n.userGot++
				n.gotU++
			case *serf.Query:
				n.got = append(n.got, "q/"+strings.TrimPrefix(v.Name, "q"))
				n.gotQ++
			default:
				n.got = append(n.got, "unknown")
			}
			n.lastAt = time.Now()
			n.mu.Unlock()
		case <-n.stop:
			return
		}
	}
}

func c16Start(snapshot, ucoal, mcoal bool) (*c16Node, error) {
	c16InstallSink()
	n := &c16Node{evCh: make(chan serf.Event, 4), stop: make(chan struct{}), lastKind: map[string]string{},
		emitLast: map[string]string{}, ltime: 100, coalesce: ucoal || mcoal, ucoal: ucoal, mcoal: mcoal}
	conf := serf.DefaultConfig()
	conf.Init()
	conf.MemberlistConfig.BindAddr = c16BindIP().String()
	conf.MemberlistConfig.BindPort = 0
	conf.MemberlistConfig.AdvertisePort = 0
	conf.MemberlistConfig.LogOutput = io.Discard
	conf.LogOutput = io.Discard
	conf.NodeName = "self"
	conf.Tags = map[string]string{"role": "0"}
	// handlePrune sleeps BroadcastTimeout+LeavePropagateDelay for a leaving member, and a local
	// force-leave waits BroadcastTimeout for a broadcast nobody will take: keep both short
	conf.BroadcastTimeout = 5 * time.Millisecond
	conf.LeavePropagateDelay = time.Millisecond
	conf.EventCh = n.evCh
	if mcoal {
		conf.CoalescePeriod = 8 * time.Millisecond
		conf.QuiescentPeriod = 4 * time.Millisecond
	}
	if ucoal {
		conf.UserCoalescePeriod = 8 * time.Millisecond
		conf.UserQuiescentPeriod = 4 * time.Millisecond
	}
	if snapshot {
		// the snapshotter fsyncs on shutdown; a memory-backed directory keeps that cheap
		base := ""
		if st, err := os.Stat("/dev/shm"); err == nil && st.IsDir() {
			base = "/dev/shm"
		}
		d, err := os.MkdirTemp(base, "verif-c16-")
		if err != nil {
			d, err = os.MkdirTemp("", "verif-c16-")
		}
		if err != nil {
			return nil, err
		}
		n.dir = d
		conf.SnapshotPath = d + "/snap"
	}
	n.conf = conf
	n.lastAt = time.Now()
	go n.collector()
	s, err := serf.Create(conf)
	if err != nil {
		close(n.stop)
		return nil, err
	}
	n.s = s
	return n, nil
}

// nextLTime: a Lamport time newer than anything the node has seen (its own force-leave messages
// are stamped with its clock, so the harness counter alone could fall behind).
func (n *c16Node) nextLTime() uint64 {
	if t, err := strconv.ParseUint(n.s.Stats()["member_time"], 10, 64); err == nil && t > n.ltime {
		n.ltime = t
	}
	n.ltime++
	return n.ltime
}

func (n *c16Node) close() {
	if n.paused {
		n.gate.Unlock()
		n.paused = false
	}
	if n.s != nil {
		_ = n.s.Shutdown()
	}
	close(n.stop)
	if n.dir != "" {
		_ = os.RemoveAll(n.dir)
	}
}

func (n *c16Node) member(name string) (serf.Member, bool) {
	for _, m := range n.s.Members() {
		if m.Name == name {
			return m, true
		}
	}
	return serf.Member{}, false
}

func (n *c16Node) emit(kind, name string, m serf.Member) string {
	n.emitLast[name] = kind
	n.emitCount++
	if !n.mcoal {
		n.expM++
	}
	return fmt.Sprintf("emit %s/%s/%s", kind, hexs(name), c16V(m))
}

// c16V is the identity of the member record an event carries: 4*version (the harness puts the
// version into the role tag) + the status inside the record (alive 0, leaving 1, left 2, failed 3).
func c16V(m serf.Member) string {
	v, err := strconv.Atoi(m.Tags["role"])
	if err != nil {
		return "x" + m.Tags["role"]
	}
	code := 0
	switch m.Status {
	case serf.StatusAlive:
		code = 0
	case serf.StatusLeaving:
		code = 1
	case serf.StatusLeft:
		code = 2
	case serf.StatusFailed:
		code = 3
	default:
		return "s" + m.Status.String()
	}
	return strconv.Itoa(4*v + code)
}

func c16NodeOf(name string, ver string) *memberlist.Node {
	return &memberlist.Node{Name: name, Addr: net.IPv4(127, 0, 0, 99), Port: 7946, Meta: []byte(ver),
		PMin: 1, PMax: 5, PCur: 2, DMin: 2, DMax: 5, DCur: 5}
}

// settled: every member's last received kind equals its last emitted kind, and the user events arrived.
func (n *c16Node) settled() bool {
	n.mu.Lock()
	defer n.mu.Unlock()
	for m, k := range n.emitLast {
		if n.lastKind[m] != k {
			return false
		}
	}
	if n.userCoal > 0 && n.userGot == 0 {
		return false
	}
	if n.gotM < n.expM || n.gotU < n.expU || n.gotQ < n.expQ {
		return false
	}
	return true
}

// wait until EventCh is quiet. Without coalescing (and without drops) the number of events to
// expect is known, so arrival of that many ends the wait early; otherwise: quiet, and (up to a
// deadline) settled. A broken implementation only makes this wait longer; the verdict is the monitor's.
func (n *c16Node) wait(lossy bool) string {
	start := time.Now()
	deadline := start.Add(1500 * time.Millisecond)
	quiet := 35 * time.Millisecond
	if !n.coalesce && !lossy {
		quiet = 3 * time.Millisecond
	}
	for {
		n.mu.Lock()
		cnt := len(n.got)
		idle := time.Since(n.lastAt)
		n.mu.Unlock()
		if since := time.Since(start); (n.coalesce || lossy) && since < idle {
			idle = since // an event sent just before the wait needs a moment to come through
		}
		if time.Now().After(deadline) {
			break
		}
		if !n.coalesce && !lossy {
			if cnt >= n.emitCount && idle >= quiet {
				break
			}
		} else if idle >= quiet && (lossy || n.settled()) {
			break
		}
		time.Sleep(time.Millisecond)
	}
	n.mu.Lock()
	items := n.got
	n.got = nil
	n.userGot = 0
	n.gotM, n.gotU, n.gotQ = 0, 0, 0
	n.mu.Unlock()
	n.emitCount = 0
	n.userCoal = 0
	n.expM, n.expU, n.expQ = 0, 0, 0
	if len(items) == 0 {
		return "recv -"
	}
	return "recv " + strings.Join(items, ",")
}

func c16Exec(ops []string) []string {
	var n *c16Node
	var outs []string
	lossy := false
	snapshotOn := false
	defer func() {
		if n != nil {
			n.close()
		}
	}()
	for _, o := range ops {
		f := strings.Fields(o)
		if len(f) == 0 {
			outs = append(outs, "bad-op")
			continue
		}
		if f[0] == "cfg" {
			if n != nil || len(f) != 4 {
				outs = append(outs, "bad-op")
				continue
			}
			var err error
			snapshotOn = f[1] != "0"
			n, err = c16Start(snapshotOn, f[2] != "0", f[3] != "0")
			if err != nil {
				n = nil
				outs = append(outs, "create-failed")
				continue
			}
			m, ok := n.member("self")
			if !ok {
				outs = append(outs, "emit -")
				continue
			}
			outs = append(outs, n.emit("join", "self", m))
			continue
		}
		if n == nil {
			outs = append(outs, "bad-op")
			continue
		}
		name := ""
		if len(f) >= 2 {
			if b := unhex(f[1]); b != nil {
				name = string(b)
			}
		}
		ed := n.conf.MemberlistConfig.Events
		switch {
		case f[0] == "join" && len(f) == 3:
			ed.NotifyJoin(c16NodeOf(name, f[2]))
			if m, ok := n.member(name); ok {
				outs = append(outs, n.emit("join", name, m))
			} else {
				outs = append(outs, "emit -")
			}
		case f[0] == "leave" && len(f) == 2:
			before, known := n.member(name)
			ed.NotifyLeave(c16NodeOf(name, ""))
			after, _ := n.member(name)
			switch {
			case !known || before.Status == after.Status:
				outs = append(outs, "emit -")
			case after.Status == serf.StatusFailed:
				outs = append(outs, n.emit("failed", name, after))
			case after.Status == serf.StatusLeft:
				outs = append(outs, n.emit("leave", name, after))
			default:
				outs = append(outs, "emit ?"+after.Status.String())
			}
		case f[0] == "update" && len(f) == 3:
			_, known := n.member(name)
			ed.NotifyUpdate(c16NodeOf(name, f[2]))
			if after, ok := n.member(name); known && ok {
				outs = append(outs, n.emit("update", name, after))
			} else {
				outs = append(outs, "emit -")
			}
		case f[0] == "intent" && len(f) == 2:
			before, known := n.member(name)
			buf := serf.VerifEncodeLeave(n.nextLTime(), name, false)
			n.conf.MemberlistConfig.Delegate.NotifyMsg(buf)
			after, _ := n.member(name)
			if known && before.Status == serf.StatusFailed && after.Status == serf.StatusLeft {
				outs = append(outs, n.emit("leave", name, after))
			} else {
				outs = append(outs, "emit -")
			}
		case (f[0] == "prune" || f[0] == "forceprune") && len(f) == 2:
			// a leave intent with the Prune flag: gossiped, or issued locally (force-leave -prune)
			before, known := n.member(name)
			if f[0] == "prune" {
				n.conf.MemberlistConfig.Delegate.NotifyMsg(serf.VerifEncodeLeave(n.nextLTime(), name, true))
			} else {
				_ = n.s.RemoveFailedNodePrune(name) // "timed out broadcasting" is expected: there are no real peers
			}
			_, still := n.member(name)
			switch {
			case !known:
				outs = append(outs, "emit -")
			case still:
				outs = append(outs, "emit ?still-present")
			default:
				// the status history of the call: failed→left (a leave), then erased (a reap);
				// alive→leaving, leaving, left: erased only
				role := before.Tags["role"]
				var items []string
				code := 2
				switch before.Status {
				case serf.StatusFailed:
					items = append(items, fmt.Sprintf("leave/%s/%s", hexs(name), c16Rec(role, 2)))
				case serf.StatusAlive, serf.StatusLeaving:
					code = 1
				}
				items = append(items, fmt.Sprintf("reap/%s/%s", hexs(name), c16Rec(role, code)))
				n.emitLast[name] = "reap"
				n.emitCount += len(items)
				if !n.mcoal {
					n.expM += len(items)
				}
				outs = append(outs, "emit "+strings.Join(items, ","))
			}
		case f[0] == "race" && len(f) == 4:
			before, known := n.member(name)
			intent := func() {
				n.conf.MemberlistConfig.Delegate.NotifyMsg(serf.VerifEncodeLeave(n.nextLTime(), name, false))
			}
			switch {
			case f[2] == "fail-intent" && known && before.Status == serf.StatusAlive:
				c16Held("failed", func() { ed.NotifyLeave(c16NodeOf(name, "")) }, intent)
			case f[2] == "update-intent" && known && before.Status == serf.StatusFailed:
				c16Held("update", func() { ed.NotifyUpdate(c16NodeOf(name, f[3])) }, intent)
			case f[2] == "fail-intent" || f[2] == "update-intent":
				outs = append(outs, "emit -")
				continue
			default:
				outs = append(outs, "bad-op")
				continue
			}
			// the status history: the notification's change was applied before the intent was sent
			after, _ := n.member(name)
			if after.Status != serf.StatusLeft {
				outs = append(outs, "emit ?"+after.Status.String())
				continue
			}
			first := "failed"
			if f[2] == "update-intent" {
				first = "update"
			}
			role := after.Tags["role"]
			n.emitLast[name] = "leave"
			n.emitCount += 2
			if !n.mcoal {
				n.expM += 2
			}
			outs = append(outs, fmt.Sprintf("emit %s/%s/%s,leave/%s/%s", first, hexs(name), c16Rec(role, 3), hexs(name), c16Rec(role, 2)))
		case f[0] == "raceloop" && len(f) == 3:
			rounds, err := strconv.Atoi(f[2])
			if err != nil || rounds < 0 || rounds > 100000 || n.coalesce || n.paused {
				outs = append(outs, "bad-op")
				continue
			}
			bad, firstBad := 0, "-"
			for r := 0; r < rounds; r++ {
				n.mu.Lock()
				base := len(n.got)
				n.lastKind[name] = ""
				n.mu.Unlock()
				ed.NotifyJoin(c16NodeOf(name, strconv.Itoa(r+1)))
				var wg sync.WaitGroup
				wg.Add(2)
				go func() { defer wg.Done(); ed.NotifyLeave(c16NodeOf(name, "")) }()
				go func() {
					defer wg.Done()
					n.conf.MemberlistConfig.Delegate.NotifyMsg(serf.VerifEncodeLeave(n.nextLTime(), name, false))
				}()
				wg.Wait()
				// both handlers returned, so everything is in the pipeline; whatever the order of the two
				// was, the member is left now and the last event about it is its leave: wait for that
				last := r == rounds-1
				deadline := time.Now().Add(time.Second)
				for {
					n.mu.Lock()
					lk := n.lastKind[name]
					idle := time.Since(n.lastAt)
					n.mu.Unlock()
					need := time.Millisecond
					if last {
						need = 25 * time.Millisecond // stragglers of the last round
					}
					if (lk == "leave" && idle >= need) || time.Now().After(deadline) {
						break
					}
					time.Sleep(200 * time.Microsecond)
				}
				n.mu.Lock()
				items := append([]string{}, n.got[base:]...)
				n.got = n.got[:base]
				n.mu.Unlock()
				var kinds []string
				for _, it := range items {
					p := strings.SplitN(it, "/", 3)
					if len(p) == 3 && p[1] == hexs(name) {
						kinds = append(kinds, p[0])
					}
				}
				// in-order part of join, failed, leave that ends with leave (the member is left now)
				ok := len(kinds) > 0 && kinds[len(kinds)-1] == "leave"
				want := []string{"join", "failed", "leave"}
				wi := 0
				for _, k := range kinds {
					for wi < len(want) && want[wi] != k {
						wi++
					}
					if wi == len(want) {
						ok = false
						break
					}
					wi++
				}
				if m, _ := n.member(name); m.Status != serf.StatusLeft {
					ok = false
					kinds = append(kinds, "status="+m.Status.String())
				}
				if !ok {
					bad++
					if firstBad == "-" {
						firstBad = strings.Join(kinds, "+")
						if firstBad == "" {
							firstBad = "nothing"
						}
					}
				}
			}
			if rounds > 0 {
				n.emitLast[name] = "leave"
			}
			outs = append(outs, fmt.Sprintf("rounds %d bad %d first %s", rounds, bad, firstBad))
		case f[0] == "burst" && len(f) == 4:
			k, e1 := strconv.Atoi(f[2])
			v0, e2 := strconv.Atoi(f[3])
			if e1 != nil || e2 != nil || k < 0 || k > 20000 || (n.paused && !snapshotOn) {
				outs = append(outs, "bad-op")
				continue
			}
			if _, known := n.member(name); !known {
				outs = append(outs, "emitn 0")
				continue
			}
			for i := 0; i < k; i++ {
				ed.NotifyUpdate(c16NodeOf(name, strconv.Itoa(v0+i)))
			}
			if k > 0 {
				n.emitLast[name] = "update"
				n.emitCount += k
				if !n.mcoal {
					n.expM += k
				}
			}
			outs = append(outs, fmt.Sprintf("emitn %d", k))
		case f[0] == "uev" && len(f) == 4:
			if err := n.s.UserEvent(name, []byte(f[3]), f[2] == "c"); err != nil {
				outs = append(outs, "error")
				continue
			}
			n.emitCount++
			if f[2] == "c" {
				n.userCoal++
			}
			if f[2] != "c" || !n.ucoal {
				n.expU++
			}
			outs = append(outs, "ok")
		case f[0] == "query" && len(f) == 3:
			qn := "q" + f[2]
			if f[1] == "1" {
				qn = "_serf_ping"
			} else {
				n.emitCount++
				n.expQ++
			}
			if _, err := n.s.Query(qn, nil, nil); err != nil {
				outs = append(outs, "error")
				continue
			}
			outs = append(outs, "ok")
		case f[0] == "pause" && len(f) == 1:
			if !n.paused {
				n.gate.Lock()
				n.paused = true
			}
			lossy = true
			outs = append(outs, "ok")
		case f[0] == "resume" && len(f) == 1:
			if n.paused {
				n.gate.Unlock()
				n.paused = false
			}
			outs = append(outs, "ok")
		case f[0] == "wait" && len(f) == 1:
			outs = append(outs, n.wait(lossy))
		case f[0] == "shutdown" && len(f) == 1:
			lossy = true
			_ = n.s.Shutdown()
			outs = append(outs, n.wait(true))
		case f[0] == "end" && len(f) == 1:
			var items []string
			for _, m := range n.s.Members() {
				items = append(items, hexs(m.Name)+":"+m.Status.String())
			}
			sort.Strings(items)
			if len(items) == 0 {
				outs = append(outs, "members -")
			} else {
				outs = append(outs, "members "+strings.Join(items, ","))
			}
		default:
			outs = append(outs, "bad-op")
		}
	}
	return outs
}

func c16Gen(rng *rand.Rand, tier string) []Case {
	var out []Case
	names := []string{"a", "b", "node c"}
	type cfg struct{ snap, u, m int }
	cfgs := []cfg{{0, 0, 0}, {1, 0, 0}, {0, 0, 1}, {1, 0, 1}, {1, 1, 1}, {0, 1, 0}}
	id := 0
	add := func(c cfg, body []string, nt bool, tag string) {
		ops := append([]string{fmt.Sprintf("cfg %d %d %d", c.snap, c.u, c.m)}, body...)
		out = append(out, Case{ID: fmt.Sprintf("p%d", id), Ops: ops, Nontrivial: nt,
			Tags: []string{tag, fmt.Sprintf("cfg-%d%d%d", c.snap, c.u, c.m)}})
		id++
	}
	// directed: one status change per quiet period (deterministic also with coalescing), full life cycle
	for _, c := range cfgs {
		a := hexs("a")
		add(c, []string{"wait", "join " + a + " 1", "wait", "update " + a + " 2", "wait", "leave " + a, "wait", "intent " + a, "wait",
			"join " + a + " 3", "wait", "intent " + a, "wait", "leave " + a, "wait", "leave " + a, "wait", "update " + a + " 4", "wait",
			"intent " + hexs("b"), "wait", "join " + hexs("b") + " 5", "wait", "leave " + hexs("b"), "wait",
			"uev " + hexs("deploy") + " c 1", "wait", "query 1 7", "wait", "query 0 8", "wait", "end"}, true, "directed-lifecycle")
		// flapping inside one quantum, then quiet
		add(c, []string{"join " + a + " 1", "wait", "leave " + a, "join " + a + " 2", "wait", "leave " + a, "join " + a + " 3", "leave " + a, "wait",
			"join " + a + " 4", "update " + a + " 5", "update " + a + " 6", "wait", "end"}, true, "directed-flap")
	}
	// random histories
	nr := 10
	if tier == "thorough" {
		nr = 120
	}
	for _, c := range cfgs {
		for i := 0; i < nr; i++ {
			var body []string
			ver := 0
			k := 4 + rng.Intn(22)
			perMember := map[string]int{}
			for j := 0; j < k; j++ {
				nm := names[rng.Intn(len(names))]
				h := hexs(nm)
				switch r := rng.Intn(100); {
				case r < 28:
					ver++
					body = append(body, fmt.Sprintf("join %s %d", h, ver))
					perMember[nm]++
				case r < 48:
					body = append(body, "leave "+h)
					perMember[nm]++
				case r < 66:
					ver++
					body = append(body, fmt.Sprintf("update %s %d", h, ver))
					perMember[nm]++
				case r < 76:
					body = append(body, "intent "+h)
				case r < 79:
					body = append(body, []string{"prune ", "forceprune "}[rng.Intn(2)]+h)
					perMember[nm]++
				case r < 82:
					body = append(body, fmt.Sprintf("uev %s %s %d", hexs([]string{"deploy", "x"}[rng.Intn(2)]), c18Flag(rng.Intn(2) == 0), j+1))
				case r < 86:
					body = append(body, fmt.Sprintf("query %d %d", rng.Intn(2), j+1))
				default:
					body = append(body, "wait")
				}
			}
			tag := "random"
			if rng.Intn(5) == 0 {
				body = append(body, "shutdown", "end")
				tag = "random-shutdown"
			} else {
				body = append(body, "wait", "end")
			}
			nt := false
			for _, v := range perMember {
				if v >= 3 {
					nt = true
				}
			}
			add(c, body, nt, tag)
		}
	}
	// prune: a leave intent with the Prune flag (gossiped and local) erases the member; the leave of a
	// failed member must reach the application before its reap
	for _, c := range cfgs {
		a, b := hexs("a"), hexs("b")
		add(c, []string{"join " + a + " 1", "join " + b + " 2", "wait", "leave " + a, "wait", "prune " + a, "wait",
			"leave " + b, "forceprune " + b, "wait", "join " + a + " 3", "wait", "forceprune " + a, "wait",
			"join " + b + " 4", "intent " + b, "prune " + b, "wait", "prune " + hexs("node c"), "join " + hexs("node c") + " 5",
			"leave " + hexs("node c"), "prune " + hexs("node c"), "wait", "end"}, true, "prune")
	}
	// two goroutines on one member: a memberlist notification held just before its send + a leave intent
	for _, c := range []cfg{{0, 0, 0}, {1, 0, 0}, {0, 0, 1}} {
		a, b := hexs("a"), hexs("b")
		body := []string{"join " + a + " 1", "join " + b + " 2", "wait",
			"race " + a + " fail-intent 0", "wait",
			"race " + a + " update-intent 3", "wait",
			"join " + a + " 4", "leave " + a, "wait", "race " + a + " update-intent 5", "wait",
			"join " + a + " 6", "race " + a + " fail-intent 0", "race " + b + " fail-intent 0", "wait"}
		if c.m == 0 {
			rounds := 150
			if tier == "thorough" {
				rounds = 3000
			}
			body = append(body, fmt.Sprintf("raceloop %s %d", hexs("node c"), rounds), "wait")
		}
		body = append(body, "end")
		add(c, body, true, "concurrent-handlers")
	}
	nrace := 6
	if tier == "thorough" {
		nrace = 60
	}
	for i := 0; i < nrace; i++ {
		c := []cfg{{0, 0, 0}, {1, 0, 0}}[i%2]
		var body []string
		ver := 0
		for j := 0; j < 3+rng.Intn(6); j++ {
			h := hexs(names[rng.Intn(len(names))])
			ver++
			switch rng.Intn(5) {
			case 0:
				body = append(body, fmt.Sprintf("join %s %d", h, ver), "race "+h+" fail-intent 0")
			case 1:
				body = append(body, fmt.Sprintf("join %s %d", h, ver), "leave "+h, fmt.Sprintf("race %s update-intent %d", h, ver+1))
				ver++
			case 2:
				body = append(body, "race "+h+" fail-intent 0")
			case 3:
				body = append(body, fmt.Sprintf("race %s update-intent %d", h, ver))
			default:
				body = append(body, "wait")
			}
		}
		body = append(body, "wait", "end")
		add(c, body, true, "concurrent-handlers-random")
	}
	// the application stops reading: the tee drops (snapshot on), then reading resumes
	nd := 1
	if tier == "thorough" {
		nd = 6
	}
	for _, c := range []cfg{{1, 0, 0}, {1, 0, 1}, {1, 1, 1}} {
		for i := 0; i < nd; i++ {
			a, b := hexs("a"), hexs("b")
			big := 4500 + rng.Intn(1500)
			add(c, []string{"join " + a + " 1", "join " + b + " 2", "wait", "pause",
				fmt.Sprintf("burst %s %d 10", a, big), "leave " + b, fmt.Sprintf("burst %s 40 100000", a), "join " + b + " 3",
				"resume", "wait", "update " + a + " 200000", "wait", "end"}, true, "reader-stalled-drops")
		}
	}
	return out
}

func init() {
	register(&Prop{
		ID: "C16",
		Rule: "one real serf node per case (serf.Create, loopback) in 6 configurations (snapshot × member coalescing, plus user coalescing); member transitions through the real eventDelegate (NotifyJoin/Leave/Update) and leave intents through delegate.NotifyMsg, user events and (internal) queries through the public API; " +
			"two goroutines on one member (a notification held at the counter before its send + a leave intent; and free-running rounds), directed life cycles with one change per quiet period, flapping inside a quantum, random histories over 3 members (4–25 ops, waits at random points, 1 in 5 ends in Shutdown), and a stalled reader with >4500 updates so that the tee drops; " +
			"non-trivial = some member has ≥3 status changes in the case, or the directed/drop cases; distinct = distinct op sequence",
		Gen:  c16Gen,
		Exec: c16Exec,
	})
}
