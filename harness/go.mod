module verifharness

go 1.25.0

require (
	github.com/hashicorp/memberlist v0.5.4
	github.com/hashicorp/serf v0.0.0
)

require (
	github.com/armon/go-metrics v0.4.1 // indirect
	github.com/google/btree v1.1.3 // indirect
	github.com/hashicorp/errwrap v1.1.0 // indirect
	github.com/hashicorp/go-immutable-radix v1.3.1 // indirect
	github.com/hashicorp/go-metrics v0.6.0 // indirect
	github.com/hashicorp/go-msgpack/v2 v2.1.5 // indirect
	github.com/hashicorp/go-multierror v1.1.1 // indirect
	github.com/hashicorp/go-sockaddr v1.0.7 // indirect
	github.com/hashicorp/golang-lru v1.0.2 // indirect
	github.com/miekg/dns v1.1.72 // indirect
	github.com/sean-/seed v0.0.0-20170313163322-e2103e2c3529 // indirect
	golang.org/x/net v0.56.0 // indirect
	golang.org/x/sys v0.46.0 // indirect
)

replace github.com/hashicorp/serf => /repo
