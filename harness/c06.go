package main

import (
	"fmt"
	"math/rand"
	"os"
	"strconv"
	"strings"
	"sync"
	"sync/atomic"
	"time"

	"github.com/hashicorp/serf/serf"
)

// C06: Lamport times of locally originated user events and queries.
//
// Sequential ops (differential against the model built from Gen.ClockUse):
//   ue <hexname> / q <hexname>      originate; output = LTime seen on EventCh
//   inue <ltime> / inq <ltime>      deliver an incoming user event / query with that time
//   restart                         Shutdown and Create on the same snapshot file
// Concurrent op (monitored only):
//   conc ue|q <goroutines> <calls each> <seed>   → obs <tid>.<i>:<ltime>:<floor>,…

func c06Gen(rng *rand.Rand, tier string) []Case {
	var out []Case
	nSeq, nConc := 12, 6
	if tier == "thorough" {
		nSeq, nConc = 150, 60
	}
	for i := 0; i < nSeq; i++ {
		var ops []string
		k := 4 + rng.Intn(20)
		cur := uint64(1)
		nt := false
		for j := 0; j < k; j++ {
			switch rng.Intn(6) {
			case 0, 1:
				ops = append(ops, "ue "+hexs(fmt.Sprintf("e%d", j)))
			case 2, 3:
				ops = append(ops, "q "+hexs(fmt.Sprintf("q%d", j)))
			case 4:
				if rng.Intn(4) == 0 && j > 0 {
					ops = append(ops, "restart") // the clocks come back from the snapshot
					nt = true
					continue
				}
				cur += uint64(rng.Intn(50))
				ops = append(ops, fmt.Sprintf("inue %d", cur))
				nt = true
			default:
				cur += uint64(rng.Intn(50))
				ops = append(ops, fmt.Sprintf("inq %d", cur))
				nt = true
			}
		}
		out = append(out, Case{ID: fmt.Sprintf("s%d", i), Ops: ops, Nontrivial: nt, Tags: []string{"sequential"}})
	}
	// the first message originated after a restart on the snapshot
	out = append(out, Case{ID: "restart-then-originate", Ops: []string{"ue " + hexs("a"), "ue " + hexs("b"), "q " + hexs("x"), "restart", "ue " + hexs("c"), "q " + hexs("y"),
		"inue 40", "inq 30", "restart", "ue " + hexs("d"), "q " + hexs("z")}, Nontrivial: true, Tags: []string{"sequential", "restart"}})
	for i := 0; i < nConc; i++ {
		kind := "ue"
		if i%2 == 1 {
			kind = "q"
		}
		out = append(out, Case{ID: fmt.Sprintf("c%d", i),
			Ops:        []string{fmt.Sprintf("conc %s %d %d %d", kind, 4+rng.Intn(5), 150+rng.Intn(150), rng.Int63())},
			Nontrivial: true, Tags: []string{"concurrent-" + kind}})
	}
	// a single originator (nothing else moves the clock between its calls) against the injectors: what a refused
	// call does to the clock is then visible to the next call
	for i := 0; i < nConc/3+1; i++ {
		out = append(out, Case{ID: fmt.Sprintf("solo%d", i),
			Ops:        []string{fmt.Sprintf("conc q 1 %d %d", 80+rng.Intn(60), rng.Int63())},
			Nontrivial: true, Tags: []string{"concurrent-single-originator"}})
	}
	return out
}

func c06Exec(ops []string) []string {
	dir, derr := os.MkdirTemp("", "verif-c06-")
	if derr != nil {
		return make([]string, len(ops))
	}
	defer os.RemoveAll(dir)
	mod := func(c *serf.Config) {
		c.EventBuffer = 1 << 15
		c.QueryBuffer = 1 << 15
		c.SnapshotPath = dir + "/snap"
	}
	n, err := newTestNode(mod)
	if err != nil {
		outs := make([]string, len(ops))
		for i := range outs {
			outs[i] = nodeErr(err)
		}
		return outs
	}
	defer func() { n.Close() }()
	del := n.Conf.MemberlistConfig.Delegate
	var outs []string
	qid := uint32(1000)
	for _, o := range ops {
		f := strings.Fields(o)
		switch {
		case len(f) == 2 && (f[0] == "ue" || f[0] == "q"):
			name := string(unhex(f[1]))
			if f[0] == "ue" {
				err = n.S.UserEvent(name, nil, false)
			} else {
				_, err = n.S.Query(name, nil, &serf.QueryParam{Timeout: 50 * time.Millisecond})
			}
			if err != nil {
				outs = append(outs, "error")
				continue
			}
			res := "none"
			for _, e := range n.drain(20 * time.Millisecond) {
				switch ev := e.(type) {
				case serf.UserEvent:
					if f[0] == "ue" && ev.Name == name {
						res = strconv.FormatUint(uint64(ev.LTime), 10)
					}
				case *serf.Query:
					if f[0] == "q" && ev.Name == name {
						res = strconv.FormatUint(uint64(ev.LTime), 10)
					}
				}
			}
			outs = append(outs, res)
		case len(f) == 2 && (f[0] == "inue" || f[0] == "inq"):
			lt, err := strconv.ParseUint(f[1], 10, 64)
			if err != nil {
				outs = append(outs, "bad-op")
				continue
			}
			if f[0] == "inue" {
				del.NotifyMsg(encodeWire(msgUserEventType, &wireUserEvent{LTime: lt, Name: "in", Payload: []byte(f[1])}))
			} else {
				qid++
				del.NotifyMsg(encodeWire(msgQueryType, &wireQuery{LTime: lt, ID: qid, Addr: []byte{127, 0, 0, 1}, Port: 1, SourceNode: "x",
					Flags: 2 /* no-broadcast */, Timeout: time.Second, Name: "in"}))
			}
			n.drain(5 * time.Millisecond)
			outs = append(outs, "ok")
		case len(f) == 1 && f[0] == "restart":
			// Shutdown (waits for the snapshotter to flush) and Create on the same snapshot file
			n.drain(20 * time.Millisecond)
			n.Close()
			n, err = newTestNode(mod)
			if err != nil {
				for len(outs) < len(ops) {
					outs = append(outs, nodeErr(err))
				}
				return outs
			}
			del = n.Conf.MemberlistConfig.Delegate
			outs = append(outs, "ok")
		case len(f) == 5 && f[0] == "conc":
			g, _ := strconv.Atoi(f[2])
			cnt, _ := strconv.Atoi(f[3])
			sd, _ := strconv.ParseInt(f[4], 10, 64)
			outs = append(outs, c06Conc(n, f[1], g, cnt, sd))
		default:
			outs = append(outs, "bad-op")
		}
	}
	return outs
}

var (
	oversizeUE = make([]byte, 1<<12)
	oversizeQ  = make([]byte, 1<<20)
)

func c06Conc(n *testNode, kind string, g, cnt int, seed int64) string {
	del := n.Conf.MemberlistConfig.Delegate
	var floor atomic.Uint64 // largest incoming time whose processing has completed
	type rec struct {
		tid, i int
		floor  uint64
	}
	var mu sync.Mutex
	calls := map[string]rec{}
	times := map[string]uint64{}
	stop := make(chan struct{})
	var cw sync.WaitGroup
	cw.Add(1)
	go func() { // consumer
		defer cw.Done()
		for {
			select {
			case e := <-n.Events:
				switch ev := e.(type) {
				case serf.UserEvent:
					mu.Lock()
					times[ev.Name] = uint64(ev.LTime)
					mu.Unlock()
				case *serf.Query:
					mu.Lock()
					times[ev.Name] = uint64(ev.LTime)
					mu.Unlock()
				}
			case <-stop:
				for {
					select {
					case e := <-n.Events:
						switch ev := e.(type) {
						case serf.UserEvent:
							times[ev.Name] = uint64(ev.LTime)
						case *serf.Query:
							times[ev.Name] = uint64(ev.LTime)
						}
					default:
						return
					}
				}
			}
		}
	}()
	var wg sync.WaitGroup
	start := make(chan struct{})
	done := make(chan struct{})
	// injector: incoming messages with growing times, interleaved with the originators
	var iw sync.WaitGroup
	var qidc atomic.Uint32
	qidc.Store(5000)
	for inj := 0; inj < 3; inj++ {
		iw.Add(1)
		go func(inj int) {
			defer iw.Done()
			rng := rand.New(rand.NewSource(seed + int64(inj)))
			<-start
			for {
				select {
				case <-done:
					return
				default:
				}
				var cur uint64
				if kind == "ue" {
					cur, _ = strconv.ParseUint(n.S.Stats()["event_time"], 10, 64)
				} else {
					cur, _ = strconv.ParseUint(n.S.Stats()["query_time"], 10, 64)
				}
				// mostly level with the clock; now and then well ahead of it, so that a witness which does not take
				// effect leaves the clock behind the processed time for many calls
				lt := cur + uint64(rng.Intn(3))
				if rng.Intn(4) == 0 {
					lt = cur + uint64(rng.Intn(60))
				} else if rng.Intn(3) == 0 && cur > 1 {
					lt = cur - 1 // the time the latest local call took
				}
				if kind == "ue" {
					del.NotifyMsg(encodeWire(msgUserEventType, &wireUserEvent{LTime: lt, Name: "in", Payload: []byte(strconv.FormatUint(lt, 10))}))
				} else {
					del.NotifyMsg(encodeWire(msgQueryType, &wireQuery{LTime: lt, ID: qidc.Add(1), Addr: []byte{127, 0, 0, 1}, Port: 1, SourceNode: "x",
						Flags: 2, Timeout: time.Second, Name: "in"}))
				}
				for {
					old := floor.Load()
					if lt <= old || floor.CompareAndSwap(old, lt) {
						break
					}
				}
				if rng.Intn(3) == 0 {
					time.Sleep(time.Duration(rng.Intn(100)) * time.Microsecond)
				}
			}
		}(inj)
	}
	for t := 0; t < g; t++ {
		wg.Add(1)
		go func(t int) {
			defer wg.Done()
			<-start
			for i := 0; i < cnt; i++ {
				name := fmt.Sprintf("o%d-%d", t, i)
				fl := floor.Load()
				var err error
				// every fifth call is refused for its size only after the message (and its Lamport time) has
				// been built: a user event just inside the limit before encoding, a query with a large payload
				var payload []byte
				if i%5 == 4 {
					if kind == "ue" {
						payload = oversizeUE[:n.Conf.UserEventSizeLimit-len(name)-1]
					} else {
						payload = oversizeQ
					}
				}
				if kind == "ue" {
					err = n.S.UserEvent(name, payload, false)
				} else {
					_, err = n.S.Query(name, payload, &serf.QueryParam{Timeout: 20 * time.Millisecond})
				}
				if err == nil {
					mu.Lock()
					calls[name] = rec{t, i, fl}
					mu.Unlock()
				}
			}
		}(t)
	}
	close(start)
	wg.Wait()
	close(done)
	iw.Wait()
	time.Sleep(30 * time.Millisecond)
	close(stop)
	cw.Wait()
	var items []string
	for t := 0; t < g; t++ {
		for i := 0; i < cnt; i++ {
			name := fmt.Sprintf("o%d-%d", t, i)
			r, ok := calls[name]
			if !ok {
				continue
			}
			lt, ok := times[name]
			if !ok {
				items = append(items, fmt.Sprintf("%d.%d:undelivered:%d", t, i, r.floor))
				continue
			}
			items = append(items, fmt.Sprintf("%d.%d:%d:%d", t, i, lt, r.floor))
		}
	}
	return "obs " + strings.Join(items, ",")
}

func init() {
	register(&Prop{
		ID: "C06",
		Rule: "a real single Serf node: sequential mixes of UserEvent/Query calls and incoming user events/queries with growing times (differential against the model built from the extracted clock usage), " +
			"plus free-running concurrent runs (4-8 goroutines × 150-300 UserEvent or Query calls, with three injector goroutines delivering incoming messages at, just below and ahead of the clock; every fifth call is refused for its size after its Lamport time was taken); non-trivial = the case contains an incoming message or is concurrent; distinct = distinct op sequence",
		Gen:  c06Gen,
		Exec: c06Exec,
	})
}
