package main

import (
	"fmt"
	"io"
	"math/rand"
	"os"
	"strconv"
	"strings"
	"time"

	"github.com/hashicorp/serf/serf"
)

// C14: a real (socket-free) node with a snapshot file; events and queries are delivered,
// the node is shut down and re-created on the same snapshot, and old/new times are injected
// by gossip and by push/pull.
//
//	cfg <N> <Q>                      buffer sizes; fresh node with a fresh snapshot file
//	ev <lt> <hexname>                user event by gossip        → deliveries
//	q <lt> <id>                      query by gossip             → deliveries
//	pp <eventLTime> <join01> <lt:hexname;…>   push/pull (join01=1: a join with ignore-old) → deliveries
//	cfgfull <N> <Q> <k>              like cfg on a snapshot file k bytes below the compaction size
//	plant <0|1>                      Shutdown, leave an empty / half-written <snapshot>.compact behind, Create → clocks
//	restart                          Shutdown + Create on the same snapshot → `clocks <event_time> <query_time>`

func c14Node(dir string, n, q int) (*evNode, error) {
	conf := serf.DefaultConfig()
	conf.Init()
	conf.NodeName = "c14"
	conf.EventBuffer = n
	conf.QueryBuffer = q
	conf.CoalescePeriod = 0
	conf.UserCoalescePeriod = 0
	conf.LogOutput = io.Discard
	conf.MemberlistConfig.LogOutput = io.Discard
	conf.MemberlistConfig.BindAddr = "127.0.0.1"
	conf.MemberlistConfig.EnableCompression = false
	conf.SnapshotPath = dir + "/snap"
	tr := newRecTransport()
	conf.MemberlistConfig.Transport = tr
	ch := make(chan serf.Event, 1<<14)
	conf.EventCh = ch
	s, err := serf.Create(conf)
	if err != nil {
		return nil, err
	}
	nd := &evNode{s: s, conf: conf, ch: ch, tr: tr}
	nd.drain()
	return nd, nil
}

func c14Show(evs []serf.Event) string {
	var items []string
	for _, e := range evs {
		switch x := e.(type) {
		case serf.UserEvent:
			items = append(items, fmt.Sprintf("e/%d/%s", uint64(x.LTime), hexs(x.Name)))
		case *serf.Query:
			items = append(items, fmt.Sprintf("q/%d/%s", uint64(x.LTime), hexs(x.Name)))
		case serf.MemberEvent:
			// the node's own join after a restart
		default:
			items = append(items, "other")
		}
	}
	if len(items) == 0 {
		return "-"
	}
	return strings.Join(items, ",")
}

func c14Exec(ops []string) []string {
	dir, err := os.MkdirTemp("", "verif-c14-")
	if err != nil {
		return make([]string, len(ops))
	}
	defer os.RemoveAll(dir)
	var nd *evNode
	defer func() {
		if nd != nil {
			nd.close()
		}
	}()
	n, q := 4, 4
	var outs []string
	for _, o := range ops {
		f := strings.Fields(o)
		switch {
		case len(f) == 3 && f[0] == "cfg":
			n, _ = strconv.Atoi(f[1])
			q, _ = strconv.Atoi(f[2])
			if nd != nil {
				nd.close()
			}
			os.Remove(dir + "/snap")
			nd, err = c14Node(dir, n, q)
			if err != nil {
				outs = append(outs, "node-error")
				nd = nil
				continue
			}
			outs = append(outs, "ok")
		case len(f) == 4 && f[0] == "cfgfull":
			// like cfg, but the snapshot file already exists and is <k> bytes below the size at which the
			// snapshotter compacts (128 KiB): filled with lines the replay skips (old coordinate records and a
			// comment), so that one of the next few recorded lines triggers a compaction
			n, _ = strconv.Atoi(f[1])
			q, _ = strconv.Atoi(f[2])
			k, _ := strconv.Atoi(f[3])
			if nd != nil {
				nd.close()
			}
			size := 128*1024 - k
			var sb strings.Builder
			line := "coordinate: {\"Vec\":[0,0,0,0,0,0,0,0],\"Error\":1.5,\"Adjustment\":0,\"Height\":1e-05}\n"
			for sb.Len()+len(line)+3 <= size {
				sb.WriteString(line)
			}
			sb.WriteString("#" + strings.Repeat("p", size-sb.Len()-2) + "\n")
			if k < 0 || k > 4096 || sb.Len() != size || os.WriteFile(dir+"/snap", []byte(sb.String()), 0644) != nil {
				outs = append(outs, "bad-op")
				nd = nil
				continue
			}
			nd, err = c14Node(dir, n, q)
			if err != nil {
				outs = append(outs, "node-error")
				nd = nil
				continue
			}
			outs = append(outs, "ok")
		case nd == nil:
			outs = append(outs, "node-error")
		case len(f) == 3 && f[0] == "ev":
			lt, _ := strconv.ParseUint(f[1], 10, 64)
			b, _ := serf.VerifEncodeUserEvent(lt, string(unhex(f[2])), nil, false)
			nd.notifyMsg(b)
			outs = append(outs, c14Show(nd.drain()))
		case len(f) == 3 && f[0] == "q":
			lt, _ := strconv.ParseUint(f[1], 10, 64)
			id, _ := strconv.ParseUint(f[2], 10, 32)
			b, _ := serf.VerifEncodeQuery(serf.VerifQuery{LTime: lt, ID: uint32(id), Addr: []byte{127, 0, 0, 1}, Port: 1, SourceNode: "x",
				Flags: serf.VerifQueryFlagNoBroadcast, Timeout: time.Hour, Name: "q" + f[2]})
			nd.notifyMsg(b)
			outs = append(outs, c14Show(nd.drain()))
		case len(f) == 4 && f[0] == "pp":
			elt, _ := strconv.ParseUint(f[1], 10, 64)
			var slots []*serf.VerifUserEvents
			if f[3] != "-" {
				for _, it := range strings.Split(f[3], ";") {
					p := strings.SplitN(it, ":", 2)
					lt, _ := strconv.ParseUint(p[0], 10, 64)
					slots = append(slots, &serf.VerifUserEvents{LTime: lt, Events: []serf.VerifUserEvent{{Name: string(unhex(p[1]))}}})
				}
			}
			b, _ := serf.VerifEncodePushPull(1, map[string]uint64{}, nil, elt, slots, 1)
			if f[2] == "1" {
				nd.s.VerifSetEventJoinIgnore(true)
			}
			nd.mergeRemoteState(b, f[2] == "1")
			if f[2] == "1" {
				nd.s.VerifSetEventJoinIgnore(false)
			}
			outs = append(outs, c14Show(nd.drain()))
		case len(f) == 2 && f[0] == "plant":
			// what a crash early in a compaction leaves behind: an empty (plant 0) or half-written (plant 1)
			// <snapshot>.compact next to the complete snapshot; the next start must keep using the snapshot
			nd.drain()
			nd.close() // flushes the snapshot
			nd = nil
			var content []byte
			if f[1] == "1" {
				if b, err := os.ReadFile(dir + "/snap"); err == nil {
					content = b[:len(b)/2]
				}
			}
			if os.WriteFile(dir+"/snap.compact", content, 0644) != nil {
				outs = append(outs, "bad-op")
				continue
			}
			nd, err = c14Node(dir, n, q)
			if err != nil {
				outs = append(outs, "node-error")
				nd = nil
				continue
			}
			outs = append(outs, fmt.Sprintf("clocks %d %d", nd.stat("event_time"), nd.stat("query_time")))
		case len(f) == 1 && f[0] == "restart":
			nd.drain()
			nd.close() // Shutdown waits for the snapshotter to flush
			nd, err = c14Node(dir, n, q)
			if err != nil {
				outs = append(outs, "node-error")
				nd = nil
				continue
			}
			outs = append(outs, fmt.Sprintf("clocks %d %d", nd.stat("event_time"), nd.stat("query_time")))
		default:
			outs = append(outs, "bad-op")
		}
	}
	return outs
}

func c14Gen(rng *rand.Rand, tier string) []Case {
	n := 120
	if tier == "thorough" {
		n = 6000
	}
	var out []Case
	// the excluded value of the theorem (cut-off wraps to 0), replayed on every run
	out = append(out, Case{ID: "wrap", Ops: []string{"cfg 2 2", "ev 5 " + hexs("a"), "ev 18446744073709551615 " + hexs("b"), "restart", "ev 5 " + hexs("a")},
		Nontrivial: true, Tags: []string{"boundary"}})
	// a snapshot file just below the compaction size: one of the first recorded lines compacts the file; whatever
	// line that is, the restart must still cut off everything delivered before it
	for _, k := range []int{30, 50, 70, 100} {
		for m := 1; m <= 6; m++ {
			ops := []string{fmt.Sprintf("cfgfull 4 4 %d", k)}
			for j := 0; j < m; j++ {
				if j%3 == 2 {
					ops = append(ops, fmt.Sprintf("q %d 1", 2+j))
				} else {
					ops = append(ops, fmt.Sprintf("ev %d %s", 2+j, hexs("a")))
				}
			}
			ops = append(ops, "restart")
			for j := m - 1; j >= 0 && j >= m-3; j-- {
				if j%3 == 2 {
					ops = append(ops, fmt.Sprintf("q %d 1", 2+j))
				} else {
					ops = append(ops, fmt.Sprintf("ev %d %s", 2+j, hexs("a")))
				}
			}
			out = append(out, Case{ID: fmt.Sprintf("full%d-%d", k, m), Ops: ops, Nontrivial: true, Tags: []string{"compaction-at-record"}})
		}
	}
	// a restart that finds a left-over compaction file beside the complete snapshot
	for i, half := range []string{"0", "1"} {
		out = append(out, Case{ID: "leftover-compact-" + half, Ops: []string{"cfg 4 4", "ev 5 " + hexs("a"), "q 6 1", "ev 7 " + hexs("b"),
			"plant " + half, "ev 5 " + hexs("a"), "ev 7 " + hexs("b"), "q 6 1", "ev 8 " + hexs("c")}, Nontrivial: true, Tags: []string{"leftover-compact"}})
		_ = i
	}
	names := []string{"a", "b", "c"}
	for i := 0; i < n; i++ {
		N := []int{1, 2, 3, 4, 8, 64}[rng.Intn(6)]
		Q := []int{1, 2, 4, 64}[rng.Intn(4)]
		ops := []string{fmt.Sprintf("cfg %d %d", N, Q)}
		cur := uint64(1 + rng.Intn(3))
		var seenE, seenQ []uint64
		pick := func(seen []uint64) uint64 {
			switch rng.Intn(5) {
			case 0:
				if len(seen) > 0 {
					return seen[rng.Intn(len(seen))] // a replay of something already sent
				}
			case 1:
				if cur > uint64(N) {
					return cur - uint64(rng.Intn(N+2))
				}
			}
			cur += uint64(rng.Intn(4))
			return cur
		}
		emit := func(k int) bool {
			oldReplay := false
			for j := 0; j < k; j++ {
				switch rng.Intn(5) {
				case 0, 1:
					t := pick(seenE)
					ops = append(ops, fmt.Sprintf("ev %d %s", t, hexs(names[rng.Intn(3)])))
					seenE = append(seenE, t)
				case 2, 3:
					t := pick(seenQ)
					ops = append(ops, fmt.Sprintf("q %d %d", t, 1+rng.Intn(3)))
					seenQ = append(seenQ, t)
				default:
					var slots []string
					for x := 0; x < 1+rng.Intn(3); x++ {
						t := pick(seenE)
						slots = append(slots, fmt.Sprintf("%d:%s", t, hexs(names[rng.Intn(3)])))
						seenE = append(seenE, t)
					}
					ops = append(ops, fmt.Sprintf("pp %d %d %s", cur+uint64(rng.Intn(3)), rng.Intn(2), strings.Join(slots, ";")))
					oldReplay = true
				}
			}
			return oldReplay
		}
		emit(2 + rng.Intn(8))
		ops = append(ops, "restart")
		nt := emit(2 + rng.Intn(8))
		if rng.Intn(3) == 0 {
			ops = append(ops, "restart")
			emit(1 + rng.Intn(5))
		}
		out = append(out, Case{ID: fmt.Sprintf("r%d", i), Ops: ops, Nontrivial: nt, Tags: []string{fmt.Sprintf("N%d", N)}})
	}
	return out
}

func init() {
	register(&Prop{
		ID: "C14",
		Rule: "a real socket-free Serf node with a snapshot file: user events and queries (gossip) and push/pull replays (with and without ignore-old join) before and after one or two restarts on the same snapshot, buffer sizes 1-64, " +
			"times re-using earlier ones, window edges and fresh ones; 24 lives on a snapshot file 30-100 bytes below the compaction size, so that the 1st-6th recorded clock line compacts the file, followed by a restart and redelivery of the last three items; non-trivial = a push/pull replay carries times after a restart; distinct = distinct op sequence",
		Gen:  c14Gen,
		Exec: c14Exec,
	})
}
