package main

import (
	"fmt"
	"math/rand"
	"strconv"
	"strings"
	"sync"
	"sync/atomic"
	"time"

	"github.com/hashicorp/serf/cmd/serf/command/agent"
)

// C29: GatedWriter and logWriter.

type c29Sink struct {
	mu    sync.Mutex
	lines []string
}

func (s *c29Sink) Write(p []byte) (int, error) {
	s.mu.Lock()
	s.lines = append(s.lines, string(p))
	s.mu.Unlock()
	return len(p), nil
}

type c29Handler struct {
	mu    sync.Mutex
	lines []string
}

func (h *c29Handler) HandleLog(l string) {
	h.mu.Lock()
	h.lines = append(h.lines, l)
	h.mu.Unlock()
}

func c29Show(ls []string) string {
	if len(ls) == 0 {
		return "-"
	}
	out := make([]string, len(ls))
	for i, l := range ls {
		out[i] = hexs(l)
	}
	return strings.Join(out, ",")
}

func c29Gen(rng *rand.Rand, tier string) []Case {
	var out []Case
	words := []string{"a", "bb", "line three", "[INFO] agent: x", "z\tz", "é"}
	// the excluded input of the backlog theorem (an empty line in a wrapped ring), replayed every run
	out = append(out, Case{ID: "empty-line", Ops: []string{"lnew 2", "lw " + hexs("a"), "lw -", "lw " + hexs("b"), "lreg 1", "lget 1"}, Nontrivial: true, Tags: []string{"boundary"}})
	nSeq, nConc := 300, 12
	if tier == "thorough" {
		nSeq, nConc = 20000, 400
	}
	for i := 0; i < nSeq; i++ {
		var ops []string
		nt := false
		if rng.Intn(2) == 0 {
			// gated writer, sequential
			k := 1 + rng.Intn(12)
			flushed := false
			for j := 0; j < k; j++ {
				switch rng.Intn(5) {
				case 0:
					ops = append(ops, "gflush")
					flushed = true
				case 1:
					ops = append(ops, "gout")
				default:
					ops = append(ops, "gw "+hexs(fmt.Sprintf("%s-%d", words[rng.Intn(len(words))], j)))
					if flushed {
						nt = true
					}
				}
			}
			ops = append(ops, "gout", "gflush", "gout")
			out = append(out, Case{ID: fmt.Sprintf("g%d", i), Ops: ops, Nontrivial: nt, Tags: []string{"gated-seq"}})
		} else {
			cap := 1 + rng.Intn(5)
			ops = append(ops, fmt.Sprintf("lnew %d", cap))
			k := 1 + rng.Intn(20)
			written := 0
			regs := 0
			for j := 0; j < k; j++ {
				switch rng.Intn(6) {
				case 0:
					id := rng.Intn(3)
					ops = append(ops, fmt.Sprintf("lreg %d", id))
					regs++
					if written > cap {
						nt = true // registration after the ring wrapped
					}
				case 1:
					ops = append(ops, fmt.Sprintf("lget %d", rng.Intn(3)))
				case 2:
					if rng.Intn(3) == 0 {
						ops = append(ops, fmt.Sprintf("ldereg %d", rng.Intn(3)))
					}
				default:
					ops = append(ops, "lw "+hexs(fmt.Sprintf("%s#%d", words[rng.Intn(len(words))], j)))
					written++
				}
			}
			ops = append(ops, "lreg 0", "lget 0", "lget 1", "lget 2")
			out = append(out, Case{ID: fmt.Sprintf("l%d", i), Ops: ops, Nontrivial: nt, Tags: []string{"logwriter"}})
		}
	}
	for i := 0; i < nConc/3+1; i++ {
		out = append(out, Case{ID: fmt.Sprintf("rr%d", i), Ops: []string{fmt.Sprintf("grounds %d %d %d", 3+rng.Intn(6), 3000, rng.Int63())},
			Nontrivial: true, Tags: []string{"gated-rounds"}})
	}
	// a monitor attaches while another goroutine logs: ring sizes below, at and above the number of buffered lines
	for i, ck := range [][2]int{{1, 1}, {4, 2}, {4, 4}, {4, 9}, {512, 5}, {3, 64}} {
		out = append(out, Case{ID: fmt.Sprintf("la%d", i), Ops: []string{fmt.Sprintf("lconc %d %d", ck[0], ck[1])},
			Nontrivial: true, Tags: []string{"logwriter-attach-race"}})
	}
	for i := 0; i < nConc/2; i++ {
		out = append(out, Case{ID: fmt.Sprintf("lb%d", i), Ops: []string{fmt.Sprintf("lconc %d %d", 1+rng.Intn(12), 1+rng.Intn(24))},
			Nontrivial: true, Tags: []string{"logwriter-attach-race"}})
	}
	// monitors attaching and detaching while several goroutines log without pause
	for i := 0; i < nConc/4+1; i++ {
		out = append(out, Case{ID: fmt.Sprintf("lm%d", i), Ops: []string{fmt.Sprintf("lattach %d %d %d", []int{1, 8, 512}[i%3], 2+rng.Intn(4), 1500)},
			Nontrivial: true, Tags: []string{"logwriter-attach-many"}})
	}
	for i := 0; i < nConc; i++ {
		out = append(out, Case{ID: fmt.Sprintf("c%d", i),
			Ops:        []string{fmt.Sprintf("gconc %d %d %d %d", 2+rng.Intn(7), 20+rng.Intn(200), 20+rng.Intn(200), rng.Int63())},
			Nontrivial: true, Tags: []string{"gated-concurrent"}})
	}
	return out
}

func c29Exec(ops []string) []string {
	sink := &c29Sink{}
	gw := &agent.GatedWriter{Writer: sink}
	lw := agent.NewLogWriter(1)
	handlers := map[int]*c29Handler{}
	var outs []string
	for _, o := range ops {
		f := strings.Fields(o)
		switch {
		case len(f) == 2 && f[0] == "gw":
			b := unhex(f[1])
			if b == nil {
				outs = append(outs, "bad-op")
				continue
			}
			_, _ = gw.Write(b)
			outs = append(outs, "ok")
		case len(f) == 1 && f[0] == "gflush":
			gw.Flush()
			outs = append(outs, "ok")
		case len(f) == 1 && f[0] == "gout":
			sink.mu.Lock()
			outs = append(outs, c29Show(sink.lines))
			sink.mu.Unlock()
		case len(f) == 5 && f[0] == "gconc":
			w, _ := strconv.Atoi(f[1])
			n1, _ := strconv.Atoi(f[2])
			n2, _ := strconv.Atoi(f[3])
			outs = append(outs, c29Conc(w, n1, n2))
		case len(f) == 4 && f[0] == "grounds":
			w, _ := strconv.Atoi(f[1])
			rounds, _ := strconv.Atoi(f[2])
			outs = append(outs, c29Rounds(w, rounds))
		case len(f) == 4 && f[0] == "lattach":
			c, e1 := strconv.Atoi(f[1])
			w, e2 := strconv.Atoi(f[2])
			k, e3 := strconv.Atoi(f[3])
			if e1 != nil || e2 != nil || e3 != nil || c < 1 || w < 1 || w > 16 || k < 1 || k > 5000 {
				outs = append(outs, "bad-op")
				continue
			}
			outs = append(outs, c29AttachMany(c, w, k))
		case len(f) == 3 && f[0] == "lconc":
			c, e1 := strconv.Atoi(f[1])
			k, e2 := strconv.Atoi(f[2])
			if e1 != nil || e2 != nil || c < 1 || k < 1 || k > 64 {
				outs = append(outs, "bad-op")
				continue
			}
			outs = append(outs, c29AttachRace(c, k))
		case len(f) == 2 && f[0] == "lnew":
			c, err := strconv.Atoi(f[1])
			if err != nil || c < 1 {
				outs = append(outs, "bad-op")
				continue
			}
			lw = agent.NewLogWriter(c)
			handlers = map[int]*c29Handler{}
			outs = append(outs, "ok")
		case len(f) == 2 && f[0] == "lw":
			b := unhex(f[1])
			if b == nil {
				outs = append(outs, "bad-op")
				continue
			}
			// the agent's logger hands whole lines ending in '\n'
			_, _ = lw.Write(append(append([]byte{}, b...), '\n'))
			outs = append(outs, "ok")
		case len(f) == 2 && f[0] == "lreg":
			id, _ := strconv.Atoi(f[1])
			h, ok := handlers[id]
			if !ok {
				h = &c29Handler{}
				handlers[id] = h
			}
			lw.RegisterHandler(h)
			outs = append(outs, "ok")
		case len(f) == 2 && f[0] == "ldereg":
			id, _ := strconv.Atoi(f[1])
			if h, ok := handlers[id]; ok {
				lw.DeregisterHandler(h)
				delete(handlers, id)
			}
			outs = append(outs, "ok")
		case len(f) == 2 && f[0] == "lget":
			id, _ := strconv.Atoi(f[1])
			if h, ok := handlers[id]; ok {
				h.mu.Lock()
				outs = append(outs, c29Show(h.lines))
				h.mu.Unlock()
			} else {
				outs = append(outs, "none")
			}
		default:
			outs = append(outs, "bad-op")
		}
	}
	return outs
}

// c29SlowHandler pauses inside its first HandleLog call until another goroutine's Write has returned (or 30 ms
// have passed: on a log writer that holds its lock while it replays the backlog that Write cannot return).
type c29SlowHandler struct {
	c29Handler
	first      int32
	started    chan struct{}
	writerDone chan struct{}
}

func (h *c29SlowHandler) HandleLog(l string) {
	if atomic.CompareAndSwapInt32(&h.first, 0, 1) { // only the first call pauses; concurrent calls pass
		close(h.started)
		select {
		case <-h.writerDone:
		case <-time.After(30 * time.Millisecond):
		}
	}
	h.c29Handler.HandleLog(l)
}

// c29AttachRace: k lines are logged, then a monitor attaches while another goroutine logs one more line.  That
// line was written after every buffered one, so the monitor must not see it before any of them.
func c29AttachRace(c, k int) string {
	lw := agent.NewLogWriter(c)
	for i := 0; i < k; i++ {
		_, _ = lw.Write([]byte(fmt.Sprintf("o%d\n", i)))
	}
	h := &c29SlowHandler{started: make(chan struct{}), writerDone: make(chan struct{})}
	go func() {
		<-h.started
		_, _ = lw.Write([]byte("new\n"))
		close(h.writerDone)
	}()
	lw.RegisterHandler(h)
	select {
	case <-h.writerDone:
	case <-time.After(5 * time.Second):
		return "stuck"
	}
	h.mu.Lock()
	defer h.mu.Unlock()
	return c29Show(h.lines)
}

// c29AttachMany: w goroutines log numbered lines without pause while monitors attach and detach k times.  What a
// monitor receives is the last lines of the ring followed by every later line: per writer a run of consecutive
// numbers, no line twice, none skipped.
func c29AttachMany(c, w, k int) string {
	lw := agent.NewLogWriter(c)
	stop := make(chan struct{})
	var wg sync.WaitGroup
	for t := 0; t < w; t++ {
		wg.Add(1)
		go func(t int) {
			defer wg.Done()
			for i := 0; ; i++ {
				select {
				case <-stop:
					return
				default:
				}
				_, _ = lw.Write([]byte(fmt.Sprintf("%d-%d\n", t, i)))
			}
		}(t)
	}
	dup, gap, back := 0, 0, 0
	for a := 0; a < k; a++ {
		h := &c29Handler{}
		lw.RegisterHandler(h)
		time.Sleep(time.Duration(20+a%7*15) * time.Microsecond)
		lw.DeregisterHandler(h)
		h.mu.Lock()
		last := map[int]int{}
		for _, l := range h.lines {
			var t, i int
			if _, err := fmt.Sscanf(l, "%d-%d", &t, &i); err != nil {
				continue
			}
			if p, ok := last[t]; ok {
				switch {
				case i == p:
					dup++
				case i < p:
					back++
				case i > p+1:
					gap++
				}
			}
			last[t] = i
		}
		h.mu.Unlock()
	}
	close(stop)
	wg.Wait()
	return fmt.Sprintf("attaches=%d dup=%d gap=%d back=%d", k, dup, gap, back)
}

// c29Conc: w writers write n1 lines each (phase 1, all Writes return before Flush is
// called), then Flush runs concurrently with n2 more lines per writer (phase 2, all
// Writes are called after Flush was *called*, so some race with it).  A line written
// in phase 2 was written after every phase-1 line: it must not precede one.
func c29Conc(w, n1, n2 int) string {
	sink := &c29Sink{}
	gw := &agent.GatedWriter{Writer: sink}
	var wg sync.WaitGroup
	start := make(chan struct{})
	for t := 0; t < w; t++ {
		wg.Add(1)
		go func(t int) {
			defer wg.Done()
			<-start
			for i := 0; i < n1; i++ {
				_, _ = gw.Write([]byte(fmt.Sprintf("%d.1.%d", t, i)))
			}
		}(t)
	}
	close(start)
	wg.Wait()
	start2 := make(chan struct{})
	for t := 0; t < w; t++ {
		wg.Add(1)
		go func(t int) {
			defer wg.Done()
			<-start2
			for i := 0; i < n2; i++ {
				_, _ = gw.Write([]byte(fmt.Sprintf("%d.2.%d", t, i)))
			}
		}(t)
	}
	wg.Add(1)
	go func() { defer wg.Done(); <-start2; gw.Flush() }()
	close(start2)
	wg.Wait()
	gw.Flush()
	sink.mu.Lock()
	defer sink.mu.Unlock()
	return "out " + strings.Join(sink.lines, ",")
}

// c29Rounds: many tiny races of a few writers against the gate opening: in every round a fresh
// GatedWriter, w writers writing 12 lines each and one Flush, all released together; afterwards a final
// Flush (exactly one, as in the agent).  Every line must reach the sink exactly once.
func c29Rounds(w, rounds int) string {
	lost, dup := 0, 0
	for r := 0; r < rounds; r++ {
		sink := &c29Sink{}
		gw := &agent.GatedWriter{Writer: sink}
		var wg sync.WaitGroup
		start := make(chan struct{})
		for t := 0; t < w; t++ {
			wg.Add(1)
			go func(t int) {
				defer wg.Done()
				<-start
				for i := 0; i < 12; i++ {
					_, _ = gw.Write([]byte(fmt.Sprintf("%d.%d", t, i)))
				}
			}(t)
		}
		wg.Add(1)
		go func(r int) {
			defer wg.Done()
			<-start
			// open the gate somewhere inside the burst of writes
			for spin := 0; spin < (r%64)*40; spin++ {
				_ = spin
			}
			gw.Flush()
		}(r)
		close(start)
		wg.Wait()
		// no second Flush: the agent opens the gate once; a line parked in the buffer after that is lost
		seen := map[string]int{}
		sink.mu.Lock()
		for _, l := range sink.lines {
			seen[l]++
		}
		sink.mu.Unlock()
		for t := 0; t < w; t++ {
			for i := 0; i < 12; i++ {
				switch n := seen[fmt.Sprintf("%d.%d", t, i)]; {
				case n == 0:
					lost++
				case n > 1:
					dup++
				}
			}
		}
	}
	return fmt.Sprintf("lost=%d dup=%d", lost, dup)
}

func init() {
	register(&Prop{
		ID: "C29",
		Rule: "sequential op sequences on a real GatedWriter (write/flush/read-output) and a real logWriter (capacity 1-5; write/register/deregister/read handler), " +
			"plus free-running concurrent GatedWriter runs (2-8 writers, two phases around the gate opening) and monitor-attach races on the logWriter (a handler that pauses inside its first backlog line while another goroutine logs; ring sizes 1-512, 1-64 buffered lines); non-trivial = a write after the gate opened, a registration after the ring wrapped, or a concurrent run; distinct = distinct op sequence",
		Gen:  c29Gen,
		Exec: c29Exec,
	})
}
