package main

import (
	"fmt"
	"io"
	"math/rand"
	"net"
	"strconv"
	"strings"
	"sync"
	"time"

	"github.com/hashicorp/memberlist"
	"github.com/hashicorp/serf/serf"
)

// C33: size limits of user events, queries and query responses on a real node.
// Line protocol: see lean/SerfModel/Check/C33.lean.

// c33Transport records the serf-level messages (memberlist user messages) written to the network.
type c33Transport struct {
	*memberlist.MockTransport
	mu   sync.Mutex
	user [][]byte
}

func (t *c33Transport) record(b []byte) {
	// memberlist framing (no label, no encryption, compression off): [hasCrc(12) crc32] userMsg(8) payload
	if len(b) > 5 && b[0] == 12 {
		b = b[5:]
	}
	if len(b) > 1 && b[0] == 8 {
		c := append([]byte{}, b[1:]...)
		t.mu.Lock()
		t.user = append(t.user, c)
		t.mu.Unlock()
	}
}

func (t *c33Transport) WriteTo(b []byte, addr string) (time.Time, error) {
	t.record(b)
	return t.MockTransport.WriteTo(b, addr)
}

func (t *c33Transport) WriteToAddress(b []byte, a memberlist.Address) (time.Time, error) {
	t.record(b)
	return t.MockTransport.WriteToAddress(b, a)
}

func (t *c33Transport) take() [][]byte {
	t.mu.Lock()
	defer t.mu.Unlock()
	u := t.user
	t.user = nil
	return u
}

type c33Node struct {
	s       *serf.Serf
	conf    *serf.Config
	tr      *c33Transport
	eventCh chan serf.Event
	pending *serf.Query
	barrier int
	net     *memberlist.MockNetwork
	fakes   int
	bigs    []string
	logw    *c33Log
}

// addFakes makes the node believe in k more alive protocol-5 members (through the memberlist event
// delegate, as memberlist itself would) and gives each a reachable mock transport whose packets are
// discarded: relayResponse then has targets, and the recording transport sees what is sent to them.
func (n *c33Node) addFakes(k int) {
	for i := 0; i < k; i++ {
		n.fakes++
		name := fmt.Sprintf("fake-%d", n.fakes)
		tr := n.net.NewTransport(name)
		go func() {
			for range tr.PacketCh() {
			}
		}()
		ip, port, _ := tr.FinalAdvertiseAddr("", 0)
		n.conf.MemberlistConfig.Events.NotifyJoin(&memberlist.Node{Name: name, Addr: ip, Port: uint16(port),
			PMin: 1, PMax: 5, PCur: 2, DMin: 2, DMax: 5, DCur: 5})
	}
}

// sync pushes a uniquely named remote user event (Lamport time just below the event clock, so
// the clock does not move) through the node's event pipeline and collects everything delivered
// before it: the pipeline is FIFO, so nothing issued earlier can still be in flight afterwards.
func (n *c33Node) sync() (userEvents int, queries []*serf.Query) {
	n.barrier++
	name := fmt.Sprintf("__barrier%d", n.barrier)
	et, _ := strconv.ParseUint(n.s.Stats()["event_time"], 10, 64)
	lt := uint64(0)
	if et > 0 {
		lt = et - 1
	}
	raw, _ := serf.VerifEncodeMessage(3, &serf.VerifMsgUserEvent{LTime: serf.LamportTime(lt), Name: name}, false)
	n.conf.MemberlistConfig.Delegate.NotifyMsg(raw)
	deadline := time.After(3 * time.Second)
	for {
		select {
		case e := <-n.eventCh:
			switch v := e.(type) {
			case serf.UserEvent:
				if v.Name == name {
					n.drainBroadcasts()
					return
				}
				userEvents++
			case *serf.Query:
				queries = append(queries, v)
			}
		case <-deadline:
			userEvents = -1000
			return
		}
	}
}

func (n *c33Node) drainEvents() (userEvents int, queries []*serf.Query) {
	for {
		select {
		case e := <-n.eventCh:
			switch v := e.(type) {
			case serf.UserEvent:
				userEvents++
			case *serf.Query:
				queries = append(queries, v)
			}
		default:
			return
		}
	}
}

// drainBroadcasts empties the broadcast queues and returns the distinct queued messages' lengths (first pass).
func (n *c33Node) drainBroadcasts() []int {
	d := n.conf.MemberlistConfig.Delegate
	var first []int
	for i := 0; i < 12; i++ {
		msgs := d.GetBroadcasts(0, 1<<30)
		if len(msgs) == 0 {
			break
		}
		if i == 0 {
			for _, m := range msgs {
				first = append(first, len(m))
			}
		}
	}
	return first
}

// c33Log collects the node's log lines (the internal query handlers report a refused answer only there).
type c33Log struct {
	mu  sync.Mutex
	buf []byte
}

func (l *c33Log) Write(p []byte) (int, error) {
	l.mu.Lock()
	l.buf = append(l.buf, p...)
	l.mu.Unlock()
	return len(p), nil
}

func (l *c33Log) reset() {
	l.mu.Lock()
	l.buf = nil
	l.mu.Unlock()
}

// settled: a handler said it could not answer (terminal log lines of internal_query.go)
func (l *c33Log) settled() bool {
	l.mu.Lock()
	defer l.mu.Unlock()
	t := string(l.buf)
	return strings.Contains(t, "Failed to respond") || strings.Contains(t, "Failed to truncate") ||
		strings.Contains(t, "Failed to encode") || strings.Contains(t, "Failed to decode")
}

// responses: the query-response (type 5, not an ack) and relay (type 9) messages among the recorded packets
func c33Responses(pkts [][]byte) []int {
	var lens []int
	for _, p := range pkts {
		if len(p) == 0 {
			continue
		}
		if p[0] == 9 {
			lens = append(lens, len(p))
		}
		if p[0] == 5 {
			var r serf.VerifMsgQueryResponse
			if err := serf.VerifDecodeMessage(p[1:], &r); err == nil && r.Flags&1 != 0 {
				continue // an ack: carries no payload, not size-checked, not a response in the sense of C33
			}
			lens = append(lens, len(p))
		}
	}
	return lens
}

func (t *c33Transport) peek() [][]byte {
	t.mu.Lock()
	defer t.mu.Unlock()
	return append([][]byte{}, t.user...)
}

func c33Lens(l []int) string {
	if len(l) == 0 {
		return "-"
	}
	s := make([]string, len(l))
	for i, v := range l {
		s[i] = strconv.Itoa(v)
	}
	return strings.Join(s, ",")
}

func c33LenOpt(s string, fill byte) ([]byte, bool) {
	if s == "n" {
		return nil, true
	}
	n, err := strconv.Atoi(s)
	if err != nil || n < 0 {
		return nil, false
	}
	b := make([]byte, n)
	for i := range b {
		b[i] = fill
	}
	return b, true
}

func c33Exec(ops []string) []string {
	var node *c33Node
	defer func() {
		if node != nil {
			_ = node.s.Shutdown()
		}
	}()
	outs := make([]string, 0, len(ops))
	for _, o := range ops {
		f := strings.Fields(o)
		switch {
		case len(f) == 5 && f[0] == "cfg":
			ue, e1 := strconv.Atoi(f[1])
			q, e2 := strconv.Atoi(f[2])
			r, e3 := strconv.Atoi(f[3])
			nl, e4 := strconv.Atoi(f[4])
			if e1 != nil || e2 != nil || e3 != nil || e4 != nil || node != nil {
				outs = append(outs, "bad-op")
				continue
			}
			name := strings.Repeat("N", nl)
			mnet := &memberlist.MockNetwork{}
			tr := &c33Transport{MockTransport: mnet.NewTransport(name)}
			conf := serf.DefaultConfig()
			conf.Init()
			conf.NodeName = name
			logw := &c33Log{}
			conf.LogOutput = logw
			conf.UserEventSizeLimit = ue
			conf.QuerySizeLimit = q
			conf.QueryResponseSizeLimit = r
			ch := make(chan serf.Event, 64)
			conf.EventCh = ch
			conf.MemberlistConfig = memberlist.DefaultLANConfig()
			conf.MemberlistConfig.Transport = tr
			conf.MemberlistConfig.BindAddr = "127.0.0.1"
			conf.MemberlistConfig.LogOutput = io.Discard
			conf.MemberlistConfig.EnableCompression = false
			s, err := serf.Create(conf)
			if err != nil {
				outs = append(outs, "create-err")
				continue
			}
			node = &c33Node{s: s, conf: conf, tr: tr, eventCh: ch, net: mnet, logw: logw}
			node.sync()
			node.drainBroadcasts()
			node.tr.take()
			outs = append(outs, "ok")
		case node == nil:
			outs = append(outs, "bad-op")
		case len(f) == 1 && f[0] == "env":
			ln := node.s.Memberlist().LocalNode()
			outs = append(outs, fmt.Sprintf("%s %d", hexb(ln.Addr), ln.Port))
		case len(f) == 2 && f[0] == "bigmember":
			// one more alive member whose record is large: tags {t: xxx…} of the given length
			n, err := strconv.Atoi(f[1])
			if err != nil || n < 0 || n > 2000 {
				outs = append(outs, "bad-op")
				continue
			}
			name := fmt.Sprintf("big-%d", len(node.bigs)+1)
			tr := node.net.NewTransport(name)
			go func() {
				for range tr.PacketCh() {
				}
			}()
			ip, port, _ := tr.FinalAdvertiseAddr("", 0)
			meta := serf.VerifEncodeTags(5, map[string]string{"t": strings.Repeat("x", n)})
			node.conf.MemberlistConfig.Events.NotifyJoin(&memberlist.Node{Name: name, Addr: ip, Port: uint16(port), Meta: meta,
				PMin: 1, PMax: 5, PCur: 2, DMin: 2, DMax: 5, DCur: 5})
			node.bigs = append(node.bigs, name)
			node.fakes++
			node.sync()
			node.drainBroadcasts()
			node.tr.take()
			outs = append(outs, fmt.Sprintf("ok %d", port))
		case len(f) == 4 && f[0] == "iquery":
			// an INTERNAL query issued on the node itself: its own handler answers it through the same
			// respondWithMessageAndResponse as every other response
			var qname string
			var payload []byte
			switch f[1] {
			case "conflict":
				k, err := strconv.Atoi(f[2])
				if err != nil || k < 1 || k > len(node.bigs) {
					outs = append(outs, "bad-op")
					continue
				}
				qname, payload = "_serf_conflict", []byte(node.bigs[k-1])
			case "installkey":
				qname, payload = "_serf_install-key", []byte{7, 0x80} // messageKeyRequestType + an empty keyRequest
			case "listkeys":
				qname = "_serf_list-keys"
			case "ping":
				qname = "_serf_ping"
			default:
				outs = append(outs, "bad-op")
				continue
			}
			node.sync()
			node.drainBroadcasts()
			node.tr.take()
			node.logw.reset()
			_, err := node.s.Query(qname, payload, &serf.QueryParam{RequestAck: f[3] == "t", Timeout: time.Hour})
			if err != nil {
				if strings.Contains(err.Error(), "exceeds limit") {
					outs = append(outs, "err-size sent=-")
				} else {
					outs = append(outs, "err-other")
				}
				node.sync()
				node.drainBroadcasts()
				continue
			}
			msgs := node.conf.MemberlistConfig.Delegate.GetBroadcasts(0, 1<<30)
			node.drainBroadcasts()
			sentLen, idw := 0, 0
			for _, m := range msgs {
				var q serf.VerifMsgQuery
				if len(m) > 0 && m[0] == 4 && serf.VerifDecodeMessage(m[1:], &q) == nil {
					sentLen = len(m)
					switch {
					case q.ID < 128:
						idw = 1
					case q.ID < 256:
						idw = 2
					case q.ID < 65536:
						idw = 3
					default:
						idw = 5
					}
				}
			}
			resp := "none"
			if f[1] != "ping" {
				deadline := time.Now().Add(5 * time.Second)
				for {
					if len(c33Responses(node.tr.peek())) > 0 {
						resp = "sent"
						break
					}
					if node.logw.settled() {
						resp = "refused"
						break
					}
					if time.Now().After(deadline) {
						resp = "env-error"
						break
					}
					time.Sleep(200 * time.Microsecond)
				}
			}
			if resp == "env-error" {
				outs = append(outs, "env-error")
				continue
			}
			node.sync()
			lens := c33Responses(node.tr.take())
			outs = append(outs, fmt.Sprintf("ok sent=%d idw=%d resp=%s pkts=%s", sentLen, idw, resp, c33Lens(lens)))
		case len(f) == 2 && f[0] == "members":
			k, err := strconv.Atoi(f[1])
			if err != nil || k < 0 || k > 8 {
				outs = append(outs, "bad-op")
				continue
			}
			node.addFakes(k)
			node.sync()
			node.drainBroadcasts()
			node.tr.take()
			outs = append(outs, "ok")
		case len(f) == 2 && f[0] == "witness":
			lt, err := strconv.ParseUint(f[1], 10, 64)
			if err != nil {
				outs = append(outs, "bad-op")
				continue
			}
			raw, _ := serf.VerifEncodeMessage(3, &serf.VerifMsgUserEvent{LTime: serf.LamportTime(lt), Name: "w"}, false)
			node.conf.MemberlistConfig.Delegate.NotifyMsg(raw)
			node.sync()
			node.drainBroadcasts()
			outs = append(outs, "ok")
		case len(f) == 4 && f[0] == "event":
			nl, err := strconv.Atoi(f[1])
			pl, ok := c33LenOpt(f[2], 'p')
			if err != nil || !ok {
				outs = append(outs, "bad-op")
				continue
			}
			node.sync()
			node.drainBroadcasts()
			e := node.s.UserEvent(strings.Repeat("n", nl), pl, f[3] == "t")
			status := "ok"
			if e != nil {
				m := e.Error()
				switch {
				case strings.Contains(m, "configured limit") && strings.Contains(m, "before encoding"):
					status = "err-cfg-before"
				case strings.Contains(m, "sane limit"):
					status = "err-hard-before"
				case strings.Contains(m, "configured limit") && strings.Contains(m, "after encoding"):
					status = "err-cfg-after"
				case strings.Contains(m, "reasonable limit"):
					status = "err-hard-after"
				default:
					status = "err-other"
				}
			}
			sent := node.drainBroadcasts()
			ue, _ := node.sync()
			outs = append(outs, fmt.Sprintf("%s delivered=%d sent=%s", status, ue, c33Lens(sent)))
		case len(f) == 7 && f[0] == "query":
			nl, e1 := strconv.Atoi(f[1])
			pl, ok := c33LenOpt(f[2], 'p')
			nf, e2 := strconv.Atoi(f[3])
			rf, e3 := strconv.Atoi(f[4])
			to, e4 := strconv.ParseInt(f[6], 10, 64)
			if e1 != nil || e2 != nil || e3 != nil || e4 != nil || !ok || to == 0 || rf > 255 {
				outs = append(outs, "bad-op")
				continue
			}
			params := &serf.QueryParam{RequestAck: f[5] == "t", RelayFactor: uint8(rf), Timeout: time.Duration(to)}
			if nf > 0 {
				params.FilterNodes = []string{node.conf.NodeName}
				for i := 1; i < nf; i++ {
					params.FilterNodes = append(params.FilterNodes, strings.Repeat("f", i))
				}
			}
			node.sync()
			node.drainBroadcasts()
			_, err := node.s.Query(strings.Repeat("q", nl), pl, params)
			sent := node.drainBroadcasts()
			_, qs := node.sync()
			d := len(qs)
			if err != nil {
				if strings.Contains(err.Error(), "exceeds limit") {
					outs = append(outs, fmt.Sprintf("err-size delivered=%d sent=%s", d, c33Lens(sent)))
				} else {
					outs = append(outs, "err-other")
				}
				continue
			}
			if len(qs) > 0 {
				node.pending = qs[len(qs)-1]
			}
			// the ID's width: the only field the model cannot know; read it off the queued message
			idw := c33IDWidth(node, nl, pl, params, sent)
			outs = append(outs, fmt.Sprintf("ok delivered=%d sent=%s idw=%d", d, c33Lens(sent), idw))
		case len(f) == 2 && f[0] == "respond":
			pl, ok := c33LenOpt(f[1], 'r')
			if !ok || node.pending == nil {
				outs = append(outs, "bad-op")
				continue
			}
			node.tr.take()
			err := node.pending.Respond(pl)
			lens := c33Responses(node.tr.take())
			switch {
			case err == nil:
				node.pending = nil
				outs = append(outs, "ok pkts="+c33Lens(lens))
			case strings.Contains(err.Error(), "exceeds limit"):
				outs = append(outs, "err-size pkts="+c33Lens(lens))
			default:
				outs = append(outs, "err-other pkts="+c33Lens(lens))
			}
		default:
			outs = append(outs, "bad-op")
		}
	}
	return outs
}

// c33IDWidth: the pending *serf.Query does not export its id; the encoded width is
// recovered from the length of the queued message: every other field is known.
func c33IDWidth(node *c33Node, nl int, pl []byte, params *serf.QueryParam, sent []int) int {
	if len(sent) == 0 || node.pending == nil {
		return 0
	}
	ln := node.s.Memberlist().LocalNode()
	var filters [][]byte
	if len(params.FilterNodes) > 0 {
		b, _ := serf.VerifEncodeFilter(0, serf.VerifFilterNode(params.FilterNodes))
		filters = append(filters, b)
	}
	var flags uint32
	if params.RequestAck {
		flags = 1
	}
	for _, w := range []struct {
		id uint32
		n  int
	}{{5, 1}, {200, 2}, {40000, 3}, {1 << 30, 5}} {
		m := serf.VerifMsgQuery{LTime: node.pending.LTime, ID: w.id, Addr: ln.Addr, Port: ln.Port, SourceNode: ln.Name, Filters: filters,
			Flags: flags, RelayFactor: params.RelayFactor, Timeout: params.Timeout, Name: strings.Repeat("q", nl), Payload: pl}
		raw, _ := serf.VerifEncodeMessage(4, &m, false)
		if len(raw) == sent[0] {
			return w.n
		}
	}
	return 0
}

// encoded sizes (from the real encoder) used to aim at the boundaries
func c33EventEnc(lt uint64, nl int, pl []byte) int {
	raw, _ := serf.VerifEncodeMessage(3, &serf.VerifMsgUserEvent{LTime: serf.LamportTime(lt), Name: strings.Repeat("n", nl), Payload: pl, CC: true}, false)
	return len(raw)
}

func c33QueryEnc(lt uint64, nodeName string, nf, rf int, to int64, nl int, pl []byte) int {
	var filters [][]byte
	if nf > 0 {
		names := []string{nodeName}
		for i := 1; i < nf; i++ {
			names = append(names, strings.Repeat("f", i))
		}
		b, _ := serf.VerifEncodeFilter(0, serf.VerifFilterNode(names))
		filters = append(filters, b)
	}
	m := serf.VerifMsgQuery{LTime: serf.LamportTime(lt), ID: 1 << 30, Addr: make([]byte, 16), Port: 1, SourceNode: nodeName, Filters: filters,
		RelayFactor: uint8(rf), Timeout: time.Duration(to), Name: strings.Repeat("q", nl), Payload: pl}
	raw, _ := serf.VerifEncodeMessage(4, &m, false)
	return len(raw)
}

func c33RespEnc(lt uint64, nodeName string, pl []byte) int {
	raw, _ := serf.VerifEncodeMessage(5, &serf.VerifMsgQueryResponse{LTime: serf.LamportTime(lt), ID: 1 << 30, From: nodeName, Payload: pl}, false)
	return len(raw)
}

func c33RelayEnc(lt uint64, nodeName string, pl []byte) int {
	raw, _ := serf.VerifEncodeRelayMessage(5, net.UDPAddr{IP: make([]byte, 16), Port: 1}, nodeName,
		&serf.VerifMsgQueryResponse{LTime: serf.LamportTime(lt), ID: 1 << 30, From: nodeName, Payload: pl})
	return len(raw)
}

func c33GenCases(rng *rand.Rand, tier string) []Case {
	var out []Case
	n := 60
	if tier == "thorough" {
		n = 1500
	}
	limits := []int{0, 1, 30, 64, 512, 1024, 9215, 9216}
	nn := func(v int) int {
		if v < 0 {
			return 0
		}
		return v
	}
	for i := 0; i < n; i++ {
		ue := limits[rng.Intn(len(limits))]
		if rng.Intn(4) == 0 {
			ue = rng.Intn(9217)
		}
		q := []int{0, 150, 200, 1024, 4000}[rng.Intn(5)]
		r := []int{0, 60, 100, 1024, 4000}[rng.Intn(5)]
		nameLen := []int{0, 1, 5, 31, 32, 40}[rng.Intn(6)]
		nodeName := strings.Repeat("N", nameLen)
		ops := []string{fmt.Sprintf("cfg %d %d %d %d", ue, q, r, nameLen), "env"}
		fakes := 0
		if rng.Intn(2) == 0 {
			fakes = 1 + rng.Intn(2)
			ops = append(ops, fmt.Sprintf("members %d", fakes))
		}
		nt := false
		k := 6 + rng.Intn(8)
		evClock, qClock := uint64(1), uint64(1) // the generator's estimate, only used for aiming
		for j := 0; j < k; j++ {
			switch x := rng.Intn(10); {
			case x < 5:
				nl := []int{0, 1, 3, 31, 32, 255, 256, rng.Intn(40)}[rng.Intn(8)]
				var total int
				switch rng.Intn(3) {
				case 0: // comfortably inside
					total = rng.Intn(nn(ue-60) + 1)
				case 1: // name+payload within ±3 of the configured limit
					total = nn(ue - 3 + rng.Intn(7))
				default: // encoded form within ±3 of the configured limit
					total = nn(ue - 40)
					for c33EventEnc(evClock, min(nl, total), make([]byte, total-min(nl, total))) < ue-3+rng.Intn(7) && total < ue+8 {
						total++
					}
				}
				if nl > total {
					nl = total
				}
				pl := strconv.Itoa(total - nl)
				if total-nl == 0 && rng.Intn(2) == 0 {
					pl = "n"
				}
				ops = append(ops, fmt.Sprintf("event %d %s %s", nl, pl, []string{"t", "f"}[rng.Intn(2)]))
				if total <= ue {
					evClock++ // taken at message construction, also when the encoded form is then rejected
				}
				nt = true
			case x < 6:
				w := []uint64{5, 126, 127, 254, 255, 65534, 65535, 1<<32 - 2, 1<<32 - 1, 1 << 40}[rng.Intn(10)]
				if w+1 > evClock {
					evClock = w + 1
				}
				ops = append(ops, fmt.Sprintf("witness %d", w))
			case x < 8:
				nf := rng.Intn(3)
				rf := []int{0, 0, 1, 255}[rng.Intn(4)]
				to := []int64{127, 128, 32767, 32768, int64(10 * time.Second), int64(time.Hour)}[rng.Intn(6)]
				nl := rng.Intn(8)
				base := c33QueryEnc(qClock, nodeName, nf, rf, to, nl, []byte{})
				var plen int
				switch rng.Intn(3) {
				case 0:
					plen = rng.Intn(nn(q-base-10) + 1)
				default:
					plen = nn(q - base - 5 + rng.Intn(11))
				}
				pl := strconv.Itoa(plen)
				if plen == 0 && rng.Intn(2) == 0 {
					pl = "n"
				}
				ops = append(ops, fmt.Sprintf("query %d %s %d %d %s %d", nl, pl, nf, rf, []string{"t", "f"}[rng.Intn(2)], to))
				qClock++
				nt = true
			default:
				if q < 150 {
					continue
				}
				// a small query that is surely delivered, then a response around the response limit
				rf := []int{0, 1, 1, 2, 255}[rng.Intn(5)]
				ops = append(ops, fmt.Sprintf("query 1 n 0 %d f %d", rf, int64(time.Hour)))
				base := c33RespEnc(qClock, nodeName, []byte{})
				if rf > 0 && rf <= fakes && rng.Intn(2) == 0 {
					// aim the RELAYED copy (header + response) at the limit instead of the direct one
					base = c33RelayEnc(qClock, nodeName, []byte{})
				}
				qClock++
				plen := nn(r - base - 5 + rng.Intn(11))
				if rng.Intn(3) == 0 {
					plen = rng.Intn(nn(r-base-8) + 1)
				}
				pl := strconv.Itoa(plen)
				if plen == 0 && rng.Intn(2) == 0 {
					pl = "n"
				}
				ops = append(ops, "respond "+pl)
				if rng.Intn(2) == 0 {
					ops = append(ops, fmt.Sprintf("respond %d", rng.Intn(20)))
				}
				nt = true
			}
		}
		out = append(out, Case{ID: fmt.Sprintf("n%d", i), Ops: ops, Nontrivial: nt, Tags: []string{fmt.Sprintf("ue%d", ue)}})
	}
	// internal queries (_serf_conflict about a member with a large record, install-key, list-keys, ping) on nodes
	// with small response limits: their answers pass through the same size check as every other response
	nInt := n / 3
	for i := 0; i < nInt; i++ {
		r := []int{60, 100, 200, 300, 600, 1024}[rng.Intn(6)]
		nameLen := []int{1, 5, 31, 32}[rng.Intn(4)]
		nodeName := strings.Repeat("N", nameLen)
		ops := []string{fmt.Sprintf("cfg 512 1024 %d %d", r, nameLen), "env"}
		// the conflict answer about big-1 with tag length t, wrapped into the response: aim it at the limit
		answer := func(t int) int {
			m := serf.Member{Name: "big-1", Addr: make([]byte, 16), Port: 2, Tags: map[string]string{"t": strings.Repeat("x", t)}, Status: serf.StatusAlive,
				ProtocolMin: 1, ProtocolMax: 5, ProtocolCur: 2, DelegateMin: 2, DelegateMax: 5, DelegateCur: 5}
			buf, _ := serf.VerifEncodeMessage(6, &m, false)
			return c33RespEnc(1, nodeName, buf)
		}
		t := 0
		switch rng.Intn(3) {
		case 0:
			t = rng.Intn(500)
		default:
			for answer(t) < r-4+rng.Intn(9) && t < 1500 {
				t++
			}
		}
		ops = append(ops, fmt.Sprintf("bigmember %d", t))
		if rng.Intn(3) == 0 {
			ops = append(ops, fmt.Sprintf("bigmember %d", rng.Intn(400)))
		}
		k := 2 + rng.Intn(4)
		for j := 0; j < k; j++ {
			ack := []string{"t", "f"}[rng.Intn(2)]
			switch rng.Intn(6) {
			case 0, 1, 2:
				ops = append(ops, fmt.Sprintf("iquery conflict %d %s", 1+rng.Intn(strings.Count(strings.Join(ops, " "), "bigmember")), ack))
			case 3:
				ops = append(ops, "iquery installkey _ "+ack)
			case 4:
				ops = append(ops, "iquery listkeys _ "+ack)
			default:
				ops = append(ops, "iquery ping _ "+ack)
			}
		}
		out = append(out, Case{ID: fmt.Sprintf("int%d", i), Ops: ops, Nontrivial: true, Tags: []string{"internal-query"}})
	}
	// Create's own cap on the configured limit
	for _, ue := range []int{9215, 9216, 9217, 20000} {
		out = append(out, Case{ID: fmt.Sprintf("create-%d", ue), Ops: []string{fmt.Sprintf("cfg %d 1024 1024 4", ue), "env", "event 3 9210 f", "event 3 9214 f", "event 1 9170 f", "event 1 9185 f", "event 1 9180 t", "event 0 9182 t"},
			Nontrivial: true, Tags: []string{"create-cap"}})
	}
	return out
}

func init() {
	register(&Prop{
		ID: "C33",
		Rule: "one real node per case with limits from {0,1,30,64,512,1024,9215,9216} (or random) × query/response limits {0,40,100,200,1024,4000} × node name lengths {0,1,5,31,32,40}; 6-13 operations: user events with name+payload within ±3 of the configured limit, of 9216 and of the point where the encoded form crosses the limit (name lengths at 31/32/255/256, nil payloads), remote events moving the event clock to 1/2/3/5/9-byte Lamport times, queries with the encoded size within ±3..12 of the limit (filters, relay factor, ack, timeouts at int8/int16/int64 widths), responses within ±3..8 of the response limit incl. a second response; " +
			"half of the cases with 1-2 fake alive members (relay targets) and relay factors 0/1/2/255, responses aimed at the point where the RELAYED copy crosses the limit; internal queries (_serf_conflict about members whose record is aimed at the response limit ±4, install-key, list-keys, ping) under response limits 60..1024; observed: returned error class, EventCh, broadcast queues (GetBroadcasts), response and relay packets written to the transport; non-trivial = the case contains an event, query or response; distinct = distinct op sequence",
		Gen:  c33GenCases,
		Exec: c33Exec,
	})
}
