package main

import (
	"fmt"
	"math/rand"
	"regexp"
	"sort"
	"strconv"
	"strings"
	"time"

	"github.com/hashicorp/serf/serf"
)

// C08: query filtering, acks, re-broadcast and internal-prefix hiding on a real
// single node. Ops: `cfg N name tags`, `q lt id flags name F raw=class… R expr:value:res…`
// (see lean/SerfModel/Check/C08.lean).

type c08Node struct {
	name string
	tags map[string]string
}

var c08Nodes = []c08Node{
	{"n1", map[string]string{"role": "web", "dc": "east"}},
	{"node-a", map[string]string{"role": "db"}},
	{"web.1", map[string]string{"role": "", "ver": "1.2.3", "dc": "e.st"}},
	{"n1", map[string]string{}},
	{"Ünï", map[string]string{"role": "wéb", "x": "a\nb"}},
}

var c08Exprs = []string{
	"web", "^web$", "w.b", "db|web", "", "^$", "(", "[a-", "*", "(?i)WEB", "^e.st$", "\\d+", ".*", "a{2000}",
	"(?P<n>web)", "\\pL+", "east|", "^(east|west)$", "^(?:db)$", "we", "^1\\.2", "(?s)a.b", "a.b", "\\", "x*",
}
var c08TagNames = []string{"role", "dc", "ver", "missing", "", "x", "Role"}
var c08QNames = []string{"q", "deploy", "_serf_ping", "_serf_", "_serf_zz", "_serf", "x_serf_", "_SERF_x", "", "_serf_ping", "q"}

func c08TagsTok(tags map[string]string) string {
	if len(tags) == 0 {
		return "-"
	}
	var ks []string
	for k := range tags {
		ks = append(ks, k)
	}
	sort.Strings(ks)
	var out []string
	for _, k := range ks {
		out = append(out, hexs(k)+":"+hexs(tags[k]))
	}
	return strings.Join(out, ",")
}

func c08ParseTags(tok string) (map[string]string, bool) {
	tags := map[string]string{}
	if tok == "-" {
		return tags, true
	}
	for _, kv := range strings.Split(tok, ",") {
		p := strings.Split(kv, ":")
		if len(p) != 2 || unhex(p[0]) == nil || unhex(p[1]) == nil {
			return nil, false
		}
		tags[string(unhex(p[0]))] = string(unhex(p[1]))
	}
	return tags, true
}

// c08Class renders what the real decoder makes of a raw filter.
func c08Class(raw []byte) (string, string, string) {
	kind, names, tag, expr := serf.VerifDecodeFilter(raw)
	switch kind {
	case "empty":
		return "E", "", ""
	case "node":
		if len(names) == 0 {
			return "N", "", ""
		}
		var hs []string
		for _, n := range names {
			hs = append(hs, hexs(n))
		}
		return "N:" + strings.Join(hs, ";"), "", ""
	case "tag":
		return "T:" + hexs(tag) + ":" + hexs(expr), tag, expr
	case "undecodable":
		return "U", "", ""
	default:
		return "X", "", ""
	}
}

// c08Tail builds the `F … R …` tail for raw filters against a node's tags, using
// Go's decoder for the classes and Go's regexp engine for the table.
func c08Tail(filters [][]byte, tags map[string]string) string {
	var ft, rt []string
	seen := map[string]bool{}
	for _, raw := range filters {
		cls, tag, expr := c08Class(raw)
		ft = append(ft, hexb(raw)+"="+cls)
		if strings.HasPrefix(cls, "T:") {
			val := tags[tag]
			key := hexs(expr) + ":" + hexs(val)
			if !seen[key] {
				seen[key] = true
				res := "0"
				m, err := regexp.MatchString(expr, val)
				if err != nil {
					res = "e"
				} else if m {
					res = "1"
				}
				rt = append(rt, key+":"+res)
			}
		}
	}
	toks := append([]string{"F"}, ft...)
	toks = append(toks, "R")
	toks = append(toks, rt...)
	return strings.Join(toks, " ")
}

// c08LikelyPass draws a filter that usually selects the node.
func c08LikelyPass(rng *rand.Rand, nd c08Node) ([]byte, string) {
	if rng.Intn(2) == 0 {
		names := [][]string{{nd.name}, {"other", nd.name, "third"}, {nd.name, nd.name}, {"", "a", nd.name}}[rng.Intn(4)]
		b, _ := serf.VerifEncodeFilterNode(names)
		return b, "node"
	}
	tag := c08TagNames[rng.Intn(len(c08TagNames))]
	val := nd.tags[tag]
	var expr string
	switch rng.Intn(6) {
	case 0:
		expr = "^" + regexp.QuoteMeta(val) + "$"
	case 1:
		expr = regexp.QuoteMeta(val)
	case 2:
		expr = ".*"
	case 3:
		expr = ""
	case 4:
		if len(val) > 1 {
			expr = "^" + regexp.QuoteMeta(val[:1])
		} else {
			expr = "^"
		}
	default:
		expr = "(?i)" + regexp.QuoteMeta(strings.ToUpper(val))
	}
	b, _ := serf.VerifEncodeFilterTag(tag, expr)
	return b, "tag"
}

func c08RandFilter(rng *rand.Rand, nd c08Node) ([]byte, string) {
	switch r := rng.Intn(20); {
	case r < 6: // node filter
		var names []string
		switch rng.Intn(7) {
		case 0:
			names = []string{nd.name}
		case 1:
			names = []string{"other", nd.name, "third"}
		case 2:
			names = []string{"other"}
		case 3:
			names = []string{}
		case 4:
			names = []string{nd.name + "x", nd.name[:len(nd.name)-1], strings.ToUpper(nd.name)}
		case 5:
			names = []string{nd.name, nd.name}
		default:
			names = []string{"", "a", nd.name}
		}
		b, _ := serf.VerifEncodeFilterNode(names)
		return b, "node"
	case r < 14: // tag filter
		tag := c08TagNames[rng.Intn(len(c08TagNames))]
		expr := c08Exprs[rng.Intn(len(c08Exprs))]
		if rng.Intn(4) == 0 { // the exact value of the tag, anchored or not
			v := regexp.QuoteMeta(nd.tags[tag])
			if rng.Intn(2) == 0 {
				v = "^" + v + "$"
			}
			expr = v
		}
		b, _ := serf.VerifEncodeFilterTag(tag, expr)
		return b, "tag"
	case r < 15:
		return []byte{}, "empty"
	case r < 17: // known type, garbage or truncated body
		t := byte(rng.Intn(2))
		switch rng.Intn(5) {
		case 0:
			return []byte{t}, "garbage"
		case 1:
			return []byte{t, 0xc1}, "garbage"
		case 2:
			b, _ := serf.VerifEncodeFilterTag("role", "web")
			b[0] = t
			return b[:len(b)-1-rng.Intn(3)], "garbage"
		case 3:
			g := make([]byte, 1+rng.Intn(6))
			rng.Read(g)
			return append([]byte{t}, g...), "garbage"
		default:
			return []byte{t, 0x2a}, "garbage"
		}
	case r < 18: // swapped bodies: node type with a tag body and vice versa
		if rng.Intn(2) == 0 {
			b, _ := serf.VerifEncodeFilterTag("role", "web")
			b[0] = 0
			return b, "swapped"
		}
		b, _ := serf.VerifEncodeFilterNode([]string{nd.name})
		b[0] = 1
		return b, "swapped"
	default: // unknown type byte
		b, _ := serf.VerifEncodeFilterNode([]string{nd.name})
		b[0] = byte(2 + rng.Intn(254))
		return b, "unknown-type"
	}
}

func c08GenCases(rng *rand.Rand, tier string) []Case {
	var out []Case
	M := fmt.Sprint(maxU64)
	// the recorded wrap finding on the query buffer (buffer of 2, three messages)
	out = append(out, Case{ID: "wrap-redelivery", Tags: []string{"boundary"}, Nontrivial: true, Ops: []string{
		"cfg 2 " + hexs("n1") + " -",
		"q 1 7 0 " + hexs("q") + " F R", "q " + M + " 8 0 " + hexs("q") + " F R", "q 1 7 0 " + hexs("q") + " F R"}})
	// tag changes on the SAME node between queries carrying byte-identical filters: every filter
	// is judged against the tags in effect when the query arrives (seeded C08-e memoised verdicts)
	{
		tf := func(tag, expr string) []byte { b, _ := serf.VerifEncodeFilterTag(tag, expr); return b }
		q := func(lt int, flags int, tags map[string]string, filters ...[]byte) string {
			return fmt.Sprintf("q %d 7 %d %s %s", lt, flags, hexs("q"), c08Tail(filters, tags))
		}
		web, db, none := map[string]string{"role": "web"}, map[string]string{"role": "db"}, map[string]string{}
		fWeb, fDb, fEmpty, fBad := tf("role", "^web$"), tf("role", "^db$"), tf("role", "^$"), tf("role", "(")
		out = append(out, Case{ID: "tags-flip", Tags: []string{"tag-change-fixed"}, Nontrivial: true, Ops: []string{
			"cfg 8 " + hexs("n1") + " " + c08TagsTok(web),
			q(1, 1, web, fWeb), q(2, 1, web, fDb),
			"tags " + c08TagsTok(db),
			q(3, 1, db, fWeb), q(4, 1, db, fDb),
			"tags " + c08TagsTok(web),
			q(5, 3, web, fDb), q(6, 0, web, fWeb)}})
		out = append(out, Case{ID: "tags-removed", Tags: []string{"tag-change-fixed"}, Nontrivial: true, Ops: []string{
			"cfg 512 " + hexs("node-a") + " " + c08TagsTok(db),
			q(1, 1, db, fEmpty), q(2, 1, db, fDb, fBad), q(3, 0, db, fDb),
			"tags " + c08TagsTok(none),
			q(4, 1, none, fEmpty), q(5, 1, none, fDb), q(6, 1, none, fBad),
			"tags " + c08TagsTok(db),
			q(7, 1, db, fEmpty), q(8, 1, db, fDb)}})
	}
	nr := 1000
	if tier == "thorough" {
		nr = 100000
	}
	flagsPal := []uint32{0, 1, 2, 3, 0, 1, 3, 4, 5, 6, 0xFFFFFFFF, 0xFFFFFFFC}
	ids := []uint32{7, 8, 0, 4294967295}
	for i := 0; i < nr; i++ {
		nd := c08Nodes[rng.Intn(len(c08Nodes))]
		n := uint64(c05BufSizes[rng.Intn(len(c05BufSizes))])
		ops := []string{fmt.Sprintf("cfg %d %s %s", n, hexs(nd.name), c08TagsTok(nd.tags))}
		tagset := map[string]bool{}
		cur := uint64(1)
		var used []uint64
		var sent []string
		k := 1 + rng.Intn(9)
		if rng.Intn(60) == 0 { // a long history
			k = 40 + rng.Intn(60)
			tagset["long"] = true
		}
		nt := false
		kinds := map[string]bool{}
		// tag-change mode: SetTags on the same node between the queries, earlier filters re-sent byte for byte
		tagMode := rng.Intn(3) == 0
		curTags := map[string]string{}
		for tk, tv := range nd.tags {
			curTags[tk] = tv
		}
		var usedFilters [][][]byte
		for j := 0; j < k; j++ {
			if tagMode && j > 0 && rng.Intn(3) == 0 {
				next := map[string]string{}
				for tk, tv := range curTags {
					next[tk] = tv
				}
				switch rng.Intn(6) {
				case 0:
					next["role"] = []string{"web", "db", "", "wéb"}[rng.Intn(4)]
				case 1:
					next["dc"] = []string{"east", "west", "e.st"}[rng.Intn(3)]
				case 2:
					for tk := range next { // drop one tag (the smallest key, for determinism)
						least := tk
						for o := range next {
							if o < least {
								least = o
							}
						}
						delete(next, least)
						break
					}
				case 3:
					next["ver"] = []string{"1.2.3", "2.0"}[rng.Intn(2)]
				case 4:
					next = map[string]string{}
					for tk, tv := range nd.tags {
						next[tk] = tv
					}
				default:
					next["role"], next["dc"] = next["dc"], next["role"]
				}
				curTags = next
				ops = append(ops, "tags "+c08TagsTok(curTags))
				sent = nil // older lines carry a regex table for the older tags
				tagset["tag-change"] = true
				continue
			}
			if len(sent) > 0 && rng.Intn(6) == 0 { // exact repeat
				ops = append(ops, sent[rng.Intn(len(sent))])
				tagset["repeat"] = true
				continue
			}
			var lt uint64
			var id uint32
			if len(used) > 0 && rng.Intn(5) == 0 { // same (time,id) as before, other content
				lt = used[rng.Intn(len(used))]
				id = ids[0]
				tagset["same-key"] = true
			} else {
				lt = c05Time(rng, cur, n, used)
				if rng.Intn(2) == 0 { // a fresh time inside the window, so that the filters decide
					lt = cur + uint64(rng.Intn(2))
				}
				if lt == maxU64 {
					lt = maxU64 - 1
				}
				id = ids[rng.Intn(len(ids))]
				if rng.Intn(3) == 0 {
					id = ids[0]
				}
			}
			used = append(used, lt)
			if lt+1 > cur {
				cur = lt + 1
			}
			var filters [][]byte
			nf := rng.Intn(4)
			if rng.Intn(3) == 0 {
				nf = 0
			}
			likely := rng.Intn(5) < 2
			ndNow := c08Node{nd.name, curTags}
			for x := 0; x < nf; x++ {
				b, kind := c08RandFilter(rng, ndNow)
				if likely && (x+1 < nf || rng.Intn(3) > 0) { // all but perhaps the last one select the node
					b, kind = c08LikelyPass(rng, ndNow)
				}
				filters = append(filters, b)
				kinds[kind] = true
			}
			if tagMode && len(usedFilters) > 0 && rng.Intn(2) == 0 {
				// the very same filter bytes as an earlier query, at a fresh time so that they decide
				filters = usedFilters[rng.Intn(len(usedFilters))]
				nf = len(filters)
				lt, id = cur, ids[rng.Intn(2)]
				used[len(used)-1] = lt
				cur = lt + 1
				tagset["filter-resent"] = true
			} else if tagMode && nf > 0 {
				usedFilters = append(usedFilters, filters)
			}
			if nf > 0 {
				nt = true
			}
			name := c08QNames[rng.Intn(len(c08QNames))]
			if strings.HasPrefix(name, "_serf_") {
				tagset["internal-name"] = true
			}
			fl := flagsPal[rng.Intn(len(flagsPal))]
			op := fmt.Sprintf("q %d %d %d %s %s", lt, id, fl, hexs(name), c08Tail(filters, curTags))
			sent = append(sent, op)
			ops = append(ops, op)
		}
		tags := []string{"random", fmt.Sprintf("N=%d", n)}
		for t := range tagset {
			tags = append(tags, t)
		}
		for t := range kinds {
			tags = append(tags, "filter-"+t)
		}
		sort.Strings(tags)
		out = append(out, Case{ID: fmt.Sprintf("r%d", i), Ops: ops, Nontrivial: nt, Tags: tags})
	}
	return out
}

func c08Exec(ops []string) []string {
	var node *evNode
	var tags map[string]string
	defer func() {
		if node != nil {
			node.close()
		}
	}()
	var outs []string
	for idx, o := range ops {
		f := strings.Fields(o)
		switch {
		case len(f) == 4 && f[0] == "cfg" && node == nil:
			n, err := strconv.Atoi(f[1])
			name := unhex(f[2])
			tg, ok := c08ParseTags(f[3])
			if err != nil || n <= 0 || len(name) == 0 || !ok {
				outs = append(outs, "bad-op")
				continue
			}
			nd, err := newEvNode(string(name), tg, n, n)
			if err != nil {
				outs = append(outs, "create-error")
				continue
			}
			node, tags = nd, tg
			outs = append(outs, "ok")
		case len(f) == 2 && f[0] == "tags" && node != nil:
			tg, ok := c08ParseTags(f[1])
			if !ok {
				outs = append(outs, "bad-op")
				continue
			}
			// the node keeps running: same buffers, clocks and whatever it remembers about filters
			if err := node.s.SetTags(tg); err != nil {
				outs = append(outs, "settags-error")
				continue
			}
			node.drain() // the node's own member-update event
			tags = tg
			outs = append(outs, "ok")
		case len(f) >= 7 && f[0] == "q" && node != nil && f[5] == "F":
			lt, e1 := strconv.ParseUint(f[1], 10, 64)
			id, e2 := strconv.ParseUint(f[2], 10, 32)
			fl, e3 := strconv.ParseUint(f[3], 10, 32)
			name := unhex(f[4])
			if e1 != nil || e2 != nil || e3 != nil || name == nil {
				outs = append(outs, "bad-op")
				continue
			}
			var filters [][]byte
			bad := false
			i := 6
			for ; i < len(f) && f[i] != "R"; i++ {
				p := strings.SplitN(f[i], "=", 2)
				raw := unhex(p[0])
				if len(p) != 2 || raw == nil {
					bad = true
					break
				}
				filters = append(filters, raw)
			}
			if bad || i >= len(f) {
				outs = append(outs, "bad-op")
				continue
			}
			// the classes and the regex table on the line must be what Go computes now
			if c08Tail(filters, tags) != strings.Join(f[5:], " ") {
				outs = append(outs, "bad-oracle")
				continue
			}
			port := uint16(20000 + idx%40000)
			msg, err := serf.VerifEncodeQuery(serf.VerifQuery{
				LTime: lt, ID: uint32(id), Addr: []byte{127, 0, 0, 1}, Port: port, SourceNode: "verif-src",
				Filters: filters, Flags: uint32(fl), RelayFactor: 0, Timeout: time.Second,
				Name: string(name), Payload: []byte("p"),
			})
			if err != nil {
				outs = append(outs, "encode-error")
				continue
			}
			addr := fmt.Sprintf("127.0.0.1:%d", port)
			node.tr.take(addr)
			q0 := node.stat("query_queue")
			node.notifyMsg(msg)
			evs := node.drain()
			app := "-"
			var apps []string
			for _, e := range evs {
				if q, ok := e.(*serf.Query); ok {
					apps = append(apps, fmt.Sprintf("%d/%s", uint64(q.LTime), hexs(q.Name)))
				} else {
					apps = append(apps, "other:"+hexs(e.String()))
				}
			}
			if len(apps) > 0 {
				app = strings.Join(apps, "+")
			}
			ack := "-"
			var acks []string
			for _, pkt := range node.tr.take(addr) {
				if len(pkt) > 0 && pkt[0] == 8 { // memberlist userMsg
					if r, ok := serf.VerifDecodeQueryResponse(pkt[1:]); ok && len(r.Payload) == 0 {
						acks = append(acks, fmt.Sprintf("%d/%d/%s/%d", r.LTime, r.ID, hexs(r.From), r.Flags))
						continue
					}
				}
				acks = append(acks, "raw:"+hexb(pkt))
			}
			if len(acks) > 0 {
				ack = strings.Join(acks, ",")
			}
			outs = append(outs, fmt.Sprintf("app=%s ack=%s rb=%d clk=%d", app, ack, node.stat("query_queue")-q0, node.stat("query_time")))
		default:
			outs = append(outs, "bad-op")
		}
	}
	return outs
}

func init() {
	register(&Prop{
		ID: "C08",
		Rule: "a real single Serf node per case (serf.Create with node name and tags, recording memberlist transport), QueryBuffer N ∈ {1,2,3,4,8,512}; 1–9 query messages (1 case in 60: 40–100) through NotifyMsg with 0–3 filters each: node lists (containing / not containing / near-misses of the own name, empty list), tag filters (25 patterns incl. invalid ones, exact tag values, missing / empty tags), empty entries, truncated and random bodies, swapped bodies, unknown type bytes; flags from {0,1,2,3,4,5,6,2^32−1,…}; names with and without the _serf_ prefix; exact repeats, same (time,id) with other content, in a third of the cases SetTags on the same node between the queries (role / dc / ver changed, a tag dropped, tags restored or swapped) with earlier filters re-sent byte for byte at fresh times, two fixed tag-flip cases, times around the window as in C05. " +
			"Filter classes come from Go's msgpack decoder and the regex table from Go's regexp.MatchString (both recomputed and compared at execution). Observed: the application channel, ack packets at the transport (decoded), query queue growth, query clock. non-trivial = at least one query carries a filter; distinct = distinct op sequence",
		Gen:  c08GenCases,
		Exec: c08Exec,
	})
}
