package main

import (
	"fmt"
	"math/rand"
)

// C15: member bookkeeping consistent, reaping exact. Executor: node.go.

var c15Profile = nodeProfile{nj: 14, nl: 16, nu: 2, mj: 6, ml: 14, mg: 5, fl: 6, oj: 1, lv: 1, sd: 0, rp: 10, ls: 0,
	selfBias: 1, pruneBias: 3, maxLen: 28}

// c15Directed: several members fail / leave at chosen times, then reaper ticks around the
// timeouts with overrides — the swap-delete loop sees every pattern of expired positions.
func c15Directed(rng *rand.Rand, id string) Case {
	names := []string{"a", "b", "c", "node d", "e", "f"}
	k := 2 + rng.Intn(5)
	var ops []string
	for i := 0; i < k; i++ {
		ops = append(ops, "nj "+hexs(names[i]))
	}
	for i := 0; i < k; i++ {
		switch rng.Intn(4) {
		case 0: // graceful leave
			ops = append(ops, fmt.Sprintf("ml %s %d 0", hexs(names[i]), 1+rng.Intn(5)), fmt.Sprintf("nl %s %d", hexs(names[i]), rng.Intn(7)))
		case 1, 2: // failure
			ops = append(ops, fmt.Sprintf("nl %s %d", hexs(names[i]), rng.Intn(7)))
			if rng.Intn(3) == 0 { // then forced out
				ops = append(ops, fmt.Sprintf("ml %s %d %d", hexs(names[i]), 1+rng.Intn(5), rng.Intn(4)/3))
			}
		default:
		}
	}
	for t := 0; t < 1+rng.Intn(3); t++ {
		ov := "-"
		if rng.Intn(2) == 0 {
			ov = fmt.Sprintf("%s:%d", hexs(names[rng.Intn(k)]), rng.Intn(9))
			if rng.Intn(2) == 0 {
				ov += fmt.Sprintf(",%s:%d", hexs("zz"), rng.Intn(9))
			}
		}
		ops = append(ops, fmt.Sprintf("rp %d %s", rng.Intn(14), ov))
		if rng.Intn(3) == 0 {
			ops = append(ops, "nj "+hexs(names[rng.Intn(k)]))
		}
	}
	return Case{ID: id, Ops: ops, Tags: []string{"directed-reap"}}
}

// c15Flap: a member fails, comes back (a flap), fails again later; reaper ticks around
// reconnect-timeout after the FIRST and after the SECOND failure: it must stay failed until the timeout
// has passed since the latest failure.
func c15Flap(rng *rand.Rand, id string) Case {
	x := hexs([]string{"a", "b", "node d"}[rng.Intn(3)])
	first := rng.Intn(3)
	second := first + 1 + rng.Intn(6)
	ops := []string{"nj " + x, fmt.Sprintf("nl %s %d", x, first)}
	if rng.Intn(3) == 0 {
		ops = append(ops, fmt.Sprintf("rp %d -", first+rng.Intn(3)))
	}
	ops = append(ops, "nj "+x)
	if rng.Intn(3) == 0 { // flaps twice
		mid := first + rng.Intn(second-first+1)
		ops = append(ops, fmt.Sprintf("nl %s %d", x, mid), "nj "+x)
	}
	ops = append(ops, fmt.Sprintf("nl %s %d", x, second))
	for i, k := 0, 1+rng.Intn(3); i < k; i++ {
		// around first+R and second+R (R = nodeReconnect)
		now := []int{first + nodeReconnect + 1, second + nodeReconnect - 1, second + nodeReconnect, second + nodeReconnect + 1, second + 1}[rng.Intn(5)]
		ops = append(ops, fmt.Sprintf("rp %d -", now))
	}
	return Case{ID: id, Ops: ops, Tags: []string{"directed-flap"}}
}

func c15Gen(rng *rand.Rand, tier string) []Case {
	nd, nr := 120, 200
	if tier == "thorough" {
		nd, nr = 6000, 14000
	}
	var out []Case
	for i := 0; i < nd; i++ {
		out = append(out, c15Directed(rng, fmt.Sprintf("d%d", i)))
	}
	nf := 40
	if tier == "thorough" {
		nf = 2000
	}
	for i := 0; i < nf; i++ {
		out = append(out, c15Flap(rng, fmt.Sprintf("f%d", i)))
	}
	for i := 0; i < nr; i++ {
		out = append(out, nodeRandomCase(rng, c15Profile, fmt.Sprintf("r%d", i)))
	}
	if tier == "thorough" { // long histories
		long := c15Profile
		long.maxLen = 160
		for i := 0; i < 300; i++ {
			c := nodeRandomCase(rng, long, fmt.Sprintf("L%d", i))
			c.Tags = []string{"random-long"}
			out = append(out, c)
		}
	}
	for i := range out {
		ops := out[i].Ops
		out[i].Nontrivial = opsHaveAfter(ops, "nl ", "rp ") && (opsHave(ops, "ml ") || opsHave(ops, "fl "))
	}
	return out
}

func init() {
	register(&Prop{
		ID: "C15",
		Rule: "one real serf node per case (loopback, never joined); flap histories (fail, rejoin, fail again later, reaper ticks around the reconnect timeout after the first and after the latest failure); directed histories (2-6 members join, fail/leave at chosen hours, forced out ± prune, 1-3 reaper ticks at chosen hours with per-member overrides, rejoins) " +
			"plus random sequences of memberlist notifications, join/leave(±prune) intents, merges, force-leaves, Leave, reaper ticks over 6 names (incl. empty, with space, the local node); " +
			"non-trivial = a reaper tick after a memberlist leave notification and at least one leave intent/force-leave; distinct = distinct op sequence",
		Gen:  c15Gen,
		Exec: nodeExec,
	})
}
