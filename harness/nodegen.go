package main

// Case generators shared by the single-node membership properties (C02, C03, C04, C15).

import (
	"fmt"
	"math/rand"
	"sort"
	"strings"
)

var nodeNames = []string{nodeSelf, "a", "b", "c", "node d", ""}

// nodeProfile weights the op kinds of the random part of a generator.
type nodeProfile struct {
	nj, nl, nu, mj, ml, mg, fl, oj, lv, sd, rp, ls int
	selfBias                                       int // extra weight (out of 10) of the local node as subject
	pruneBias                                      int // probability (out of 10) that a leave is a prune
	maxLen                                         int
}

func (p nodeProfile) pick(rng *rand.Rand) string {
	ws := []struct {
		k string
		w int
	}{{"nj", p.nj}, {"nl", p.nl}, {"nu", p.nu}, {"mj", p.mj}, {"ml", p.ml}, {"mg", p.mg}, {"fl", p.fl},
		{"oj", p.oj}, {"lv", p.lv}, {"sd", p.sd}, {"rp", p.rp}, {"ls", p.ls}}
	tot := 0
	for _, w := range ws {
		tot += w.w
	}
	r := rng.Intn(tot)
	for _, w := range ws {
		if r < w.w {
			return w.k
		}
		r -= w.w
	}
	return "nj"
}

// nodeLT draws a Lamport time: mostly small (so that orders collide), sometimes large / extreme.
func nodeLT(rng *rand.Rand) uint64 {
	switch r := rng.Intn(40); {
	case r < 32:
		return uint64(rng.Intn(9))
	case r < 36:
		return uint64(10 + rng.Intn(30))
	case r < 37:
		return 1<<64 - 2
	case r < 38:
		return 1<<64 - 1
	default:
		return uint64(rng.Int63())
	}
}

func nodeName(rng *rand.Rand, p nodeProfile) string {
	if rng.Intn(10) < p.selfBias {
		return nodeSelf
	}
	// the first four names dominate so that histories about one member get long
	if rng.Intn(8) > 0 {
		return nodeNames[rng.Intn(4)]
	}
	return nodeNames[rng.Intn(len(nodeNames))]
}

func nodeRandomOp(rng *rand.Rand, p nodeProfile) string {
	b01 := func(bias int) int {
		if rng.Intn(10) < bias {
			return 1
		}
		return 0
	}
	switch k := p.pick(rng); k {
	case "nj", "nu":
		return fmt.Sprintf("%s %s", k, hexs(nodeName(rng, p)))
	case "nl":
		n := nodeName(rng, p)
		if n == nodeSelf && rng.Intn(4) > 0 { // memberlist reports the local node dead only inside Leave
			n = "a"
		}
		if rng.Intn(3) == 0 {
			return fmt.Sprintf("nl %s %d", hexs(n), rng.Intn(9))
		}
		return fmt.Sprintf("nl %s %d %s", hexs(n), rng.Intn(9), []string{"d", "l"}[rng.Intn(2)])
	case "mj":
		return fmt.Sprintf("mj %s %d", hexs(nodeName(rng, p)), nodeLT(rng))
	case "ml":
		return fmt.Sprintf("ml %s %d %d", hexs(nodeName(rng, p)), nodeLT(rng), b01(p.pruneBias))
	case "fl":
		return fmt.Sprintf("fl %s %d", hexs(nodeName(rng, p)), b01(p.pruneBias))
	case "mg":
		k := rng.Intn(5)
		st := map[string]uint64{}
		for i := 0; i < k; i++ {
			v := nodeLT(rng)
			if v == 1<<64-1 && k > 1 {
				// Witness(2^64-1) wraps the clock (C19 finding); with several entries the final clock
				// would depend on Go's map iteration order, so the extreme value travels alone
				v = 1<<64 - 2
			}
			st[nodeName(rng, p)] = v
		}
		var ss []string
		for n, v := range st {
			ss = append(ss, fmt.Sprintf("%s:%d", hexs(n), v))
		}
		sort.Strings(ss)
		var left []string
		selfIn := false
		for i, nl := 0, rng.Intn(3); i < nl; i++ {
			n := nodeName(rng, p)
			if n == nodeSelf {
				if selfIn {
					continue
				}
				selfIn = true
			}
			left = append(left, hexs(n))
		}
		return fmt.Sprintf("mg %d %s %s", nodeLT(rng), joinOrDash(ss), joinOrDash(left))
	case "rp":
		var ov []string
		seen := map[string]bool{}
		for i, k := 0, rng.Intn(3); i < k; i++ {
			n := nodeName(rng, p)
			if seen[n] {
				continue
			}
			seen[n] = true
			ov = append(ov, fmt.Sprintf("%s:%d", hexs(n), rng.Intn(9)))
		}
		return fmt.Sprintf("rp %d %s", rng.Intn(14), joinOrDash(ov))
	case "lv":
		return fmt.Sprintf("lv %d", rng.Intn(9))
	default:
		return k // oj, sd, ls
	}
}

func nodeRandomCase(rng *rand.Rand, p nodeProfile, id string) Case {
	k := 3 + rng.Intn(p.maxLen)
	ops := make([]string, 0, k)
	extreme := false
	for j := 0; j < k; j++ {
		o := nodeRandomOp(rng, p)
		if strings.Contains(o, "1844674407370955161") {
			extreme = true
		}
		// Once the clock may sit at 2^64-1, the refuting goroutine started by a merge that lists the
		// local node as left races with the rest of that merge, observably (only) through the wrapped
		// clock (C19 finding): such a merge then carries nothing but the claim about the local node.
		if f := strings.Fields(o); extreme && f[0] == "mg" && strings.Contains(","+f[3]+",", ","+hexs(nodeSelf)+",") {
			st := "-"
			for _, e := range strings.Split(f[2], ",") {
				if strings.HasPrefix(e, hexs(nodeSelf)+":") {
					st = e
				}
			}
			o = fmt.Sprintf("mg %s %s %s", f[1], st, hexs(nodeSelf))
		}
		ops = append(ops, o)
	}
	return Case{ID: id, Ops: ops, Tags: []string{"random"}}
}

func opsHave(ops []string, prefix string) bool {
	for _, o := range ops {
		if strings.HasPrefix(o, prefix) {
			return true
		}
	}
	return false
}

// opsHaveAfter: an op with prefix b occurs after an op with prefix a.
func opsHaveAfter(ops []string, a, b string) bool {
	seen := false
	for _, o := range ops {
		if seen && strings.HasPrefix(o, b) {
			return true
		}
		if strings.HasPrefix(o, a) {
			seen = true
		}
	}
	return false
}
