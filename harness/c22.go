package main

import (
	"encoding/base64"
	"encoding/json"
	"fmt"
	"io"
	"math/rand"
	"net"
	"os"
	"path/filepath"
	"strings"
	"time"

	"github.com/hashicorp/memberlist"
	"github.com/hashicorp/serf/cmd/serf/command/agent"
	"github.com/hashicorp/serf/serf"
)

// C22: a real Serf node with a memberlist keyring and a keyring file. Key requests go
// through the real KeyManager (an internal query handled by handleInstallKey / UseKey /
// RemoveKey on the node itself, response awaited); undecodable payloads are injected as
// internal queries through the memberlist delegate. After every request the real keyring
// and the keyring file reloaded through the agent's loader are printed.

const msgKeyRequestType = 7

func c22ShowKeys(ks [][]byte) string {
	if len(ks) == 0 {
		return "_"
	}
	p := make([]string, len(ks))
	for i, k := range ks {
		p[i] = hexb(k)
	}
	return strings.Join(p, ",")
}

func c22ParseKeys(s string) ([][]byte, bool) {
	if s == "_" {
		return nil, true
	}
	var out [][]byte
	for _, p := range strings.Split(s, ",") {
		k := unhex(p)
		if k == nil {
			return nil, false
		}
		out = append(out, k)
	}
	return out, true
}

// c22Load runs the agent's real keyring loader on the file.
func c22Load(path string) (*memberlist.Keyring, string) {
	if _, err := os.Stat(path); err != nil {
		return nil, "NONE"
	}
	ac := agent.DefaultConfig()
	ac.KeyringFile = path
	sc := serf.DefaultConfig()
	if _, err := agent.Create(ac, sc, io.Discard); err != nil {
		return nil, "ERR"
	}
	return sc.MemberlistConfig.Keyring, c22ShowKeys(sc.MemberlistConfig.Keyring.GetKeys())
}

type c22Node struct {
	n    *testNode
	kr   *memberlist.Keyring
	path string
	seq  uint64
}

func (x *c22Node) observe(status string) string {
	ring, primary := "_", "_"
	if x.kr != nil {
		ring = c22ShowKeys(x.kr.GetKeys())
		if p := x.kr.GetPrimaryKey(); p != nil {
			primary = hexb(p)
		}
	}
	_, file := c22Load(x.path)
	return fmt.Sprintf("%s ring=%s primary=%s file=%s", status, ring, primary, file)
}

func c22Status(resp *serf.KeyResponse, err error) (string, bool) {
	if resp == nil {
		return "err-nil", true
	}
	if resp.NumResp == 0 {
		return "noresp", false
	}
	if resp.NumErr == 0 && err == nil {
		return "ok", true
	}
	for _, m := range resp.Messages {
		switch {
		case strings.Contains(m, "key size must be"):
			return "badlen", true
		case strings.Contains(m, "not in the keyring"):
			return "absent", true
		case strings.Contains(m, "removing the primary key"):
			return "primary", true
		case strings.Contains(m, "No keyring to modify"):
			return "nokeyring", true
		}
		return "err:" + hexs(m), true
	}
	return "err-nomsg", true
}

// c22NewNode starts a real node on the keyring x.kr (other harnesses run in parallel on the same
// loopback range: an address may be taken, then another one is tried).
func c22NewNode(x *c22Node, hasFile bool) (*testNode, error) {
	var n *testNode
	var err error
	for try := 0; try < 20; try++ {
		n, err = newTestNode(func(c *serf.Config) {
			c.MemberlistConfig.Keyring = x.kr
			if hasFile {
				c.KeyringFile = x.path
			}
			c.QueryTimeoutMult = 4000 // 20 s; KeyManager returns as soon as the node has answered
		})
		if err == nil {
			return n, nil
		}
		time.Sleep(50 * time.Millisecond)
	}
	return nil, err
}

func c22Exec(ops []string) []string {
	dir, err := os.MkdirTemp("", "verif-c22-")
	if err != nil {
		panic(err)
	}
	defer os.RemoveAll(dir)
	x := &c22Node{path: filepath.Join(dir, "keyring.json"), seq: 1000}
	defer func() {
		if x.n != nil {
			x.n.Close()
		}
	}()
	var outs []string
	for _, o := range ops {
		f := strings.Fields(o)
		switch {
		case len(f) == 3 && f[0] == "init":
			keys, ok := c22ParseKeys(f[1])
			if !ok || x.n != nil {
				outs = append(outs, "bad-op")
				continue
			}
			hasFile := f[2] == "1" || f[2] == "2" // 2: KeyringFile configured, the file does not exist yet (keyring handed over in memory)
			if len(keys) > 0 {
				// the file a previous run of the agent would have left, loaded by the real loader
				enc := make([]string, len(keys))
				for i, k := range keys {
					enc[i] = base64.StdEncoding.EncodeToString(k)
				}
				b, _ := json.Marshal(enc)
				if err := os.WriteFile(x.path, b, 0o600); err != nil {
					panic(err)
				}
				kr, st := c22Load(x.path)
				if kr == nil {
					_ = st
					outs = append(outs, "init-failed")
					continue
				}
				x.kr = kr
				if f[2] != "1" {
					os.Remove(x.path)
				}
			}
			n, err := c22NewNode(x, hasFile)
			if err != nil {
				outs = append(outs, "init-failed:"+hexs(err.Error()))
				continue
			}
			x.n = n
			outs = append(outs, x.observe("ok"))
		case len(f) == 1 && f[0] == "restart":
			if x.n == nil || x.n.Conf.KeyringFile == "" {
				outs = append(outs, "bad-op")
				continue
			}
			x.n.Close()
			x.n = nil
			kr, st := c22Load(x.path)
			if kr == nil {
				outs = append(outs, "restart-failed:"+st)
				continue
			}
			x.kr = kr
			n, err := c22NewNode(x, true)
			if err != nil {
				outs = append(outs, "restart-failed:"+hexs(err.Error()))
				continue
			}
			x.n = n
			outs = append(outs, x.observe("ok"))
		case len(f) == 2 && (f[0] == "install" || f[0] == "use" || f[0] == "remove"):
			key := unhex(f[1])
			if key == nil || x.n == nil {
				outs = append(outs, "bad-op")
				continue
			}
			b64 := base64.StdEncoding.EncodeToString(key)
			km := x.n.S.KeyManager()
			status := "noresp"
			// a lost loopback datagram would leave us without an answer: all three requests are
			// idempotent in effect and in answer once applied or rejected, so asking again is safe
			for try := 0; try < 3; try++ {
				var resp *serf.KeyResponse
				var err error
				switch f[0] {
				case "install":
					resp, err = km.InstallKey(b64)
				case "use":
					resp, err = km.UseKey(b64)
				default:
					resp, err = km.RemoveKey(b64)
				}
				st, done := c22Status(resp, err)
				status = st
				if done {
					break
				}
			}
			outs = append(outs, x.observe(status))
		case len(f) == 3 && f[0] == "raw":
			payload := unhex(f[2])
			if payload == nil || x.n == nil {
				outs = append(outs, "bad-op")
				continue
			}
			x.seq++
			q := wireQuery{
				LTime:      x.seq,
				ID:         uint32(x.seq),
				Addr:       net.ParseIP(x.n.Conf.MemberlistConfig.BindAddr),
				Port:       uint16(x.n.Conf.MemberlistConfig.BindPort),
				SourceNode: x.n.Conf.NodeName,
				Timeout:    10 * time.Second,
				Name:       "_serf_" + f[1] + "-key",
				Payload:    payload,
			}
			x.n.Conf.MemberlistConfig.Delegate.NotifyMsg(encodeWire(msgQueryType, &q))
			time.Sleep(150 * time.Millisecond) // the handler runs in its own goroutine; nothing observable to wait for
			outs = append(outs, x.observe("sent"))
		default:
			outs = append(outs, "bad-op")
		}
	}
	return outs
}

func c22Key(tag byte, n int) []byte {
	k := make([]byte, n)
	for i := range k {
		k[i] = tag + byte(i)
	}
	return k
}

func c22Gen(rng *rand.Rand, tier string) []Case {
	valid := [][]byte{c22Key(0x10, 16), c22Key(0x20, 16), c22Key(0x30, 24), c22Key(0x40, 32), c22Key(0x50, 16), c22Key(0xf0, 32)}
	invalid := [][]byte{{}, c22Key(1, 15), c22Key(2, 17), c22Key(3, 23), c22Key(4, 31), c22Key(5, 33), c22Key(6, 1), c22Key(7, 64)}
	raws := []string{"-", "07", "07c1", "c1c1c1", "0781"}
	var out []Case
	n := 24
	if tier == "thorough" {
		n = 1200
	}
	// fixed: every rejection class once, then a reload-sensitive sequence (use changes the order)
	k := func(i int) string { return hexb(valid[i]) }
	out = append(out, Case{ID: "fixed", Nontrivial: true, Tags: []string{"fixed"}, Ops: []string{
		"init " + k(0) + "," + k(1) + " 1",
		"install " + hexb(invalid[1]), "use " + k(2), "remove " + k(0), "remove " + k(3),
		"install " + k(2), "install " + k(2), "use " + k(2), "remove " + k(0), "use " + k(1), "raw use -", "raw install 07c1",
		"install " + k(3), "remove " + k(1), "remove " + k(1), "restart", "use " + k(3), "restart", "remove " + k(3),
	}})
	// hand-edited files: a repeated entry loads; an entry of a wrong length or an empty list is refused as a whole
	out = append(out, Case{ID: "fixed-dupfile", Tags: []string{"fixed", "file-with-duplicate"}, Ops: []string{
		"init " + k(0) + "," + k(2) + "," + k(0) + " 1", "use " + k(2), "restart", "remove " + k(0), "restart"}})
	out = append(out, Case{ID: "fixed-badfile", Tags: []string{"fixed", "file-with-invalid-entry"}, Ops: []string{
		"init " + k(0) + "," + hexb(invalid[3]) + "," + k(1) + " 1", "install " + k(2)}})
	out = append(out, Case{ID: "fixed-nofile", Tags: []string{"fixed", "no-file"}, Ops: []string{
		"init " + k(0) + " 0", "install " + k(1), "use " + k(1), "remove " + k(0), "remove " + k(1),
	}})
	// the keyring is handed over in memory and the configured file does not exist yet: the first request answered
	// `ok` — a no-op one included (a key already installed, an absent key removed, the primary used again) — must leave a
	// file that loads
	for j, first := range []string{"install " + k(1), "install " + k(0), "remove " + k(3), "use " + k(0), "install " + k(2), "use " + k(1)} {
		out = append(out, Case{ID: fmt.Sprintf("fixed-file-not-yet-written-%d", j), Nontrivial: true, Tags: []string{"fixed", "file-not-yet-written"}, Ops: []string{
			"init " + k(0) + "," + k(1) + " 2", "install " + hexb(invalid[1]), first, "restart", "remove " + k(1), "restart"}})
	}
	out = append(out, Case{ID: "fixed-noencryption", Tags: []string{"fixed", "no-encryption"}, Ops: []string{
		"init _ 0", "install " + k(1), "use " + k(1), "remove " + k(0), "raw remove -",
	}})
	// long histories: the keyring file grows past 4 KiB (about 80 32-byte keys); it must still reload
	manyKey := func(j int) []byte {
		k := make([]byte, 32)
		for x := range k {
			k[x] = byte(j*7 + x*13 + j/256)
		}
		k[0], k[1] = byte(j), byte(j>>8)
		return k
	}
	longCase := func(id string, initN, installs int, r *rand.Rand) Case {
		var init [][]byte
		for j := 0; j < initN; j++ {
			init = append(init, manyKey(1000+j))
		}
		ops := []string{"init " + c22ShowKeys(init) + " 1"}
		for j := 0; j < installs; j++ {
			ops = append(ops, "install "+hexb(manyKey(j)))
			if r != nil && r.Intn(25) == 0 {
				ops = append(ops, "use "+hexb(manyKey(r.Intn(j+1))))
			}
		}
		ops = append(ops, "restart", "remove "+hexb(manyKey(0)), "restart")
		return Case{ID: id, Ops: ops, Nontrivial: true, Tags: []string{"long-install-history", "restart", "file-over-4k"}}
	}
	out = append(out, longCase("fixed-100-installs", 1, 100, nil))
	// a long but valid file from the start (e.g. written by an earlier run)
	out = append(out, longCase("fixed-long-file", 110, 2, nil))
	if tier == "thorough" {
		for i := 0; i < 6; i++ {
			out = append(out, longCase(fmt.Sprintf("long%d", i), 1+rng.Intn(60), 60+rng.Intn(90), rng))
		}
	}
	for i := 0; i < n; i++ {
		// initial ring: 1..4 distinct valid keys
		perm := rng.Perm(len(valid))
		m := 1 + rng.Intn(4)
		ring := [][]byte{}
		for _, j := range perm[:m] {
			ring = append(ring, valid[j])
		}
		hasFile := "1"
		tags := map[string]bool{}
		if rng.Intn(8) == 0 {
			hasFile = "0"
			tags["no-file"] = true
		}
		initKeys := append([][]byte{}, ring...)
		if rng.Intn(8) == 0 {
			// a hand-edited file with a repeated entry: the loader drops the repetition, the file still loads to the ring
			initKeys = append(initKeys, ring[rng.Intn(len(ring))])
			tags["file-with-duplicate"] = true
		}
		if rng.Intn(20) == 0 {
			// a file with an entry that is no AES key: the loader must refuse the whole file
			bad := invalid[1+rng.Intn(len(invalid)-1)]
			pos := rng.Intn(len(initKeys) + 1)
			initKeys = append(append(append([][]byte{}, initKeys[:pos]...), bad), initKeys[pos:]...)
			out = append(out, Case{ID: fmt.Sprintf("r%d", i), Ops: []string{"init " + c22ShowKeys(initKeys) + " 1", "install " + hexb(valid[0]), "restart"},
				Tags: []string{"file-with-invalid-entry"}})
			continue
		}
		if rng.Intn(25) == 0 {
			out = append(out, Case{ID: fmt.Sprintf("r%d", i), Tags: []string{"no-encryption"}, Ops: []string{"init _ 0",
				"install " + hexb(valid[rng.Intn(len(valid))]), "use " + hexb(valid[rng.Intn(len(valid))]),
				"remove " + hexb(valid[rng.Intn(len(valid))]), "install " + hexb(invalid[rng.Intn(len(invalid))]), "raw use 07"}})
			continue
		}
		ops := []string{"init " + c22ShowKeys(initKeys) + " " + hasFile}
		cnt := 6 + rng.Intn(14)
		if tier == "thorough" && rng.Intn(10) == 0 {
			cnt = 60 + rng.Intn(40)
			tags["long-history"] = true
		}
		rej, acc := 0, 0
		cur := append([][]byte{}, ring...)
		has := func(k []byte) int {
			for i, c := range cur {
				if string(c) == string(k) {
					return i
				}
			}
			return -1
		}
		for j := 0; j < cnt; j++ {
			if hasFile == "1" && rng.Intn(12) == 0 {
				ops = append(ops, "restart")
				tags["restart"] = true
				continue
			}
			var key []byte
			switch rng.Intn(10) {
			case 0, 1:
				key = invalid[rng.Intn(len(invalid))]
			case 2, 3, 4:
				key = cur[rng.Intn(len(cur))] // a key of the ring (possibly the primary)
			case 5:
				key = cur[0]
			default:
				key = valid[rng.Intn(len(valid))]
			}
			switch r := rng.Intn(10); {
			case r < 3:
				ops = append(ops, "install "+hexb(key))
				if len(key) != 16 && len(key) != 24 && len(key) != 32 {
					rej++
					tags["badlen"] = true
				} else {
					acc++
					if has(key) < 0 {
						cur = append(cur, key)
					} else {
						tags["install-existing"] = true
					}
				}
			case r < 6:
				ops = append(ops, "use "+hexb(key))
				if p := has(key); p < 0 {
					rej++
					tags["use-absent"] = true
				} else {
					acc++
					nc := [][]byte{key}
					for _, c := range cur {
						if string(c) != string(key) {
							nc = append(nc, c)
						}
					}
					cur = nc
				}
			case r < 9:
				ops = append(ops, "remove "+hexb(key))
				if string(key) == string(cur[0]) {
					rej++
					tags["remove-primary"] = true
				} else {
					acc++
					if p := has(key); p >= 0 {
						cur = append(append([][]byte{}, cur[:p]...), cur[p+1:]...)
					} else {
						tags["remove-absent"] = true
					}
				}
			default:
				ops = append(ops, "raw "+[]string{"install", "use", "remove"}[rng.Intn(3)]+" "+raws[rng.Intn(len(raws)-1)])
				tags["raw"] = true
			}
		}
		var tl []string
		for _, t := range []string{"no-file", "badlen", "install-existing", "use-absent", "remove-primary", "remove-absent", "raw", "restart", "file-with-duplicate", "long-history"} {
			if tags[t] {
				tl = append(tl, t)
			}
		}
		out = append(out, Case{ID: fmt.Sprintf("r%d", i), Ops: ops, Nontrivial: rej >= 2 && acc >= 3 && hasFile == "1", Tags: tl})
	}
	return out
}

func init() {
	register(&Prop{
		ID:   "C22",
		Rule: "real serf node with keyring + keyring file; requests through KeyManager (internal queries handled by the node's own key handlers), malformed payloads through NotifyMsg; random sequences of install/use/remove over valid keys (16/24/32 bytes), wrong lengths (0,1,15,17,23,31,33,64), absent keys, the primary, duplicates, restarts through the agent's loader in the middle of a history, a keyring handed over in memory with the configured file not yet written (first request a no-op), initial files with repeated or invalid entries, histories of 100+ installs and initial files of 110 keys (keyring file well over 4 KiB) followed by restarts; non-trivial = keyring file configured, at least 2 rejected and 3 accepted requests",
		Gen:  c22Gen,
		Exec: c22Exec,
	})
}
