package main

import (
	"bytes"
	"fmt"
	"io"
	"log"
	"math"
	"math/rand"
	"sort"
	"strconv"
	"strings"
	"time"

	"github.com/hashicorp/go-msgpack/v2/codec"
	"github.com/hashicorp/memberlist"
	"github.com/hashicorp/serf/coordinate"
	"github.com/hashicorp/serf/serf"
)

// C20: the Vivaldi client (coordinate.Client) and the ping delegate of a real Serf node.
//
// Floats travel as math.Float64bits in hex ("nan" on output for any NaN). A coordinate is
// `<vec>/<error>/<adjustment>/<height>` with <vec> = comma-separated components or `-`.
//
// Client cases:
//   new <dim> <errMax> <ce> <cc> <adjWindow> <heightMin> <latencySize> <rho>   => ok|err  + state
//   upd <nodehex> <rttns> <coord> <rnd>      => ok|rej-dimension|rej-invalid|rej-rtt|panic  + state
//   set <coord>                               => ok|rej-…  + state
//   forget <nodehex>                          => ok + state
//   dist <coord>                              => ns <int64> | panic-dim | panic-other
// Node cases (a real single Serf node, default coordinate config):
//   node <namehex>                            => ok <default config> + state
//   ping <peerhex> <rttns> <kind> <coord> <rnd> => cached=0|1 peer=<coord|-> self=<coord|-> + state
//        kind: empty | badversion | undecodable | coord ; the payload is built from kind and coord with the
//        codec the ping delegate itself uses (version byte + msgpack)
// <rnd> = the values rng.Float64() will return, in order (`-` = none; an exhausted source returns 0).

// ---- float / coordinate codec of the line protocol

func c20f(x float64) string {
	if math.IsNaN(x) {
		return "nan"
	}
	return strconv.FormatUint(math.Float64bits(x), 16)
}

// input side: NaNs keep their payload bits
func c20fin(x float64) string { return strconv.FormatUint(math.Float64bits(x), 16) }

func c20parseF(s string) (float64, bool) {
	u, err := strconv.ParseUint(s, 16, 64)
	if err != nil {
		return 0, false
	}
	return math.Float64frombits(u), true
}

func c20parseFs(s string) ([]float64, bool) {
	if s == "-" {
		return []float64{}, true
	}
	var out []float64
	for _, p := range strings.Split(s, ",") {
		f, ok := c20parseF(p)
		if !ok {
			return nil, false
		}
		out = append(out, f)
	}
	return out, true
}

func c20fs(v []float64, in bool) string {
	if len(v) == 0 {
		return "-"
	}
	p := make([]string, len(v))
	for i, x := range v {
		if in {
			p[i] = c20fin(x)
		} else {
			p[i] = c20f(x)
		}
	}
	return strings.Join(p, ",")
}

func c20coord(c *coordinate.Coordinate, in bool) string {
	f := c20f
	if in {
		f = c20fin
	}
	return c20fs(c.Vec, in) + "/" + f(c.Error) + "/" + f(c.Adjustment) + "/" + f(c.Height)
}

func c20parseCoord(s string) (*coordinate.Coordinate, bool) {
	p := strings.Split(s, "/")
	if len(p) != 4 {
		return nil, false
	}
	v, ok := c20parseFs(p[0])
	if !ok {
		return nil, false
	}
	e, ok1 := c20parseF(p[1])
	a, ok2 := c20parseF(p[2])
	h, ok3 := c20parseF(p[3])
	if !ok1 || !ok2 || !ok3 {
		return nil, false
	}
	return &coordinate.Coordinate{Vec: v, Error: e, Adjustment: a, Height: h}, true
}

// ---- the oracle source: rng.Float64() = float64(src.Int63()) / 2^63 (math/rand); a value k/2^53 is fed as k<<10

type c20Source struct {
	vals []int64
	used int
}

func (s *c20Source) Int63() int64 {
	if s.used < len(s.vals) {
		v := s.vals[s.used]
		s.used++
		return v
	}
	s.used++
	return 0
}
func (s *c20Source) Seed(int64) {}

func (s *c20Source) load(fs []float64) {
	s.vals = s.vals[:0]
	s.used = 0
	for _, f := range fs {
		s.vals = append(s.vals, int64(f*(1<<53))<<10)
	}
}

func init() {
	// self-check of the oracle plumbing against this Go version's math/rand
	src := &c20Source{}
	r := rand.New(src)
	want := []float64{0, 0.5, 0.25, float64((1<<53)-1) / (1 << 53), 1.0 / (1 << 53)}
	src.load(want)
	for _, w := range want {
		if g := r.Float64(); g != w {
			panic(fmt.Sprintf("c20: rand oracle plumbing broken: got %v want %v", g, w))
		}
	}
}

// ---- state dump

func c20state(cl *coordinate.Client) string {
	st := cl.VerifState()
	var names []string
	for k := range st.LatencySamples {
		names = append(names, k)
	}
	sort.Strings(names)
	var l []string
	for _, k := range names {
		l = append(l, hexs(k)+":"+c20fs(st.LatencySamples[k], false))
	}
	ls := "-"
	if len(l) > 0 {
		ls = strings.Join(l, ";")
	}
	return fmt.Sprintf("c=%s i=%d s=%s l=%s r=%d", c20coord(cl.GetCoordinate(), false), st.AdjustmentIndex,
		c20fs(st.AdjustmentSamples, false), ls, st.Resets)
}

func c20errKind(err error) string {
	switch {
	case err == nil:
		return "ok"
	case strings.Contains(err.Error(), "dimensions aren't compatible"):
		return "rej-dimension"
	case strings.Contains(err.Error(), "coordinate is invalid"):
		return "rej-invalid"
	case strings.Contains(err.Error(), "round trip time not in valid range"):
		return "rej-rtt"
	}
	return "rej-other"
}

// ---- executor

type c20Inst struct {
	src  *c20Source
	cl   *coordinate.Client
	node *serf.Serf
	conf *serf.Config
}

func (in *c20Inst) close() {
	if in.node != nil {
		_ = in.node.Shutdown()
		in.node = nil
	}
}

func c20payload(kind string, c *coordinate.Coordinate) []byte {
	switch kind {
	case "empty":
		return nil
	case "badversion":
		var buf bytes.Buffer
		buf.WriteByte(serf.PingVersion + 1)
		_ = codec.NewEncoder(&buf, &codec.MsgpackHandle{}).Encode(c)
		return buf.Bytes()
	case "undecodable":
		var buf bytes.Buffer
		buf.WriteByte(serf.PingVersion)
		_ = codec.NewEncoder(&buf, &codec.MsgpackHandle{}).Encode(c)
		b := buf.Bytes()
		return b[:len(b)-3] // truncated in the middle of the last float
	case "coord":
		var buf bytes.Buffer
		buf.WriteByte(serf.PingVersion)
		_ = codec.NewEncoder(&buf, &codec.MsgpackHandle{}).Encode(c)
		return buf.Bytes()
	}
	return nil
}

func c20cfgLine(c *coordinate.Config) string {
	return fmt.Sprintf("%d %s %s %s %d %s %d %s", c.Dimensionality, c20fin(c.VivaldiErrorMax), c20fin(c.VivaldiCE),
		c20fin(c.VivaldiCC), c.AdjustmentWindowSize, c20fin(c.HeightMin), c.LatencyFilterSize, c20fin(c.GravityRho))
}

func (in *c20Inst) op(o string) (res string) {
	f := strings.Fields(o)
	if len(f) == 0 {
		return "bad-op"
	}
	switch {
	case f[0] == "new" && len(f) == 9:
		dim, e0 := strconv.ParseUint(f[1], 10, 32)
		em, ok1 := c20parseF(f[2])
		ce, ok2 := c20parseF(f[3])
		cc, ok3 := c20parseF(f[4])
		aw, e1 := strconv.ParseUint(f[5], 10, 32)
		hm, ok4 := c20parseF(f[6])
		ls, e2 := strconv.ParseUint(f[7], 10, 32)
		rho, ok5 := c20parseF(f[8])
		if e0 != nil || e1 != nil || e2 != nil || !ok1 || !ok2 || !ok3 || !ok4 || !ok5 {
			return "bad-op"
		}
		cfg := &coordinate.Config{Dimensionality: uint(dim), VivaldiErrorMax: em, VivaldiCE: ce, VivaldiCC: cc,
			AdjustmentWindowSize: uint(aw), HeightMin: hm, LatencyFilterSize: uint(ls), GravityRho: rho}
		in.src = &c20Source{}
		cfg.VerifSetRand(rand.New(in.src))
		cl, err := coordinate.NewClient(cfg)
		if err != nil {
			in.cl = nil
			return "err"
		}
		in.cl = cl
		return "ok " + c20state(cl)
	case f[0] == "node" && len(f) == 2:
		name := unhex(f[1])
		if name == nil {
			return "bad-op"
		}
		in.close()
		conf := serf.DefaultConfig()
		conf.Init()
		conf.NodeName = string(name)
		conf.MemberlistConfig.BindAddr = "127.0.0.1"
		conf.MemberlistConfig.BindPort = 0
		conf.MemberlistConfig.AdvertisePort = 0
		conf.Logger = log.New(io.Discard, "", 0)
		conf.MemberlistConfig.Logger = conf.Logger
		conf.LogOutput = io.Discard
		conf.MemberlistConfig.LogOutput = nil
		s, err := serf.Create(conf)
		if err != nil {
			return "err-create " + strings.ReplaceAll(err.Error(), " ", "_")
		}
		in.node, in.conf = s, conf
		in.cl = s.VerifCoordClient()
		in.src = &c20Source{}
		in.cl.VerifConfig().VerifSetRand(rand.New(in.src))
		return "ok " + c20cfgLine(in.cl.VerifConfig()) + " " + c20state(in.cl)
	}
	if in.cl == nil {
		return "no-client"
	}
	switch {
	case f[0] == "upd" && len(f) == 5:
		node := unhex(f[1])
		rtt, err := strconv.ParseInt(f[2], 10, 64)
		c, ok := c20parseCoord(f[3])
		rnd, ok2 := c20parseFs(f[4])
		if node == nil || err != nil || !ok || !ok2 {
			return "bad-op"
		}
		in.src.load(rnd)
		func() {
			defer func() {
				if r := recover(); r != nil {
					res = "panic"
				}
			}()
			_, uerr := in.cl.Update(string(node), c, time.Duration(rtt))
			res = c20errKind(uerr)
		}()
		return res + " " + c20state(in.cl)
	case f[0] == "set" && len(f) == 2:
		c, ok := c20parseCoord(f[1])
		if !ok {
			return "bad-op"
		}
		return c20errKind(in.cl.SetCoordinate(c)) + " " + c20state(in.cl)
	case f[0] == "forget" && len(f) == 2:
		node := unhex(f[1])
		if node == nil {
			return "bad-op"
		}
		in.cl.ForgetNode(string(node))
		return "ok " + c20state(in.cl)
	case f[0] == "dist" && len(f) == 2:
		c, ok := c20parseCoord(f[1])
		if !ok {
			return "bad-op"
		}
		func() {
			defer func() {
				if r := recover(); r != nil {
					if _, is := r.(coordinate.DimensionalityConflictError); is {
						res = "panic-dim"
					} else {
						res = "panic-other"
					}
				}
			}()
			res = "ns " + strconv.FormatInt(int64(in.cl.DistanceTo(c)), 10)
		}()
		return res
	case f[0] == "ping" && len(f) == 6 && in.node != nil:
		peer := unhex(f[1])
		rtt, err := strconv.ParseInt(f[2], 10, 64)
		c, ok := c20parseCoord(f[4])
		rnd, ok2 := c20parseFs(f[5])
		if peer == nil || err != nil || !ok || !ok2 {
			return "bad-op"
		}
		payload := c20payload(f[3], c)
		if payload == nil && f[3] != "empty" {
			return "bad-op"
		}
		in.src.load(rnd)
		before, had := in.node.GetCachedCoordinate(string(peer))
		in.conf.MemberlistConfig.Ping.NotifyPingComplete(&memberlist.Node{Name: string(peer)}, time.Duration(rtt), payload)
		after, has := in.node.GetCachedCoordinate(string(peer))
		// "cached" = the delegate stored a coordinate for the peer during this call
		cached := 0
		if has && (!had || before != after) {
			cached = 1
		}
		ps, ss := "-", "-"
		if has {
			ps = c20coord(after, false)
		}
		if self, ok := in.node.GetCachedCoordinate(in.conf.NodeName); ok {
			ss = c20coord(self, false)
		}
		return fmt.Sprintf("cached=%d peer=%s self=%s %s", cached, ps, ss, c20state(in.cl))
	}
	return "bad-op"
}

func c20Exec(ops []string) []string {
	in := &c20Inst{}
	defer in.close()
	outs := make([]string, 0, len(ops))
	for _, o := range ops {
		outs = append(outs, in.op(o))
	}
	return outs
}

// ---- generator

var c20Adversarial = []float64{
	math.NaN(), math.Inf(1), math.Inf(-1), 0, math.Copysign(0, -1),
	math.Float64frombits(1), math.Float64frombits(0x000fffffffffffff), 2.2250738585072014e-308,
	1e308, -1e308, math.MaxFloat64, -math.MaxFloat64, 1e154, 1.5e154, -1.4e154, 1e200, 1e-200,
	1e-9, 1e-7, 9.99e-7, 1e-6, 1.0000001e-6, 1e-5, 0.01, 1, -1, 5, 1e4, -1e4, 9.3e9, 1e10, 1e19,
}

var c20RTTs = []int64{-1, 0, 1, 999, 1000, 1000000, 50000000, 999999999, 1000000000, 9999999999, 10000000000,
	10000000001, math.MaxInt64, math.MinInt64, -1000000}

var c20Names = []string{"a", "b", "node-3", "", "x y"}

type c20Gen struct {
	rng  *rand.Rand
	in   *c20Inst
	ops  []string
	dim  int
	acc  int // accepted updates
	rej  int // rejected observations
	adv  int // observations carrying an adversarial value
	rndN int // updates that consumed oracle values
	rst  int
	tags map[string]bool
}

func (g *c20Gen) realistic() float64 { return (g.rng.Float64() - 0.5) * 0.2 }

func (g *c20Gen) coord(adversarial bool) *coordinate.Coordinate {
	d := g.dim
	switch g.rng.Intn(40) {
	case 0:
		d = g.dim + 1
	case 1:
		d = g.dim - 1
	case 2:
		d = 0
	}
	if d < 0 {
		d = 0
	}
	c := &coordinate.Coordinate{Vec: make([]float64, d)}
	for i := range c.Vec {
		c.Vec[i] = g.realistic()
	}
	c.Error = g.rng.Float64() * 1.5
	c.Adjustment = (g.rng.Float64() - 0.5) * 0.02
	c.Height = 1e-5 + g.rng.Float64()*0.05
	if adversarial {
		n := 1 + g.rng.Intn(3)
		for k := 0; k < n; k++ {
			v := c20Adversarial[g.rng.Intn(len(c20Adversarial))]
			switch s := g.rng.Intn(d + 3); {
			case s < d:
				c.Vec[s] = v
			case s == d:
				c.Error = v
			case s == d+1:
				c.Adjustment = v
			default:
				c.Height = v
			}
		}
	}
	return c
}

func (g *c20Gen) rnd() []float64 {
	n := 2 * g.dim
	out := make([]float64, n)
	for i := range out {
		switch g.rng.Intn(12) {
		case 0:
			out[i] = 0.5 // minus 0.5 = 0: pushes towards the "give up" branch
		case 1:
			out[i] = 0
		default:
			out[i] = float64(g.rng.Int63()&(1<<53-1)) / (1 << 53)
		}
	}
	if g.rng.Intn(10) == 0 {
		for i := range out {
			out[i] = 0.5
		}
	}
	if g.rng.Intn(15) == 0 {
		out = out[:g.rng.Intn(n+1)]
	}
	return out
}

func (g *c20Gen) emit(op string) string {
	g.ops = append(g.ops, op)
	return g.in.op(op)
}

func (g *c20Gen) observation(node bool) {
	adv := g.rng.Intn(4) == 0
	c := g.coord(adv)
	if g.rng.Intn(6) == 0 && g.in.cl != nil {
		// a peer exactly at (or within the zero threshold of) our position: unitVectorAt draws from the oracle
		cur := g.in.cl.GetCoordinate()
		c.Vec = append([]float64{}, cur.Vec...)
		if len(c.Vec) > 0 && g.rng.Intn(2) == 0 {
			c.Vec[0] += 5e-7
		}
	}
	rtt := int64(g.rng.Intn(200000000))
	if g.rng.Intn(5) == 0 {
		rtt = c20RTTs[g.rng.Intn(len(c20RTTs))]
		adv = true
	}
	name := c20Names[g.rng.Intn(len(c20Names))]
	if g.in.cl != nil && g.dim > 0 && g.rng.Intn(3) == 0 {
		// gentle push against a peer with a NEGATIVE height while the client still sits at the origin (fresh or just
		// reset): the height delta (own+peer height)*force/mag is negative although the force is positive, and the
		// gravity step does not touch the height because the node stays within 1e-6 s of the origin. Only the
		// unconditional floor in ApplyForce keeps height >= HeightMin here (C20_height_floor_unconditional).
		cur := g.in.cl.GetCoordinate()
		atOrigin := true
		for _, x := range cur.Vec {
			if x != 0 {
				atOrigin = false
			}
		}
		if atOrigin {
			p := &coordinate.Coordinate{Vec: make([]float64, g.dim), Error: g.rng.Float64() * 1.5}
			d0 := []float64{0.001, 0.01, 0.05, 0.1}[g.rng.Intn(4)]
			p.Vec[g.rng.Intn(g.dim)] = d0 * []float64{1, -1}[g.rng.Intn(2)]
			switch g.rng.Intn(3) {
			case 0: // small negative height
				p.Height = -d0 * (0.1 + 0.8*g.rng.Float64())
			case 1: // huge negative height compensated by the adjustment, so the estimate stays plausible
				hp := []float64{1, 1000, 1e6}[g.rng.Intn(3)]
				p.Height, p.Adjustment = -hp, hp
			default: // negative enough to make the raw distance negative, small positive adjustment
				p.Height, p.Adjustment = -2*d0, 1.5*d0
			}
			if est := int64(g.in.cl.DistanceTo(p)); est >= 0 && est < 9000000000 {
				c = p
				rtt = est + int64(1000+g.rng.Intn(9000))      // 1-10 µs above the estimate: a push of < 1e-6 s
				name = fmt.Sprintf("neg%d", g.rng.Intn(1000)) // a fresh filter entry: the median is this rtt
				g.tags["negative-peer-height-push"] = true
				adv = true
			}
		}
	}
	rnd := g.rnd()
	before := g.in.src.used
	var out string
	if node {
		kind := "coord"
		switch g.rng.Intn(12) {
		case 0:
			kind = "empty"
		case 1:
			kind = "badversion"
		case 2:
			kind = "undecodable"
		}
		out = g.emit(fmt.Sprintf("ping %s %d %s %s %s", hexs(name), rtt, kind, c20coord(c, true), c20fs(rnd, true)))
		if strings.HasPrefix(out, "cached=1") {
			g.acc++
		} else {
			g.rej++
		}
	} else {
		out = g.emit(fmt.Sprintf("upd %s %d %s %s", hexs(name), rtt, c20coord(c, true), c20fs(rnd, true)))
		if strings.HasPrefix(out, "ok") {
			g.acc++
		} else {
			g.rej++
			g.tags[strings.Fields(out)[0]] = true
		}
	}
	_ = before
	if g.in.src.used > 0 {
		g.rndN++
	}
	if adv {
		g.adv++
	}
	if st := g.in.cl.VerifState(); st.Resets > g.rst {
		g.rst = st.Resets
		g.tags["reset"] = true
	}
}

func c20GenCases(rng *rand.Rand, tier string) []Case {
	nClient, nNode, steps := 250, 12, 30
	if tier == "thorough" {
		nClient, nNode, steps = 12000, 150, 60
	}
	var out []Case
	pick := func(vals ...float64) float64 { return vals[rng.Intn(len(vals))] }
	for i := 0; i < nClient+nNode; i++ {
		node := i >= nClient
		g := &c20Gen{rng: rng, in: &c20Inst{}, tags: map[string]bool{}}
		if node {
			g.dim = 8
			g.emit("node " + hexs(fmt.Sprintf("n%d", i)))
			g.tags["node"] = true
		} else {
			cfg := coordinate.DefaultConfig()
			if rng.Intn(3) > 0 {
				cfg.Dimensionality = uint(1 + rng.Intn(4))
				cfg.AdjustmentWindowSize = uint(rng.Intn(4))
				cfg.LatencyFilterSize = uint(1 + rng.Intn(3))
				cfg.VivaldiCE = pick(0.25, 0.5, 1.0, 0)
				cfg.VivaldiCC = pick(0.25, 1.0, 0.05)
				cfg.HeightMin = pick(10.0e-6, 0, 1e-3, math.Copysign(0, -1))
				cfg.VivaldiErrorMax = pick(1.5, 1.0, 10)
				cfg.GravityRho = pick(150.0, 1.0, 1e4)
			}
			switch rng.Intn(60) {
			case 0:
				cfg.Dimensionality = 0
			case 1:
				cfg.LatencyFilterSize = 0
			}
			g.dim = int(cfg.Dimensionality)
			g.emit("new " + c20cfgLine(cfg))
			g.tags["client"] = true
		}
		if g.in.cl != nil {
			n := 3 + rng.Intn(steps)
			for j := 0; j < n; j++ {
				switch r := rng.Intn(30); {
				case r == 0 && !node:
					g.emit("forget " + hexs(c20Names[rng.Intn(len(c20Names))]))
				case r == 1 && !node:
					g.emit("set " + c20coord(g.coord(rng.Intn(3) == 0), true))
				case r == 2 || r == 3:
					g.emit("dist " + c20coord(g.coord(rng.Intn(3) == 0), true))
				default:
					g.observation(node)
				}
			}
		} else {
			g.emit(fmt.Sprintf("upd %s 1000 %s -", hexs("a"), c20coord(g.coord(false), true)))
		}
		g.in.close()
		var tags []string
		for t := range g.tags {
			tags = append(tags, t)
		}
		if g.rndN > 0 {
			tags = append(tags, "oracle-used")
		}
		sort.Strings(tags)
		out = append(out, Case{ID: fmt.Sprintf("g%d", i), Ops: g.ops, Tags: tags,
			Nontrivial: g.acc >= 2 && g.rej >= 1 && g.adv >= 1})
	}
	return out
}

func init() {
	register(&Prop{
		ID: "C20",
		Rule: "client cases: a random configuration (default, or dim 1-4 / window 0-3 / filter 1-3 / several CE, CC, HeightMin, ErrorMax, Rho; rarely dim 0 or filter 0), then 3-30 (thorough 3-60) " +
			"operations: mostly Update with a realistic peer coordinate, 1/4 carrying 1-3 adversarial values (NaN, ±Inf, ±0, subnormals, 1e308, 1e154, values around the 1e-6 threshold, …), 1/40 each with dimension ±1 / 0, " +
			"1/6 with the peer exactly at (or 0.5 µs from) the client's current position so that the random unit vector is drawn from the oracle, rtt realistic or (1/5) from {-1,0,1,…,10 s,10 s+1 ns,MaxInt64,MinInt64}; " +
			"1/3 of the observations made while the client sits at the origin (fresh or just reset) are gentle pushes (rtt 1-10 µs above the estimate) against a valid peer with a NEGATIVE height (small; huge with a compensating adjustment; raw distance negative), the case in which only the unconditional HeightMin floor of ApplyForce protects the height; also SetCoordinate, ForgetNode, DistanceTo. node cases: a real single Serf node, NotifyPingComplete with payloads encoded by the delegate's codec (and empty / wrong version / truncated payloads). " +
			"non-trivial = at least two accepted updates, one rejected observation and one adversarial value in the case; distinct = distinct op sequence",
		Gen:  c20GenCases,
		Exec: c20Exec,
	})
}
