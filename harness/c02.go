package main

import (
	"fmt"
	"math/rand"
	"strconv"
	"strings"
)

// C02 (per-step clauses on one node): status time only grows, a stale intent never changes status.
// Executor: node.go.

var c02Profile = nodeProfile{nj: 12, nl: 8, nu: 1, mj: 20, ml: 20, mg: 16, fl: 4, oj: 2, lv: 1, sd: 0, rp: 3, ls: 3,
	selfBias: 1, pruneBias: 1, maxLen: 30}

func c02Gen(rng *rand.Rand, tier string) []Case {
	nr := 450
	if tier == "thorough" {
		nr = 20000
	}
	var out []Case
	// buffered-intent histories: 2-4 intents of both types about a member that is NOT listed yet, times
	// older / equal / newer in every order (by gossip or created by a merge), then memberlist's alive
	// notification, then sometimes a crash and a push/pull
	nb := 150
	if tier == "thorough" {
		nb = 4000
	}
	// claims about the running local node FAR AHEAD of its clock (leave ± prune by gossip, listed as left in a
	// merge): the refuting join must carry a strictly greater time, or nobody else accepts it
	na := 30
	if tier == "thorough" {
		na = 1500
	}
	for i := 0; i < na; i++ {
		var ops []string
		for j, k := 0, rng.Intn(3); j < k; j++ {
			ops = append(ops, []string{"nj " + hexs("a"), fmt.Sprintf("mj %s %d", hexs("a"), 1+rng.Intn(4)), "oj"}[rng.Intn(3)])
		}
		t := uint64(100 + rng.Intn(900))
		if rng.Intn(5) == 0 {
			t = uint64(rng.Int63())
		}
		switch rng.Intn(3) {
		case 0, 1:
			ops = append(ops, fmt.Sprintf("ml %s %d %d", hexs(nodeSelf), t, rng.Intn(2)))
		default:
			ops = append(ops, fmt.Sprintf("mg %d %s:%d %s", rng.Intn(5), hexs(nodeSelf), t-1, hexs(nodeSelf)))
		}
		if rng.Intn(2) == 0 {
			ops = append(ops, fmt.Sprintf("ml %s %d 0", hexs(nodeSelf), t+1+uint64(rng.Intn(50))), "ls")
		}
		out = append(out, Case{ID: fmt.Sprintf("a%d", i), Ops: ops, Nontrivial: true, Tags: []string{"claim-far-ahead"}})
	}
	// mid-leave histories: a member has announced its leave (leaving); LocalState reads, push/pull to a fresh
	// peer, then memberlist reports it gone (worded dead or left)
	nm := 40
	if tier == "thorough" {
		nm = 1500
	}
	for i := 0; i < nm; i++ {
		x := hexs([]string{"a", "b", "node d"}[rng.Intn(3)])
		t := 1 + rng.Intn(6)
		ops := []string{"nj " + x}
		if rng.Intn(3) == 0 {
			ops = append(ops, fmt.Sprintf("mj %s %d", x, rng.Intn(t+1)))
		}
		ops = append(ops, fmt.Sprintf("ml %s %d 0", x, t))
		for j, k := 0, 1+rng.Intn(3); j < k; j++ {
			ops = append(ops, []string{"ls", "s2 " + x, "ls", fmt.Sprintf("mj %s %d", x, rng.Intn(t+1))}[rng.Intn(4)])
		}
		ops = append(ops, fmt.Sprintf("nl %s %d %s", x, rng.Intn(4), []string{"d", "l"}[rng.Intn(2)]))
		if rng.Intn(2) == 0 {
			ops = append(ops, "ls", "s2 "+x)
		}
		out = append(out, Case{ID: fmt.Sprintf("m%d", i), Ops: ops, Nontrivial: true, Tags: []string{"mid-leave"}})
	}
	for i := 0; i < nb; i++ {
		x := hexs([]string{"a", "b", "node d"}[rng.Intn(3)])
		var ops []string
		for j, k := 0, 2+rng.Intn(3); j < k; j++ {
			t := []int{3, 5, 5, 7}[rng.Intn(4)]
			switch rng.Intn(7) {
			case 0, 1, 2:
				ops = append(ops, fmt.Sprintf("mj %s %d", x, t))
			case 3, 4, 5:
				ops = append(ops, fmt.Sprintf("ml %s %d 0", x, t))
			default:
				if rng.Intn(2) == 0 {
					ops = append(ops, fmt.Sprintf("mg 2 %s:%d -", x, t))
				} else {
					ops = append(ops, fmt.Sprintf("mg 2 %s:%d %s", x, t-1, x))
				}
			}
			if rng.Intn(3) == 0 {
				ops = append(ops, ops[len(ops)-1]) // duplicate copy
			}
		}
		if rng.Intn(8) == 0 {
			ops = append(ops, fmt.Sprintf("rp %d -", rng.Intn(5))) // may reap the buffered intent
		}
		ops = append(ops, "nj "+x)
		if rng.Intn(2) == 0 {
			ops = append(ops, fmt.Sprintf("nl %s 1", x), fmt.Sprintf("mg 9 %s:%d -", x, 3+rng.Intn(5)), "ls")
		}
		out = append(out, Case{ID: fmt.Sprintf("b%d", i), Ops: ops, Nontrivial: true, Tags: []string{"buffered-intents"}})
	}
	nlong := 0
	if tier == "thorough" {
		nlong = 300 // long histories
	}
	for i := 0; i < nr+nlong; i++ {
		prof := c02Profile
		if i >= nr {
			prof.maxLen = 160
		}
		c := nodeRandomCase(rng, prof, fmt.Sprintf("r%d", i))
		// non-trivial: an intent for a not-yet-announced member or an intent older than an earlier one
		// about the same member, and a merge
		joined := map[string]bool{nodeSelf: true}
		last := map[string]uint64{}
		ooo, merge := false, false
		for _, o := range c.Ops {
			f := strings.Fields(o)
			switch f[0] {
			case "nj":
				joined[f[1]] = true
			case "mj", "ml":
				t, _ := strconv.ParseUint(f[2], 10, 64)
				if !joined[f[1]] && f[1] != hexs(nodeSelf) {
					ooo = true
				}
				if p, ok := last[f[1]]; ok && t <= p {
					ooo = true
				}
				if t > last[f[1]] {
					last[f[1]] = t
				}
			case "mg":
				merge = true
			}
		}
		c.Nontrivial = ooo && merge
		out = append(out, c)
	}
	return out
}

func init() {
	register(&Prop{
		ID: "C02",
		Rule: "one real serf node per case; mid-leave histories (a member is leaving: LocalState reads, push/pull of the node's state to a fresh real peer, then memberlist's death notification worded dead or left); claims about the running local node far ahead of its clock (100-1000, random 63-bit; by gossip ± prune or as a left entry of a merge); buffered-intent histories (2-4 join/leave intents, by gossip or merge, times 3/5/5/7 in every order with duplicates, about a member not listed yet, then NotifyJoin, sometimes a reaper tick before and a crash + merge after); random histories of memberlist notifications, join/leave intents with small colliding Lamport times (plus 2^64-2, 2^64-1, random 63-bit), push/pull merges with left lists, force-leaves, reaper ticks, LocalState reads; " +
			"non-trivial = an intent delivered out of Lamport order or for a not-yet-known member, and at least one merge; distinct = distinct op sequence",
		Gen:  c02Gen,
		Exec: nodeExec,
	})
}
