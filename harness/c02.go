package main

import (
	"fmt"
	"math/rand"
	"strconv"
	"strings"
)

// C02 (per-step clauses on one node): status time only grows, a stale intent never changes status.
// Executor: node.go.

var c02Profile = nodeProfile{nj: 12, nl: 8, nu: 1, mj: 20, ml: 20, mg: 16, fl: 4, oj: 2, lv: 1, sd: 0, rp: 3, ls: 3,
	selfBias: 1, pruneBias: 1, maxLen: 30}

func c02Gen(rng *rand.Rand, tier string) []Case {
	nr := 450
	if tier == "thorough" {
		nr = 20000
	}
	var out []Case
	for i := 0; i < nr; i++ {
		c := nodeRandomCase(rng, c02Profile, fmt.Sprintf("r%d", i))
		// non-trivial: an intent for a not-yet-announced member or an intent older than an earlier one
		// about the same member, and a merge
		joined := map[string]bool{nodeSelf: true}
		last := map[string]uint64{}
		ooo, merge := false, false
		for _, o := range c.Ops {
			f := strings.Fields(o)
			switch f[0] {
			case "nj":
				joined[f[1]] = true
			case "mj", "ml":
				t, _ := strconv.ParseUint(f[2], 10, 64)
				if !joined[f[1]] && f[1] != hexs(nodeSelf) {
					ooo = true
				}
				if p, ok := last[f[1]]; ok && t <= p {
					ooo = true
				}
				if t > last[f[1]] {
					last[f[1]] = t
				}
			case "mg":
				merge = true
			}
		}
		c.Nontrivial = ooo && merge
		out = append(out, c)
	}
	return out
}

func init() {
	register(&Prop{
		ID: "C02",
		Rule: "one real serf node per case; random histories of memberlist notifications, join/leave intents with small colliding Lamport times (plus 2^64-2, 2^64-1, random 63-bit), push/pull merges with left lists, force-leaves, reaper ticks, LocalState reads; " +
			"non-trivial = an intent delivered out of Lamport order or for a not-yet-known member, and at least one merge; distinct = distinct op sequence",
		Gen:  c02Gen,
		Exec: nodeExec,
	})
}
