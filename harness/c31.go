package main

import (
	"encoding/json"
	"fmt"
	"math/rand"
	"os"
	"path/filepath"
	"reflect"
	"sort"
	"strconv"
	"strings"
	"time"

	"github.com/hashicorp/serf/cmd/serf/command/agent"
)

// C31: configuration layering. Ops: `merge A B`, `assoc A B C`, `reuse BASE B C`, `decode CFG ORACLE u|-`, `read <path>…`
// (formats: lean/SerfModel/Check/C31.lean). Configurations are built by reflection
// over agent.Config, so the field list is always the one of the code under test.

type c31Field struct {
	name string // "MDNS.Interface"
	path []int  // reflect index path
	kind string // str int dur bool tags list
	key  []string
}

var c31Fields []c31Field

func c31Walk(t reflect.Type, prefix string, path []int, keys []string) {
	for i := 0; i < t.NumField(); i++ {
		f := t.Field(i)
		p := append(append([]int{}, path...), i)
		key := f.Tag.Get("mapstructure")
		if key == "" {
			key = f.Name
		}
		ks := append(append([]string{}, keys...), key)
		var kind string
		switch {
		case f.Type == reflect.TypeOf(time.Duration(0)):
			kind = "dur"
		case f.Type.Kind() == reflect.String:
			kind = "str"
		case f.Type.Kind() == reflect.Int:
			kind = "int"
		case f.Type.Kind() == reflect.Bool:
			kind = "bool"
		case f.Type.Kind() == reflect.Map:
			kind = "tags"
		case f.Type.Kind() == reflect.Slice:
			kind = "list"
		case f.Type.Kind() == reflect.Struct:
			c31Walk(f.Type, prefix+f.Name+".", p, ks)
			continue
		default:
			panic("c31: unsupported field type " + f.Type.String())
		}
		c31Fields = append(c31Fields, c31Field{name: prefix + f.Name, path: p, kind: kind, key: ks})
	}
}

func c31Init() {
	if c31Fields == nil {
		c31Walk(reflect.TypeOf(agent.Config{}), "", nil, nil)
	}
}

func c31FieldByName(n string) *c31Field {
	for i := range c31Fields {
		if c31Fields[i].name == n {
			return &c31Fields[i]
		}
	}
	return nil
}

// ---- value tokens

func c31ShowTags(m map[string]string) string {
	if m == nil {
		return "tN"
	}
	if len(m) == 0 {
		return "tE"
	}
	keys := make([]string, 0, len(m))
	for k := range m {
		keys = append(keys, k)
	}
	sort.Strings(keys)
	var ps []string
	for _, k := range keys {
		ps = append(ps, hexs(k)+":"+hexs(m[k]))
	}
	return "t" + strings.Join(ps, ",")
}

func c31ShowList(l []string, forInput bool) string {
	if l == nil && forInput {
		return "lN"
	}
	if len(l) == 0 {
		return "lE"
	}
	var ps []string
	for _, s := range l {
		ps = append(ps, hexs(s))
	}
	return "l" + strings.Join(ps, ",")
}

// c31Show prints a configuration canonically. forInput keeps nil/empty slices
// apart (inputs); outputs treat an empty list as zero whatever its nil-ness.
func c31Show(c *agent.Config, forInput bool) string {
	c31Init()
	v := reflect.ValueOf(c).Elem()
	var parts []string
	for _, f := range c31Fields {
		fv := v.FieldByIndex(f.path)
		var s string
		switch f.kind {
		case "str":
			if fv.String() == "" {
				continue
			}
			s = "s" + hexs(fv.String())
		case "int", "dur":
			if fv.Int() == 0 {
				continue
			}
			s = "i" + strconv.FormatInt(fv.Int(), 10)
		case "bool":
			if !fv.Bool() {
				continue
			}
			s = "b1"
		case "tags":
			m := fv.Interface().(map[string]string)
			if m == nil {
				continue
			}
			s = c31ShowTags(m)
		case "list":
			l := fv.Interface().([]string)
			if forInput {
				if l == nil {
					continue
				}
			} else if len(l) == 0 {
				continue
			}
			s = c31ShowList(l, forInput)
		}
		parts = append(parts, f.name+"="+s)
	}
	if len(parts) == 0 {
		return "-"
	}
	return strings.Join(parts, ";")
}

func c31Parse(tok string) (*agent.Config, bool) {
	c31Init()
	c := &agent.Config{}
	if tok == "-" {
		return c, true
	}
	v := reflect.ValueOf(c).Elem()
	for _, item := range strings.Split(tok, ";") {
		nv := strings.SplitN(item, "=", 2)
		if len(nv) != 2 || len(nv[1]) == 0 {
			return nil, false
		}
		f := c31FieldByName(nv[0])
		if f == nil {
			return nil, false
		}
		fv := v.FieldByIndex(f.path)
		body := nv[1][1:]
		switch {
		case f.kind == "str" && nv[1][0] == 's':
			b := unhex(body)
			if b == nil {
				return nil, false
			}
			fv.SetString(string(b))
		case (f.kind == "int" || f.kind == "dur") && nv[1][0] == 'i':
			n, err := strconv.ParseInt(body, 10, 64)
			if err != nil {
				return nil, false
			}
			fv.SetInt(n)
		case f.kind == "bool" && nv[1][0] == 'b':
			fv.SetBool(body == "1")
		case f.kind == "tags" && nv[1][0] == 't':
			switch body {
			case "N":
			case "E":
				fv.Set(reflect.ValueOf(map[string]string{}))
			default:
				m := map[string]string{}
				for _, p := range strings.Split(body, ",") {
					kv := strings.SplitN(p, ":", 2)
					if len(kv) != 2 {
						return nil, false
					}
					k, val := unhex(kv[0]), unhex(kv[1])
					if k == nil || val == nil {
						return nil, false
					}
					m[string(k)] = string(val)
				}
				fv.Set(reflect.ValueOf(m))
			}
		case f.kind == "list" && nv[1][0] == 'l':
			switch body {
			case "N":
			case "E":
				fv.Set(reflect.ValueOf([]string{}))
			default:
				var l []string
				for _, p := range strings.Split(body, ",") {
					b := unhex(p)
					if b == nil {
						return nil, false
					}
					l = append(l, string(b))
				}
				fv.Set(reflect.ValueOf(l))
			}
		default:
			return nil, false
		}
	}
	return c, true
}

// ---- executor

func c31Exec(ops []string) []string {
	c31Init()
	var outs []string
	for _, o := range ops {
		f := strings.Fields(o)
		switch {
		case len(f) == 3 && f[0] == "merge":
			a, ok1 := c31Parse(f[1])
			b, ok2 := c31Parse(f[2])
			if !ok1 || !ok2 {
				outs = append(outs, "bad-op")
				continue
			}
			a0, _ := c31Parse(f[1]) // independent deep copies
			b0, _ := c31Parse(f[2])
			r := agent.MergeConfig(a, b)
			flag := "ok"
			ma, mb := !reflect.DeepEqual(a, a0), !reflect.DeepEqual(b, b0)
			switch {
			case ma && mb:
				flag = "ab-mutated"
			case ma:
				flag = "a-mutated"
			case mb:
				flag = "b-mutated"
			}
			outs = append(outs, c31Show(r, false)+" "+flag)
		case len(f) == 4 && f[0] == "assoc":
			mk := func() (a, b, c *agent.Config, ok bool) {
				a, o1 := c31Parse(f[1])
				b, o2 := c31Parse(f[2])
				c, o3 := c31Parse(f[3])
				return a, b, c, o1 && o2 && o3
			}
			a, b, c, ok := mk()
			if !ok {
				outs = append(outs, "bad-op")
				continue
			}
			l := agent.MergeConfig(agent.MergeConfig(a, b), c)
			a, b, c, _ = mk()
			r := agent.MergeConfig(a, agent.MergeConfig(b, c))
			outs = append(outs, c31Show(l, false)+" "+c31Show(r, false))
		case len(f) == 4 && f[0] == "reuse":
			outs = append(outs, c31Reuse(f[1], f[2], f[3]))
		case len(f) == 4 && f[0] == "decode":
			c, ok := c31Parse(f[1])
			if !ok {
				outs = append(outs, "bad-op")
				continue
			}
			b, err := c31JSON(c)
			if err != nil {
				outs = append(outs, "harness-error")
				continue
			}
			if f[3] == "u" {
				b = append([]byte(`{"no_such_setting": 1,`), b[1:]...)
				if string(b) == `{"no_such_setting": 1,}` {
					b = []byte(`{"no_such_setting": 1}`)
				}
			}
			got, err := agent.DecodeConfig(strings.NewReader(string(b)))
			if err != nil {
				outs = append(outs, "error")
			} else {
				outs = append(outs, c31Show(got, false))
			}
		case len(f) >= 1 && f[0] == "read":
			outs = append(outs, c31Read(f[1:]))
		default:
			outs = append(outs, "bad-op")
		}
	}
	return outs
}

// c31Reuse merges the SAME base configuration twice: r1 = MergeConfig(base, b), then
// r2 = MergeConfig(base, c). The base's list fields are rebuilt with spare capacity
// (cap > len, as slices grown by append have - e.g. the command-line flag parser's), which is
// when an implementation that appends onto an input's slice writes into the input's backing
// array. Reported: r1 as it reads AFTER the second merge, r2, and a flag:
//   result-changed         r1 no longer reads as it did right after the first merge
//   input-storage-written  the backing array of one of base's lists (up to its capacity), or
//                          base / b / c themselves, differ from copies taken before the calls
func c31Reuse(tb, t1, t2 string) string {
	base, ok0 := c31Parse(tb)
	b, ok1 := c31Parse(t1)
	c, ok2 := c31Parse(t2)
	if !ok0 || !ok1 || !ok2 {
		return "bad-op"
	}
	base0, _ := c31Parse(tb)
	b0, _ := c31Parse(t1)
	c0, _ := c31Parse(t2)
	v := reflect.ValueOf(base).Elem()
	type backing struct {
		full []string // the whole backing array, aliasing base's storage
		snap []string
	}
	var backs []backing
	for _, f := range c31Fields {
		if f.kind != "list" {
			continue
		}
		fv := v.FieldByIndex(f.path)
		l := fv.Interface().([]string)
		if l == nil {
			continue
		}
		grown := make([]string, len(l), len(l)+3)
		copy(grown, l)
		fv.Set(reflect.ValueOf(grown))
		full := grown[:cap(grown)]
		backs = append(backs, backing{full: full, snap: append([]string(nil), full...)})
	}
	r1 := agent.MergeConfig(base, b)
	s1 := c31Show(r1, false)
	r2 := agent.MergeConfig(base, c)
	s1after := c31Show(r1, false)
	var flags []string
	if s1after != s1 {
		flags = append(flags, "result-changed")
	}
	written := c31Show(base, true) != c31Show(base0, true) || !reflect.DeepEqual(b, b0) || !reflect.DeepEqual(c, c0)
	for _, bk := range backs {
		if !reflect.DeepEqual(bk.full, bk.snap) {
			written = true
		}
	}
	if written {
		flags = append(flags, "input-storage-written")
	}
	flag := "ok"
	if len(flags) > 0 {
		flag = strings.Join(flags, "+")
	}
	return s1after + " " + c31Show(r2, false) + " " + flag
}

// c31JSON renders the JSON-settable part of a configuration: every field with a
// mapstructure key (durations are set through their *Raw twin, key "-" is skipped).
func c31JSON(c *agent.Config) ([]byte, error) {
	v := reflect.ValueOf(c).Elem()
	root := map[string]any{}
	for _, f := range c31Fields {
		if f.key[len(f.key)-1] == "-" {
			continue
		}
		fv := v.FieldByIndex(f.path)
		if fv.IsZero() {
			continue
		}
		m := root
		for _, k := range f.key[:len(f.key)-1] {
			sub, ok := m[k].(map[string]any)
			if !ok {
				sub = map[string]any{}
				m[k] = sub
			}
			m = sub
		}
		m[f.key[len(f.key)-1]] = fv.Interface()
	}
	return json.Marshal(root)
}

func c31Read(paths []string) string {
	dir, err := os.MkdirTemp("", "c31-")
	if err != nil {
		return "harness-error"
	}
	defer os.RemoveAll(dir)
	writeCfg := func(p, tok string) string {
		c, ok := c31Parse(tok)
		if !ok {
			return "bad-op"
		}
		b, err := c31JSON(c)
		if err != nil {
			return "harness-error"
		}
		if err := os.WriteFile(p, b, 0o644); err != nil {
			return "harness-error"
		}
		// the assumption the model relies on: DecodeConfig of this file is the intended configuration
		fh, err := os.Open(p)
		if err != nil {
			return "harness-error"
		}
		got, err := agent.DecodeConfig(fh)
		fh.Close()
		if err != nil {
			return "decode-mismatch:error:" + err.Error()
		}
		if c31Show(got, false) != c31Show(c, false) {
			return "decode-mismatch:" + c31Show(got, false)
		}
		return ""
	}
	var args []string
	for i, p := range paths {
		base := filepath.Join(dir, fmt.Sprintf("p%02d", i))
		switch {
		case strings.HasPrefix(p, "="):
			// the same path given again (every other time spelled differently: a/./b)
			k, err := strconv.Atoi(p[1:])
			if err != nil || k < 0 || k >= len(args) {
				return "bad-op"
			}
			again := args[k]
			if i%2 == 1 {
				again = filepath.Dir(again) + "/./" + filepath.Base(again)
			}
			args = append(args, again)
		case strings.HasPrefix(p, "@"):
			// an entry of directory path k given explicitly as a file
			parts := strings.SplitN(p[1:], "/", 2)
			k, err := strconv.Atoi(parts[0])
			if err != nil || len(parts) != 2 || k < 0 || k >= len(args) {
				return "bad-op"
			}
			nb := unhex(parts[1])
			if nb == nil || len(nb) == 0 {
				return "bad-op"
			}
			args = append(args, filepath.Join(args[k], string(nb)))
		case p == "m":
			args = append(args, base+"-missing")
		case p == "f!":
			_ = os.WriteFile(base+".conf", []byte("{not json"), 0o644)
			args = append(args, base+".conf")
		case strings.HasPrefix(p, "f:"):
			if e := writeCfg(base+".conf", p[2:]); e != "" {
				return e
			}
			args = append(args, base+".conf")
		case strings.HasPrefix(p, "d:"):
			if err := os.Mkdir(base, 0o755); err != nil {
				return "harness-error"
			}
			if len(p) > 2 {
				for _, e := range strings.Split(p[2:], "|") {
					parts := strings.SplitN(e, "~", 3)
					if len(parts) != 3 {
						return "bad-op"
					}
					nb := unhex(parts[0])
					if nb == nil || len(nb) == 0 {
						return "bad-op"
					}
					fp := filepath.Join(base, string(nb))
					switch parts[1] {
					case "s":
						if err := os.Mkdir(fp, 0o755); err != nil {
							return "harness-error"
						}
						// a decoy inside: must not be read (one level deep only)
						_ = os.WriteFile(filepath.Join(fp, "inner.json"), []byte(`{"node_name":"decoy"}`), 0o644)
					case "b":
						_ = os.WriteFile(fp, []byte(`{"no_such_key": 1}`), 0o644)
					case "j":
						if e := writeCfg(fp, parts[2]); e != "" {
							return e
						}
					default:
						return "bad-op"
					}
				}
			}
			args = append(args, base)
		default:
			return "bad-op"
		}
	}
	r, err := agent.ReadConfigPaths(args)
	if err != nil {
		return "error"
	}
	return c31Show(r, false)
}

// ---- generator

var (
	c31Strs  = []string{"", "x", "node-1", "a b", "ü", "10.0.0.1:7946"}
	c31Ints  = []int64{0, 1, 5, -1, -7, 1024, 1 << 40}
	c31Durs  = []int64{0, 1e9, 5e9, -2e9, 3e8}
	c31Tagsv = []string{"tN", "tE", "t61:31", "t61:32,62:78", "t726f6c65:776562", "t-:-", "t62:-,63:79"}
	c31Lists = []string{"lN", "lE", "l78", "l78,79", "l79,78,78", "l-"}
)

func c31Palette(kind string) []string {
	var out []string
	switch kind {
	case "str":
		for _, s := range c31Strs {
			out = append(out, "s"+hexs(s))
		}
	case "int":
		for _, n := range c31Ints {
			out = append(out, "i"+strconv.FormatInt(n, 10))
		}
	case "dur":
		for _, n := range c31Durs {
			out = append(out, "i"+strconv.FormatInt(n, 10))
		}
	case "bool":
		out = []string{"b0", "b1"}
	case "tags":
		out = c31Tagsv
	case "list":
		out = c31Lists
	}
	return out
}

func c31IsZeroTok(t string) bool {
	return t == "s-" || t == "i0" || t == "b0" || t == "tN" || t == "lN"
}

// one-field configuration token
func c31One(f c31Field, val string) string {
	if c31IsZeroTok(val) {
		return "-"
	}
	return f.name + "=" + val
}

func c31Random(rng *rand.Rand, density int) string {
	var parts []string
	for _, f := range c31Fields {
		if rng.Intn(density) != 0 {
			continue
		}
		p := c31Palette(f.kind)
		v := p[rng.Intn(len(p))]
		if c31IsZeroTok(v) {
			continue
		}
		parts = append(parts, f.name+"="+v)
	}
	if len(parts) == 0 {
		return "-"
	}
	return strings.Join(parts, ";")
}

// a configuration that round-trips through a JSON file and DecodeConfig: strings, non-negative
// ints below 2^53, switches, non-empty tags, non-empty lists, durations through their *Raw twin.
var c31RawPal = []struct {
	raw string
	ns  int64
}{{"5s", 5e9}, {"100ms", 1e8}, {"1h", 3600e9}, {"-2s", -2e9}, {"1m30s", 90e9}}

func c31JSONable(rng *rand.Rand, density int) string {
	var parts []string
	for _, f := range c31Fields {
		if rng.Intn(density) != 0 {
			continue
		}
		switch f.kind {
		case "str":
			if strings.HasSuffix(f.name, "Raw") {
				base := strings.TrimSuffix(f.name, "Raw")
				if c31FieldByName(base) != nil {
					p := c31RawPal[rng.Intn(len(c31RawPal))]
					parts = append(parts, f.name+"=s"+hexs(p.raw), base+"=i"+strconv.FormatInt(p.ns, 10))
					continue
				}
			}
			parts = append(parts, f.name+"=s"+hexs(c31Strs[1+rng.Intn(len(c31Strs)-1)]))
		case "int":
			parts = append(parts, f.name+"=i"+strconv.FormatInt([]int64{1, 2, 5, 1024, 1 << 40}[rng.Intn(5)], 10))
		case "bool":
			parts = append(parts, f.name+"=b1")
		case "tags":
			parts = append(parts, f.name+"="+c31Tagsv[2+rng.Intn(len(c31Tagsv)-2)])
		case "list":
			parts = append(parts, f.name+"="+c31Lists[2+rng.Intn(len(c31Lists)-2)])
		}
	}
	if len(parts) == 0 {
		return "-"
	}
	// keep declaration order (the Raw twin precedes its duration in the struct)
	return strings.Join(parts, ";")
}

var c31Names = []string{"a.json", "b.json", "10.json", "2.json", "z.txt", "json", ".json", "A.json", "a.JSON", "c.json.bak", "zz.json", "m.conf"}

func c31Gen(rng *rand.Rand, tier string) []Case {
	c31Init()
	var out []Case
	id := 0
	add := func(tag string, nt bool, ops ...string) {
		out = append(out, Case{ID: fmt.Sprintf("%s%d", tag, id), Ops: ops, Nontrivial: nt, Tags: []string{tag}})
		id++
	}
	// systematic: every field × every pair of palette values, other fields zero
	for _, f := range c31Fields {
		p := c31Palette(f.kind)
		for _, va := range p {
			for _, vb := range p {
				add("pair", !c31IsZeroTok(va) && !c31IsZeroTok(vb), fmt.Sprintf("merge %s %s", c31One(f, va), c31One(f, vb)))
			}
		}
	}
	// systematic: every field × every triple over a reduced palette
	for _, f := range c31Fields {
		p := c31Palette(f.kind)
		if len(p) > 4 {
			p = p[:5]
		}
		if tier != "thorough" && len(p) > 3 {
			p = []string{p[0], p[1], p[3]}
		}
		for _, va := range p {
			for _, vb := range p {
				for _, vc := range p {
					add("triple", !c31IsZeroTok(vb) && !c31IsZeroTok(vc), fmt.Sprintf("assoc %s %s %s", c31One(f, va), c31One(f, vb), c31One(f, vc)))
				}
			}
		}
	}
	// the same base merged twice; the executor gives the base's lists spare capacity
	for _, f := range c31Fields {
		if f.kind != "list" {
			continue
		}
		for _, vb := range []string{"lE", "l78", "l78,79"} {
			for _, v1 := range []string{"l62", "l62,63"} {
				for _, v2 := range []string{"l63", "l64,65,66"} {
					add("reuse", true, fmt.Sprintf("reuse %s %s %s", c31One(f, vb), c31One(f, v1), c31One(f, v2)))
				}
			}
		}
	}
	for _, f := range c31Fields {
		if f.kind == "tags" {
			add("reuse", true, fmt.Sprintf("reuse %s %s %s", c31One(f, "t61:31"), c31One(f, "t62:32"), c31One(f, "t61:33,63:34")))
			add("reuse", true, fmt.Sprintf("reuse %s %s %s", c31One(f, "tE"), c31One(f, "t62:32"), c31One(f, "t63:34")))
		}
	}
	nReuse := 150
	if tier == "thorough" {
		nReuse = 5000
	}
	for i := 0; i < nReuse; i++ {
		d := 1 + rng.Intn(3)
		add("rreuse", true, fmt.Sprintf("reuse %s %s %s", c31Random(rng, d), c31Random(rng, d), c31Random(rng, d)))
	}
	nRand, nRead := 400, 150
	if tier == "thorough" {
		nRand, nRead = 20000, 3000
	}
	for i := 0; i < nRand; i++ {
		d := 1 + rng.Intn(4)
		if i%2 == 0 {
			add("rpair", true, fmt.Sprintf("merge %s %s", c31Random(rng, d), c31Random(rng, d)))
		} else {
			add("rtriple", true, fmt.Sprintf("assoc %s %s %s", c31Random(rng, d), c31Random(rng, d), c31Random(rng, d)))
		}
	}
	// systematic small reads: one JSON-settable field in two/three sources, as files and as
	// directory entries given in non-lexical order (minimal replays for ReadConfigPaths)
	for _, f := range c31Fields {
		var v1, v2 string
		switch f.kind {
		case "str":
			if strings.HasSuffix(f.name, "Raw") {
				continue
			}
			v1, v2 = "s"+hexs("x"), "s"+hexs("node-1")
		case "int":
			v1, v2 = "i1", "i5"
		case "bool":
			v1, v2 = "b1", "b1"
		case "tags":
			v1, v2 = "t61:31,62:78", "t61:32"
		case "list":
			v1, v2 = "l78", "l79,78"
		case "dur":
			raw := f.name + "Raw"
			if c31FieldByName(raw) == nil {
				continue
			}
			c1 := raw + "=s" + hexs("5s") + ";" + f.name + "=i5000000000"
			c2 := raw + "=s" + hexs("1h") + ";" + f.name + "=i3600000000000"
			add("read2", true, fmt.Sprintf("read f:%s f:%s", c1, c2))
			add("read2", true, fmt.Sprintf("read d:%s~j~%s|%s~j~%s", hexs("b.json"), c1, hexs("a.json"), c2))
			continue
		}
		c1, c2 := f.name+"="+v1, f.name+"="+v2
		add("read2", true, fmt.Sprintf("read f:%s f:%s", c1, c2))
		add("read2", true, fmt.Sprintf("read f:%s f:-", c1))
		add("read2", true, fmt.Sprintf("read d:%s~j~%s|%s~j~%s", hexs("b.json"), c1, hexs("a.json"), c2))
		add("read2", true, fmt.Sprintf("read d:%s~j~%s|%s~j~%s|%s~j~%s f:%s", hexs("10.json"), c1, hexs("2.json"), c2, hexs("z.txt"), f.name+"="+v1, c1))
	}
	// DecodeConfig's post-processing: raw duration strings (valid, zero, fractional, signed, overflowing,
	// malformed), with Go's time.ParseDuration as the oracle; other JSON-settable fields around them
	rawPal := []string{"5s", "100ms", "1h", "-2s", "1m30s", "0", "0s", "1.5h", "5x", "abc", "5", " 5s", "1h30",
		"9223372036854775807ns", "9223372036854775808ns", "1e3s", "+3m", ".5s", "1µs", "s"}
	var rawFields []string
	for _, f := range c31Fields {
		if f.kind == "str" && strings.HasSuffix(f.name, "Raw") {
			rawFields = append(rawFields, f.name)
		}
	}
	decodeOp := func(raws map[string]string, others string, unknown bool) string {
		var parts, orc []string
		seen := map[string]bool{}
		for _, rf := range rawFields {
			v, ok := raws[rf]
			if !ok || v == "" {
				continue
			}
			parts = append(parts, rf+"=s"+hexs(v))
			if !seen[v] {
				seen[v] = true
				if d, err := time.ParseDuration(v); err != nil {
					orc = append(orc, hexs(v)+":e")
				} else {
					orc = append(orc, hexs(v)+":"+strconv.FormatInt(int64(d), 10))
				}
			}
		}
		cfg := strings.Join(parts, ";")
		if others != "-" && others != "" {
			if cfg != "" {
				cfg += ";"
			}
			cfg += others
		}
		if cfg == "" {
			cfg = "-"
		}
		o := "_"
		if len(orc) > 0 {
			o = strings.Join(orc, ";")
		}
		u := "-"
		if unknown {
			u = "u"
		}
		return fmt.Sprintf("decode %s %s %s", cfg, o, u)
	}
	for _, rf := range rawFields {
		for _, v := range rawPal {
			add("decode", true, decodeOp(map[string]string{rf: v}, "-", false))
		}
	}
	add("decode", false, decodeOp(nil, "-", false))
	add("decode", true, decodeOp(nil, "-", true))
	add("decode", true, decodeOp(map[string]string{rawFields[0]: "5s"}, "NodeName=s78", true))
	nDec := 100
	if tier == "thorough" {
		nDec = 3000
	}
	for i := 0; i < nDec; i++ {
		raws := map[string]string{}
		for _, rf := range rawFields {
			if rng.Intn(2) == 0 {
				raws[rf] = rawPal[rng.Intn(len(rawPal))]
			}
		}
		// other fields: JSON-round-tripping values, without the raw/duration twins
		var keep []string
		for _, it := range strings.Split(c31JSONable(rng, 2+rng.Intn(4)), ";") {
			n := strings.SplitN(it, "=", 2)[0]
			if it == "-" || strings.HasSuffix(n, "Raw") || c31FieldByName(n+"Raw") != nil {
				continue
			}
			keep = append(keep, it)
		}
		add("rdecode", true, decodeOp(raws, strings.Join(keep, ";"), rng.Intn(12) == 0))
	}
	// a source followed by directories that contribute nothing (empty, only non-.json, only a sub-directory):
	// they must not act as a source (seeded C31-a reset EnableCompression there)
	for _, f := range c31Fields {
		var v1 string
		switch f.kind {
		case "str":
			if strings.HasSuffix(f.name, "Raw") {
				continue
			}
			v1 = "s" + hexs("x")
		case "int":
			v1 = "i5"
		case "bool":
			v1 = "b1"
		case "tags":
			v1 = "t61:31"
		case "list":
			v1 = "l78"
		default:
			continue
		}
		c1 := f.name + "=" + v1
		add("read2", true, fmt.Sprintf("read f:%s d:", c1))
		if f.kind == "bool" {
			add("read2", true, fmt.Sprintf("read f:%s d:%s~j~%s", c1, hexs("z.txt"), c1))
			add("read2", true, fmt.Sprintf("read d:%s~j~%s d:%s~s~-", hexs("a.json"), c1, hexs("sub.json")))
			add("read2", true, fmt.Sprintf("read d:%s~j~%s d: f:-", hexs("a.json"), c1))
		}
	}
	// the same file reached more than once: a path repeated, a directory repeated, a file given explicitly
	// that also sits in a given directory — every occurrence is a source (seeded C31-e dropped the later ones)
	for _, f := range c31Fields {
		var v1, v2 string
		switch f.kind {
		case "str":
			if strings.HasSuffix(f.name, "Raw") {
				continue
			}
			v1, v2 = "s"+hexs("x"), "s"+hexs("node-1")
		case "int":
			v1, v2 = "i1", "i5"
		case "list":
			v1, v2 = "l78", "l79"
		case "tags":
			v1, v2 = "t61:31", "t61:32"
		default:
			continue
		}
		c1, c2 := f.name+"="+v1, f.name+"="+v2
		add("readrep", true, fmt.Sprintf("read f:%s f:%s =0", c1, c2))
		add("readrep", true, fmt.Sprintf("read d:%s~j~%s|%s~j~%s @0/%s", hexs("a.json"), c1, hexs("b.json"), c2, hexs("a.json")))
		if f.kind == "list" || f.kind == "str" {
			add("readrep", true, fmt.Sprintf("read d:%s~j~%s f:%s =0", hexs("a.json"), c1, c2))
			add("readrep", true, fmt.Sprintf("read f:%s =0", c1))
		}
	}
	add("read2", false, "read")
	add("read2", false, "read d:")
	add("read2", false, "read m")
	add("read2", false, "read f!")
	add("read2", false, fmt.Sprintf("read d:%s~b~-", hexs("a.json")))
	add("read2", false, fmt.Sprintf("read d:%s~b~-|%s~s~-", hexs("a.txt"), hexs("sub.json")))
	for i := 0; i < nRead; i++ {
		var paths []string
		n := 1 + rng.Intn(4)
		sources := 0
		for j := 0; j < n; j++ {
			switch r := rng.Intn(20); {
			case r == 0:
				paths = append(paths, "m")
			case r == 1:
				paths = append(paths, "f!")
			case r < 9:
				paths = append(paths, "f:"+c31JSONable(rng, 2+rng.Intn(5)))
				sources++
			default:
				k := rng.Intn(5)
				perm := rng.Perm(len(c31Names))
				var ents []string
				for x := 0; x < k; x++ {
					name := c31Names[perm[x]]
					ty := "j"
					switch t := rng.Intn(12); {
					case t == 0:
						ty = "s"
					case t == 1 && !strings.HasSuffix(name, ".json"):
						ty = "b" // undecodable but not selected: must be ignored
					case t == 2 && rng.Intn(3) == 0:
						ty = "b"
					}
					cfg := "-"
					if ty == "j" {
						cfg = c31JSONable(rng, 2+rng.Intn(5))
						if strings.HasSuffix(name, ".json") {
							sources++
						}
					}
					ents = append(ents, hexs(name)+"~"+ty+"~"+cfg)
				}
				paths = append(paths, "d:"+strings.Join(ents, "|"))
			}
		}
		if rng.Intn(4) == 0 && len(paths) > 0 {
			paths = append(paths, fmt.Sprintf("=%d", rng.Intn(len(paths))))
		}
		add("read", sources >= 2, "read "+strings.Join(paths, " "))
	}
	return out
}

func init() {
	register(&Prop{
		ID: "C31",
		Rule: "systematic: every Config field (reflection over agent.Config) × every ordered pair of palette values (merge) and every triple over a reduced palette (assoc), other fields zero; " +
			"the same base configuration merged twice (`reuse`: base lists rebuilt with cap > len, earlier result and the inputs' backing arrays re-read after the later merge); random sparse/dense pairs and triples over all fields (negative numbers, nil/empty maps and lists, empty keys); DecodeConfig on JSON renderings with every *Raw field × a palette of duration strings (valid, zero, fractional, signed, overflowing, malformed; time.ParseDuration as oracle) and unknown keys; ReadConfigPaths with the same file reached more than once (a path or directory repeated, also spelled a/./b; a directory entry given explicitly as well); ReadConfigPaths on real temp directories (files, directories with .json / non-.json / undecodable / sub-directory entries, missing paths) " +
			"restricted to JSON-round-tripping values; non-trivial = both later operands non-zero (pair/triple), ≥2 selected sources (read); distinct = distinct op line",
		Gen:  c31Gen,
		Exec: c31Exec,
	})
}
