package main

import (
	"fmt"
	"math/rand"
)

// C10: restart from a snapshot restores the rejoin set and clocks exactly.
// Executor and op language: snapshot_common.go.

func c10Gen(rng *rand.Rand, tier string) []Case {
	var out []Case
	// fixed small cases: the parser on hand-written files (unknown lines, torn tail, comments, coordinate lines, bad numbers)
	files := []string{
		"alive: a 1.2.3.4:5\nalive: b c [::1]:7946\nnot-alive: a\nclock: 7\nevent-clock: 8\nquery-clock: 9\n",
		"# comment\ncoordinate: xyz\nbogus\nalive: nospace\nalive:  1.1.1.1:1\nclock: x\nclock: -1\nclock: +1\nclock: 1_0\nclock: 007\nclock: \nclock: 18446744073709551615\nevent-clock: 18446744073709551616\n",
		"alive: a 1.2.3.4:5\nleave\nalive: b 1.2.3.4:6\nclock: 3\nleave \nleaves\n leave\n",
		"alive: a 1.2.3.4:5\nalive: torn 1.2.3.4",
		"\n\nalive: a  \nalive: a b \nnot-alive: \nnot-alive: a \nnot-alive:a\nclock:5\nquery-clock: 4\nquery-clock: 3\n",
		"alive: x 1\r\nclock: 5\r\nclock: ٣\nclock: 99999999999999999999999\n",
	}
	for i, f := range files {
		for _, rj := range []string{"0", "1"} {
			out = append(out, Case{ID: fmt.Sprintf("p%d-%s", i, rj), Tags: []string{"parser"}, Nontrivial: true,
				Ops: []string{fmt.Sprintf("new sync %s 64 %s", rj, hexs(f)), "dump", "join 3 " + snapMember(rng, "m"), "shutdown 3", "reopen " + rj + " 0", "shutdown 1"}})
		}
	}
	n := 420
	if tier == "thorough" {
		n = 8000
	}
	for i := 0; i < n; i++ {
		o := snapGenOpts{maxEvents: 40}
		switch {
		case i%10 == 0:
			o.async = true
			o.maxEvents = 25
		case i%10 == 1:
			o.long = true
			o.maxEvents = 12
		case i%20 == 2:
			o.newline = true
			o.maxEvents = 8
		case i%20 == 3:
			o.leave = true // the model correspondence also covers lives with a leave; judged by C13
		}
		o.staleTmp = i%5 == 4 // a stale compaction temp file beside the snapshot at every restart (must be ignored)
		out = append(out, snapCase(rng, fmt.Sprintf("r%d", i), o))
	}
	return out
}

func init() {
	register(&Prop{
		ID: "C10",
		Rule: "hand-written snapshot files through the real replay (parser cases) + random lives of the real Snapshotter: 1-2 generations of ≤40 events " +
			"(join 35% incl. multi-member, leave/failed 20%, update/reap, user/query times incl. 0, 2^63, 2^64-1, clock ticks, flush-interval elapsing, forced compaction, dumps) " +
			"over 2-6 names from a palette (spaces, ':', 'alive: ' / 'not-alive: ' / 'clock: ' / '#' prefixes, empty, invalid UTF-8, trailing/leading spaces; 10% long names 300-9000 bytes; 5% names with newline) " +
			"× IPv4/IPv6/odd/empty IPs × thresholds {0,1,64,200,128KiB}; 10% driven through the real goroutines (NewSnapshotter/channel/Wait), the rest through the synchronous hooks; every life ends with shutdown + reopen by the real NewSnapshotter; a fifth of the lives restart beside a stale compaction temp file (must be ignored while the snapshot exists); " +
			"non-trivial = ≥2 joins, ≥1 removal or event/query time, and threshold ≤200 or a forced compaction (the snapshot is compacted); distinct = distinct op sequence",
		Gen:  c10Gen,
		Exec: snapExec,
	})
}
