package main

import (
	"fmt"
	"math/rand"
	"regexp"
	"strconv"
	"strings"

	"github.com/hashicorp/serf/cmd/serf/command/agent"
	"github.com/hashicorp/serf/serf"
)

// C26: member filter. Ops `filter …` and `rx …` (formats: lean/SerfModel/Check/C26.lean).

const c26Template = "^(?:%s)$" // the documented anchoring; the source's template is checked by Gen/AnchorTemplate

var c26Status = map[string]serf.MemberStatus{
	"none": serf.StatusNone, "alive": serf.StatusAlive, "leaving": serf.StatusLeaving,
	"left": serf.StatusLeft, "failed": serf.StatusFailed,
}
var c26StatusNames = []string{"alive", "alive", "alive", "leaving", "left", "failed", "none"}

type c26Member struct {
	name, status string
	tags         [][2]string
}

// ---- truth table of Go's regexp (the oracle)

func c26FullMatch(re *regexp.Regexp, v string) bool {
	loc := re.FindStringIndex(v) // re is in leftmost-longest mode
	return loc != nil && loc[0] == 0 && loc[1] == len(v)
}

func c26PatTok(p string, vals []string) string {
	wre, werr := regexp.Compile(fmt.Sprintf(c26Template, p))
	re, err := regexp.Compile(p)
	if err == nil {
		re.Longest()
	}
	b := func(x bool) string {
		if x {
			return "1"
		}
		return "0"
	}
	wm, fm := "", ""
	for _, v := range vals {
		wm += b(werr == nil && wre.MatchString(v))
		fm += b(err == nil && c26FullMatch(re, v))
	}
	if len(vals) == 0 {
		wm, fm = "_", "_"
	}
	return hexs(p) + "~" + b(werr == nil) + b(err == nil) + "~" + wm + "~" + fm
}

func c26FilterOp(ms []c26Member, tags [][2]string, status, name string) string {
	var mt []string
	var names, statuses []string
	for _, m := range ms {
		tg := "_"
		if len(m.tags) > 0 {
			var ps []string
			for _, t := range m.tags {
				ps = append(ps, hexs(t[0])+":"+hexs(t[1]))
			}
			tg = strings.Join(ps, ";")
		}
		mt = append(mt, hexs(m.name)+"/"+m.status+"/"+tg)
		names = append(names, m.name)
		statuses = append(statuses, m.status)
	}
	msTok := "_"
	if len(mt) > 0 {
		msTok = strings.Join(mt, ",")
	}
	tagTok := "_"
	if len(tags) > 0 {
		var ts []string
		for _, t := range tags {
			var vals []string
			for _, m := range ms {
				v := ""
				for _, mtg := range m.tags {
					if mtg[0] == t[0] {
						v = mtg[1]
					}
				}
				vals = append(vals, v)
			}
			ts = append(ts, hexs(t[0])+"="+c26PatTok(t[1], vals))
		}
		tagTok = strings.Join(ts, ";")
	}
	return fmt.Sprintf("filter %s %s %s %s", msTok, tagTok, c26PatTok(status, statuses), c26PatTok(name, names))
}

// ---- regex ASTs (for the rx op and for random patterns)

type c26Node struct {
	op   string // C A S P O G H E B Z D c k
	kids []*c26Node
	ch   rune
	neg  bool
	rng  [][2]rune
}

func (n *c26Node) tokens(out *[]string) {
	switch n.op {
	case "c":
		*out = append(*out, "c"+strconv.Itoa(int(n.ch)))
	case "k":
		s := "k0"
		if n.neg {
			s = "k1"
		}
		for _, r := range n.rng {
			s += fmt.Sprintf(":%d-%d", r[0], r[1])
		}
		*out = append(*out, s)
	default:
		*out = append(*out, n.op)
	}
	for _, k := range n.kids {
		k.tokens(out)
	}
}

func c26Esc(r rune) string { return fmt.Sprintf(`\x{%X}`, r) }

func (n *c26Node) atom() bool {
	return n.op == "c" || n.op == "k" || n.op == "D" || n.op == "G" || n.op == "H"
}

func (n *c26Node) re2() string {
	switch n.op {
	case "E":
		return ""
	case "c":
		return c26Esc(n.ch)
	case "D":
		return "."
	case "k":
		s := "["
		if n.neg {
			s += "^"
		}
		for _, r := range n.rng {
			s += c26Esc(r[0]) + "-" + c26Esc(r[1])
		}
		return s + "]"
	case "B":
		return "^"
	case "Z":
		return "$"
	case "G":
		return "(?:" + n.kids[0].re2() + ")"
	case "H":
		return "(" + n.kids[0].re2() + ")"
	case "A":
		return n.kids[0].re2() + "|" + n.kids[1].re2()
	case "C":
		p := func(k *c26Node) string {
			if k.op == "A" {
				return "(?:" + k.re2() + ")"
			}
			return k.re2()
		}
		return p(n.kids[0]) + p(n.kids[1])
	case "S", "P", "O":
		q := map[string]string{"S": "*", "P": "+", "O": "?"}[n.op]
		k := n.kids[0]
		if k.atom() {
			return k.re2() + q
		}
		return "(?:" + k.re2() + ")" + q
	}
	return "?!"
}

var c26Alpha = []rune{'a', 'b', 'x', '-', '1'}

func c26RandAst(rng *rand.Rand, depth int) *c26Node {
	if depth <= 0 || rng.Intn(4) == 0 {
		switch r := rng.Intn(12); {
		case r < 6:
			return &c26Node{op: "c", ch: c26Alpha[rng.Intn(len(c26Alpha))]}
		case r == 6:
			return &c26Node{op: "D"}
		case r == 7:
			return &c26Node{op: "E"}
		case r == 8:
			return &c26Node{op: "B"}
		case r == 9:
			return &c26Node{op: "Z"}
		default:
			n := &c26Node{op: "k", neg: rng.Intn(3) == 0}
			for i := 0; i <= rng.Intn(2); i++ {
				lo := c26Alpha[rng.Intn(len(c26Alpha))]
				hi := lo + rune(rng.Intn(3))
				n.rng = append(n.rng, [2]rune{lo, hi})
			}
			return n
		}
	}
	switch r := rng.Intn(10); {
	case r < 3:
		return &c26Node{op: "C", kids: []*c26Node{c26RandAst(rng, depth-1), c26RandAst(rng, depth-1)}}
	case r < 6:
		return &c26Node{op: "A", kids: []*c26Node{c26RandAst(rng, depth-1), c26RandAst(rng, depth-1)}}
	case r == 6:
		return &c26Node{op: "S", kids: []*c26Node{c26RandAst(rng, depth-1)}}
	case r == 7:
		return &c26Node{op: "P", kids: []*c26Node{c26RandAst(rng, depth-1)}}
	case r == 8:
		return &c26Node{op: "O", kids: []*c26Node{c26RandAst(rng, depth-1)}}
	default:
		op := "G"
		if rng.Intn(2) == 0 {
			op = "H"
		}
		return &c26Node{op: op, kids: []*c26Node{c26RandAst(rng, depth-1)}}
	}
}

// sample returns a word the regex matches when anchors are ignored.
func (n *c26Node) sample(rng *rand.Rand) string {
	switch n.op {
	case "c":
		return string(n.ch)
	case "D":
		return string(c26Alpha[rng.Intn(len(c26Alpha))])
	case "k":
		if n.neg {
			return "z"
		}
		r := n.rng[rng.Intn(len(n.rng))]
		return string(r[0] + rune(rng.Intn(int(r[1]-r[0])+1)))
	case "C":
		return n.kids[0].sample(rng) + n.kids[1].sample(rng)
	case "A":
		return n.kids[rng.Intn(2)].sample(rng)
	case "S", "P", "O":
		k := rng.Intn(3)
		if n.op == "P" && k == 0 {
			k = 1
		}
		if n.op == "O" && k > 1 {
			k = 1
		}
		s := ""
		for i := 0; i < k; i++ {
			s += n.kids[0].sample(rng)
		}
		return s
	case "G", "H":
		return n.kids[0].sample(rng)
	}
	return ""
}

func c26ParseAst(toks []string) (*c26Node, []string, bool) {
	if len(toks) == 0 {
		return nil, nil, false
	}
	t, rest := toks[0], toks[1:]
	switch t {
	case "C", "A":
		l, rest, ok := c26ParseAst(rest)
		if !ok {
			return nil, nil, false
		}
		r, rest, ok := c26ParseAst(rest)
		if !ok {
			return nil, nil, false
		}
		return &c26Node{op: t, kids: []*c26Node{l, r}}, rest, true
	case "S", "P", "O", "G", "H":
		k, rest, ok := c26ParseAst(rest)
		if !ok {
			return nil, nil, false
		}
		return &c26Node{op: t, kids: []*c26Node{k}}, rest, true
	case "E", "B", "Z", "D":
		return &c26Node{op: t}, rest, true
	}
	if strings.HasPrefix(t, "c") {
		n, err := strconv.Atoi(t[1:])
		if err != nil {
			return nil, nil, false
		}
		return &c26Node{op: "c", ch: rune(n)}, rest, true
	}
	if strings.HasPrefix(t, "k") && len(t) > 2 {
		parts := strings.Split(t[1:], ":")
		n := &c26Node{op: "k", neg: parts[0] == "1"}
		for _, p := range parts[1:] {
			lh := strings.SplitN(p, "-", 2)
			if len(lh) != 2 {
				return nil, nil, false
			}
			lo, e1 := strconv.Atoi(lh[0])
			hi, e2 := strconv.Atoi(lh[1])
			if e1 != nil || e2 != nil {
				return nil, nil, false
			}
			n.rng = append(n.rng, [2]rune{rune(lo), rune(hi)})
		}
		if len(n.rng) == 0 {
			return nil, nil, false
		}
		return n, rest, true
	}
	return nil, nil, false
}

// ---- executor

func c26Bits(l []bool) string {
	if len(l) == 0 {
		return "_"
	}
	s := ""
	for _, b := range l {
		if b {
			s += "1"
		} else {
			s += "0"
		}
	}
	return s
}

func c26PatOf(tok string) (string, bool) {
	i := strings.Index(tok, "~")
	if i < 0 {
		return "", false
	}
	b := unhex(tok[:i])
	if b == nil {
		return "", false
	}
	return string(b), true
}

func c26Exec(ops []string) []string {
	var outs []string
	for _, o := range ops {
		f := strings.Fields(o)
		switch {
		case len(f) == 5 && f[0] == "filter":
			outs = append(outs, c26ExecFilter(f))
		case len(f) == 3 && f[0] == "rx":
			n, rest, ok := c26ParseAst(strings.Split(f[1], ","))
			if !ok || len(rest) != 0 {
				outs = append(outs, "bad-op")
				continue
			}
			pat := n.re2()
			re, err := regexp.Compile(pat)
			wre, werr := regexp.Compile(fmt.Sprintf(c26Template, pat))
			if err != nil || werr != nil {
				outs = append(outs, "compile-error:"+hexs(pat))
				continue
			}
			var s, fl []bool
			bad := false
			for _, hw := range strings.Split(f[2], ",") {
				w := unhex(hw)
				if w == nil {
					bad = true
					break
				}
				s = append(s, re.MatchString(string(w)))
				fl = append(fl, wre.MatchString(string(w)))
			}
			if bad {
				outs = append(outs, "bad-op")
				continue
			}
			outs = append(outs, c26Bits(s)+" "+c26Bits(fl))
		default:
			outs = append(outs, "bad-op")
		}
	}
	return outs
}

func c26ExecFilter(f []string) string {
	var members []serf.Member
	if f[1] != "_" {
		for _, mt := range strings.Split(f[1], ",") {
			p := strings.Split(mt, "/")
			if len(p) != 3 {
				return "bad-op"
			}
			nb := unhex(p[0])
			st, ok := c26Status[p[1]]
			if nb == nil || !ok {
				return "bad-op"
			}
			m := serf.Member{Name: string(nb), Status: st}
			if p[2] != "_" {
				m.Tags = map[string]string{}
				for _, kv := range strings.Split(p[2], ";") {
					x := strings.SplitN(kv, ":", 2)
					if len(x) != 2 {
						return "bad-op"
					}
					k, v := unhex(x[0]), unhex(x[1])
					if k == nil || v == nil {
						return "bad-op"
					}
					m.Tags[string(k)] = string(v)
				}
			}
			members = append(members, m)
		}
	}
	tags := map[string]string{}
	if f[2] != "_" {
		for _, t := range strings.Split(f[2], ";") {
			x := strings.SplitN(t, "=", 2)
			if len(x) != 2 {
				return "bad-op"
			}
			k := unhex(x[0])
			p, ok := c26PatOf(x[1])
			if k == nil || !ok {
				return "bad-op"
			}
			tags[string(k)] = p
		}
	}
	status, ok1 := c26PatOf(f[3])
	name, ok2 := c26PatOf(f[4])
	if !ok1 || !ok2 {
		return "bad-op"
	}
	res, err := agent.VerifFilterMembers(members, tags, status, name)
	if err != nil {
		if res != nil {
			return "err-with-list"
		}
		return "err"
	}
	if len(res) == 0 {
		return "_"
	}
	var ns []string
	for _, m := range res {
		ns = append(ns, hexs(m.Name))
	}
	return strings.Join(ns, ",")
}

// ---- generator

var (
	c26Names    = []string{"foo", "foo-1", "xbar", "bar", "a", "ax", "b", "xb", "node.1", "Foo", "", "a\nb", "foobar", "ab", "1"}
	c26TagKeys  = []string{"role", "dc", ""}
	c26TagVals  = []string{"web", "db", "", "web-1", "a|b", "a", "xweb"}
	c26NamePats = []string{"foo", "bar", "foo|bar", "a|b", "|a", "a|", "^foo", "foo$", "^foo$", "^a|b$", "[a-f]+", "fo+", "foo-[0-9]", "[^x]*", ".",
		"a*", "(a|b)x?", "fo{2}", ".*", ".+", "x*", "(?i)FOO", "(?m)^a$", "(?s)a.b", "a.b", "node.1", `node\.1`, "foo.*", ".*bar", "f|foobar", "(foo|bar)", "(?:a|b)|x",
		"(", "[a", "*", "a)", "a)|(?:b", "x)|(?:", `\`, "a{2,1}", "(?P<n>", "foo)|(?:bar", "+", "a**", ")(", `a\`, "(?i",
		// regexp syntax that consists of backslash escapes only (no other metacharacter)
		`foo-\d`, `\Qfoo-1\E`, `\x66oo`, `a\w`, `\Qnode.1\E`, `x\Sar`, `\pL`, `foo\b`, `\Afoo`, `foo\z`, `\D`}
	c26StatusPats = []string{"", "", "", "alive", "alive|left", "l.*", "fail", "failed|leaving", "(", "a", "live", "^left$", "alive)|(?:x", ".*", "none", `aliv\w`, `le\Dt`, `\Qfailed\E`}
	c26TagPats    = []string{"web", "web|db", "", "w.*", "db|", "(", "a|b", `a\|b`, "web-[0-9]", "[a", "web)|(?:x", ".+", "x?web", "eb", `we\w`, `\Qweb\E`, `web-\d`, `\x61`}
)

func c26HasOp(p string) bool { return strings.ContainsAny(p, "|*+?.[(^$\\{") }

func c26Gen(rng *rand.Rand, tier string) []Case {
	var out []Case
	id := 0
	add := func(tag string, nt bool, op string) {
		out = append(out, Case{ID: fmt.Sprintf("%s%d", tag, id), Ops: []string{op}, Nontrivial: nt, Tags: []string{tag}})
		id++
	}
	mk := func(names ...string) []c26Member {
		var ms []c26Member
		for _, n := range names {
			ms = append(ms, c26Member{name: n, status: "alive"})
		}
		return ms
	}
	// systematic: every name pattern of the pool against the whole name pool; every status pattern; every tag pattern
	all := mk(c26Names...)
	for i := range all {
		all[i].status = c26StatusNames[i%len(c26StatusNames)]
		all[i].tags = [][2]string{{"role", c26TagVals[i%len(c26TagVals)]}}
		if i%4 == 3 {
			all[i].tags = nil
		}
	}
	// small member sets first, so that the first failing case of a class is a small one
	for _, p := range c26NamePats {
		add("name", c26HasOp(p), c26FilterOp(mk("a", "ax", "xb", "b"), nil, "", p))
		add("name", c26HasOp(p), c26FilterOp(mk("foo", "foo-1", "xbar", "bar"), nil, "", p))
	}
	small := []c26Member{{name: "n1", status: "alive", tags: [][2]string{{"role", "web"}}}, {name: "n2", status: "left", tags: [][2]string{{"role", "xweb-1"}}},
		{name: "n3", status: "failed"}, {name: "n4", status: "leaving", tags: [][2]string{{"role", "a"}}}, {name: "n5", status: "alive", tags: [][2]string{{"role", "ax"}}}}
	for _, p := range c26StatusPats {
		add("status", c26HasOp(p), c26FilterOp(small, nil, p, ""))
	}
	for _, p := range c26TagPats {
		add("tag", c26HasOp(p), c26FilterOp(small, [][2]string{{"role", p}}, "", ""))
	}
	for _, p := range c26NamePats {
		add("name", c26HasOp(p), c26FilterOp(all, nil, "", p))
	}
	for _, p := range c26StatusPats {
		add("status", c26HasOp(p), c26FilterOp(all, nil, p, ""))
	}
	for _, p := range c26TagPats {
		add("tag", c26HasOp(p), c26FilterOp(all, [][2]string{{"role", p}}, "", ""))
		add("tag", c26HasOp(p), c26FilterOp(all, [][2]string{{"dc", p}}, "", "")) // tag missing everywhere: value ""
	}
	add("name", false, c26FilterOp(nil, nil, "", "("))
	add("name", false, c26FilterOp(nil, nil, "", ""))
	nF, nR := 1200, 500
	if tier == "thorough" {
		nF, nR = 60000, 20000
	}
	for i := 0; i < nF; i++ {
		var ms []c26Member
		for j, n := 0, rng.Intn(7); j < n; j++ {
			m := c26Member{name: c26Names[rng.Intn(len(c26Names))], status: c26StatusNames[rng.Intn(len(c26StatusNames))]}
			for _, k := range c26TagKeys {
				if rng.Intn(2) == 0 {
					m.tags = append(m.tags, [2]string{k, c26TagVals[rng.Intn(len(c26TagVals))]})
				}
			}
			ms = append(ms, m)
		}
		pick := func(pool []string) string {
			if rng.Intn(4) == 0 {
				return c26RandAst(rng, 3).re2()
			}
			return pool[rng.Intn(len(pool))]
		}
		name := ""
		if rng.Intn(4) != 0 {
			name = pick(c26NamePats)
		}
		status := c26StatusPats[rng.Intn(len(c26StatusPats))]
		var tags [][2]string
		perm := rng.Perm(len(c26TagKeys))
		for j, n := 0, rng.Intn(3); j < n; j++ {
			tags = append(tags, [2]string{c26TagKeys[perm[j]], pick(c26TagPats)})
		}
		nt := len(ms) >= 2 && (c26HasOp(name) || c26HasOp(status) || len(tags) > 0)
		add("rfilter", nt, c26FilterOp(ms, tags, status, name))
	}
	for i := 0; i < nR; i++ {
		n := c26RandAst(rng, 1+rng.Intn(4))
		var toks []string
		n.tokens(&toks)
		var words []string
		for j := 0; j < 4; j++ {
			words = append(words, hexs(n.sample(rng)))
		}
		for j := 0; j < 5; j++ {
			w := ""
			for k, l := 0, rng.Intn(5); k < l; k++ {
				if rng.Intn(15) == 0 {
					w += "\n"
				} else {
					w += string(c26Alpha[rng.Intn(len(c26Alpha))])
				}
			}
			words = append(words, hexs(w))
		}
		// a sampled word with a prefix / suffix: search may succeed where the full match must not
		words = append(words, hexs("x"+n.sample(rng)), hexs(n.sample(rng)+"x"))
		add("rx", len(toks) >= 3, fmt.Sprintf("rx %s %s", strings.Join(toks, ","), strings.Join(words, ",")))
	}
	return out
}

func init() {
	register(&Prop{
		ID: "C26",
		Rule: "filter: every pattern of a pool (literals, alternations incl. empty branches, anchors, classes, quantifiers, flags, invalid patterns, group-escaping patterns, empty) × a pool of member names / statuses / tag values (missing tags, empty values, a name with a newline), then random requests (0–6 members, 0–2 tag filters, status, name; 1 in 4 patterns printed from a random AST) on the real filterMembers, with Go's regexp truth table per pattern; " +
			"rx: random regex ASTs (depth ≤ 4: char, any, class, cat, alt, star, plus, opt, capturing and non-capturing group, anchors, empty) printed in RE2 syntax vs regexp.MatchString and the ^(?:…)$ wrapping on sampled matching words, random words, and sampled words with a prefix/suffix; " +
			"non-trivial = pattern with an operator and ≥ 2 members (filter), ≥ 3 AST nodes (rx); distinct = distinct op line",
		Gen:  c26Gen,
		Exec: c26Exec,
	})
}
