package main

import (
	"fmt"
	"math/rand"
	"strings"
)

// C03: a running member never reports itself departed and refutes newer claims. Executor: node.go.

var c03Profile = nodeProfile{nj: 6, nl: 3, nu: 1, mj: 8, ml: 24, mg: 12, fl: 10, oj: 4, lv: 1, sd: 1, rp: 3, ls: 0,
	selfBias: 7, pruneBias: 4, maxLen: 20}

// c03Directed: claims about the local node at times around its own status time and clock.
func c03Directed(rng *rand.Rand, id string) Case {
	var ops []string
	cur := uint64(0) // lower bound of the node's status time so far
	self := hexs(nodeSelf)
	for j, k := 0, 3+rng.Intn(8); j < k; j++ {
		var lt uint64
		switch rng.Intn(8) {
		case 0:
			lt = cur // not newer
		case 1:
			if cur > 0 {
				lt = cur - 1
			}
		case 2, 3:
			lt = cur + 1
		case 4:
			lt = cur + 2 + uint64(rng.Intn(50))
		case 5:
			lt = uint64(rng.Int63())
		case 6:
			lt = 1<<64 - 2
		default:
			lt = cur + uint64(rng.Intn(3))
		}
		switch rng.Intn(7) {
		case 0, 1, 2:
			ops = append(ops, fmt.Sprintf("ml %s %d %d", self, lt, rng.Intn(2)))
		case 3:
			ops = append(ops, fmt.Sprintf("fl %s %d", self, rng.Intn(2)))
		case 4:
			if lt > 0 {
				ops = append(ops, fmt.Sprintf("mg %d %s:%d %s", rng.Intn(int(lt%1000)+1), self, lt-1, self))
			}
		case 5:
			ops = append(ops, fmt.Sprintf("mj %s %d", self, lt))
		default:
			ops = append(ops, []string{"oj", "nj " + hexs("a"), "nj " + self, "rp 9 -", "nu " + self}[rng.Intn(5)])
		}
		if lt > cur && lt < 1<<63 {
			cur = lt + 1
		}
	}
	return Case{ID: id, Ops: ops, Tags: []string{"directed-self-claims"}}
}

func c03Gen(rng *rand.Rand, tier string) []Case {
	nd, nr := 200, 200
	if tier == "thorough" {
		nd, nr = 8000, 8000
	}
	var out []Case
	for i := 0; i < nd; i++ {
		out = append(out, c03Directed(rng, fmt.Sprintf("d%d", i)))
	}
	for i := 0; i < nr; i++ {
		out = append(out, nodeRandomCase(rng, c03Profile, fmt.Sprintf("r%d", i)))
	}
	// two different claims about the running node back to back (the second at or above the first
	// refutation's time), as the last op of a short life without leave/shutdown
	for i := 0; i < nd/8+3; i++ {
		a := uint64(2 + rng.Intn(30))
		b := a + 2 + uint64(rng.Intn(8)) // above the first refutation's join time (a+1), so it needs a refutation of its own
		out = append(out, Case{ID: fmt.Sprintf("b%d", i), Ops: []string{fmt.Sprintf("ml2 %d %d %d", a, b, rng.Intn(2))}, Tags: []string{"back-to-back-claims"}})
	}
	// claims about the local node delivered while a Join() call is in flight (each costs ~0.4 s of wall time)
	nj := 8
	if tier == "thorough" {
		nj = 60
	}
	for i := 0; i < nj; i++ {
		var ops []string
		cur := uint64(0)
		for j, k := 0, rng.Intn(3); j < k; j++ {
			switch rng.Intn(3) {
			case 0:
				ops = append(ops, "nj "+hexs("a"))
			case 1:
				t := cur + 1 + uint64(rng.Intn(5))
				ops = append(ops, fmt.Sprintf("mj %s %d", hexs(nodeSelf), t))
				cur = t
			default:
				t := cur + 1 + uint64(rng.Intn(5))
				ops = append(ops, fmt.Sprintf("ml %s %d 0", hexs(nodeSelf), t))
				cur = t + 1
			}
		}
		lt := cur + uint64(rng.Intn(4)) // sometimes not newer, mostly newer
		if rng.Intn(4) > 0 {
			lt = cur + 1 + uint64(rng.Intn(20))
		}
		ops = append(ops, fmt.Sprintf("jl %d %d", lt, rng.Intn(2)))
		if rng.Intn(2) == 0 {
			ops = append(ops, fmt.Sprintf("ml %s %d 0", hexs(nodeSelf), lt+2+uint64(rng.Intn(3))))
		}
		out = append(out, Case{ID: fmt.Sprintf("j%d", i), Ops: ops, Tags: []string{"claim-during-join"}})
	}
	self := hexs(nodeSelf)
	for i := range out {
		nt := false
		for _, o := range out[i].Ops {
			if strings.HasPrefix(o, "lv") || o == "sd" {
				break
			}
			f := strings.Fields(o)
			if f[0] == "ml2" {
				nt = true
				break
			}
			if f[0] == "jl" {
				nt = true
			}
			if (f[0] == "ml" || f[0] == "fl") && f[1] == self {
				nt = true
			}
			if f[0] == "mg" && strings.Contains(","+f[3]+",", ","+self+",") {
				nt = true
			}
		}
		out[i].Nontrivial = nt
	}
	return out
}

func init() {
	register(&Prop{
		ID: "C03",
		Rule: "one real serf node per case; claims about the local node delivered WHILE a Join() call to a mute TCP peer is in flight (8 quick / 60 thorough); directed: 3-10 claims about the local node (leave ± prune by gossip, force-leave, listed as left in a merge) at times ≤ own status time, +1, +k, random 63-bit, 2^64-2, interleaved with own joins, join intents about self, reaper ticks; " +
			"random: sequences biased to the local node as subject (70%) incl. 2^64-1, Leave and Shutdown; non-trivial = a leave claim about the local node before any Leave/Shutdown; distinct = distinct op sequence",
		Gen:  c03Gen,
		Exec: nodeExec,
	})
}
