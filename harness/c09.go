package main

import (
	"bufio"
	"fmt"
	"io"
	"math/rand"
	"net"
	"os"
	"os/exec"
	"path/filepath"
	"regexp"
	"runtime"
	"strconv"
	"strings"
	"sync"
	"sync/atomic"
	"time"

	"github.com/hashicorp/memberlist"
	"github.com/hashicorp/serf/serf"
)

// C09: no network input crashes a node.
//
// A case is a sequence of inputs for ONE real serf node.  The node lives in a
// worker child process (`harness C09W exec`); the executor streams the inputs to
// it one by one and reads one answer per input.  When the worker dies (a panic in
// a delegate call or in a goroutine it started) the executor re-runs the inputs in
// a fresh worker, waiting after every one, to attribute the crash to the exact
// input, reports `CRASH <function>` for it and carries on with a fresh worker.
// So a crash never takes the executor down and `./check --replay` / the shrinker
// work on single inputs.

const c09Self = "self"

type c09Merge struct{}

func (c09Merge) NotifyMerge([]*serf.Member) error { return nil }

type c09Worker struct {
	n       *testNode
	probeN  uint64
	userEvs sync.Map // probe name -> chan struct{}
	dir     string
	evCh    chan serf.Event
	baseG   int
}

var c09W *c09Worker
var c09Slow bool
var c09Zero bool

func c09Key() []byte { return []byte("0123456789abcdef") }

func c09NewWorker() (*c09Worker, error) {
	dir, err := os.MkdirTemp("", "c09-")
	if err != nil {
		return nil, err
	}
	w := &c09Worker{dir: dir}
	n, err := newTestNode(func(c *serf.Config) {
		c.NodeName = c09Self
		c.Tags = map[string]string{"role": "web", "dc": "east"}
		kr, _ := memberlist.NewKeyring(nil, c09Key())
		c.MemberlistConfig.Keyring = kr
		c.KeyringFile = filepath.Join(dir, "keyring.json")
		c.EnableNameConflictResolution = true
		c.DisableCoordinates = false
		c.Merge = c09Merge{}
		// both event coalescers sit between the handlers and the application
		c.CoalescePeriod, c.QuiescentPeriod = 2*time.Millisecond, time.Millisecond
		c.UserCoalescePeriod, c.UserQuiescentPeriod = 2*time.Millisecond, time.Millisecond
		c.EventBuffer = 4
		c.QueryBuffer = 4
		c.BroadcastTimeout = time.Millisecond
		c.LeavePropagateDelay = time.Millisecond
		c.MemberlistConfig.GossipInterval = 100 * time.Millisecond // nothing to gossip to; fewer timer wake-ups
		c.MemberlistConfig.ProbeInterval = time.Second
		c.QueryTimeoutMult = 2 // queries stay open for 200 ms
		if c09Slow {
			c.QueryTimeoutMult = 100
		}
		if c09Zero {
			c.EventBuffer, c.QueryBuffer = 0, 0
		}
		c.MemberlistConfig.BindPort = 0 // any free port: workers of parallel runs share the loopback addresses
		w.evCh = make(chan serf.Event, 1<<14)
		c.EventCh = w.evCh
	})
	if err != nil {
		return nil, err
	}
	w.n = n
	return w, nil
}

// pump consumes the node's event channel: answers queries like an application
// would and signals probe events.
func (w *c09Worker) pump(ch <-chan serf.Event) {
	for e := range ch {
		switch x := e.(type) {
		case *serf.Query:
			_ = x.Respond([]byte("r"))
		case serf.UserEvent:
			if c, ok := w.userEvs.Load(x.Name); ok {
				select {
				case c.(chan struct{}) <- struct{}{}:
				default:
				}
			}
		}
	}
}

func c09Node(name string, addr, meta []byte, port uint16, state int) *memberlist.Node {
	return &memberlist.Node{Name: name, Addr: net.IP(addr), Port: port, Meta: meta, State: memberlist.NodeStateType(state),
		PMin: 1, PMax: 5, PCur: 2, DMin: 2, DMax: 5, DCur: 5}
}

func c09Args(f []string, n int) ([][]byte, bool) {
	if len(f) != n {
		return nil, false
	}
	out := make([][]byte, n)
	for i, s := range f {
		b := unhex(s)
		if b == nil {
			return nil, false
		}
		out[i] = b
	}
	return out, true
}

// one input.  Fields: inj <entry> <args…>
func (w *c09Worker) inject(f []string) string {
	if len(f) < 2 {
		return "bad-op"
	}
	c := w.n.Conf.MemberlistConfig
	s := w.n.S
	switch f[1] {
	case "msg":
		a, ok := c09Args(f[2:], 1)
		if !ok {
			return "bad-op"
		}
		c.Delegate.NotifyMsg(a[0])
	case "merge0", "merge1":
		a, ok := c09Args(f[2:], 1)
		if !ok {
			return "bad-op"
		}
		c.Delegate.MergeRemoteState(a[0], f[1] == "merge1")
	case "state":
		_ = c.Delegate.LocalState(false)
		_ = c.Delegate.NodeMeta(memberlist.MetaMaxSize)
		_ = c.Delegate.GetBroadcasts(2, 1400)
		_ = c.Ping.AckPayload()
	case "ping": // ping <rtt ns> <name> <payload>
		if len(f) != 5 {
			return "bad-op"
		}
		rtt, err := strconv.ParseInt(f[2], 10, 64)
		a, ok := c09Args(f[3:], 2)
		if err != nil || !ok {
			return "bad-op"
		}
		c.Ping.NotifyPingComplete(c09Node(string(a[0]), []byte{127, 0, 0, 9}, nil, 7946, 0), time.Duration(rtt), a[1])
	case "join", "update", "leave", "nmerge", "nalive", "conflict": // <name> <addr> <meta> <port> <state>
		if len(f) != 7 {
			return "bad-op"
		}
		a, ok := c09Args(f[2:5], 3)
		port, e1 := strconv.Atoi(f[5])
		st, e2 := strconv.Atoi(f[6])
		if !ok || e1 != nil || e2 != nil {
			return "bad-op"
		}
		nd := c09Node(string(a[0]), a[1], a[2], uint16(port), st)
		switch f[1] {
		case "join":
			c.Events.NotifyJoin(nd)
		case "update":
			c.Events.NotifyUpdate(nd)
		case "leave":
			c.Events.NotifyLeave(nd)
		case "nmerge":
			_ = c.Merge.NotifyMerge([]*memberlist.Node{nd, c09Node("m2", []byte{10, 0, 0, 2}, a[2], 1, 0)})
		case "nalive":
			_ = c.Alive.NotifyAlive(nd)
		case "conflict":
			if nd.Name == c09Self {
				nd.Name = "not-" + c09Self // the vote on our own name is the separate entry `selfconflict`
			}
			c.Conflict.NotifyConflict(nd, c09Node(string(a[0]), []byte{10, 9, 9, 9}, nil, 9, 0))
		}
	case "wrapevent", "wrapquery": // a message at Lamport time 2^64-1 (Witness wraps the clock to 0)
		msg := encodeWire(msgUserEventType, &wireUserEvent{LTime: ^uint64(0), Name: "wrap"})
		if f[1] == "wrapquery" {
			msg = encodeWire(msgQueryType, &wireQuery{LTime: ^uint64(0), ID: 1, Name: "wrap"})
		}
		res := "ok"
		func() {
			defer func() {
				if r := recover(); r != nil {
					res = "PANIC " + fmt.Sprint(r)
					if strings.Contains(fmt.Sprint(r), "integer divide by zero") {
						res = "divide-by-zero"
					}
				}
			}()
			c.Delegate.NotifyMsg(msg)
		}()
		return res
	case "closerace": // closerace <rounds> <feeders> <seed>: replies arrive while the application closes the query
		if len(f) != 5 {
			return "bad-op"
		}
		rounds, e1 := strconv.Atoi(f[2])
		feeders, e2 := strconv.Atoi(f[3])
		seed, e3 := strconv.ParseInt(f[4], 10, 64)
		if e1 != nil || e2 != nil || e3 != nil || rounds < 0 || feeders < 1 || feeders > 64 {
			return "bad-op"
		}
		return w.closeRace(rounds, feeders, seed)
	case "qlocal": // the application issues a query: <name> <payload> <ack 0|1>; replies then come from the network
		if len(f) != 5 {
			return "bad-op"
		}
		a, ok := c09Args(f[2:4], 2)
		if !ok {
			return "bad-op"
		}
		p := s.DefaultQueryParams()
		p.RequestAck = f[4] == "1"
		if r, err := s.Query(string(a[0]), a[1], p); err == nil {
			go func() {
				for range r.ResponseCh() {
				}
			}()
			if ac := r.AckCh(); ac != nil {
				go func() {
					for range ac {
					}
				}()
			}
		}
	case "keyop": // the operator runs a key command; the replies are network input
		if len(f) != 3 {
			return "bad-op"
		}
		km := s.KeyManager()
		go func(k string) {
			switch k {
			case "list":
				_, _ = km.ListKeys()
			case "install":
				_, _ = km.InstallKey("MDEyMzQ1Njc4OWFiY2RlZg==")
			case "use":
				_, _ = km.UseKey("MDEyMzQ1Njc4OWFiY2RlZg==")
			default:
				_, _ = km.RemoveKey("ZmVkY2JhOTg3NjU0MzIxMA==")
			}
		}(f[2])
		w.waitOpen(1)
	case "respopen": // a reply for every open query: <flags> <from> <payload>
		if len(f) != 5 {
			return "bad-op"
		}
		fl, err := strconv.ParseUint(f[2], 10, 32)
		a, ok := c09Args(f[3:], 2)
		if err != nil || !ok {
			return "bad-op"
		}
		for _, q := range serf.VerifOpenQueries(s) {
			c.Delegate.NotifyMsg(encodeWire(msgQueryResponseType, &wireQueryResponse{LTime: uint64(q.LTime), ID: q.ID, From: string(a[0]), Flags: uint32(fl), Payload: a[1]}))
		}
	case "selfconflict": // another node claims our name; the vote gets one valid matching reply, then the given payloads
		before := len(serf.VerifOpenQueries(s))
		c.Conflict.NotifyConflict(c09Node(c09Self, []byte{127, 0, 0, 1}, nil, 1, 0), c09Node(c09Self, []byte{10, 9, 9, 9}, nil, 9, 0))
		w.waitOpen(before + 1)
		local := s.Memberlist().LocalNode()
		match := encodeWire(6, &wireMember{Name: c09Self, Addr: local.Addr, Port: local.Port, Status: 1})
		pays := [][]byte{match}
		for _, h := range f[2:] {
			if b := unhex(h); b != nil {
				pays = append(pays, b)
			}
		}
		for i, p := range pays {
			for _, q := range serf.VerifOpenQueries(s) {
				c.Delegate.NotifyMsg(encodeWire(msgQueryResponseType, &wireQueryResponse{LTime: uint64(q.LTime), ID: q.ID, From: "v" + strconv.Itoa(i), Payload: p}))
			}
			time.Sleep(200 * time.Microsecond)
		}
	default:
		return "bad-op"
	}
	return "ok"
}

// closeRace: a schedule-dependent search.  `lanes` application goroutines work in parallel; per round each registers
// one query exactly as Serf.Query registers it (alternately with and without acks), a network goroutine delivers
// matching responses and acks for it through Delegate.NotifyMsg — what the memberlist packet handler does — and the
// application closes the query early with QueryResponse.Close() after a pseudo-random short delay.  Whatever the
// timing, late replies must be dropped; a panic of the delivering goroutine ("send on closed channel") is caught and
// reported with the round in which it happened.  `rounds` is the total over all lanes.
func (w *c09Worker) closeRace(rounds, lanes int, seed int64) string {
	s := w.n.S
	d := w.n.Conf.MemberlistConfig.Delegate
	// the worker normally runs on two processors; the race needs deliverer and closer truly in parallel
	defer runtime.GOMAXPROCS(runtime.GOMAXPROCS(2*lanes + 1))
	var failed atomic.Value
	var lanesWG sync.WaitGroup
	type job struct {
		seq         int64
		resp        *serf.QueryResponse
		plain, acks []byte
		sent        int32
	}
	for l := 0; l < lanes; l++ {
		lanesWG.Add(1)
		go func(l int) {
			defer lanesWG.Done()
			rng := rand.New(rand.NewSource(seed*64 + int64(l)))
			// the lane's network goroutine lives as long as the lane and spins between rounds, so that a round costs
			// microseconds (waking a parked goroutine would dominate it)
			var cur atomic.Pointer[job]
			var doneSeq, stop int64
			var period time.Duration
			netDone := make(chan struct{})
			go func() {
				defer close(netDone)
				last := int64(0)
				for atomic.LoadInt64(&stop) == 0 {
					j := cur.Load()
					if j == nil || j.seq == last {
						continue
					}
					last = j.seq
					func() {
						defer func() {
							if r := recover(); r != nil {
								failed.Store(fmt.Sprintf("%v round=%d", r, j.seq-1))
							}
						}()
						for n := 0; !j.resp.Finished(); n++ {
							if n%2 == 0 {
								d.NotifyMsg(j.plain)
							} else {
								d.NotifyMsg(j.acks)
							}
							atomic.AddInt32(&j.sent, 1)
						}
					}()
					atomic.StoreInt64(&doneSeq, j.seq)
				}
			}()
			for i := l; i < rounds && failed.Load() == nil; i += lanes {
				lt := serf.LamportTime(uint64(1)<<40 + uint64(seed&0xffff)<<22 + uint64(i))
				id := uint32(i + 1)
				resp := serf.VerifRegisterQuery(s, 8, lt, id, i%2 == 0, time.Minute)
				j := &job{seq: int64(i) + 1, resp: resp, plain: serf.VerifEncodeQueryResponse(lt, id, "n1", false, []byte("x")),
					acks: serf.VerifEncodeQueryResponse(lt, id, "n1", true, nil)}
				cur.Store(j)
				// Watch the deliveries go by (their period is learnt across rounds) and aim the Close at the end of a
				// delivery, where the handler decides whether the query is still open: most rounds close within the last
				// few microseconds of the expected period, the rest anywhere in it.
				want := int32(1 + rng.Intn(3))
				seen, tLast := int32(0), time.Now()
				for dl := tLast.Add(5 * time.Second); seen < want && failed.Load() == nil; {
					if c := atomic.LoadInt32(&j.sent); c != seen {
						now := time.Now()
						if seen > 0 && c == seen+1 {
							if d := now.Sub(tLast); period == 0 {
								period = d
							} else {
								period += (d - period) / 8
							}
						}
						seen, tLast = c, now
					} else if time.Now().After(dl) {
						break
					}
				}
				if period > 0 {
					off := period - time.Duration(rng.Int63n(int64(period/8)+1))
					if rng.Intn(4) == 0 {
						off = time.Duration(rng.Int63n(int64(period) + 1))
					}
					for time.Since(tLast) < off {
					}
				}
				resp.Close() // the application is done with the query
				for dl := time.Now().Add(5 * time.Second); atomic.LoadInt64(&doneSeq) != j.seq && time.Now().Before(dl); {
				}
				serf.VerifCloseQuery(s, resp)
			}
			atomic.StoreInt64(&stop, 1)
			<-netDone
		}(l)
	}
	lanesWG.Wait()
	if v := failed.Load(); v != nil {
		msg := v.(string)
		if strings.Contains(msg, "send on closed channel") {
			return "send-on-closed-channel " + msg[strings.Index(msg, "round="):]
		}
		return "PANIC " + msg
	}
	return "ok"
}

func (w *c09Worker) waitOpen(n int) {
	dl := time.Now().Add(5 * time.Second)
	for len(serf.VerifOpenQueries(w.n.S)) < n && time.Now().Before(dl) {
		time.Sleep(200 * time.Microsecond)
	}
}

// alive: the node still serves — Members/Stats/State answer, and a fresh user event
// injected through NotifyMsg reaches the application.
func (w *c09Worker) alive() string {
	s := w.n.S
	res := make(chan string, 1)
	go func() {
		ms := s.Members()
		found := false
		for _, m := range ms {
			_ = m.Status.String()
			if m.Name == c09Self {
				found = true
			}
		}
		st := s.Stats()
		if !found {
			res <- "self-missing"
			return
		}
		if _, ok := st["members"]; !ok {
			res <- "stats-missing"
			return
		}
		if s.State() != serf.SerfAlive {
			res <- "state-" + s.State().String()
			return
		}
		if c09Zero || w.probe(20*time.Second) { // with zero-size buffers no user event is ever delivered (every one is "too old")
			res <- "serving"
		} else {
			res <- "probe-event-not-delivered"
		}
	}()
	select {
	case r := <-res:
		return r
	case <-time.After(40 * time.Second):
		return "hang"
	}
}

// probe: a fresh user event injected through NotifyMsg comes out at the application.  Events pass the
// internal-query stage in order, so once the probe is out every earlier query has been dispatched.
func (w *c09Worker) probe(d time.Duration) bool {
	lt, _ := strconv.ParseUint(w.n.S.Stats()["event_time"], 10, 64)
	if lt > 1<<63 { // the inputs drove the event clock near its top: a later time does not exist
		time.Sleep(20 * time.Millisecond)
		return true
	}
	w.probeN++
	name := fmt.Sprintf("c09probe%d", w.probeN)
	c := make(chan struct{}, 1)
	w.userEvs.Store(name, c)
	defer w.userEvs.Delete(name)
	w.n.Conf.MemberlistConfig.Delegate.NotifyMsg(encodeWire(msgUserEventType, &wireUserEvent{LTime: lt + 1, Name: name}))
	select {
	case <-c:
		return true
	case <-time.After(d):
		return false
	}
}

// The worker plug-in: every input arrives as its own `case`, the node is process-global.
func c09WorkerExec(ops []string) []string {
	outs := make([]string, 0, len(ops))
	for _, o := range ops {
		if o == "inj slowquery" {
			// before the node exists: queries stay open for 10 s, so that a loaded machine cannot make the
			// harness miss the reply window of the name-conflict vote
			c09Slow = c09W == nil
			outs = append(outs, "ok")
			continue
		}
		if o == "inj zerobuffers" {
			// before the node exists: EventBuffer = QueryBuffer = 0 (a configuration Create accepts)
			c09Zero = c09W == nil
			outs = append(outs, "ok")
			continue
		}
		if c09W == nil {
			w, err := c09NewWorker()
			for try := 0; err != nil && try < 20; try++ {
				time.Sleep(50 * time.Millisecond)
				w, err = c09NewWorker()
			}
			if err != nil {
				outs = append(outs, "setup-error "+strings.ReplaceAll(err.Error(), "\n", " "))
				continue
			}
			c09W = w
			go w.pump(w.evCh)
			time.Sleep(20 * time.Millisecond)
			w.baseG = runtime.NumGoroutine()
		}
		f := strings.Fields(o)
		switch {
		case len(f) == 0:
			outs = append(outs, "bad-op")
		case f[0] == "inj":
			outs = append(outs, c09W.inject(f))
		case f[0] == "settle":
			// wait until the goroutines started by earlier inputs are done (or the deadline passes)
			ms := 500
			if len(f) == 2 {
				ms, _ = strconv.Atoi(f[1])
			}
			if !c09Zero {
				c09W.probe(20 * time.Second)
			}
			dl := time.Now().Add(time.Duration(ms) * time.Millisecond)
			for runtime.NumGoroutine() > c09W.baseG && time.Now().Before(dl) {
				time.Sleep(300 * time.Microsecond)
			}
			outs = append(outs, "ok")
		case f[0] == "alive":
			outs = append(outs, c09W.alive())
		default:
			outs = append(outs, "bad-op")
		}
	}
	return outs
}

// ---------------------------------------------------------------- executor side

type c09Proc struct {
	cmd    *exec.Cmd
	in     io.WriteCloser
	out    *bufio.Scanner
	stderr *c09Tail
}

type c09Tail struct {
	mu  sync.Mutex
	buf []byte
}

func (t *c09Tail) Write(p []byte) (int, error) {
	t.mu.Lock()
	t.buf = append(t.buf, p...)
	if len(t.buf) > 1<<16 {
		t.buf = t.buf[len(t.buf)-1<<15:]
	}
	t.mu.Unlock()
	return len(p), nil
}

func c09Start() (*c09Proc, error) {
	self, _ := os.Executable()
	cmd := exec.Command(self, "C09W", "exec")
	cmd.Env = append(os.Environ(), "GOMEMLIMIT=2GiB", "GOTRACEBACK=single", "GOMAXPROCS=2")
	in, err := cmd.StdinPipe()
	if err != nil {
		return nil, err
	}
	out, err := cmd.StdoutPipe()
	if err != nil {
		return nil, err
	}
	t := &c09Tail{}
	cmd.Stderr = t
	if err := cmd.Start(); err != nil {
		return nil, err
	}
	sc := bufio.NewScanner(out)
	sc.Buffer(make([]byte, 1<<20), 1<<26)
	return &c09Proc{cmd: cmd, in: in, out: sc, stderr: t}, nil
}

var c09Frame = regexp.MustCompile(`github\.com/hashicorp/serf/(serf|coordinate)\.(\(\*?\w+\)\.\w+|\w+)`)

// site: the innermost serf/coordinate function on the panicking goroutine's stack.
func (p *c09Proc) site() string {
	p.stderr.mu.Lock()
	defer p.stderr.mu.Unlock()
	s := string(p.stderr.buf)
	if i := strings.Index(s, "panic:"); i >= 0 {
		s = s[i:]
	} else if i := strings.Index(s, "fatal error:"); i >= 0 {
		s = s[i:]
	}
	if m := c09Frame.FindStringSubmatch(s); m != nil {
		fn := strings.NewReplacer("(*", "", ")", "", "(", "").Replace(m[2])
		return m[1] + "." + fn
	}
	if strings.Contains(s, "panic:") || strings.Contains(s, "fatal error:") {
		return "outside-serf"
	}
	return "no-trace"
}

// c09Run feeds the inputs to a fresh worker and returns the answers received.  With settleFrom <
// len(ops) every input from that index on is followed by a settle (wait until the goroutines the
// input started are done), so that a crash in a goroutine lands on its own input; confirmed is then
// the number of leading inputs known to be harmless.
func c09Run(ops []string, settleFrom int) (answers []string, confirmed int, died bool, site string) {
	p, err := c09Start()
	if err != nil {
		return nil, 0, true, "worker-start-failed"
	}
	go func() {
		bw := bufio.NewWriterSize(p.in, 1<<16)
		for i, o := range ops {
			if strings.HasPrefix(o, "alive") && i < settleFrom {
				fmt.Fprintf(bw, "case %ds\nsettle 1500\n", i)
			}
			fmt.Fprintf(bw, "case %d\n%s\n", i, o)
			if i >= settleFrom {
				fmt.Fprintf(bw, "case %ds\nsettle 1500\n", i)
				bw.Flush()
			}
		}
		if settleFrom >= len(ops) {
			fmt.Fprintf(bw, "case ends\nsettle 1500\n")
		}
		bw.Flush()
		p.in.Close()
	}()
	confirmed = settleFrom
	if confirmed > len(ops) {
		confirmed = len(ops)
	}
	cur := ""
	for p.out.Scan() {
		l := p.out.Text()
		if strings.HasPrefix(l, "case ") {
			cur = l[5:]
			continue
		}
		i := strings.Index(l, " => ")
		if i < 0 {
			continue
		}
		if strings.HasSuffix(cur, "s") {
			if n, err := strconv.Atoi(strings.TrimSuffix(cur, "s")); err == nil && n >= settleFrom {
				confirmed = n + 1
			}
			continue
		}
		answers = append(answers, l[i+4:])
	}
	sawEnd := cur == "ends" || settleFrom < len(ops)
	err = p.cmd.Wait()
	if err != nil || len(answers) < len(ops) || !sawEnd {
		return answers, confirmed, true, p.site()
	}
	return answers, len(ops), false, ""
}

func c09Exec(ops []string) []string {
	outs := make([]string, len(ops))
	i, crashes := 0, 0
	for i < len(ops) {
		if crashes >= 5 {
			// enough failing inputs identified in this case; do not spend minutes on the rest
			for k := i; k < len(ops); k++ {
				outs[k] = "skipped-node-does-not-start"
			}
			break
		}
		seg := ops[i:]
		ans, _, died, site := c09Run(seg, len(seg))
		if !died {
			copy(outs[i:], ans)
			break
		}
		if len(ans) == 0 {
			// nothing was answered: does the node die on its own, before any input?
			if _, _, diedEmpty, siteEmpty := c09Run(nil, 0); diedEmpty {
				outs[i] = "CRASH " + siteEmpty + " (at start-up, before any input)"
				for k := i + 1; k < len(ops); k++ {
					outs[k] = "skipped-node-does-not-start"
				}
				break
			}
		}
		// crash: replay the segment up to the input that was in flight, settling after each of the last
		// 400 inputs, to find the exact one
		j := len(ans)
		if j >= len(seg) {
			j = len(seg) - 1
		}
		from := j - 400
		if from < 0 {
			from = 0
		}
		_, confirmed, died2, site2 := c09Run(seg[:j+1], from)
		culprit := j
		if died2 {
			site = site2
			if confirmed <= j {
				culprit = confirmed
			}
		} else {
			site += " (not reproduced when replayed with pauses)"
		}
		for k := 0; k < culprit; k++ {
			outs[i+k] = c09Out(seg[k])
		}
		outs[i+culprit] = "CRASH " + site
		i += culprit + 1
		crashes++
	}
	for k := range outs {
		if outs[k] == "" {
			outs[k] = "MISSING"
		}
	}
	return outs
}

func c09Out(op string) string {
	if strings.HasPrefix(op, "alive") {
		return "serving"
	}
	return "ok"
}

func init() {
	register(&Prop{ID: "C09W", Rule: "worker of C09 (one real node per process)", Gen: func(_ *rand.Rand, _ string) []Case { return nil }, Exec: c09WorkerExec})
	register(&Prop{
		ID: "C09",
		Rule: "one real serf node per case in a worker child process (coordinates, keyring + keyring file, name-conflict resolution, merge delegate, 4-slot event/query buffers), fed through " +
			"Delegate.NotifyMsg/MergeRemoteState/LocalState, Ping.NotifyPingComplete, Merge.NotifyMerge, Alive.NotifyAlive, Events.NotifyJoin/Update/Leave, Conflict.NotifyConflict, plus replies to " +
			"queries the node itself has open (application queries, key commands, the name-conflict vote); structure-aware cases: every message kind with arbitrary fields, filters, internal queries, " +
			"relay envelopes, push/pull bodies, ping payloads, metadata; byte-level cases: random strings and bit-flip/truncate/extend/splice mutations of valid encodings; every case ends with `alive` " +
			"(Members/Stats/State answer and a fresh user event is still delivered); close-race cases are a SCHEDULE-DEPENDENT search: per round a query is registered as Serf.Query does, a network goroutine delivers matching responses/acks through NotifyMsg while the application calls QueryResponse.Close() at a moment aimed at the end of a delivery (12 000 rounds per case, 4 lanes); the replay is the op line with its round count and seed and reproduces with high but not certain probability. Non-trivial: every case (each has ≥ 1 input that decodes past the type byte); distinct = distinct op lists",
		Gen:      c09Gen,
		Exec:     c09Exec,
		Isolate:  true,
		Parallel: 12,
	})
}
