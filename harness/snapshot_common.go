package main

// Shared executor and generator pieces for the snapshot properties (C10, C13, C14):
// the REAL serf.Snapshotter driven either synchronously through the verif hooks
// (one select-loop iteration per op, state observable after every op) or through
// its own goroutines (serf.NewSnapshotter, events through the channel, Leave(),
// shutdown channel, Wait()).
//
// Ops (names/addresses/files hex, `-` = empty):
//   new <sync|async> <rj> <mc> [<hexfile>]   fresh directory (optionally with that snapshot file), open
//   join <clk> <name>,<iphex>,<port>,<addr> …  EventMemberJoin (addr = what net.TCPAddr.String() renders; used by the model)
//   gone <leave|failed> <clk> <name> …
//   memb <update|reap> <clk>
//   user <lt> | query <lt>
//   tick <clk>        clock ticker            (sync only)
//   time              > flushInterval passes  (sync only)
//   compact           compact() directly      (sync only)
//   leave             Snapshotter.Leave()
//   dump              → file=<hex> tmp=<0|1>  (sync only)
//   shutdown <clk>    → state + file=<hex>
//   reopen <rj> <mc>  real NewSnapshotter probe, then a fresh sync snapshotter on the same file → state
// Output of every other op: the state (sync) or `ok` (async).

import (
	"fmt"
	"io"
	"log"
	"math/rand"
	"net"
	"os"
	"path/filepath"
	"runtime"
	"sort"
	"strconv"
	"strings"
	"time"

	"github.com/hashicorp/serf/serf"
)

type snapSentinel struct{}

func (snapSentinel) EventType() serf.EventType { return serf.EventType(97) }
func (snapSentinel) String() string              { return "verif-sentinel" }

type snapLogSignal struct{ ch chan struct{} }

func (w *snapLogSignal) Write(p []byte) (int, error) {
	if strings.Contains(string(p), "Unknown event to snapshot") {
		select {
		case w.ch <- struct{}{}:
		default:
		}
	}
	return len(p), nil
}

type snapRun struct {
	dir, path string
	async     bool
	vs        *serf.VerifSnap
	// async
	as         *serf.Snapshotter
	clock      *serf.LamportClock
	inCh       chan<- serf.Event
	outCh      chan serf.Event
	shutdownCh chan struct{}
	sig        *snapLogSignal
	left       bool
	closed     bool
	stalled    bool
	t0         time.Time
}

func snapAliveString(m map[string]string) string {
	if len(m) == 0 {
		return "-"
	}
	var it []string
	for k, a := range m {
		it = append(it, hexs(k)+":"+hexs(a))
	}
	sort.Strings(it)
	return strings.Join(it, ",")
}

func (r *snapRun) diskSize() int64 {
	st, err := os.Stat(r.path)
	if err != nil {
		return -1
	}
	return st.Size()
}

func (r *snapRun) syncState() string {
	s := r.vs.S
	return fmt.Sprintf("alive=%s c=%d e=%d q=%d leaving=%s off=%d disk=%d buf=%d",
		snapAliveString(r.vs.Alive()), uint64(s.LastClock()), uint64(s.LastEventClock()), uint64(s.LastQueryClock()),
		b01(r.vs.Leaving()), r.vs.Offset(), r.diskSize(), r.vs.Buffered())
}

func b01(b bool) string {
	if b {
		return "1"
	}
	return "0"
}

func snapClock(clk uint64) *serf.LamportClock {
	c := &serf.LamportClock{}
	if clk > 0 {
		c.Witness(serf.LamportTime(clk - 1))
	}
	return c
}

func (r *snapRun) fileHex() string {
	b, err := os.ReadFile(r.path)
	if err != nil {
		return "missing"
	}
	return hexb(b)
}

func (r *snapRun) cleanup() {
	if r == nil {
		return
	}
	if r.async && r.as != nil && !r.closed {
		close(r.shutdownCh)
		r.as.Wait()
		r.closed = true
	}
	if !r.async && r.vs != nil && !r.closed {
		r.vs.Shutdown()
		r.closed = true
	}
	if r.dir != "" {
		os.RemoveAll(r.dir)
	}
}

var snapLogger = log.New(io.Discard, "", 0)

func (r *snapRun) openSync(rj bool, mc int) error {
	vs, err := serf.VerifNewSyncSnapshotter(r.path, mc, rj, snapLogger, snapClock(1))
	if err != nil {
		return err
	}
	r.vs, r.async, r.closed = vs, false, false
	return nil
}

func (r *snapRun) openAsync(rj bool, mc int) error {
	r.clock = snapClock(1)
	r.outCh = make(chan serf.Event, 8192)
	r.shutdownCh = make(chan struct{})
	r.sig = &snapLogSignal{ch: make(chan struct{}, 64)}
	in, s, err := serf.NewSnapshotter(r.path, mc, rj, log.New(r.sig, "", 0), r.clock, r.outCh, r.shutdownCh)
	if err != nil {
		return err
	}
	r.inCh, r.as, r.async, r.closed, r.left = in, s, true, false, false
	r.t0 = time.Now()
	return nil
}

// asyncSend delivers e and waits until stream() has completely processed it
// (a sentinel of unknown type is logged by stream() only after e was handled).
func (r *snapRun) asyncSend(e serf.Event) {
	r.inCh <- e
	<-r.outCh
	if r.left {
		// events are ignored after a leave; just wait for the queues to drain
		for serf.VerifSnapshotStreamLen(r.as) > 0 {
			runtime.Gosched()
		}
		return
	}
	r.inCh <- snapSentinel{}
	<-r.outCh
	select {
	case <-r.sig.ch:
	case <-time.After(5 * time.Second):
		r.stalled = true
	}
}

func (r *snapRun) asyncFinalState() string {
	vs := &serf.VerifSnap{S: r.as}
	return fmt.Sprintf("alive=%s c=%d e=%d q=%d leaving=%s off=%d disk=%d buf=%d",
		snapAliveString(vs.Alive()), uint64(r.as.LastClock()), uint64(r.as.LastEventClock()), uint64(r.as.LastQueryClock()),
		b01(vs.Leaving()), vs.Offset(), r.diskSize(), vs.Buffered())
}

// probe opens the file with the real NewSnapshotter, reads the recovered state
// through the exported accessors and shuts it down again (clock at 1: nothing is appended).
func (r *snapRun) probe(rj bool, mc int) (string, error) {
	shutdownCh := make(chan struct{})
	_, s, err := serf.NewSnapshotter(r.path, mc, rj, snapLogger, snapClock(1), nil, shutdownCh)
	if err != nil {
		return "", err
	}
	m := map[string]string{}
	dup := false
	for _, p := range s.AliveNodes() {
		if _, ok := m[p.Name]; ok {
			dup = true
		}
		m[p.Name] = p.Addr
	}
	out := fmt.Sprintf("alive=%s c=%d e=%d q=%d", snapAliveString(m), uint64(s.LastClock()), uint64(s.LastEventClock()), uint64(s.LastQueryClock()))
	if dup {
		out += " dup"
	}
	close(shutdownCh)
	s.Wait()
	return out, nil
}

func snapParseU(s string) (uint64, bool) {
	v, err := strconv.ParseUint(s, 10, 64)
	return v, err == nil
}

func snapExecOnce(ops []string) (outs []string, stalled bool) {
	var r *snapRun
	defer func() { r.cleanup() }()
	for _, o := range ops {
		f := strings.Fields(o)
		t0 := time.Now()
		out := snapExecOp(&r, f)
		if time.Since(t0) > 300*time.Millisecond {
			stalled = true
		}
		if r != nil && r.async && !r.closed && time.Since(r.t0) > 350*time.Millisecond {
			stalled = true
		}
		if r != nil && r.stalled {
			stalled = true
		}
		outs = append(outs, out)
	}
	return outs, stalled
}

// snapExec retries a case that was stalled by the machine (an op longer than
// 300 ms, or a goroutine-driven life longer than 350 ms) so that the 500 ms
// flush interval / clock ticker of the real code cannot fire unobserved.
func snapExec(ops []string) []string {
	var outs []string
	for try := 0; try < 6; try++ {
		var st bool
		outs, st = snapExecOnce(ops)
		if !st {
			return outs
		}
	}
	return outs
}

// snapBurstLeave: lives through the REAL goroutines in which Leave() is called while the
// snapshotter is busy with a backlog and shutdown follows at once:
//   NewSnapshotter (rejoin-after-leave off), two joins + a burst of user events sent without
//   waiting, Leave(), close(shutdownCh), Wait(), restart with the real NewSnapshotter.
// Leave() returns only once stream() has taken the request, so on every attempt the leave
// is recorded and the restart re-joins nobody. Output: the distinct recovered rejoin sets.
func snapBurstLeave(attempts, burst, mc int) string {
	seen := map[string]bool{}
	for a := 0; a < attempts; a++ {
		dir, err := os.MkdirTemp("", "verif-snap-burst-")
		if err != nil {
			return "error-tmp"
		}
		path := filepath.Join(dir, "snap")
		clock := snapClock(1)
		outCh := make(chan serf.Event, 8192)
		shutdownCh := make(chan struct{})
		in, s, err := serf.NewSnapshotter(path, mc, false, snapLogger, clock, outCh, shutdownCh)
		if err != nil {
			os.RemoveAll(dir)
			return "error-open"
		}
		in <- serf.MemberEvent{Type: serf.EventMemberJoin, Members: []serf.Member{{Name: "node-a", Addr: net.IPv4(127, 0, 0, 1).To4(), Port: 7946}}}
		in <- serf.MemberEvent{Type: serf.EventMemberJoin, Members: []serf.Member{{Name: "node-b", Addr: net.IPv4(127, 0, 0, 2).To4(), Port: 7946}}}
		for i := 0; i < burst; i++ {
			in <- serf.UserEvent{LTime: serf.LamportTime(i + 1), Name: "n", Payload: []byte("p")}
			select {
			case <-outCh:
			default:
			}
		}
		s.Leave()
		close(shutdownCh)
		s.Wait()
		r := &snapRun{path: path}
		p, err := r.probe(false, mc)
		os.RemoveAll(dir)
		if err != nil {
			return "error-probe"
		}
		al := "?"
		for _, x := range strings.Fields(p) {
			if strings.HasPrefix(x, "alive=") {
				al = x[6:]
			}
		}
		seen[al] = true
	}
	var keys []string
	for k := range seen {
		keys = append(keys, k)
	}
	sort.Strings(keys)
	return fmt.Sprintf("ok n=%d recovered=%s", attempts, strings.Join(keys, "/"))
}

func snapExecOp(rp **snapRun, f []string) string {
	r := *rp
	if len(f) == 0 {
		return "bad-op"
	}
	if f[0] == "burstleave" {
		if len(f) != 4 {
			return "bad-op"
		}
		a, e1 := strconv.Atoi(f[1])
		b, e2 := strconv.Atoi(f[2])
		mc, e3 := strconv.Atoi(f[3])
		if e1 != nil || e2 != nil || e3 != nil || a < 1 || a > 1000 || b < 0 || b > 2000 {
			return "bad-op"
		}
		return snapBurstLeave(a, b, mc)
	}
	if f[0] == "new" {
		if len(f) < 4 || len(f) > 5 {
			return "bad-op"
		}
		mc, err := strconv.Atoi(f[3])
		if err != nil || (f[2] != "0" && f[2] != "1") {
			return "bad-op"
		}
		r.cleanup()
		dir, err := os.MkdirTemp("", "verif-snap-")
		if err != nil {
			return "error-tmp"
		}
		r = &snapRun{dir: dir, path: filepath.Join(dir, "snap")}
		*rp = r
		if len(f) == 5 {
			b := unhex(f[4])
			if b == nil {
				return "bad-op"
			}
			if err := os.WriteFile(r.path, b, 0644); err != nil {
				return "error-write"
			}
		}
		switch f[1] {
		case "sync":
			if err := r.openSync(f[2] == "1", mc); err != nil {
				return "error-open"
			}
			return r.syncState()
		case "async":
			if err := r.openAsync(f[2] == "1", mc); err != nil {
				return "error-open"
			}
			return "ok"
		}
		return "bad-op"
	}
	if r == nil || r.closed && f[0] != "reopen" && f[0] != "dump" && f[0] != "planttmp" {
		return "bad-op"
	}
	if f[0] == "planttmp" {
		// a compaction temp file left behind by an earlier failed compaction, beside the snapshot (only while closed)
		if len(f) != 2 || !r.closed {
			return "bad-op"
		}
		b := unhex(f[1])
		if b == nil {
			return "bad-op"
		}
		if err := os.WriteFile(r.path+".compact", b, 0644); err != nil {
			return "error-write"
		}
		return "ok"
	}
	deliver := func(e serf.Event, clk uint64) string {
		if r.async {
			if clk > 0 {
				r.clock.Witness(serf.LamportTime(clk - 1))
			}
			r.asyncSend(e)
			return "ok"
		}
		r.vs.SetClock(snapClock(clk))
		if !r.vs.FlushPending() {
			r.vs.SetFlushDue(false)
		}
		r.vs.Dispatch(e)
		return r.syncState()
	}
	switch f[0] {
	case "join":
		if len(f) < 2 {
			return "bad-op"
		}
		clk, ok := snapParseU(f[1])
		if !ok {
			return "bad-op"
		}
		ev := serf.MemberEvent{Type: serf.EventMemberJoin}
		for _, m := range f[2:] {
			p := strings.Split(m, ",")
			if len(p) != 4 {
				return "bad-op"
			}
			nb, ip := unhex(p[0]), unhex(p[1])
			port, err := strconv.Atoi(p[2])
			if nb == nil || ip == nil || err != nil || port < 0 || port > 65535 {
				return "bad-op"
			}
			ev.Members = append(ev.Members, serf.Member{Name: string(nb), Addr: net.IP(ip), Port: uint16(port)})
		}
		return deliver(ev, clk)
	case "gone":
		if len(f) < 3 {
			return "bad-op"
		}
		clk, ok := snapParseU(f[2])
		if !ok {
			return "bad-op"
		}
		ev := serf.MemberEvent{Type: serf.EventMemberLeave}
		if f[1] == "failed" {
			ev.Type = serf.EventMemberFailed
		} else if f[1] != "leave" {
			return "bad-op"
		}
		for _, m := range f[3:] {
			nb := unhex(m)
			if nb == nil {
				return "bad-op"
			}
			ev.Members = append(ev.Members, serf.Member{Name: string(nb)})
		}
		return deliver(ev, clk)
	case "memb":
		if len(f) != 3 {
			return "bad-op"
		}
		clk, ok := snapParseU(f[2])
		if !ok {
			return "bad-op"
		}
		ev := serf.MemberEvent{Type: serf.EventMemberUpdate}
		if f[1] == "reap" {
			ev.Type = serf.EventMemberReap
		} else if f[1] != "update" {
			return "bad-op"
		}
		return deliver(ev, clk)
	case "user", "query":
		if len(f) != 2 {
			return "bad-op"
		}
		lt, ok := snapParseU(f[1])
		if !ok {
			return "bad-op"
		}
		if f[0] == "user" {
			return deliver(serf.UserEvent{LTime: serf.LamportTime(lt), Name: "n", Payload: []byte("p")}, 1)
		}
		return deliver(&serf.Query{LTime: serf.LamportTime(lt), Name: "n", Payload: []byte("p")}, 1)
	case "leave":
		if r.async {
			r.as.Leave()
			r.left = true
			return "ok"
		}
		if !r.vs.FlushPending() {
			r.vs.SetFlushDue(false)
		}
		r.vs.Leave()
		return r.syncState()
	case "shutdown":
		if len(f) != 2 {
			return "bad-op"
		}
		clk, ok := snapParseU(f[1])
		if !ok {
			return "bad-op"
		}
		if r.async {
			if clk > 0 {
				r.clock.Witness(serf.LamportTime(clk - 1))
			}
			close(r.shutdownCh)
			r.as.Wait()
			r.closed = true
			return r.asyncFinalState() + " file=" + r.fileHex()
		}
		r.vs.SetClock(snapClock(clk))
		if !r.vs.FlushPending() {
			r.vs.SetFlushDue(false)
		}
		r.vs.Shutdown()
		r.closed = true
		return r.syncState() + " file=" + r.fileHex()
	case "reopen":
		if len(f) != 3 || !r.closed {
			return "bad-op"
		}
		mc, err := strconv.Atoi(f[2])
		if err != nil || (f[1] != "0" && f[1] != "1") {
			return "bad-op"
		}
		p, err := r.probe(f[1] == "1", mc)
		if err != nil {
			return "error-probe"
		}
		if err := r.openSync(f[1] == "1", mc); err != nil {
			return "error-open"
		}
		st := r.syncState()
		if !strings.HasPrefix(st, p+" ") {
			return "probe-mismatch probe[" + p + "] sync[" + st + "]"
		}
		return st
	}
	if r.async {
		return "bad-op"
	}
	switch f[0] {
	case "tick":
		if len(f) != 2 {
			return "bad-op"
		}
		clk, ok := snapParseU(f[1])
		if !ok {
			return "bad-op"
		}
		r.vs.SetClock(snapClock(clk))
		if !r.vs.FlushPending() {
			r.vs.SetFlushDue(false)
		}
		r.vs.Tick()
		return r.syncState()
	case "time":
		r.vs.SetFlushDue(true)
		return r.syncState()
	case "compact":
		if err := r.vs.Compact(); err != nil {
			return "error-compact"
		}
		return r.syncState()
	case "dump":
		_, err := os.Stat(r.path + ".compact")
		return "file=" + r.fileHex() + " tmp=" + b01(err == nil)
	}
	return "bad-op"
}

// ---------------------------------------------------------------- generator pieces

var snapNames = []string{
	"a", "b", "node c", "x:y", "alive: z", "not-alive: q", "#c", "", "leave", "clock: 5",
	"tab\tname", "é", "\xff\xfe", "n ", " n", "  ", "coordinate: k", "event-clock: 9", "a b c 1.2.3.4:5",
}
var snapNewlineNames = []string{"a\nb", "x\nalive: ghost 9.9.9.9:9", "\n", "y\nleave", "z\nnot-alive: a"}

func snapLongName(rng *rand.Rand, n int) string {
	b := make([]byte, n)
	for i := range b {
		b[i] = "abcdefghij klm:#"[rng.Intn(16)]
	}
	return string(b)
}

func snapIP(rng *rand.Rand) net.IP {
	switch rng.Intn(8) {
	case 0:
		return net.IP{}
	case 1:
		return net.ParseIP("::1")
	case 2:
		return net.ParseIP("2001:db8::" + strconv.Itoa(rng.Intn(9)+1))
	case 3:
		return net.ParseIP("10.0.0.1") // 16-byte IPv4-mapped
	case 4:
		return net.IP{1, 2, 3} // odd length: rendered as ?010203
	default:
		return net.IPv4(10, byte(rng.Intn(3)), 0, byte(1+rng.Intn(5))).To4()
	}
}

func snapMember(rng *rand.Rand, name string) string {
	ip := snapIP(rng)
	port := []int{0, 7946, 65535, 1 + rng.Intn(65000)}[rng.Intn(4)]
	addr := (&net.TCPAddr{IP: ip, Port: port}).String()
	return fmt.Sprintf("%s,%s,%d,%s", hexs(name), hexb(ip), port, hexs(addr))
}

var snapTimes = []uint64{0, 1, 2, 3, 5, 9, 10, 99, 100, 12345, 1 << 32, 1<<63 - 1, 1 << 63, 1<<64 - 2, 1<<64 - 1}

func snapTime(rng *rand.Rand) uint64 {
	if rng.Intn(3) == 0 {
		return snapTimes[rng.Intn(len(snapTimes))]
	}
	return uint64(rng.Intn(40))
}

var snapThresholds = []int{0, 1, 64, 200, 128 * 1024}

type snapGenOpts struct {
	async     bool
	leave     bool // include a Leave()
	newline   bool // use names with '\n'
	long      bool // long names (bufio boundary)
	staleTmp  bool // a compaction temp file left by an earlier failed compaction lies beside the snapshot at every restart
	maxEvents int
}

// snapHistory generates one generation of events (no new/shutdown).
func snapHistory(rng *rand.Rand, o snapGenOpts, names []string, clk *uint64) (ops []string, stats map[string]int) {
	stats = map[string]int{}
	n := 1 + rng.Intn(o.maxEvents)
	leaveAt := -1
	if o.leave {
		leaveAt = rng.Intn(n + 1)
	}
	nextClk := func() uint64 {
		// mostly monotone (always monotone for async: the real clock only moves forward)
		switch {
		case o.async || rng.Intn(4) > 0:
			if rng.Intn(2) == 0 {
				*clk += uint64(rng.Intn(4))
			}
			if rng.Intn(40) == 0 && *clk < 1<<62 {
				*clk += 1 << 40
			}
		default:
			*clk = snapTime(rng)
		}
		return *clk
	}
	pick := func() string {
		if o.long && rng.Intn(6) == 0 {
			return snapLongName(rng, []int{300, 4000, 4096, 5000, 9000}[rng.Intn(5)])
		}
		return names[rng.Intn(len(names))]
	}
	for i := 0; i <= n; i++ {
		if i == leaveAt {
			ops = append(ops, "leave")
			stats["leave"]++
		}
		if i == n {
			break
		}
		k := rng.Intn(100)
		switch {
		case k < 35:
			m := 1
			if rng.Intn(4) == 0 {
				m = 2 + rng.Intn(3)
			}
			var ms []string
			for x := 0; x < m; x++ {
				ms = append(ms, snapMember(rng, pick()))
			}
			ops = append(ops, fmt.Sprintf("join %d %s", nextClk(), strings.Join(ms, " ")))
			stats["join"]++
		case k < 55:
			m := 1
			if rng.Intn(5) == 0 {
				m = 2
			}
			var ms []string
			for x := 0; x < m; x++ {
				ms = append(ms, hexs(pick()))
			}
			ops = append(ops, fmt.Sprintf("gone %s %d %s", []string{"leave", "failed"}[rng.Intn(2)], nextClk(), strings.Join(ms, " ")))
			stats["gone"]++
		case k < 60:
			ops = append(ops, fmt.Sprintf("memb %s %d", []string{"update", "reap"}[rng.Intn(2)], nextClk()))
		case k < 72:
			ops = append(ops, fmt.Sprintf("user %d", snapTime(rng)))
			stats["user"]++
		case k < 84:
			ops = append(ops, fmt.Sprintf("query %d", snapTime(rng)))
			stats["query"]++
		default:
			if o.async {
				ops = append(ops, fmt.Sprintf("memb update %d", nextClk()))
				continue
			}
			switch rng.Intn(5) {
			case 0, 1:
				ops = append(ops, fmt.Sprintf("tick %d", nextClk()))
			case 2:
				ops = append(ops, "time")
			case 3:
				ops = append(ops, "compact")
				stats["compact"]++
			default:
				ops = append(ops, "dump")
			}
		}
	}
	return ops, stats
}

// snapCase: one or more generations, each `new/reopen … shutdown`, ending with a reopen.
func snapCase(rng *rand.Rand, id string, o snapGenOpts) Case {
	names := append([]string{}, snapNames...)
	if o.newline {
		names = append(names[:4:4], snapNewlineNames...)
	}
	rng.Shuffle(len(names), func(i, j int) { names[i], names[j] = names[j], names[i] })
	names = names[:2+rng.Intn(5)]
	rj := rng.Intn(2) == 1
	mc := snapThresholds[rng.Intn(len(snapThresholds))]
	if rng.Intn(3) == 0 {
		mc = snapThresholds[rng.Intn(3)]
	}
	mode := "sync"
	if o.async {
		mode = "async"
	}
	var ops []string
	ops = append(ops, fmt.Sprintf("new %s %s %d", mode, b01(rj), mc))
	clk := uint64(1)
	gens := 1
	if !o.async && rng.Intn(4) == 0 {
		gens = 2
	}
	tot := map[string]int{}
	for g := 0; g < gens; g++ {
		h, st := snapHistory(rng, o, names, &clk)
		for k, v := range st {
			tot[k] += v
		}
		ops = append(ops, h...)
		if rng.Intn(2) == 0 && clk < 1<<63 {
			clk += uint64(rng.Intn(3))
		}
		ops = append(ops, fmt.Sprintf("shutdown %d", clk))
		rrj := rj
		if rng.Intn(12) == 0 {
			rrj = !rj
		}
		if rng.Intn(6) == 0 {
			mc = snapThresholds[rng.Intn(len(snapThresholds))]
		}
		if o.staleTmp {
			// what a compaction would have written (a member only this file knows, clocks), sometimes cut short
			stale := "alive: stale-node 10.9.9.9:7946\nclock: 3\nevent-clock: 2\nquery-clock: 1\n"
			if g%2 == 1 {
				stale = stale[:len(stale)-9]
			}
			ops = append(ops, "planttmp "+hexs(stale))
		}
		ops = append(ops, fmt.Sprintf("reopen %s %d", b01(rrj), mc))
		rj = rrj
	}
	ops = append(ops, "shutdown 1")
	c := Case{ID: id, Ops: ops}
	c.Tags = append(c.Tags, mode, fmt.Sprintf("mc%d", mc))
	if o.leave {
		c.Tags = append(c.Tags, "leave")
	}
	if o.newline {
		c.Tags = append(c.Tags, "newline-names")
	}
	if o.long {
		c.Tags = append(c.Tags, "long-names")
	}
	if o.staleTmp {
		c.Tags = append(c.Tags, "stale-compact-file")
	}
	if tot["compact"] > 0 {
		c.Tags = append(c.Tags, "forced-compaction")
	}
	c.Nontrivial = tot["join"] >= 2 && tot["gone"]+tot["user"]+tot["query"] >= 1 && (mc <= 200 || tot["compact"] > 0)
	if o.leave {
		c.Nontrivial = tot["join"] >= 1
	}
	return c
}
