package main

import (
	"bytes"
	"fmt"
	"math"
	"math/rand"
	"net"
	"strings"
	"time"

	"github.com/hashicorp/go-msgpack/v2/codec"
)

// Generators for C09: mirror structs of the wire messages (msgpack maps keyed by field
// name, so they encode exactly like serf's unexported types) with every field arbitrary,
// and byte-level mutations of the valid encodings.

type wireQueryResponse struct {
	LTime   uint64
	ID      uint32
	From    string
	Flags   uint32
	Payload []byte
}

type wireUE struct {
	Name    string
	Payload []byte
}

type wireUserEvents struct {
	LTime  uint64
	Events []wireUE
}

type wirePushPull struct {
	LTime        uint64
	StatusLTimes map[string]uint64
	LeftMembers  []string
	EventLTime   uint64
	Events       []*wireUserEvents
	QueryLTime   uint64
}

type wireRelayHeader struct {
	DestAddr net.UDPAddr
	DestName string
}

type wireMember struct {
	Name   string
	Addr   net.IP
	Port   uint16
	Tags   map[string]string
	Status int
}

type wireKeyRequest struct{ Key []byte }

type wireKeyResponse struct {
	Result     bool
	Message    string
	Keys       []string
	PrimaryKey string
}

type wireCoord struct {
	Vec        []float64
	Error      float64
	Adjustment float64
	Height     float64
}

type wireFilterTag struct{ Tag, Expr string }

func mp(v any) []byte {
	buf := bytes.NewBuffer(nil)
	h := codec.MsgpackHandle{}
	if err := codec.NewEncoder(buf, &h).Encode(v); err != nil {
		return []byte{0xc0}
	}
	return buf.Bytes()
}

type c09G struct{ r *rand.Rand }

func (g c09G) pick(n int) int { return g.r.Intn(n) }

func (g c09G) ltime() uint64 {
	pal := []uint64{0, 1, 2, 3, 4, 5, 7, 8, 9, 1 << 32, 1<<63 - 1, 1 << 63, math.MaxUint64 - 1, math.MaxUint64}
	switch g.pick(4) {
	case 0:
		return pal[g.pick(len(pal))]
	case 1:
		return g.r.Uint64()
	}
	return uint64(g.pick(40))
}

func (g c09G) name() string {
	pal := []string{"", c09Self, "n1", "n2", "n3", "m2", "a b", "ü\n", strings.Repeat("x", 130), "_serf_", "node/../x"}
	if g.pick(6) == 0 {
		return string(g.bytes())
	}
	return pal[g.pick(len(pal))]
}

func (g c09G) bytes() []byte {
	switch g.pick(8) {
	case 0:
		return nil
	case 1:
		return []byte{}
	case 2:
		return []byte{byte(g.pick(12))}
	case 3:
		return []byte{0xff}
	case 4:
		b := make([]byte, 1+g.pick(2000))
		g.r.Read(b)
		return b
	case 5:
		return []byte(c09Self)
	}
	b := make([]byte, g.pick(24))
	g.r.Read(b)
	return b
}

func (g c09G) float() float64 {
	pal := []float64{0, 1, -1, 1e-9, 1e300, -1e300, math.Inf(1), math.Inf(-1), math.NaN(), math.SmallestNonzeroFloat64, math.MaxFloat64}
	if g.pick(3) == 0 {
		return g.r.NormFloat64()
	}
	return pal[g.pick(len(pal))]
}

func (g c09G) addr() []byte {
	switch g.pick(6) {
	case 0:
		return nil
	case 1:
		return []byte{127, 0, 0, 1}
	case 2:
		return net.ParseIP("::1")
	case 3:
		return []byte{1, 2, 3}
	case 4:
		return g.bytes()
	}
	return []byte{10, byte(g.pick(256)), 0, byte(g.pick(256))}
}

func (g c09G) filter() []byte {
	switch g.pick(10) {
	case 0:
		return []byte{} // empty filter entry
	case 1:
		return nil
	case 2:
		return []byte{byte(g.pick(256))} // type byte only
	case 3:
		return append([]byte{byte(2 + g.pick(254))}, g.bytes()...) // unknown type
	case 4:
		return append([]byte{0}, mp([]string{c09Self, g.name()})...)
	case 5:
		return append([]byte{0}, mp([]string{g.name()})...)
	case 6:
		exprs := []string{"web", ".*", "(", "[", "^(?:web)$", "a{1000}{1000}", "\\C", ""}
		return append([]byte{1}, mp(wireFilterTag{[]string{"role", "dc", "", "nope"}[g.pick(4)], exprs[g.pick(len(exprs))]})...)
	case 7:
		b := append([]byte{byte(g.pick(2))}, mp([]string{c09Self, "n1", "n2"})...)
		return b[:1+g.pick(len(b))] // truncated msgpack
	case 8:
		return append([]byte{byte(g.pick(2))}, mp(map[string]any{"Tag": 5, "Expr": []int{1}})...) // wrong field types
	}
	return append([]byte{byte(g.pick(2))}, g.bytes()...)
}

var c09Internal = []string{"_serf_ping", "_serf_conflict", "_serf_install-key", "_serf_use-key", "_serf_remove-key", "_serf_list-keys", "_serf_", "_serf_x", "_serf", "deploy", ""}

func (g c09G) keyPayload() []byte {
	keys := [][]byte{c09Key(), []byte("fedcba9876543210"), []byte("short"), nil, make([]byte, 32), make([]byte, 24)}
	switch g.pick(8) {
	case 0:
		return nil
	case 1:
		return []byte{}
	case 2:
		return []byte{byte(g.pick(256))}
	case 3:
		return append([]byte{7}, mp(wireKeyRequest{keys[g.pick(len(keys))]})...)
	case 4:
		return append([]byte{byte(g.pick(256))}, mp(wireKeyRequest{keys[g.pick(len(keys))]})...)
	case 5:
		b := append([]byte{7}, mp(wireKeyRequest{keys[g.pick(len(keys))]})...)
		return b[:g.pick(len(b)+1)]
	case 6:
		return append([]byte{7}, mp(map[string]any{"Key": "a string", "X": 1})...)
	}
	return g.bytes()
}

func (g c09G) query() *wireQuery {
	q := &wireQuery{LTime: g.ltime(), ID: g.r.Uint32(), Addr: g.addr(), Port: uint16(g.pick(65536)), SourceNode: g.name(),
		Flags: uint32(g.pick(4)), RelayFactor: uint8([]int{0, 0, 1, 2, 5, 255}[g.pick(6)]), Timeout: time.Duration([]int64{0, 1, int64(time.Second), -1, math.MaxInt64, math.MinInt64}[g.pick(6)]),
		Name: c09Internal[g.pick(len(c09Internal))], Payload: g.bytes()}
	if g.pick(20) == 0 {
		q.Flags = g.r.Uint32()
	}
	for n := []int{0, 0, 1, 1, 2, 5}[g.pick(6)]; n > 0; n-- {
		q.Filters = append(q.Filters, g.filter())
	}
	switch {
	case strings.HasSuffix(q.Name, "-key"):
		q.Payload = g.keyPayload()
	case q.Name == "_serf_conflict":
		q.Payload = []byte(g.name())
	}
	// most queries should pass the de-dup window of the 4-slot buffer
	if g.pick(3) > 0 {
		q.Filters = nil
		if g.pick(2) == 0 {
			q.Filters = [][]byte{append([]byte{0}, mp([]string{c09Self})...)}
		}
	}
	return q
}

func (g c09G) pushPull() *wirePushPull {
	pp := &wirePushPull{LTime: g.ltime(), EventLTime: g.ltime(), QueryLTime: g.ltime()}
	if g.pick(4) > 0 {
		pp.StatusLTimes = map[string]uint64{}
		for n := g.pick(5); n > 0; n-- {
			pp.StatusLTimes[g.name()] = g.ltime()
		}
	}
	for n := g.pick(4); n > 0; n-- {
		pp.LeftMembers = append(pp.LeftMembers, g.name())
	}
	for n := g.pick(6); n > 0; n-- {
		if g.pick(3) == 0 {
			pp.Events = append(pp.Events, nil) // nil event slot
			continue
		}
		ue := &wireUserEvents{LTime: g.ltime()}
		for k := g.pick(3); k > 0; k-- {
			ue.Events = append(ue.Events, wireUE{g.name(), g.bytes()})
		}
		pp.Events = append(pp.Events, ue)
	}
	return pp
}

func (g c09G) coord() *wireCoord {
	c := &wireCoord{Error: g.float(), Adjustment: g.float(), Height: g.float()}
	dims := []int{0, 1, 7, 8, 8, 8, 9, 64}[g.pick(8)]
	if g.pick(8) > 0 {
		c.Vec = make([]float64, dims)
		for i := range c.Vec {
			if g.pick(3) == 0 {
				c.Vec[i] = g.float()
			} else {
				c.Vec[i] = g.r.NormFloat64() * 0.01
			}
		}
	}
	return c
}

func (g c09G) meta() []byte {
	switch g.pick(7) {
	case 0:
		return nil
	case 1:
		return []byte("role-only")
	case 2:
		return append([]byte{0xff}, mp(map[string]string{"role": "db", g.name(): g.name()})...)
	case 3:
		return append([]byte{0xff}, g.bytes()...)
	case 4:
		return []byte{0xff}
	case 5:
		return append([]byte{0xff}, 0xc0) // msgpack nil
	}
	b := append([]byte{0xff}, mp(map[string]string{"a": strings.Repeat("y", 600)})...)
	return b
}

// message: one gossip message of a random kind, every field arbitrary.
func (g c09G) message(depth int) []byte {
	switch g.pick(14) {
	case 0:
		return encodeWire(msgLeaveType, &wireLeave{g.ltime(), g.name(), g.pick(2) == 0})
	case 1:
		return encodeWire(msgJoinType, &wireJoin{g.ltime(), g.name()})
	case 2:
		return encodeWire(msgPushPullType, g.pushPull())
	case 3:
		return encodeWire(msgUserEventType, &wireUserEvent{g.ltime(), g.name(), g.bytes(), g.pick(2) == 0})
	case 4, 5, 6, 7:
		return encodeWire(msgQueryType, g.query())
	case 8:
		return encodeWire(msgQueryResponseType, &wireQueryResponse{g.ltime(), g.r.Uint32(), g.name(), uint32(g.pick(4)), g.respPayload()})
	case 9:
		return encodeWire(uint8(6+g.pick(3)), []any{&wireMember{Name: g.name(), Addr: g.addr()}, &wireKeyRequest{g.bytes()}, &wireKeyResponse{Keys: []string{"k"}}}[g.pick(3)])
	case 10, 11:
		return g.relay(depth)
	case 12:
		return append([]byte{byte(10 + g.pick(246))}, g.bytes()...)
	}
	// right type byte, wrong body shape
	return append([]byte{byte(g.pick(10))}, mp([]any{map[string]any{"LTime": "x", "Node": 5, "Filters": "f", "Events": []any{1, nil}}, []int{1, 2}, "str", nil, 5}[g.pick(5)])...)
}

func (g c09G) relay(depth int) []byte {
	h := wireRelayHeader{DestAddr: net.UDPAddr{IP: g.addr(), Port: []int{0, 7946, -1, 70000, 1 << 40}[g.pick(5)], Zone: []string{"", "eth0", "%"}[g.pick(3)]}, DestName: g.name()}
	b := append([]byte{9}, mp(h)...)
	switch g.pick(6) {
	case 0:
		return b[:1+g.pick(len(b))] // truncated header
	case 1:
		return b // no inner message
	case 2:
		return append([]byte{9}, mp(map[string]any{"DestAddr": "not-an-addr", "DestName": 7})...)
	}
	if depth > 3 {
		return append(b, g.bytes()...)
	}
	return append(b, g.message(depth+1)...) // possibly another relay
}

func (g c09G) respPayload() []byte {
	switch g.pick(8) {
	case 0:
		return encodeWire(6, &wireMember{Name: g.name(), Addr: g.addr(), Port: uint16(g.pick(65536)), Status: g.pick(9)})
	case 1:
		return encodeWire(8, &wireKeyResponse{Result: g.pick(2) == 0, Message: g.name(), Keys: []string{g.name(), "k2"}, PrimaryKey: g.name()})
	case 2:
		return []byte{byte(g.pick(12))}
	case 3:
		b := encodeWire(uint8(6+2*g.pick(2)), &wireKeyResponse{Keys: []string{"a", "b"}})
		return b[:g.pick(len(b)+1)]
	case 4:
		return append([]byte{byte(6 + 2*g.pick(2))}, mp([]any{"x", 1, nil}[g.pick(3)])...)
	}
	return g.bytes()
}

func (g c09G) nodeOp(kind string) string {
	return fmt.Sprintf("inj %s %s %s %s %d %d", kind, hexs(g.name()), hexb(g.addr()), hexb(g.meta()), g.pick(65536), g.pick(5))
}

// structured: one structure-aware input line.
func (g c09G) structured() string {
	switch g.pick(30) {
	case 0, 1:
		return "inj merge" + fmt.Sprint(g.pick(2)) + " " + hexb(encodeWire(msgPushPullType, g.pushPull()))
	case 2:
		return "inj merge" + fmt.Sprint(g.pick(2)) + " " + hexb(g.message(0))
	case 3, 4:
		var p []byte
		switch g.pick(6) {
		case 0:
			p = g.bytes()
		case 1:
			p = append([]byte{byte(g.pick(4))}, mp(g.coord())...)
		case 2:
			b := append([]byte{1}, mp(g.coord())...)
			p = b[:g.pick(len(b)+1)]
		default:
			p = append([]byte{1}, mp(g.coord())...)
		}
		rtt := []int64{0, 1, 1000000, 5000000, -1, int64(11 * time.Second), math.MaxInt64, math.MinInt64}[g.pick(8)]
		return fmt.Sprintf("inj ping %d %s %s", rtt, hexs(g.name()), hexb(p))
	case 5, 6:
		return g.nodeOp("join")
	case 7:
		return g.nodeOp("update")
	case 8:
		return g.nodeOp("leave")
	case 9:
		return g.nodeOp("nmerge")
	case 10:
		return g.nodeOp("nalive")
	case 11:
		return g.nodeOp("conflict")
	case 12:
		return "inj state"
	case 13:
		return fmt.Sprintf("inj qlocal %s %s %d", hexs([]string{"deploy", "_serf_conflict", "_serf_list-keys", "x"}[g.pick(4)]), hexb(g.bytes()), g.pick(2))
	case 14, 15:
		return fmt.Sprintf("inj respopen %d %s %s", g.pick(4), hexs(g.name()), hexb(g.respPayload()))
	}
	return "inj msg " + hexb(g.message(0))
}

func (g c09G) mutate(b []byte) []byte {
	b = append([]byte{}, b...)
	for n := 1 + g.pick(3); n > 0; n-- {
		switch g.pick(7) {
		case 0:
			if len(b) > 0 {
				b[g.pick(len(b))] ^= 1 << uint(g.pick(8))
			}
		case 1:
			b = b[:g.pick(len(b)+1)]
		case 2:
			b = append(b, g.bytes()...)
		case 3:
			if len(b) > 0 {
				b[g.pick(len(b))] = byte([]int{0, 0xff, 0xc0, 0x80, 0x90, 0xdc, 0xdd, 0xde, 0xdf, 0xc4, 0xc6, 0xd9, 0xdb}[g.pick(13)])
			}
		case 4:
			if len(b) > 1 {
				i := g.pick(len(b))
				b = append(b[:i], b[i+g.pick(len(b)-i):]...)
			}
		case 5:
			if len(b) > 0 {
				i := g.pick(len(b))
				ins := make([]byte, 1+g.pick(4))
				g.r.Read(ins)
				b = append(b[:i], append(ins, b[i:]...)...)
			}
		case 6:
			if len(b) > 0 {
				b[0] = byte(g.pick(11))
			}
		}
	}
	return b
}

// byteLevel: raw strings and mutations of valid encodings.
func (g c09G) byteLevel() string {
	var b []byte
	if g.pick(4) == 0 {
		b = make([]byte, g.pick(64))
		g.r.Read(b)
		if len(b) > 0 && g.pick(2) == 0 {
			b[0] = byte(g.pick(10))
		}
	} else {
		b = g.mutate(g.message(0))
	}
	switch g.pick(12) {
	case 0, 1:
		return "inj merge" + fmt.Sprint(g.pick(2)) + " " + hexb(g.mutate(encodeWire(msgPushPullType, g.pushPull())))
	case 2:
		return fmt.Sprintf("inj ping 1000000 %s %s", hexs("n1"), hexb(g.mutate(append([]byte{1}, mp(g.coord())...))))
	case 3:
		return fmt.Sprintf("inj join %s %s %s 1 0", hexs(g.name()), hexb(g.addr()), hexb(g.mutate(append([]byte{0xff}, mp(map[string]string{"role": "db"})...))))
	case 4:
		return fmt.Sprintf("inj respopen 0 %s %s", hexs("n1"), hexb(g.mutate(g.respPayload())))
	}
	return "inj msg " + hexb(b)
}

func c09Gen(rng *rand.Rand, tier string) []Case {
	g := c09G{rng}
	perCase, nStruct, nBytes := 500, 3000, 3000
	if tier == "thorough" {
		perCase, nStruct, nBytes = 2000, 200000, 200000
	}
	out := c09Directed()
	mk := func(prefix string, n int, gen func() string, tag string) {
		for c := 0; c*perCase < n; c++ {
			ops := make([]string, 0, perCase+8)
			// open a few queries of the node's own so that replies are routed
			ops = append(ops, "inj qlocal "+hexs("deploy")+" - 1", "inj keyop "+[]string{"list", "install", "use", "remove"}[c%4])
			for i := 0; i < perCase; i++ {
				ops = append(ops, gen())
				if i%250 == 125 {
					ops = append(ops, "inj qlocal "+hexs("_serf_conflict")+" "+hexs("n1")+" 0", "inj keyop "+[]string{"list", "install", "use", "remove"}[(c+i)%4])
				}
			}
			ops = append(ops, "alive")
			out = append(out, Case{ID: fmt.Sprintf("%s%d", prefix, c), Ops: ops, Nontrivial: true, Tags: []string{tag}})
		}
	}
	// replies racing the application's early Close of the query: a schedule-dependent search (see closeRace).  The cases
	// are spread over the whole list so that they end up in different child processes (each keeps several processors busy).
	nr, rounds := 2, 12000
	if tier == "thorough" {
		nr, rounds = 40, 15000
	}
	var races []Case
	for c := 0; c < nr; c++ {
		races = append(races, Case{ID: fmt.Sprintf("cr%d", c), Ops: []string{fmt.Sprintf("inj closerace %d 4 %d", rounds, 1+rng.Intn(1<<15)), "alive"},
			Nontrivial: true, Tags: []string{"close-race"}})
	}
	mk("s", nStruct, g.structured, "structured")
	mk("b", nBytes, g.byteLevel, "bytes")
	// the name-conflict vote with arbitrary reply payloads: short cases (each vote lasts one query timeout)
	nv := 4
	if tier == "thorough" {
		nv = 300
	}
	for c := 0; c < nv; c++ {
		op := "inj selfconflict"
		for k := 1 + g.pick(6); k > 0; k-- {
			p := g.respPayload()
			if len(p) > 1 && p[0] == 6 && g.pick(2) == 0 {
				p = g.mutate(p)
			}
			// any reply that decodes (even `06 c0`, a nil member) counts as a vote for another address and would
			// legitimately vote the node out; keep only replies that cannot decode: the bare type byte
			if len(p) > 0 && p[0] == 6 {
				p = p[:1]
			}
			op += " " + hexb(p)
		}
		out = append(out, Case{ID: fmt.Sprintf("v%d", c), Ops: []string{"inj slowquery", op, "inj msg " + hexb(g.message(0)), "alive"}, Nontrivial: true, Tags: []string{"conflict-vote"}})
	}
	// interleave the race cases
	step := 1 + len(out)/(len(races)+1)
	var mixed []Case
	for i, c := range out {
		mixed = append(mixed, c)
		if (i+1)%step == 0 && len(races) > 0 {
			mixed = append(mixed, races[0])
			races = races[1:]
		}
	}
	return append(mixed, races...)
}
