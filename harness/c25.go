package main

import (
	"bufio"
	"fmt"
	"math/rand"
	"net"
	"reflect"
	"runtime"
	"strconv"
	"strings"
	"sync"
	"sync/atomic"
	"time"

	"github.com/hashicorp/go-msgpack/v2/codec"
	"github.com/hashicorp/serf/cmd/serf/command/agent"
	"github.com/hashicorp/serf/serf"
)

// C25: (1) the real eventStream (hook constructor, 512-slot channel + goroutine) over a
// token-gated recording client: the harness decides when the "client" consumes;
// (2) the real queryResponseStream.Stream over a QueryResponse the harness feeds itself;
// (3) end-to-end over the real socket: stream command + user events fired through the
// agent, query command answered by the node itself.

const c25Wait = 10 * time.Second

// c25Broken: one wait already ran into its (generous) deadline — the implementation does not
// do what every later wait expects either, so those give up quickly instead of stalling the run.
var c25Broken bool

func c25Deadline() time.Duration {
	if c25Broken {
		return 30 * time.Millisecond
	}
	return c25Wait
}

type c25ES struct {
	rec      *agent.VerifRecorder
	es       *agent.VerifEventStream
	filters  []agent.EventFilter
	inflight bool
	dead     bool // a Send failed: the stream goroutine has returned
	halted   bool // Stop() was called; HandleEvent must ignore everything from now on
	shown    int
}

func c25WaitFor(cond func() bool) bool {
	dl := time.Now().Add(c25Deadline())
	for !cond() {
		if time.Now().After(dl) {
			c25Broken = true
			return false
		}
		time.Sleep(50 * time.Microsecond)
	}
	return true
}

func c25Event(kind, name string, id uint64) serf.Event {
	pl := []byte(strconv.FormatUint(id, 10))
	switch kind {
	case "user":
		return serf.UserEvent{LTime: serf.LamportTime(id), Name: name, Payload: pl}
	case "query":
		return &serf.Query{LTime: serf.LamportTime(id), Name: name, Payload: pl}
	}
	var t serf.EventType
	switch kind {
	case "member-join":
		t = serf.EventMemberJoin
	case "member-leave":
		t = serf.EventMemberLeave
	case "member-failed":
		t = serf.EventMemberFailed
	case "member-update":
		t = serf.EventMemberUpdate
	case "member-reap":
		t = serf.EventMemberReap
	default:
		return nil
	}
	return serf.MemberEvent{Type: t, Members: []serf.Member{{Name: "m" + strconv.FormatUint(id, 10)}}}
}

func c25ShowRec(r agent.VerifRecord) string {
	switch r.Kind {
	case "user", "query":
		return fmt.Sprintf("%d:%s:%s:%s", r.Seq, r.Kind, hexs(r.Name), string(r.Payload))
	case "member":
		return fmt.Sprintf("%d:%s:-:%s", r.Seq, r.Event, strings.TrimPrefix(r.Name, "m"))
	case "ack", "response", "done":
		return fmt.Sprintf("%d:%s:%s:%s", r.Seq, r.Kind, hexs(r.Name), hexb(r.Payload))
	}
	return fmt.Sprintf("%d:%s", r.Seq, r.Kind)
}

func (s *c25ES) newRecs() string {
	all := s.rec.Records()
	var out []string
	for _, r := range all[s.shown:] {
		out = append(out, c25ShowRec(r))
	}
	s.shown = len(all)
	return c24Join(out)
}

// releaseOne lets the in-flight Send complete and waits for the goroutine to park again.
func (s *c25ES) releaseOne() bool {
	if !s.inflight {
		return true
	}
	pending := s.es.BufLen() // exact: the only consumer is parked in Send
	done := s.rec.Completed()
	ent := s.rec.Entered()
	s.rec.Release(1)
	if !c25WaitFor(func() bool { return s.rec.Completed() > done }) {
		return false
	}
	if pending > 0 {
		if !c25WaitFor(func() bool { return s.rec.Entered() > ent }) {
			return false
		}
	} else {
		s.inflight = false
	}
	return true
}

// c25Dur reads a timeout field: `<n>` = milliseconds, `<n>ns` / `<n>us` = that many nano/microseconds (may be negative).
func c25Dur(f string) (time.Duration, bool) {
	unit := time.Millisecond
	switch {
	case strings.HasSuffix(f, "ns"):
		unit, f = time.Nanosecond, strings.TrimSuffix(f, "ns")
	case strings.HasSuffix(f, "us"):
		unit, f = time.Microsecond, strings.TrimSuffix(f, "us")
	}
	n, err := strconv.ParseInt(f, 10, 64)
	if err != nil {
		return 0, false
	}
	return time.Duration(n) * unit, true
}

type c25QS struct {
	rec      *agent.VerifRecorder
	resp     *serf.QueryResponse
	returned chan struct{}
}

func c25Exec(ops []string) []string {
	outs := make([]string, 0, len(ops))
	var es *c25ES
	var qs *c25QS
	other := -1
	defer func() {
		if es != nil {
			// never leave a goroutine parked
			es.es.Stop()
			es.rec.Release(100000)
		}
	}()
	for _, op := range ops {
		f := strings.Fields(op)
		switch {
		case len(f) == 3 && f[0] == "es":
			seq, err := strconv.ParseUint(f[2], 10, 64)
			fl := unhex(f[1])
			if err != nil || fl == nil {
				outs = append(outs, "bad-op")
				continue
			}
			rec := agent.NewVerifRecorder(true)
			es = &c25ES{rec: rec, es: agent.VerifNewEventStream(rec, string(fl), seq), filters: agent.ParseEventFilter(string(fl))}
			outs = append(outs, "ok")
		case len(f) == 4 && f[0] == "ev" && es != nil:
			id, err := strconv.ParseUint(f[3], 10, 64)
			nm := unhex(f[2])
			e := c25Event(f[1], string(nm), id)
			if err != nil || nm == nil || e == nil {
				outs = append(outs, "bad-op")
				continue
			}
			ent := es.rec.Entered()
			es.es.HandleEvent(e)
			if !es.inflight && !es.halted && !es.dead {
				// an idle stream goroutine must pick a wanted event up; wait for it to reach Send.
				// (which events are wanted is asked of the real filter, only to know whether to wait)
				want := false
				for i := range es.filters {
					if es.filters[i].Invoke(e) {
						want = true
					}
				}
				if want {
					if !c25WaitFor(func() bool { return es.rec.Entered() > ent }) {
						outs = append(outs, "TIMEOUT waiting for the stream goroutine")
						continue
					}
					es.inflight = true
				}
			}
			fl := 0
			if es.inflight {
				fl = 1
			}
			outs = append(outs, fmt.Sprintf("buf=%d fl=%d", es.es.BufLen(), fl))
		case len(f) == 1 && f[0] == "relfail" && es != nil:
			if es.inflight {
				done := es.rec.Completed()
				es.rec.FailAt = es.rec.Entered() // the Send now parked is the latest one entered
				es.rec.Release(1)
				if !c25WaitFor(func() bool { return es.rec.Completed() > done }) {
					outs = append(outs, "TIMEOUT failing send")
					continue
				}
				es.inflight = false
				es.dead = true
			}
			outs = append(outs, es.newRecs())
		case len(f) == 1 && f[0] == "halt" && es != nil:
			es.es.Stop()
			es.halted = true
			outs = append(outs, "ok")
		case len(f) == 2 && f[0] == "rel" && es != nil:
			k, err := strconv.Atoi(f[1])
			if err != nil {
				outs = append(outs, "bad-op")
				continue
			}
			ok := true
			for i := 0; i < k && es.inflight && ok; i++ {
				ok = es.releaseOne()
			}
			if !ok {
				outs = append(outs, "TIMEOUT releasing")
				continue
			}
			outs = append(outs, es.newRecs())
		case len(f) == 1 && f[0] == "stop" && es != nil:
			es.es.Stop()
			ok := true
			for es.inflight && ok {
				ok = es.releaseOne()
			}
			if !ok {
				outs = append(outs, "TIMEOUT draining")
				continue
			}
			outs = append(outs, es.newRecs())
			es.rec.Release(10)
			es = nil
		case len(f) == 4 && f[0] == "esrace":
			fl, nm := unhex(f[1]), unhex(f[3])
			e := c25Event(f[2], string(nm), 1)
			if fl == nil || nm == nil || e == nil {
				outs = append(outs, "bad-op")
				continue
			}
			st := agent.VerifNewEventStream(agent.NewVerifRecorder(false), string(fl), 5)
			res := "ok"
			func() {
				defer func() {
					if r := recover(); r != nil {
						res = "panicked"
					}
				}()
				st.Stop()
				st.Stop()
				st.HandleEvent(e)
				if st.BufLen() != 0 {
					res = "sent"
				}
			}()
			outs = append(outs, res)
		case len(f) == 3 && f[0] == "esstress":
			fl := unhex(f[1])
			n, err := strconv.Atoi(f[2])
			if fl == nil || err != nil {
				outs = append(outs, "bad-op")
				continue
			}
			outs = append(outs, c25Stress(string(fl), n))
		case len(f) == 4 && f[0] == "qs":
			seq, e1 := strconv.ParseUint(f[1], 10, 64)
			tmo, ok2 := c25Dur(f[3])
			if e1 != nil || !ok2 {
				outs = append(outs, "bad-op")
				continue
			}
			q := &c25QS{rec: agent.NewVerifRecorder(false), returned: make(chan struct{})}
			q.resp = serf.VerifIPCNewQueryResponse(16, tmo, f[2] == "1")
			go func() {
				agent.VerifQueryStream(q.rec, seq, q.resp)
				close(q.returned)
			}()
			qs = q
			outs = append(outs, "ok")
		case len(f) == 2 && f[0] == "qack" && qs != nil:
			outs = append(outs, qs.resp.VerifIPCSendAck(string(unhex(f[1]))))
		case len(f) == 3 && f[0] == "qresp" && qs != nil:
			outs = append(outs, qs.resp.VerifIPCSendResponse(string(unhex(f[1])), unhex(f[2])))
		case len(f) == 1 && f[0] == "qclose" && qs != nil:
			qs.resp.Close()
			outs = append(outs, "ok")
		case len(f) == 2 && f[0] == "qsleep" && qs != nil:
			us, _ := strconv.Atoi(f[1])
			time.Sleep(time.Duration(us) * time.Microsecond)
			outs = append(outs, "ok")
		case len(f) == 1 && f[0] == "qend" && qs != nil:
			select {
			case <-qs.returned:
			case <-time.After(c25Deadline()):
				c25Broken = true
				outs = append(outs, "TIMEOUT stream did not return")
				continue
			}
			n := len(qs.rec.Records())
			// whatever Serf delivers now must not be streamed any more
			qs.resp.VerifIPCSendAck("late")
			qs.resp.VerifIPCSendResponse("late", []byte("late"))
			time.Sleep(200 * time.Microsecond)
			var out []string
			for _, r := range qs.rec.Records() {
				out = append(out, c25ShowRec(r))
			}
			if len(out) != n {
				out = append(out, "AFTER-RETURN")
			}
			outs = append(outs, c24Join(out))
			qs = nil
		case len(f) == 4 && f[0] == "e2e":
			seq, err := strconv.ParseUint(f[2], 10, 64)
			fl := unhex(f[1])
			if err != nil || fl == nil {
				outs = append(outs, "bad-op")
				continue
			}
			var names []string // "u"+name or "q"+name
			for _, h := range splitNE(f[3], ",") {
				if strings.HasPrefix(h, "q") {
					names = append(names, "q"+string(unhex(h[1:])))
				} else {
					names = append(names, "u"+string(unhex(h)))
				}
			}
			res, o := c25E2EStream(string(fl), seq, names)
			other = o
			outs = append(outs, res)
		case len(f) == 1 && f[0] == "e2eother":
			outs = append(outs, strconv.Itoa(other))
		case len(f) == 6 && f[0] == "e2eq":
			seq, e1 := strconv.ParseUint(f[1], 10, 64)
			tmo, ok2 := c25Dur(f[2])
			delay, e3 := strconv.Atoi(f[5])
			if e1 != nil || !ok2 || e3 != nil {
				outs = append(outs, "bad-op")
				continue
			}
			outs = append(outs, c25E2EQuery(seq, tmo, f[3] == "1", f[4] == "1", delay))
		default:
			outs = append(outs, "bad-op")
		}
	}
	return outs
}

// c25Stress: HandleEvent from four goroutines (as the agent's eventLoop may, on a handler list
// copied before the stream was deregistered) while Stop runs twice.  A gated client keeps the
// buffer from draining, so anything entering the channel after Stop returned is visible.
func c25Stress(filter string, n int) string {
	rec := agent.NewVerifRecorder(true)
	st := agent.VerifNewEventStream(rec, filter, 9)
	defer rec.Release(100000)
	var wg sync.WaitGroup
	var panics atomic.Int64
	start := make(chan struct{})
	stopped := make(chan struct{})
	var lenAtStop atomic.Int64
	for g := 0; g < 4; g++ {
		wg.Add(1)
		go func(g int) {
			defer wg.Done()
			defer func() {
				if r := recover(); r != nil {
					panics.Add(1)
				}
			}()
			<-start
			for i := 0; i < n; i++ {
				st.HandleEvent(c25Event("user", "a", uint64(g*n+i+1)))
			}
		}(g)
	}
	wg.Add(1)
	go func() {
		defer wg.Done()
		defer func() {
			if r := recover(); r != nil {
				panics.Add(1)
			}
		}()
		<-start
		for i := 0; i < n/3; i++ {
			runtime.Gosched()
		}
		st.Stop()
		lenAtStop.Store(int64(st.BufLen()))
		st.Stop()
		close(stopped)
	}()
	close(start)
	wg.Wait()
	select {
	case <-stopped:
	default:
	}
	if panics.Load() > 0 {
		return "panicked"
	}
	// the consumer is parked in Send (gated) or idle: the buffer can only have grown by sends after Stop
	if int64(st.BufLen()) > lenAtStop.Load() {
		return "sent-after-stop"
	}
	return "ok"
}

// ---------------------------------------------------------------- end to end over the socket

type c25Conn struct {
	c   net.Conn
	dec *codec.Decoder
}

func c25Dial(addr string) (*c25Conn, error) {
	c, err := net.Dial("tcp", addr)
	if err != nil {
		return nil, err
	}
	h := &codec.MsgpackHandle{}
	h.RawToString = true
	h.MapType = reflect.TypeOf(map[string]any{})
	return &c25Conn{c: c, dec: codec.NewDecoder(bufio.NewReader(c), h)}, nil
}

func (c *c25Conn) send(objs ...string) {
	for _, o := range objs {
		b, _ := c24Encode(o)
		_, _ = c.c.Write(b)
	}
}

// header reads one reply header.
func (c *c25Conn) header() (uint64, string, error) {
	_ = c.c.SetReadDeadline(time.Now().Add(c25Deadline()))
	var v any
	if err := c.dec.Decode(&v); err != nil {
		return 0, "", err
	}
	seq, es, ok := c24IsHeader(v)
	if !ok {
		return 0, "", fmt.Errorf("not a header: %v", v)
	}
	return seq, es, nil
}

func (c *c25Conn) body() (map[string]any, error) {
	_ = c.c.SetReadDeadline(time.Now().Add(c25Wait))
	var v any
	if err := c.dec.Decode(&v); err != nil {
		return nil, err
	}
	m, ok := v.(map[string]any)
	if !ok {
		return nil, fmt.Errorf("not a record: %v", v)
	}
	return m, nil
}

func c25Str(v any) string {
	switch x := v.(type) {
	case string:
		return x
	case []byte:
		return string(x)
	}
	return ""
}

// c25WrapFilter adds the harness's end-marker filter on the side that keeps the client's own
// leading / trailing characters at the edge of the string the agent receives.
func c25WrapFilter(f string) string {
	if strings.HasPrefix(f, " ") {
		return f + ",user:fin"
	}
	return "user:fin," + f
}

func c25E2EStream(filter string, seq uint64, names []string) (string, int) {
	env, err := c24GetEnv()
	if err != nil {
		return "ERR env " + err.Error(), -1
	}
	addr, err := env.addr("")
	if err != nil {
		return "ERR listen", -1
	}
	c, err := c25Dial(addr)
	if err != nil {
		return "ERR dial", -1
	}
	base := env.agent.VerifEventHandlerCount()
	defer func() {
		// the stream must be deregistered before anything else fires events: an event dispatched
		// while the agent tears the stream down is the recorded finding event-after-stop-panic
		c.c.Close()
		c25WaitFor(func() bool { return env.agent.VerifEventHandlerCount() <= base })
	}()
	c.send("M"+mKV("Command", mS("handshake"))+","+mKV("Seq", "i1"), "M"+mKV("Version", "i1"),
		"M"+mKV("Command", mS("stream"))+","+mKV("Seq", "i"+strconv.FormatUint(seq, 10)), "M"+mKV("Type", mS(c25WrapFilter(filter))))
	for i := 0; i < 2; i++ {
		_, es, err := c.header()
		if i == 1 && err == nil && es == "Invalid event filter" {
			return "rejected", 0
		}
		if err != nil || es != "" {
			return fmt.Sprintf("ERR setup reply %d: %v %q", i, err, es), -1
		}
	}
	// The agent replies before it registers the stream: probe until the stream is live.
	type rec struct {
		seq uint64
		m   map[string]any
	}
	recs := make(chan rec, 4096)
	errs := make(chan error, 1)
	go func() {
		for {
			s, _, err := c.header()
			if err != nil {
				errs <- err
				return
			}
			m, err := c.body()
			if err != nil {
				errs <- err
				return
			}
			recs <- rec{s, m}
		}
	}()
	var out []string
	other := 0
	live := false
	dl := time.Now().Add(c25Deadline())
	for !live {
		if err := env.agent.UserEvent("fin", []byte("probe"), false); err != nil {
			return "ERR probe " + err.Error(), -1
		}
		select {
		case r := <-recs:
			if c25Str(r.m["Name"]) == "fin" && c25Str(r.m["Payload"]) == "probe" {
				if r.seq != seq {
					out = append(out, fmt.Sprintf("%d:u:%s:probe", r.seq, hexs("fin")))
				}
				live = true
			} else {
				other++
			}
		case err := <-errs:
			return "ERR read " + err.Error(), -1
		case <-time.After(2 * time.Millisecond):
		}
		if time.Now().After(dl) {
			c25Broken = true
			return "TIMEOUT stream never became live", -1
		}
	}
	for i, n := range names {
		if n[0] == 'q' {
			if _, err := env.agent.Query(n[1:], []byte(strconv.Itoa(i)), &serf.QueryParam{Timeout: 5 * time.Millisecond}); err != nil {
				return "ERR query " + err.Error(), -1
			}
			continue
		}
		if err := env.agent.UserEvent(n[1:], []byte(strconv.Itoa(i)), false); err != nil {
			return "ERR fire " + err.Error(), -1
		}
	}
	if err := env.agent.UserEvent("fin", []byte("end"), false); err != nil {
		return "ERR fin " + err.Error(), -1
	}
	for {
		select {
		case r := <-recs:
			ev := c25Str(r.m["Event"])
			nm, pl := c25Str(r.m["Name"]), c25Str(r.m["Payload"])
			if ev == "query" {
				out = append(out, fmt.Sprintf("%d:q:%s:%s", r.seq, hexs(nm), pl))
				continue
			}
			if ev != "user" {
				other++
				continue
			}
			if nm == "fin" && pl == "probe" {
				if r.seq != seq {
					out = append(out, fmt.Sprintf("%d:u:%s:probe", r.seq, hexs("fin")))
				}
				continue
			}
			if nm == "fin" && pl == "end" {
				if r.seq != seq {
					out = append(out, fmt.Sprintf("%d:u:%s:end", r.seq, hexs("fin")))
				}
				return c24Join(out), other
			}
			out = append(out, fmt.Sprintf("%d:u:%s:%s", r.seq, hexs(nm), pl))
		case err := <-errs:
			return "ERR read " + err.Error(), -1
		case <-time.After(c25Deadline()):
			c25Broken = true
			return "TIMEOUT waiting for the end marker; got " + c24Join(out), other
		}
	}
}

func c25E2EQuery(seq uint64, timeout time.Duration, ack, respond bool, delayUs int) string {
	env, err := c24GetEnv()
	if err != nil {
		return "ERR env " + err.Error()
	}
	addr, err := env.addr("")
	if err != nil {
		return "ERR listen"
	}
	env.handler.mu.Lock()
	env.handler.onQuery = func(q *serf.Query) {
		if q.Name != "vq" || !respond {
			return
		}
		go func() {
			time.Sleep(time.Duration(delayUs) * time.Microsecond)
			_ = q.Respond([]byte("pong"))
		}()
	}
	env.handler.mu.Unlock()
	defer func() {
		env.handler.mu.Lock()
		env.handler.onQuery = nil
		env.handler.mu.Unlock()
	}()
	c, err := c25Dial(addr)
	if err != nil {
		return "ERR dial"
	}
	defer c.c.Close()
	a := "f"
	if ack {
		a = "t"
	}
	c.send("M"+mKV("Command", mS("handshake"))+","+mKV("Seq", "i1"), "M"+mKV("Version", "i1"),
		"M"+mKV("Command", mS("query"))+","+mKV("Seq", "i"+strconv.FormatUint(seq, 10)),
		"M"+mKV("Name", mS("vq"))+","+mKV("Payload", "b"+hexs("ping"))+","+mKV("RequestAck", a)+","+mKV("Timeout", "i"+strconv.FormatInt(int64(timeout), 10)))
	for i := 0; i < 2; i++ {
		if s, es, err := c.header(); err != nil || es != "" {
			return fmt.Sprintf("ERR setup reply %d: %v %q", i, err, es)
		} else if i == 1 && s != seq {
			return fmt.Sprintf("%d:reply", s)
		}
	}
	var out []string
	sawDone := false
	for {
		s, es, err := c.header()
		if err != nil {
			if sawDone {
				break // EOF after we half-closed: nothing followed the done record
			}
			if ne, ok := err.(net.Error); (ok && ne.Timeout()) || strings.Contains(err.Error(), "i/o timeout") {
				c25Broken = true
				return "TIMEOUT no completion record after " + c24Join(out)
			}
			return "ERR read " + err.Error() + " after " + c24Join(out)
		}
		m, err := c.body()
		if err != nil {
			return "ERR read body " + err.Error()
		}
		if es != "" {
			out = append(out, fmt.Sprintf("%d:error", s))
			continue
		}
		t := c25Str(m["Type"])
		out = append(out, fmt.Sprintf("%d:%s:%s:%s", s, t, hexs(c25Str(m["From"])), hexs(c25Str(m["Payload"]))))
		if t == "done" && !sawDone {
			sawDone = true
			// let anything the agent might still send arrive, then half-close: the agent answers with EOF
			time.Sleep(300*time.Microsecond + timeout/50)
			_ = c.c.(*net.TCPConn).CloseWrite()
		}
	}
	return c24Join(out)
}

// ---------------------------------------------------------------- generator

func c25Gen(rng *rand.Rand, tier string) []Case {
	var out []Case
	filters := []string{"*", "", "user", "user:a", "user:a,user:b", "query", "query:q1", "member-join", "member-join,member-leave,user:b", "user:zz", "member-update,query:q1,user",
		// overlapping filters: an event matching several of them is still streamed once
		"user,user:a", "*,member-join", "*,*", "user:a,user:a", "query,query:q1,*", "user:a,user,user:b,*", "member-join,member-join,user:b,user"}
	kinds := []string{"user", "user", "user", "query", "member-join", "member-leave", "member-failed", "member-update", "member-reap"}
	names := []string{"a", "b", "q1", "zz", "deploy"}
	nUnit, nOver, nQ, nE2E, nE2EQ := 120, 2, 60, 25, 30
	if tier == "thorough" {
		nUnit, nOver, nQ, nE2E, nE2EQ = 4000, 30, 1500, 400, 400
	}
	ev := func(id int) string {
		k := kinds[rng.Intn(len(kinds))]
		n := "-"
		if k == "user" || k == "query" {
			n = hexs(names[rng.Intn(len(names))])
		}
		return fmt.Sprintf("ev %s %s %d", k, n, id)
	}
	// event stream, gated client: arrivals interleaved with releases
	for i := 0; i < nUnit; i++ {
		fl := filters[rng.Intn(len(filters))]
		ops := []string{fmt.Sprintf("es %s %d", hexs(fl), 2+rng.Intn(1000))}
		k := 1 + rng.Intn(25)
		for j := 0; j < k; j++ {
			if rng.Intn(4) == 0 {
				ops = append(ops, fmt.Sprintf("rel %d", 1+rng.Intn(4)))
			} else if rng.Intn(25) == 0 {
				ops = append(ops, "halt")
			} else if rng.Intn(30) == 0 {
				ops = append(ops, "relfail")
			} else {
				ops = append(ops, ev(j+1))
			}
		}
		ops = append(ops, "stop")
		out = append(out, Case{ID: fmt.Sprintf("es%d", i), Ops: ops, Nontrivial: k > 3, Tags: []string{"event-stream"}})
	}
	// overflow: more than 512 + 1 wanted events while the client is stalled
	for i := 0; i < nOver; i++ {
		fl := []string{"user", "*", "user:a"}[rng.Intn(3)]
		ops := []string{fmt.Sprintf("es %s %d", hexs(fl), 7+i)}
		n := 505 + rng.Intn(30)
		for j := 0; j < n; j++ {
			if rng.Intn(9) == 0 {
				ops = append(ops, ev(j+1))
			} else {
				ops = append(ops, fmt.Sprintf("ev user %s %d", hexs("a"), j+1))
			}
			if j == 400 && rng.Intn(2) == 0 {
				ops = append(ops, "rel 3")
			}
		}
		ops = append(ops, "rel 5", fmt.Sprintf("ev user %s %d", hexs("a"), n+1), "stop")
		out = append(out, Case{ID: fmt.Sprintf("over%d", i), Ops: ops, Nontrivial: true, Tags: []string{"event-overflow"}})
	}
	// Stop(); Stop(); HandleEvent() — the order the agent's eventLoop can produce — and HandleEvent racing Stop
	out = append(out, Case{ID: "stop-then-event", Ops: []string{"esrace " + hexs("*") + " user " + hexs("deploy"), "esrace " + hexs("user:a") + " user " + hexs("b"),
		"esrace " + hexs("member-join") + " member-join -", "esrace " + hexs("query") + " query " + hexs("q1")}, Nontrivial: true, Tags: []string{"stop-race"}})
	nStress := 12
	if tier == "thorough" {
		nStress = 300
	}
	for i := 0; i < nStress; i++ {
		out = append(out, Case{ID: fmt.Sprintf("stress%d", i), Ops: []string{fmt.Sprintf("esstress %s %d", hexs([]string{"*", "user", "user:a"}[rng.Intn(3)]), 20+rng.Intn(200))},
			Nontrivial: true, Tags: []string{"stop-race"}})
	}
	// query stream over a hand-fed QueryResponse: deliveries, close and deadline race freely
	for i := 0; i < nQ; i++ {
		ack := rng.Intn(3) != 0
		ms := 1 + rng.Intn(6)
		a := "0"
		if ack {
			a = "1"
		}
		ops := []string{fmt.Sprintf("qs %d %s %d", 3+rng.Intn(500), a, ms)}
		k := rng.Intn(8)
		for j := 0; j < k; j++ {
			switch rng.Intn(6) {
			case 0, 1:
				ops = append(ops, fmt.Sprintf("qack %s", hexs(fmt.Sprintf("n%d", j))))
			case 2, 3:
				ops = append(ops, fmt.Sprintf("qresp %s %s", hexs(fmt.Sprintf("n%d", j)), hexs(fmt.Sprintf("p%d", j))))
			case 4:
				ops = append(ops, fmt.Sprintf("qsleep %d", rng.Intn(ms*1200)))
			case 5:
				if rng.Intn(2) == 0 {
					ops = append(ops, "qclose")
				}
			}
		}
		if rng.Intn(2) == 0 {
			ops = append(ops, fmt.Sprintf("qsleep %d", ms*1000-rng.Intn(300)), "qclose")
		}
		ops = append(ops, "qend")
		out = append(out, Case{ID: fmt.Sprintf("qs%d", i), Ops: ops, Nontrivial: k > 1, Tags: []string{"query-stream"}})
	}
	// end to end: stream command with a filter, user events and queries fired through the agent.
	// Names are case-sensitive and only differ by case among the traffic; filters may carry
	// leading / trailing spaces (the real code then rejects or mis-names them, never trims).
	e2eNames := []string{"a", "b", "A", "Deploy-EU", "deploy-eu", "DEPLOY-EU", "zz", "Uptime", "uptime"}
	e2eFilters := []string{"user", "user:a", "user:a,user:b", "*", "user:zz", "query,user:b", "member-join,user:Deploy-EU",
		"user:Deploy-EU", "user:deploy-eu", "user:DEPLOY-EU,user:A", "query:Uptime", "query:uptime,user:A", "query:Uptime,user:Deploy-EU",
		" user:a", "user:a ", " user", "user:Deploy-EU ", "User:a", "USER", "query:Uptime ", "Query:uptime",
		// overlapping filters (the end marker's own filter `user:fin` overlaps with `user` and `*` as well)
		"user,user:Deploy-EU", "*,member-join", "user:a,user:a,user", "query,query:Uptime,*", "*,*"}
	for i := 0; i < nE2E; i++ {
		fl := e2eFilters[rng.Intn(len(e2eFilters))]
		if i < len(e2eFilters) {
			fl = e2eFilters[i]
		}
		k := 2 + rng.Intn(12)
		var ns []string
		for j := 0; j < k; j++ {
			n := hexs(e2eNames[rng.Intn(len(e2eNames))])
			if rng.Intn(4) == 0 {
				n = "q" + n
			}
			ns = append(ns, n)
		}
		// always some traffic that differs from the filter's names only by case
		ns = append(ns, hexs("Deploy-EU"), hexs("deploy-eu"), "q"+hexs("Uptime"), "q"+hexs("uptime"), hexs("a"), hexs("A"))
		ops := []string{fmt.Sprintf("e2e %s %d %s", hexs(fl), 2+rng.Intn(100000), strings.Join(ns, ",")), "e2eother"}
		out = append(out, Case{ID: fmt.Sprintf("e2e%d", i), Ops: ops, Nontrivial: true, Tags: []string{"e2e-stream"}})
	}
	// boundary timeouts: the deadline has (all but) passed when the stream goroutine starts — 1 ns, 1 µs,
	// zero and negative durations on the hand-fed query; 1 ns, 1 µs and a negative one over the socket
	// (a zero Timeout means Serf's default of seconds: thorough tier only)
	for i, t := range []string{"1ns", "0ns", "-1ns", "1us", "-5000000ns", "1ns", "300us"} {
		ops := []string{fmt.Sprintf("qs %d %d %s", 40+i, i%2, t)}
		if i >= 4 {
			ops = append(ops, "qack "+hexs("n1"), "qresp "+hexs("n1")+" "+hexs("p1"))
		}
		if i%3 == 0 {
			ops = append(ops, "qclose")
		}
		ops = append(ops, "qend")
		out = append(out, Case{ID: fmt.Sprintf("qs-expired%d", i), Ops: ops, Nontrivial: true, Tags: []string{"query-expired"}})
	}
	e2eT := []string{"1ns", "1us", "-1ns", "40us"}
	if tier == "thorough" {
		e2eT = append(e2eT, "0ns", "-1000000000ns", "2ns", "500ns")
	}
	for i, t := range e2eT {
		ops := []string{fmt.Sprintf("e2eq %d %s %d %d %d", 900+i, t, i%2, (i/2)%2, 0)}
		out = append(out, Case{ID: fmt.Sprintf("e2eq-expired%d", i), Ops: ops, Nontrivial: true, Tags: []string{"query-expired"}})
	}
	// end to end: query command, acked and answered by the node itself, short timeouts
	for i := 0; i < nE2EQ; i++ {
		ms := 2 + rng.Intn(12)
		ops := []string{fmt.Sprintf("e2eq %d %d %d %d %d", 2+rng.Intn(100000), ms, rng.Intn(2), rng.Intn(2), rng.Intn(ms*1100))}
		out = append(out, Case{ID: fmt.Sprintf("e2eq%d", i), Ops: ops, Nontrivial: true, Tags: []string{"e2e-query"}})
	}
	return out
}

func init() {
	register(&Prop{
		ID: "C25",
		Rule: "event-stream: the real eventStream (512-slot channel + goroutine) over a token-gated recording client, random filters, arrivals of all event kinds interleaved with client releases, " +
			"overflow cases with more than 513 pending wanted events; query-stream: the real Stream loop over a hand-fed QueryResponse with deliveries, Close and a 1-6 ms deadline racing freely; " +
			"e2e: stream/query commands over the real socket against a real agent. Non-trivial = more than 3 arrivals / more than one delivery / any e2e case",
		Gen:  c25Gen,
		Exec: c25Exec,
	})
}
