package main

import (
	"fmt"
	"math/rand"
	"net"
	"strings"
)

// C13: a graceful leave is remembered across restarts. Executor and op
// language: snapshot_common.go. Every life contains a Leave() at a random
// position (events before and after it), both settings of rejoin-after-leave,
// every threshold; a fifth of the synchronous lives restart beside a stale `.compact`
// file (left by an earlier failed compaction); 30% of the lives run through the real goroutines
// (NewSnapshotter, channel, Leave(), shutdown, Wait), which is where the
// leave handling of stream() lives.

func c13Gen(rng *rand.Rand, tier string) []Case {
	var out []Case
	// Leave() while the snapshotter is busy with a backlog, shutdown at once (real goroutines)
	for i, c := range [][3]int{{30, 1500, 128 * 1024}, {30, 1000, 200}, {20, 2000, 128 * 1024}} {
		out = append(out, Case{ID: fmt.Sprintf("burst%d", i), Tags: []string{"async", "burst-leave"}, Nontrivial: true,
			Ops: []string{fmt.Sprintf("burstleave %d %d %d", c[0], c[1], c[2])}})
	}
	out = append(out, c13Sweep(tier)...)
	n := 400
	if tier == "thorough" {
		n = 6000
	}
	for i := 0; i < n; i++ {
		o := snapGenOpts{maxEvents: 30, leave: true}
		switch {
		case i%10 < 3:
			o.async = true
			o.maxEvents = 20
			o.long = i%10 == 2 && i%20 < 10 // long names through the real goroutines: offsets beyond 2*128*nodes
		case i%10 == 3:
			o.long = true
			o.maxEvents = 10
		}
		o.staleTmp = !o.async && i%5 == 4 // options only: the random stream is the same with and without it
		out = append(out, snapCase(rng, fmt.Sprintf("l%d", i), o))
	}
	return out
}

// c13Sweep: lives through the real goroutines (NewSnapshotter, stream(), Leave(),
// shutdown, Wait) in which the 6-byte `leave` line is the append that crosses the
// compaction threshold: the file offset just before the Leave() is swept one byte
// at a time across the threshold (by the threshold, by a member-name length, and
// by the digits of a user-event clock line), rejoin-after-leave off and on. The
// compaction run from inside that append must already see the emptied rejoin set,
// or it rewrites the file as alive lines + clocks and the `leave` marker is gone.
func c13Sweep(tier string) []Case {
	var out []Case
	member := func(name string, last byte) (string, int) {
		ip := net.IP{10, 0, 0, last}
		addr := (&net.TCPAddr{IP: ip, Port: 7946}).String()
		return fmt.Sprintf("%s,%s,%d,%s", hexs(name), hexb(ip), 7946, hexs(addr)),
			len("alive: ") + len(name) + 1 + len(addr) + 1
	}
	name := func(n int, c byte) string { return strings.Repeat(string(c), n) }
	add := func(id string, rj bool, mc, offset int, pre []string) {
		ops := []string{fmt.Sprintf("new async %s %d", b01(rj), mc)}
		ops = append(ops, pre...)
		ops = append(ops, "leave", "shutdown 1", fmt.Sprintf("reopen %s %d", b01(rj), mc), "shutdown 1")
		tags := []string{"async", "leave", "leave-sweep", fmt.Sprintf("leave-sweep-d%+d", mc-offset)}
		if offset <= mc && offset+6 > mc {
			tags = append(tags, "leave-append-compacts")
		}
		out = append(out, Case{ID: id, Tags: tags, Nontrivial: true, Ops: ops})
	}
	lo, hi := -3, 9
	if tier == "thorough" {
		lo, hi = -12, 20
	}
	for _, rj := range []bool{false, true} {
		// (a) one member with a 300-byte name (offset > 2*128*1 nodes), the threshold swept
		m, o := member(name(300, 'a'), 1)
		for d := lo; d <= hi; d++ {
			add(fmt.Sprintf("sweep-mc-%s-%d", b01(rj), d-lo), rj, o+d, o, []string{"join 1 " + m})
		}
		// (b) two members, threshold fixed at 1024, the second name's length swept
		m1, o1 := member(name(400, 'b'), 2)
		for d := lo; d <= hi; d++ {
			_, base := member("", 3)
			m2, o2 := member(name(1024-d-o1-base, 'c'), 3)
			add(fmt.Sprintf("sweep-name-%s-%d", b01(rj), d-lo), rj, 1024, o1+o2, []string{"join 1 " + m1, "join 1 " + m2})
		}
		// (c) one member and user-event clock lines in front of the leave, threshold swept
		m3, o3 := member(name(350, 'd'), 4)
		o3 += len("event-clock: 7\n") + len("event-clock: 12345\n")
		for d := lo; d <= hi; d++ {
			add(fmt.Sprintf("sweep-ev-%s-%d", b01(rj), d-lo), rj, o3+d, o3, []string{"join 1 " + m3, "user 7", "user 12345"})
		}
	}
	return out
}

func init() {
	register(&Prop{
		ID: "C13",
		Rule: "random lives of the real Snapshotter with a Leave() at a random position among ≤30 events (joins incl. multi-member, leave/failed, update/reap, user/query times, clock ticks, flush-interval elapsing, forced compactions, dumps) " +
			"× rejoin-after-leave on/off × thresholds {0,1,64,200,128KiB} × unusual names; 30% through the real goroutines (NewSnapshotter/channel/Leave()/Wait), the rest through the synchronous hooks; then shutdown + reopen by the real NewSnapshotter; " +
			"plus 3 burst cases: 20-30 lives each through the real goroutines with two joins and a backlog of 1000-2000 user events, Leave() and shutdown at once, restart (the leave must always have been recorded); " +
			"plus the leave-offset sweep: lives through the real goroutines in which the file offset just before Leave() is moved one byte at a time across the compaction threshold (threshold, member-name length, clock-line digits; rejoin on/off), so that the 6-byte `leave` append is the one that compacts; " +
			"a fifth of the synchronous lives have a stale compaction temp file (an unknown member + clocks, whole or cut short) beside the snapshot at restart; " +
			"non-trivial = at least one join in the life (the rejoin set before the leave is non-empty or was); distinct = distinct op sequence",
		Gen:  c13Gen,
		Exec: snapExec,
	})
}
