package main

// Shared executor for the single-node membership properties (C02, C03, C04, C15).
// One case = one REAL serf node (serf.Create on loopback, never joined to anything).
// The harness plays memberlist and the network: it calls the node's event delegate
// (NotifyJoin/Leave/Update) and its delegate (NotifyMsg, MergeRemoteState, LocalState).
//
// Ops (names hex, times decimal; wall-clock values are multiples of one hour from the
// case start, so real elapsed time is negligible against every timeout):
//   nj <name>                 memberlist NotifyJoin
//   nl <name> <at> [d|l]      memberlist NotifyLeave; leaveTime := base + at h (hook); optional: how memberlist says
//                             the node went away — d = StateDead (failure detector), l = StateLeft (own leave notice)
//   s2 <name>                 push/pull to a FRESH real peer that knows <name> as alive: this node's LocalState is fed
//                             to the peer's MergeRemoteState; prints the peer's view of <name>
//   nu <name>                 memberlist NotifyUpdate
//   mj <name> <lt>            NotifyMsg(messageJoin)
//   ml <name> <lt> <0|1>      NotifyMsg(messageLeave, prune)
//   mg <lt> <n:lt,…|-> <n,…|->  MergeRemoteState(StatusLTimes, LeftMembers)
//   fl <name> <0|1>           forceLeave(name, prune)
//   oj                        broadcastJoin(clock.Time())  (tail of Join)
//   lv <at>                   Leave(); own leaveTime := base + at h
//   sd                        Shutdown(); every later op answers `after-shutdown` (not executed)
//   rp <now> <n:dur,…|->      one reaper tick at base + now h with per-member timeout overrides
//   ls                        LocalState(false), decoded
//   jl <lt> <0|1>             a leave claim (± prune) about the LOCAL node delivered WHILE a Join() call is in
//                             flight: Join to a local TCP listener that accepts and never answers (the call
//                             blocks for TCPTimeout and contacts nobody, so it broadcasts nothing itself)
// After every op the harness waits for a refuting join goroutine (if the op started one),
// drains EventCh and the intent queue, and prints the node's observable state.

import (
	"fmt"
	"io"
	"net"
	"sort"
	"strconv"
	"strings"
	"time"

	"github.com/hashicorp/memberlist"
	"github.com/hashicorp/serf/serf"
)

const (
	nodeSelf      = "self"
	nodeReconnect = 3 // hours
	nodeTombstone = 5
	nodeIntentTO  = 2
)

type nodeOverride struct{ m map[string]time.Duration }

func (o *nodeOverride) ReconnectTimeout(m *serf.Member, timeout time.Duration) time.Duration {
	if d, ok := o.m[m.Name]; ok {
		return d
	}
	return timeout
}

type nodeInst struct {
	s    *serf.Serf
	conf *serf.Config
	ch   chan serf.Event
	ov   *nodeOverride
	base time.Time
	down bool // Shutdown was called: the event pipeline is gone, nothing more is executed
}

func newNodeInst() (*nodeInst, error) {
	conf := serf.DefaultConfig()
	conf.Init()
	conf.NodeName = nodeSelf
	conf.MemberlistConfig.BindAddr = "127.0.0.1"
	conf.MemberlistConfig.BindPort = 0
	conf.MemberlistConfig.AdvertisePort = 0
	conf.MemberlistConfig.LogOutput = io.Discard
	conf.LogOutput = io.Discard
	conf.BroadcastTimeout = time.Millisecond
	conf.LeavePropagateDelay = time.Millisecond
	conf.ReapInterval = 1000 * time.Hour
	conf.ReconnectInterval = 1000 * time.Hour
	conf.ReconnectTimeout = nodeReconnect * time.Hour
	conf.TombstoneTimeout = nodeTombstone * time.Hour
	conf.RecentIntentTimeout = nodeIntentTO*time.Hour + 30*time.Minute
	conf.DisableCoordinates = true
	conf.MemberlistConfig.TCPTimeout = 400 * time.Millisecond // how long a Join to a mute peer stays in flight (op jl)
	ov := &nodeOverride{m: map[string]time.Duration{}}
	conf.ReconnectTimeoutOverride = ov
	ch := make(chan serf.Event, 1<<14)
	conf.EventCh = ch
	base := time.Now()
	s, err := serf.Create(conf)
	if err != nil {
		return nil, err
	}
	return &nodeInst{s: s, conf: conf, ch: ch, ov: ov, base: base}, nil
}

func nodeEvName(t serf.EventType) string {
	switch t {
	case serf.EventMemberJoin:
		return "join"
	case serf.EventMemberLeave:
		return "leave"
	case serf.EventMemberFailed:
		return "failed"
	case serf.EventMemberUpdate:
		return "update"
	case serf.EventMemberReap:
		return "reap"
	}
	return "other"
}

func nodeStatusName(st serf.MemberStatus) string {
	switch st {
	case serf.StatusAlive:
		return "alive"
	case serf.StatusLeaving:
		return "leaving"
	case serf.StatusLeft:
		return "left"
	case serf.StatusFailed:
		return "failed"
	}
	return "none"
}

func joinOrDash(xs []string) string {
	if len(xs) == 0 {
		return "-"
	}
	return strings.Join(xs, ",")
}

// drainEvents returns the member events delivered so far, in order. EventCh is fed through
// an internal goroutine (the internal-query filter), so a user event is sent as a barrier:
// the pipeline is FIFO, everything before the barrier has arrived when the barrier has.
func (ni *nodeInst) drainEvents() string {
	var evs []string
	if err := ni.s.UserEvent("verif-barrier", nil, false); err != nil {
		return "barrier-failed"
	}
	deadline := time.After(5 * time.Second)
	for {
		select {
		case e := <-ni.ch:
			switch me := e.(type) {
			case serf.MemberEvent:
				for _, m := range me.Members {
					evs = append(evs, nodeEvName(me.Type)+":"+hexs(m.Name))
				}
			case serf.UserEvent:
				if me.Name == "verif-barrier" {
					return joinOrDash(evs)
				}
				evs = append(evs, "other")
			default:
				evs = append(evs, "other")
			}
		case <-deadline:
			return joinOrDash(append(evs, "barrier-timeout"))
		}
	}
}

func (ni *nodeInst) drainQueue() string {
	var qs []string
	for _, b := range ni.s.VerifDrainIntentQueue() {
		d := serf.VerifDecodeIntent(b)
		switch {
		case d.Other:
			qs = append(qs, "X")
		case d.Leave:
			p := 0
			if d.Prune {
				p = 1
			}
			qs = append(qs, fmt.Sprintf("L:%s:%d:%d", hexs(d.Node), d.LTime, p))
		default:
			qs = append(qs, fmt.Sprintf("J:%s:%d", hexs(d.Node), d.LTime))
		}
	}
	sort.Strings(qs)
	return joinOrDash(qs)
}

func (ni *nodeInst) observe() string { return ni.observeWith(ni.drainEvents()) }

func (ni *nodeInst) observeWith(ev string) string {
	q := ni.drainQueue()
	lts := ni.s.VerifStatusLTimes()
	var ms []string
	for _, m := range ni.s.Members() {
		ms = append(ms, fmt.Sprintf("%s:%s:%d", hexs(m.Name), nodeStatusName(m.Status), lts[m.Name]))
	}
	sort.Strings(ms)
	var f, l []string
	for _, n := range ni.s.VerifFailedNames() {
		f = append(f, hexs(n))
	}
	for _, n := range ni.s.VerifLeftNames() {
		l = append(l, hexs(n))
	}
	var is []string
	for _, in := range ni.s.VerifRecentIntents() {
		k := "J"
		if in.Leave {
			k = "L"
		}
		is = append(is, fmt.Sprintf("%s:%s:%d", hexs(in.Node), k, in.LTime))
	}
	sort.Strings(is)
	st := ni.s.Stats()
	return fmt.Sprintf("ev=%s q=%s m=%s f=%s l=%s sf=%s sl=%s sm=%s i=%s c=%d s=%s",
		ev, q, joinOrDash(ms), joinOrDash(f), joinOrDash(l), st["failed"], st["left"], st["members"],
		joinOrDash(is), ni.s.VerifClock(), ni.s.State().String())
}

func (ni *nodeInst) hasAliveOthers() bool {
	for _, m := range ni.s.Members() {
		if m.Name != nodeSelf && m.Status == serf.StatusAlive {
			return true
		}
	}
	return false
}

// waitQueued waits until the intent queue holds at least n messages (the refuting
// join runs in its own goroutine).
func (ni *nodeInst) waitQueued(n int) bool {
	deadline := time.Now().Add(3 * time.Second)
	for {
		got, _ := strconv.Atoi(ni.s.Stats()["intent_queue"])
		if got >= n {
			return true
		}
		if time.Now().After(deadline) {
			return false
		}
		time.Sleep(20 * time.Microsecond)
	}
}

func mlNode(name string) *memberlist.Node {
	return &memberlist.Node{Name: name, Addr: net.IP{127, 0, 0, 1}, Port: 1}
}

func parseHexName(s string) (string, bool) {
	b := unhex(s)
	if b == nil {
		return "", false
	}
	return string(b), true
}

// selfClaimNewer: would a leave claim about the local node at time lt start a refutation?
func (ni *nodeInst) selfClaimNewer(lt uint64) bool {
	if ni.s.State() != serf.SerfAlive {
		return false
	}
	cur, ok := ni.s.VerifStatusLTimes()[nodeSelf]
	return ok && lt > cur
}

func (ni *nodeInst) exec(o string) string {
	f := strings.Fields(o)
	if len(f) == 0 {
		return "bad-op"
	}
	if ni.down {
		// after Shutdown the goroutine feeding EventCh has exited: any call that emits an event
		// would block forever, so a shut-down node is not driven any further
		return "after-shutdown"
	}
	ev := ni.conf.MemberlistConfig.Events
	dg := ni.conf.MemberlistConfig.Delegate
	at := func(h uint64) time.Time { return ni.base.Add(time.Duration(h) * time.Hour) }
	timedOut := false
	switch {
	case f[0] == "nj" && len(f) == 2:
		n, ok := parseHexName(f[1])
		if !ok {
			return "bad-op"
		}
		ev.NotifyJoin(mlNode(n))
	case f[0] == "nl" && (len(f) == 3 || len(f) == 4):
		n, ok := parseHexName(f[1])
		t, err := strconv.ParseUint(f[2], 10, 32)
		if !ok || err != nil || (len(f) == 4 && f[3] != "d" && f[3] != "l") {
			return "bad-op"
		}
		mlState := memberlist.StateAlive // zero value, as before
		if len(f) == 4 {
			mlState = memberlist.StateDead
			if f[3] == "l" {
				mlState = memberlist.StateLeft
			}
		}
		before := map[string]serf.MemberStatus{}
		for _, m := range ni.s.Members() {
			before[m.Name] = m.Status
		}
		t0 := time.Now()
		nd := mlNode(n)
		nd.State = mlState
		ev.NotifyLeave(nd)
		t1 := time.Now()
		// The stamp handleNodeLeave took (time.Now()) is replaced by the explicit one — only when the code
		// really took a stamp during this call: a leaveTime it kept from earlier stays what it was.
		if st, ok := before[n]; ok && (st == serf.StatusAlive || st == serf.StatusLeaving) {
			if lt, ok := ni.s.VerifLeaveTime(n); ok && !lt.Before(t0) && !lt.After(t1) {
				ni.s.VerifSetLeaveTime(n, at(t))
			}
		}
	case f[0] == "nu" && len(f) == 2:
		n, ok := parseHexName(f[1])
		if !ok {
			return "bad-op"
		}
		ev.NotifyUpdate(mlNode(n))
	case f[0] == "mj" && len(f) == 3:
		n, ok := parseHexName(f[1])
		lt, err := strconv.ParseUint(f[2], 10, 64)
		if !ok || err != nil {
			return "bad-op"
		}
		dg.NotifyMsg(serf.VerifEncodeJoin(lt, n))
	case f[0] == "ml" && len(f) == 4:
		n, ok := parseHexName(f[1])
		lt, err := strconv.ParseUint(f[2], 10, 64)
		if !ok || err != nil || (f[3] != "0" && f[3] != "1") {
			return "bad-op"
		}
		expect := n == nodeSelf && ni.selfClaimNewer(lt)
		dg.NotifyMsg(serf.VerifEncodeLeave(lt, n, f[3] == "1"))
		if expect {
			timedOut = !ni.waitQueued(1)
		}
	case (f[0] == "uevdup" && len(f) == 4) || (f[0] == "qrydup" && len(f) == 5):
		// the same user event / query delivered `times` times by gossip: how much the event / query queue grows
		// per delivery.  qrydup <lt> <filter: none|other|tag> <nobroadcast01> <times>; uevdup <lt> <hexname> <times>
		lt, e1 := strconv.ParseUint(f[1], 10, 64)
		times, e2 := strconv.Atoi(f[len(f)-1])
		if e1 != nil || e2 != nil || times < 1 || times > 20 {
			return "bad-op"
		}
		var raw []byte
		key := "event_queue"
		if f[0] == "uevdup" {
			name, ok := parseHexName(f[2])
			if !ok {
				return "bad-op"
			}
			raw, _ = serf.VerifEncodeUserEvent(lt, name, []byte("p"), false)
		} else {
			key = "query_queue"
			var filters [][]byte
			switch f[2] {
			case "none":
			case "other":
				b, _ := serf.VerifEncodeFilterNode([]string{"some-other-node"})
				filters = [][]byte{b}
			case "tag":
				b, _ := serf.VerifEncodeFilterTag("no-such-tag", "^required$")
				filters = [][]byte{b}
			default:
				return "bad-op"
			}
			var flags uint32
			if f[3] == "1" {
				flags = serf.VerifQueryFlagNoBroadcast
			}
			raw, _ = serf.VerifEncodeQuery(serf.VerifQuery{LTime: lt, ID: uint32(lt)*7 + 3, Addr: []byte{127, 0, 0, 1}, Port: 1, SourceNode: "src",
				Filters: filters, Flags: flags, Timeout: time.Hour, Name: "dup"})
		}
		q := func() int { n, _ := strconv.Atoi(ni.s.Stats()[key]); return n }
		var growth []string
		for i := 0; i < times; i++ {
			before := q()
			dg.NotifyMsg(raw)
			growth = append(growth, strconv.Itoa(q()-before))
		}
		ni.drainEvents()
		return "growth " + strings.Join(growth, ",")
	case f[0] == "uevalt" && len(f) == 4:
		// uevalt <lt> <dist> <rounds>: two user events at times lt and lt+dist delivered alternately by gossip
		// (lower first), `rounds` times each: how much the event queue grows per delivery.
		lt, e1 := strconv.ParseUint(f[1], 10, 64)
		dist, e2 := strconv.ParseUint(f[2], 10, 64)
		rounds, e3 := strconv.Atoi(f[3])
		if e1 != nil || e2 != nil || e3 != nil || dist < 1 || lt < 1 || lt > 1<<40 || dist > 1<<40 || rounds < 1 || rounds > 10 {
			return "bad-op"
		}
		lo, _ := serf.VerifEncodeUserEvent(lt, "alt-lo", []byte("p"), false)
		hi, _ := serf.VerifEncodeUserEvent(lt+dist, "alt-hi", []byte("p"), false)
		q := func() int { n, _ := strconv.Atoi(ni.s.Stats()["event_queue"]); return n }
		var growth []string
		for i := 0; i < rounds; i++ {
			for _, raw := range [][]byte{lo, hi} {
				before := q()
				dg.NotifyMsg(raw)
				growth = append(growth, strconv.Itoa(q()-before))
			}
		}
		ni.drainEvents()
		return "growth " + strings.Join(growth, ",")
	case f[0] == "ml2" && len(f) == 4:
		// two different claims about the running local node delivered back to back (no wait in between):
		// every one of them must end up refuted by a join with a greater time.  Last op of a case.
		a, e1 := strconv.ParseUint(f[1], 10, 64)
		b, e2 := strconv.ParseUint(f[2], 10, 64)
		if e1 != nil || e2 != nil || (f[3] != "0" && f[3] != "1") {
			return "bad-op"
		}
		// at least one refuting goroutine is started when a claim is newer than the own status time; under
		// load it may take longer than the quiet window to be scheduled, so the quiet window only counts
		// once the first join has been seen (or when none is due)
		expectAny := ni.selfClaimNewer(a) || ni.selfClaimNewer(b)
		dg.NotifyMsg(serf.VerifEncodeLeave(a, nodeSelf, false))
		dg.NotifyMsg(serf.VerifEncodeLeave(b, nodeSelf, f[3] == "1"))
		var maxJoin uint64
		joins := 0
		deadline := time.Now().Add(10 * time.Second)
		quiet := time.Now()
		for time.Now().Before(deadline) && ((expectAny && joins == 0) || time.Since(quiet) < 150*time.Millisecond) {
			for _, raw := range ni.s.VerifDrainIntentQueue() {
				d := serf.VerifDecodeIntent(raw)
				if !d.Other && !d.Leave && d.Node == nodeSelf {
					joins++
					if d.LTime > maxJoin {
						maxJoin = d.LTime
					}
					quiet = time.Now()
				}
			}
			time.Sleep(5 * time.Millisecond)
		}
		self := "absent"
		for _, m := range ni.s.Members() {
			if m.Name == nodeSelf {
				self = nodeStatusName(m.Status)
			}
		}
		return fmt.Sprintf("refute2 self=%s joins=%d maxjoin=%d", self, joins, maxJoin)
	case f[0] == "s2" && len(f) == 2:
		n, ok := parseHexName(f[1])
		if !ok {
			return "bad-op"
		}
		peer, perr := newNodeInst()
		if perr != nil {
			return "env-error"
		}
		defer func() { _ = peer.s.Shutdown() }()
		peer.conf.MemberlistConfig.Events.NotifyJoin(mlNode(n))
		peer.conf.MemberlistConfig.Delegate.MergeRemoteState(dg.LocalState(false), false)
		view := "absent"
		lts := peer.s.VerifStatusLTimes()
		for _, m := range peer.s.Members() {
			if m.Name == n {
				view = fmt.Sprintf("%s:%d", nodeStatusName(m.Status), lts[n])
			}
		}
		return "peer=" + view
	case f[0] == "jl" && len(f) == 3:
		lt, err := strconv.ParseUint(f[1], 10, 64)
		if err != nil || (f[2] != "0" && f[2] != "1") {
			return "bad-op"
		}
		ln, lerr := net.Listen("tcp", "127.0.0.1:0")
		if lerr != nil {
			return "listen-failed"
		}
		accepted := make(chan net.Conn, 8)
		go func() {
			for {
				c, err := ln.Accept()
				if err != nil {
					return
				}
				accepted <- c // held open, never answered
			}
		}()
		done := make(chan struct{})
		go func() {
			_, _ = ni.s.Join([]string{ln.Addr().String()}, false)
			close(done)
		}()
		var held []net.Conn
		inFlight := false
		select { // the Join is in flight once its push/pull connection has been accepted
		case c := <-accepted:
			held = append(held, c)
			inFlight = true
		case <-done: // Join refused (node not alive any more): the claim is delivered anyway
		case <-time.After(3 * time.Second):
		}
		expect := ni.selfClaimNewer(lt)
		dg.NotifyMsg(serf.VerifEncodeLeave(lt, nodeSelf, f[2] == "1"))
		select {
		case <-done:
		case <-time.After(15 * time.Second):
			timedOut = true
		}
		_ = ln.Close()
		for _, c := range held {
			_ = c.Close()
		}
		for {
			select {
			case c := <-accepted:
				_ = c.Close()
				continue
			default:
			}
			break
		}
		_ = inFlight
		if expect {
			timedOut = !ni.waitQueued(1) || timedOut
		}
	case f[0] == "mg" && len(f) == 4:
		lt, err := strconv.ParseUint(f[1], 10, 64)
		if err != nil {
			return "bad-op"
		}
		status := map[string]uint64{}
		if f[2] != "-" {
			for _, e := range strings.Split(f[2], ",") {
				p := strings.SplitN(e, ":", 2)
				if len(p) != 2 {
					return "bad-op"
				}
				n, ok := parseHexName(p[0])
				v, err := strconv.ParseUint(p[1], 10, 64)
				if !ok || err != nil {
					return "bad-op"
				}
				if _, dup := status[n]; dup {
					return "bad-op"
				}
				status[n] = v
			}
		}
		left := []string{}
		selfLeft := 0
		if f[3] != "-" {
			for _, e := range strings.Split(f[3], ",") {
				n, ok := parseHexName(e)
				if !ok {
					return "bad-op"
				}
				if n == nodeSelf {
					selfLeft++
				}
				left = append(left, n)
			}
		}
		if selfLeft > 1 {
			return "bad-op" // two claims about self in one merge race with the refuting goroutine
		}
		expect := selfLeft == 1 && ni.selfClaimNewer(status[nodeSelf]+1)
		dg.MergeRemoteState(serf.VerifEncodeMemberPushPull(lt, status, left), false)
		if expect {
			timedOut = !ni.waitQueued(1)
		}
	case f[0] == "fl" && len(f) == 3:
		n, ok := parseHexName(f[1])
		if !ok || (f[2] != "0" && f[2] != "1") {
			return "bad-op"
		}
		expect := n == nodeSelf && ni.selfClaimNewer(ni.s.VerifClock())
		_ = ni.s.VerifForceLeave(n, f[2] == "1")
		if expect {
			want := 1
			if ni.hasAliveOthers() {
				want = 2
			}
			timedOut = !ni.waitQueued(want)
		}
	case f[0] == "oj" && len(f) == 1:
		_ = ni.s.VerifBroadcastJoin()
	case f[0] == "lv" && len(f) == 2:
		t, err := strconv.ParseUint(f[1], 10, 32)
		if err != nil {
			return "bad-op"
		}
		was := ni.s.State()
		stamps := false // will memberlist's NotifyLeave of the local node (inside Leave) take a time stamp?
		for _, m := range ni.s.Members() {
			if m.Name == nodeSelf && (m.Status == serf.StatusAlive || m.Status == serf.StatusLeaving) {
				stamps = true
			}
		}
		t0 := time.Now()
		_ = ni.s.Leave()
		t1 := time.Now()
		if was == serf.SerfAlive && stamps {
			if lt, ok := ni.s.VerifLeaveTime(nodeSelf); ok && !lt.Before(t0) && !lt.After(t1) {
				ni.s.VerifSetLeaveTime(nodeSelf, at(t))
			}
		}
	case f[0] == "sd" && len(f) == 1:
		ev0 := ni.drainEvents() // nothing can be pending, but keep the barrier before the pipeline goes away
		_ = ni.s.Shutdown()
		ni.down = true
		return ni.observeWith(ev0)
	case f[0] == "rp" && len(f) == 3:
		now, err := strconv.ParseUint(f[1], 10, 32)
		if err != nil {
			return "bad-op"
		}
		ni.ov.m = map[string]time.Duration{}
		if f[2] != "-" {
			for _, e := range strings.Split(f[2], ",") {
				p := strings.SplitN(e, ":", 2)
				if len(p) != 2 {
					return "bad-op"
				}
				n, ok := parseHexName(p[0])
				v, err := strconv.ParseUint(p[1], 10, 32)
				if !ok || err != nil {
					return "bad-op"
				}
				ni.ov.m[n] = time.Duration(v) * time.Hour
			}
		}
		ni.s.VerifReap(at(now))
	case f[0] == "ls" && len(f) == 1:
		lt, status, left, ok := serf.VerifDecodePushPull(dg.LocalState(false))
		if !ok {
			return "ls-undecodable"
		}
		var ss, ll []string
		for n, v := range status {
			ss = append(ss, fmt.Sprintf("%s:%d", hexs(n), v))
		}
		sort.Strings(ss)
		for _, n := range left {
			ll = append(ll, hexs(n))
		}
		return fmt.Sprintf("lt=%d st=%s left=%s", lt, joinOrDash(ss), joinOrDash(ll))
	default:
		return "bad-op"
	}
	out := ni.observe()
	if timedOut {
		out += " refute-timeout"
	}
	return out
}

// nodeExec runs one case on a fresh real node.
func nodeExec(ops []string) []string {
	ni, err := newNodeInst()
	if err != nil {
		outs := make([]string, len(ops))
		for i := range outs {
			outs[i] = "create-failed " + strings.ReplaceAll(err.Error(), " ", "_")
		}
		return outs
	}
	defer func() { _ = ni.s.Shutdown() }()
	ni.drainEvents() // the node's own join
	ni.drainQueue()
	outs := make([]string, 0, len(ops))
	for _, o := range ops {
		outs = append(outs, ni.exec(o))
	}
	return outs
}
