package main

import (
	"strings"
	"bytes"
	"io"
	"log"
	"time"

	"github.com/hashicorp/go-msgpack/v2/codec"
	"github.com/hashicorp/serf/serf"
	"github.com/hashicorp/serf/testutil"
)

// Shared helpers: a real single Serf node on a loopback address (never joined to
// anything), and encoders for gossip messages (the wire format is msgpack maps
// keyed by field name, so mirror structs encode identically to the unexported ones).

type testNode struct {
	S       *serf.Serf
	Conf    *serf.Config
	Events  chan serf.Event
	cleanup func()
}

func (n *testNode) Close() {
	_ = n.S.Shutdown()
	n.cleanup()
}

// newTestNode creates a node configured like serf's own tests (aggressive timings).
// mod may adjust the config before Create.
// envError reports whether creating a node failed for a reason of the machine (another process holds the
// address), not of the code under test.
func envError(err error) bool {
	if err == nil {
		return false
	}
	m := err.Error()
	return strings.Contains(m, "address already in use") || strings.Contains(m, "bind:") || strings.Contains(m, "Failed to start TCP listener") ||
		strings.Contains(m, "Failed to start UDP listener") || strings.Contains(m, "too many open files") || strings.Contains(m, "cannot assign requested address")
}

// nodeErr is the harness output for a node that could not be created: `env-error` (the driver then treats the case
// as inconclusive) when the machine is to blame, `node-error` otherwise.
func nodeErr(err error) string {
	if envError(err) {
		return "env-error"
	}
	return "node-error"
}

// newTestNode creates a node; an address clash with another process is retried on other loopback addresses.
func newTestNode(mod func(c *serf.Config)) (*testNode, error) {
	var n *testNode
	var err error
	for attempt := 0; attempt < 8; attempt++ {
		n, err = newTestNodeOnce(mod)
		if err == nil || !envError(err) {
			return n, err
		}
		time.Sleep(time.Duration(20*(attempt+1)) * time.Millisecond)
	}
	return n, err
}

func newTestNodeOnce(mod func(c *serf.Config)) (*testNode, error) {
	ip, ret := testutil.TakeIP()
	c := serf.DefaultConfig()
	c.Init()
	c.MemberlistConfig.BindAddr = ip.String()
	c.MemberlistConfig.GossipInterval = 5 * time.Millisecond
	c.MemberlistConfig.ProbeInterval = 50 * time.Millisecond
	c.MemberlistConfig.ProbeTimeout = 25 * time.Millisecond
	c.MemberlistConfig.TCPTimeout = 100 * time.Millisecond
	c.MemberlistConfig.SuspicionMult = 1
	c.MemberlistConfig.RequireNodeNames = true
	c.NodeName = "node-" + ip.String()
	c.ReapInterval = time.Hour
	c.ReconnectInterval = time.Hour
	c.Logger = log.New(io.Discard, "", 0)
	c.MemberlistConfig.Logger = c.Logger
	ev := make(chan serf.Event, 1<<16)
	c.EventCh = ev
	if mod != nil {
		mod(c)
	}
	s, err := serf.Create(c)
	if err != nil {
		ret()
		return nil, err
	}
	return &testNode{S: s, Conf: c, Events: ev, cleanup: ret}, nil
}

// drain returns the events currently queued, waiting `settle` after the last one.
func (n *testNode) drain(settle time.Duration) []serf.Event {
	var out []serf.Event
	for {
		select {
		case e := <-n.Events:
			out = append(out, e)
		case <-time.After(settle):
			return out
		}
	}
}

const (
	msgLeaveType         = 0
	msgJoinType          = 1
	msgPushPullType      = 2
	msgUserEventType     = 3
	msgQueryType         = 4
	msgQueryResponseType = 5
)

type wireUserEvent struct {
	LTime   uint64
	Name    string
	Payload []byte
	CC      bool
}

type wireQuery struct {
	LTime       uint64
	ID          uint32
	Addr        []byte
	Port        uint16
	SourceNode  string
	Filters     [][]byte
	Flags       uint32
	RelayFactor uint8
	Timeout     time.Duration
	Name        string
	Payload     []byte
}

type wireJoin struct {
	LTime uint64
	Node  string
}

type wireLeave struct {
	LTime uint64
	Node  string
	Prune bool
}

// encodeWire mirrors serf's encodeMessage (type byte + msgpack with the default handle).
func encodeWire(t uint8, msg any) []byte {
	buf := bytes.NewBuffer(nil)
	buf.WriteByte(t)
	h := codec.MsgpackHandle{BasicHandle: codec.BasicHandle{TimeNotBuiltin: true}}
	if err := codec.NewEncoder(buf, &h).Encode(msg); err != nil {
		panic(err)
	}
	return buf.Bytes()
}
