package main

import (
	"fmt"
	"io"
	"log"
	"math/rand"
	"net"
	"sort"
	"strconv"
	"strings"
	"sync"
	"time"

	"github.com/hashicorp/memberlist"
	"github.com/hashicorp/serf/serf"
	"github.com/hashicorp/serf/testutil"
)

// C01: real clusters of 3-5 Serf nodes over real memberlist on loopback, with a
// wrapping transport that can partition the network.  A case is a scripted
// scenario; `settle` waits for the cluster to become quiet and prints every
// running node's view.
//
// ops:  nodes <k> | join <a> <b> | leave <a> | kill <a> | restart <a> <b> |
//       partition <a,b,..> | heal | forceleave <a> <b> | sleep <ms> | settle

type c01Net struct {
	mu    sync.RWMutex
	sideA map[string]bool // ip → on side A (only meaningful while split)
	split bool
}

func (n *c01Net) blocked(fromIP, toAddr string) bool {
	n.mu.RLock()
	defer n.mu.RUnlock()
	if !n.split {
		return false
	}
	host, _, err := net.SplitHostPort(toAddr)
	if err != nil {
		host = toAddr
	}
	return n.sideA[fromIP] != n.sideA[host]
}

type c01Transport struct {
	*memberlist.NetTransport
	ip  string
	net *c01Net
}

func (t *c01Transport) WriteTo(b []byte, addr string) (time.Time, error) {
	if t.net.blocked(t.ip, addr) {
		return time.Now(), nil // silently lost
	}
	return t.NetTransport.WriteTo(b, addr)
}

func (t *c01Transport) WriteToAddress(b []byte, a memberlist.Address) (time.Time, error) {
	if t.net.blocked(t.ip, a.Addr) {
		return time.Now(), nil
	}
	return t.NetTransport.WriteToAddress(b, a)
}

func (t *c01Transport) DialTimeout(addr string, timeout time.Duration) (net.Conn, error) {
	if t.net.blocked(t.ip, addr) {
		return nil, fmt.Errorf("verif: partitioned")
	}
	return t.NetTransport.DialTimeout(addr, timeout)
}

func (t *c01Transport) DialAddressTimeout(a memberlist.Address, timeout time.Duration) (net.Conn, error) {
	if t.net.blocked(t.ip, a.Addr) {
		return nil, fmt.Errorf("verif: partitioned")
	}
	return t.NetTransport.DialAddressTimeout(a, timeout)
}

type c01Node struct {
	name    string
	ip      net.IP
	ret     func()
	s       *serf.Serf
	running bool
}

type c01Cluster struct {
	net   *c01Net
	nodes []*c01Node
}

func (c *c01Cluster) start(i int) error {
	n := c.nodes[i]
	conf := serf.DefaultConfig()
	conf.Init()
	ml := conf.MemberlistConfig
	ml.BindAddr = n.ip.String()
	ml.BindPort = 7946
	ml.AdvertisePort = 7946
	ml.GossipInterval = 5 * time.Millisecond
	ml.ProbeInterval = 60 * time.Millisecond
	ml.ProbeTimeout = 30 * time.Millisecond
	ml.TCPTimeout = 200 * time.Millisecond
	ml.SuspicionMult = 2
	ml.PushPullInterval = 250 * time.Millisecond
	ml.GossipToTheDeadTime = 2 * time.Second
	ml.RequireNodeNames = true
	lg := log.New(io.Discard, "", 0)
	ml.Logger = lg
	conf.Logger = lg
	nt, err := memberlist.NewNetTransport(&memberlist.NetTransportConfig{BindAddrs: []string{n.ip.String()}, BindPort: 7946, Logger: lg})
	if err != nil {
		return err
	}
	ml.Transport = &c01Transport{NetTransport: nt, ip: n.ip.String(), net: c.net}
	conf.NodeName = n.name
	// the reaper runs often; with hour-long timeouts it may not erase anybody
	conf.ReapInterval = 100 * time.Millisecond
	conf.ReconnectInterval = 150 * time.Millisecond
	conf.ReconnectTimeout = time.Hour
	conf.TombstoneTimeout = time.Hour
	conf.BroadcastTimeout = 300 * time.Millisecond
	conf.LeavePropagateDelay = 150 * time.Millisecond
	conf.EventCh = nil
	s, err := serf.Create(conf)
	if err != nil {
		_ = nt.Shutdown()
		return err
	}
	n.s = s
	n.running = true
	return nil
}

func (c *c01Cluster) close() {
	for _, n := range c.nodes {
		if n.running {
			_ = n.s.Shutdown()
		}
	}
	for _, n := range c.nodes {
		n.ret()
	}
}

func (c *c01Cluster) addr(i int) string {
	return c.nodes[i].name + "/" + c.nodes[i].ip.String() + ":7946"
}

// views: for each running node, "name=member:status,member:status,…" (members sorted).
func (c *c01Cluster) views() string {
	var parts []string
	for _, n := range c.nodes {
		if !n.running {
			continue
		}
		ms := n.s.Members()
		var items []string
		for _, m := range ms {
			items = append(items, m.Name+":"+m.Status.String())
		}
		sort.Strings(items)
		parts = append(parts, n.name+"="+strings.Join(items, ","))
	}
	return strings.Join(parts, ";")
}

// mlViews: memberlist's own opinion (alive members) per running node, same shape.
func (c *c01Cluster) mlViews() string {
	var parts []string
	for _, n := range c.nodes {
		if !n.running {
			continue
		}
		var items []string
		for _, m := range n.s.Memberlist().Members() {
			items = append(items, m.Name)
		}
		sort.Strings(items)
		parts = append(parts, n.name+"="+strings.Join(items, ","))
	}
	return strings.Join(parts, ";")
}

func c01Exec(ops []string) []string {
	// single-observer cases: one real node driven through its delegates (executor of node.go)
	if len(ops) > 0 && ops[0] == "single" {
		return append([]string{"ok"}, nodeExec(ops[1:])...)
	}
	var cl *c01Cluster
	defer func() {
		if cl != nil {
			cl.close()
		}
	}()
	var outs []string
	idx := func(s string) int {
		i, err := strconv.Atoi(s)
		if err != nil || cl == nil || i < 0 || i >= len(cl.nodes) {
			return -1
		}
		return i
	}
	for _, o := range ops {
		f := strings.Fields(o)
		res := "ok"
		switch {
		case len(f) == 2 && f[0] == "nodes":
			k, _ := strconv.Atoi(f[1])
			cl = &c01Cluster{net: &c01Net{sideA: map[string]bool{}}}
			for i := 0; i < k; i++ {
				ip, ret := testutil.TakeIP()
				cl.nodes = append(cl.nodes, &c01Node{name: fmt.Sprintf("n%d", i), ip: ip, ret: ret})
				if err := cl.start(i); err != nil {
					res = nodeErr(err)
				}
			}
		case len(f) == 3 && f[0] == "join":
			a, b := idx(f[1]), idx(f[2])
			if a < 0 || b < 0 || !cl.nodes[a].running {
				res = "bad-op"
				break
			}
			if _, err := cl.nodes[a].s.Join([]string{cl.addr(b)}, false); err != nil {
				res = "join-failed"
			}
		case len(f) == 2 && f[0] == "leave":
			a := idx(f[1])
			if a < 0 || !cl.nodes[a].running {
				res = "bad-op"
				break
			}
			_ = cl.nodes[a].s.Leave()
			_ = cl.nodes[a].s.Shutdown()
			cl.nodes[a].running = false
		case len(f) == 2 && f[0] == "kill":
			a := idx(f[1])
			if a < 0 || !cl.nodes[a].running {
				res = "bad-op"
				break
			}
			_ = cl.nodes[a].s.Shutdown()
			cl.nodes[a].running = false
		case len(f) == 3 && f[0] == "restart":
			a, b := idx(f[1]), idx(f[2])
			if a < 0 || b < 0 || cl.nodes[a].running {
				res = "bad-op"
				break
			}
			time.Sleep(100 * time.Millisecond) // let the kernel release the sockets
			if err := cl.start(a); err != nil {
				res = nodeErr(err)
				break
			}
			if _, err := cl.nodes[a].s.Join([]string{cl.addr(b)}, false); err != nil {
				res = "join-failed"
			}
		case len(f) == 2 && f[0] == "partition":
			cl.net.mu.Lock()
			cl.net.sideA = map[string]bool{}
			for _, x := range strings.Split(f[1], ",") {
				if i := idx(x); i >= 0 {
					cl.net.sideA[cl.nodes[i].ip.String()] = true
				}
			}
			cl.net.split = true
			cl.net.mu.Unlock()
		case len(f) == 1 && f[0] == "heal":
			cl.net.mu.Lock()
			cl.net.split = false
			cl.net.mu.Unlock()
		case len(f) == 3 && f[0] == "forceleave":
			a, b := idx(f[1]), idx(f[2])
			if a < 0 || b < 0 || !cl.nodes[a].running {
				res = "bad-op"
				break
			}
			_ = cl.nodes[a].s.RemoveFailedNode(cl.nodes[b].name)
		case len(f) == 2 && f[0] == "sleep":
			ms, _ := strconv.Atoi(f[1])
			time.Sleep(time.Duration(ms) * time.Millisecond)
		case len(f) >= 1 && f[0] == "settle":
			// settle [expected]: poll until the views equal `expected` (when given) and stay so for
			// 400 ms, or until the deadline; print the final views and memberlist's own views.
			want := ""
			if len(f) == 2 {
				want = f[1]
			}
			deadline := time.Now().Add(20 * time.Second)
			var v string
			stableSince := time.Time{}
			for {
				v = cl.views()
				ok := want == "" || c01Matches(v, want)
				if ok {
					if stableSince.IsZero() {
						stableSince = time.Now()
					}
					if time.Since(stableSince) > 400*time.Millisecond {
						break
					}
				} else {
					stableSince = time.Time{}
				}
				if time.Now().After(deadline) {
					break
				}
				time.Sleep(40 * time.Millisecond)
			}
			res = "views " + v + " | ml " + cl.mlViews()
		default:
			res = "bad-op"
		}
		outs = append(outs, res)
	}
	return outs
}

// c01Matches: `want` is name=member:status,…;… where a status may be `failed|left` style
// alternatives separated by '/', and a member prefixed with '?' may be absent.
func c01Matches(got, want string) bool {
	g := map[string]map[string]string{}
	for _, p := range strings.Split(got, ";") {
		kv := strings.SplitN(p, "=", 2)
		if len(kv) != 2 {
			continue
		}
		g[kv[0]] = map[string]string{}
		for _, it := range strings.Split(kv[1], ",") {
			ms := strings.SplitN(it, ":", 2)
			if len(ms) == 2 {
				g[kv[0]][ms[0]] = ms[1]
			}
		}
	}
	for _, p := range strings.Split(want, ";") {
		kv := strings.SplitN(p, "=", 2)
		if len(kv) != 2 {
			continue
		}
		view, ok := g[kv[0]]
		if !ok {
			return false
		}
		for _, it := range strings.Split(kv[1], ",") {
			ms := strings.SplitN(it, ":", 2)
			if len(ms) != 2 {
				continue
			}
			name, optional := ms[0], false
			if strings.HasPrefix(name, "?") {
				name, optional = name[1:], true
			}
			st, present := view[name]
			if !present {
				if optional {
					continue
				}
				return false
			}
			okSt := false
			for _, alt := range strings.Split(ms[1], "/") {
				if alt == st {
					okSt = true
				}
			}
			if !okSt {
				return false
			}
		}
	}
	return true
}

// Scenario generation. The generator tracks the ground truth so that `settle` can carry the
// expected views (the Lean model recomputes them independently from the same ops).
type c01Truth struct {
	k        int
	state    []string // running | left | crashed | forceleft
	everLeft []bool
}

func (t *c01Truth) expected() string {
	var parts []string
	for a := 0; a < t.k; a++ {
		if t.state[a] != "running" {
			continue
		}
		var items []string
		for m := 0; m < t.k; m++ {
			name := fmt.Sprintf("n%d", m)
			switch t.state[m] {
			case "running":
				items = append(items, name+":alive")
			case "left":
				items = append(items, "?"+name+":left")
			case "crashed":
				items = append(items, "?"+name+":failed")
			case "forceleft":
				items = append(items, "?"+name+":failed/left")
			}
		}
		parts = append(parts, fmt.Sprintf("n%d=%s", a, strings.Join(items, ",")))
	}
	return strings.Join(parts, ";")
}

func c01Gen(rng *rand.Rand, tier string) []Case {
	n := 4
	if tier == "thorough" {
		n = 60
	}
	var out []Case
	// directed: a member seen failed, then declared left (force-leave of the crashed node), restarts under
	// the same name and must be seen alive by everybody, also after several reaper passes
	for i, who := range []int{1, 2} {
		exp3 := "n0=n0:alive,n1:alive,n2:alive;n1=n0:alive,n1:alive,n2:alive;n2=n0:alive,n1:alive,n2:alive"
		ops := []string{"nodes 3", "join 1 0", "join 2 0", "settle " + exp3,
			fmt.Sprintf("kill %d", who), "sleep 600", fmt.Sprintf("forceleave 0 %d", who), "sleep 500",
			fmt.Sprintf("restart %d 0", who), "sleep 700", "settle " + exp3}
		out = append(out, Case{ID: fmt.Sprintf("fl%d", i), Ops: ops, Nontrivial: true, Tags: []string{"failed-left-rejoin"}})
	}
	// directed: a member leaves, restarts while one observer is cut off (so that observer misses its second life),
	// and then crashes; after the heal everybody must list it as failed
	{
		exp4 := "n0=n0:alive,n1:alive,n2:alive,n3:alive;n1=n0:alive,n1:alive,n2:alive,n3:alive;n2=n0:alive,n1:alive,n2:alive,n3:alive;n3=n0:alive,n1:alive,n2:alive,n3:alive"
		mk := func(st string) string {
			var parts []string
			for _, a := range []int{0, 2, 3} {
				parts = append(parts, fmt.Sprintf("n%d=n0:alive,?n1:%s,n2:alive,n3:alive", a, st))
			}
			return strings.Join(parts, ";")
		}
		ops := []string{"nodes 4", "join 1 0", "join 2 0", "join 3 0", "settle " + exp4,
			"leave 1", "settle " + mk("left"), "partition 3", "sleep 300", "restart 1 0", "sleep 900", "kill 1", "sleep 900", "heal", "settle " + mk("failed")}
		out = append(out, Case{ID: "sl0", Ops: ops, Nontrivial: true, Tags: []string{"second-life-missed-then-crash"}})
	}
	// directed: a member leaves gracefully while one observer is cut off from it (the leaver stays connected to
	// the others); after the heal the observer, which only saw it fail, must learn through state sync that it left
	for i, obs := range []int{3, 0} {
		leaver := 1
		all := func(st string) string {
			var parts []string
			for a := 0; a < 4; a++ {
				if a == leaver {
					continue
				}
				var items []string
				for m := 0; m < 4; m++ {
					if m == leaver {
						items = append(items, fmt.Sprintf("?n%d:%s", m, st))
					} else {
						items = append(items, fmt.Sprintf("n%d:alive", m))
					}
				}
				parts = append(parts, fmt.Sprintf("n%d=%s", a, strings.Join(items, ",")))
			}
			return strings.Join(parts, ";")
		}
		exp4 := "n0=n0:alive,n1:alive,n2:alive,n3:alive;n1=n0:alive,n1:alive,n2:alive,n3:alive;n2=n0:alive,n1:alive,n2:alive,n3:alive;n3=n0:alive,n1:alive,n2:alive,n3:alive"
		ops := []string{"nodes 4", "join 1 0", "join 2 0", "join 3 0", "settle " + exp4,
			fmt.Sprintf("partition %d", obs), "sleep 500", fmt.Sprintf("leave %d", leaver), "sleep 400", "heal", "settle " + all("left")}
		out = append(out, Case{ID: fmt.Sprintf("pl%d", i), Ops: ops, Nontrivial: true, Tags: []string{"leave-while-observer-cut-off"}})
	}
	for i := 0; i < n; i++ {
		k := 3 + rng.Intn(3)
		t := &c01Truth{k: k, state: make([]string, k), everLeft: make([]bool, k)}
		ops := []string{fmt.Sprintf("nodes %d", k)}
		for a := 0; a < k; a++ {
			t.state[a] = "running"
			if a > 0 {
				ops = append(ops, fmt.Sprintf("join %d 0", a))
			}
		}
		ops = append(ops, "settle "+t.expected())
		steps := 2 + rng.Intn(4)
		nt := false
		split := false
		running := func() []int {
			var r []int
			for a := 0; a < k; a++ {
				if t.state[a] == "running" {
					r = append(r, a)
				}
			}
			return r
		}
		for s := 0; s < steps; s++ {
			r := running()
			switch rng.Intn(7) {
			case 0: // partition
				if !split && len(r) >= 2 {
					var side []string
					for _, a := range r {
						if rng.Intn(2) == 0 {
							side = append(side, strconv.Itoa(a))
						}
					}
					if len(side) == 0 || len(side) == len(r) {
						side = []string{strconv.Itoa(r[0])}
					}
					ops = append(ops, "partition "+strings.Join(side, ","), fmt.Sprintf("sleep %d", 300+rng.Intn(500)))
					split = true
				}
			case 1:
				if split {
					ops = append(ops, "heal")
					split = false
				}
			case 2: // graceful leave (only while connected: not during a split)
				if !split && len(r) > 2 {
					a := r[rng.Intn(len(r))]
					ops = append(ops, fmt.Sprintf("leave %d", a))
					t.state[a] = "left"
				}
			case 3: // crash
				if len(r) > 2 {
					a := r[rng.Intn(len(r))]
					ops = append(ops, fmt.Sprintf("kill %d", a))
					t.state[a] = "crashed"
					if split {
						nt = true
					}
				}
			case 4: // restart a stopped node
				for a := 0; a < k; a++ {
					if t.state[a] != "running" && len(r) > 0 && !split {
						ops = append(ops, fmt.Sprintf("restart %d %d", a, r[rng.Intn(len(r))]))
						t.state[a] = "running"
						break
					}
				}
			case 5: // force-leave a crashed node
				for a := 0; a < k; a++ {
					if t.state[a] == "crashed" && len(r) > 0 {
						ops = append(ops, fmt.Sprintf("sleep %d", 400), fmt.Sprintf("forceleave %d %d", r[rng.Intn(len(r))], a))
						t.state[a] = "forceleft"
						break
					}
				}
			default:
				ops = append(ops, fmt.Sprintf("sleep %d", 100+rng.Intn(300)))
			}
		}
		if split {
			ops = append(ops, "heal")
			nt = true
		}
		ops = append(ops, "settle "+t.expected())
		out = append(out, Case{ID: fmt.Sprintf("s%d", i), Ops: ops, Nontrivial: nt || steps >= 3, Tags: []string{fmt.Sprintf("k%d", k)}})
	}
	// single-observer cases (observer-local half of the property): a member announces its leave, crashes or leaves,
	// comes back …; memberlist's death notification worded StateDead or StateLeft
	ns := 12
	if tier == "thorough" {
		ns = 300
	}
	for i := 0; i < ns; i++ {
		x := hexs([]string{"a", "b", "node d"}[rng.Intn(3)])
		ops := []string{"single", "nj " + x}
		t := 1 + rng.Intn(5)
		word := func() string { return []string{"d", "l"}[rng.Intn(2)] }
		switch rng.Intn(4) {
		case 0, 1: // graceful leave, then gone
			ops = append(ops, fmt.Sprintf("ml %s %d 0", x, t), fmt.Sprintf("nl %s 1 %s", x, word()))
		case 2: // crash, force-leave
			ops = append(ops, fmt.Sprintf("nl %s 1 %s", x, word()), fmt.Sprintf("ml %s %d 0", x, t))
		default: // crash, back, graceful leave, gone
			ops = append(ops, fmt.Sprintf("nl %s 0 %s", x, word()), "nj "+x, fmt.Sprintf("ml %s %d 0", x, t), fmt.Sprintf("nl %s 2 %s", x, word()))
		}
		if rng.Intn(2) == 0 {
			ops = append(ops, "ls", "s2 "+x)
		}
		out = append(out, Case{ID: fmt.Sprintf("single%d", i), Ops: ops, Nontrivial: true, Tags: []string{"single-observer"}})
	}
	return out
}

func init() {
	register(&Prop{
		ID: "C01",
		Rule: "real clusters of 3-5 Serf nodes over real memberlist on loopback (wrapping transport that partitions the network): all nodes joined, then 2-5 random steps of partition/heal/graceful leave (while connected)/crash/restart/force-leave/sleep, heal, and a settle phase polling up to 20 s for the views to become the expected ones and stay so; " +
			"non-trivial = a crash during a partition or at least 3 steps; distinct = distinct scenario",
		Gen:  c01Gen,
		Exec: c01Exec,
	})
}
