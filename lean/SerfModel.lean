import SerfModel.Prelude.Basic
import SerfModel.Model.Atomic
import SerfModel.Gen.Lamport
import SerfModel.Check.All
