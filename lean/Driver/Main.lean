/-
serfdriver <property-id>  < trace   > verdicts

Trace lines:  `case <id>`            start a new case (state reset)
              `<op fields> => <impl>` one operation with the implementation's output
Output:       `DIFF case=… line=… op=… model=… impl=…`     first disagreement of a case
              `MONITOR case=… line=… key=… msg=…`           property monitor failed on the impl trace
              `SUMMARY cases=… lines=… diffs=… monitor=…`
-/
import SerfModel.Check.All
open SerfModel SerfModel.Check

structure Tot where
  cases : Nat := 0
  lines : Nat := 0
  diffs : Nat := 0
  monitor : Nat := 0

def splitArrow (line : String) : String × String :=
  match line.splitOn " => " with
  | [a] => (a, "")
  | a :: rest => (a, " => ".intercalate rest)
  | [] => ("", "")

partial def loop (ck : Checker) (h : IO.FS.Stream) (out : IO.FS.Stream)
    (st : ck.σ) (caseId : String) (lineNo : Nat) (dead : Bool) (tot : Tot) : IO Tot := do
  let raw ← h.getLine
  if raw.isEmpty then
    let tot ← finishCase st dead tot
    return tot
  let line := chomp raw
  if line.isEmpty then
    loop ck h out st caseId lineNo dead tot
  else if line.startsWith "case " then
    let tot ← finishCase st dead tot
    loop ck h out ck.init (String.ofList (line.toList.drop 5)) 0 false { tot with cases := tot.cases + 1 }
  else if dead then
    loop ck h out st caseId (lineNo + 1) dead { tot with lines := tot.lines + 1 }
  else
    let (op, impl) := splitArrow line
    let r := ck.step st (fields op) impl
    let mut tot := { tot with lines := tot.lines + 1 }
    let mut dead := false
    match r.model with
    | some m =>
      if m != impl then
        out.putStrLn s!"DIFF case={caseId} line={lineNo} op={op} model={m} impl={impl}"
        tot := { tot with diffs := tot.diffs + 1 }
        dead := true
    | none => pure ()
    match r.note with
    | some k => out.putStrLn s!"NOTE case={caseId} line={lineNo} key={k}"
    | none => pure ()
    -- a panic of the real code is a concrete failing input for every property
    -- (the property's own monitor may classify it more precisely: its verdict wins)
    let mon := if impl.startsWith "PANIC" then r.monitor.orElse (fun _ => some ("panic", impl)) else r.monitor
    match mon with
    | some (k, msg) =>
      out.putStrLn s!"MONITOR case={caseId} line={lineNo} key={k} op={op} msg={msg}"
      tot := { tot with monitor := tot.monitor + 1 }
    | none => pure ()
    loop ck h out r.state caseId (lineNo + 1) dead tot
where
  finishCase (st : ck.σ) (dead : Bool) (tot : Tot) : IO Tot := do
    if dead then return tot
    match ck.finish st with
    | some (k, msg) =>
      out.putStrLn s!"MONITOR case={caseId} line=end key={k} op=- msg={msg}"
      return { tot with monitor := tot.monitor + 1 }
    | none => return tot

def main (args : List String) : IO UInt32 := do
  match args with
  | [pid] =>
    match checkerFor? pid with
    | none => IO.eprintln s!"serfdriver: no checker for {pid}"; return 2
    | some ck =>
      let stdin ← IO.getStdin
      let stdout ← IO.getStdout
      let tot ← loop ck stdin stdout ck.init "-" 0 false {}
      stdout.putStrLn s!"SUMMARY cases={tot.cases} lines={tot.lines} diffs={tot.diffs} monitor={tot.monitor}"
      return 0
  | _ => IO.eprintln "usage: serfdriver <property-id> < trace"; return 2
