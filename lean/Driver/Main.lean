/-
serfdriver <property-id>  < trace   > verdicts

Trace lines:  `case <id>`            start a new case (state reset)
              `<op fields> => <impl>` one operation with the implementation's output
Output:       `DIFF case=… line=… op=… model=… impl=…`     first disagreement of a case
              `MONITOR case=… line=… key=… msg=…`           property monitor failed on the impl trace
              `SUMMARY cases=… lines=… diffs=… monitor=…`
-/
import SerfModel.Check.All
open SerfModel SerfModel.Check

structure Tot where
  cases : Nat := 0
  lines : Nat := 0
  diffs : Nat := 0
  monitor : Nat := 0
  /-- cases the harness could not set up (environment) -/
  env : Nat := 0

def splitArrow (line : String) : String × String :=
  match line.splitOn " => " with
  | [a] => (a, "")
  | a :: rest => (a, " => ".intercalate rest)
  | [] => ("", "")

/-- outputs with which a harness reports that the machine, not the code, prevented the case from being set up -/
def isEnvFailure (impl : String) : Bool :=
  impl.startsWith "env-error" ||
  ["address already in use", "cannot assign requested address", "too many open files"].any fun m =>
    (impl.splitOn m).length > 1

partial def loop (ck : Checker) (h : IO.FS.Stream) (out : IO.FS.Stream)
    (st : ck.σ) (caseId : String) (lineNo : Nat) (dead : Bool) (skip : Bool) (tot : Tot) : IO Tot := do
  let raw ← h.getLine
  if raw.isEmpty then
    let tot ← finishCase st skip tot
    return tot
  let line := chomp raw
  if line.isEmpty then
    loop ck h out st caseId lineNo dead skip tot
  else if line.startsWith "case " then
    let tot ← finishCase st skip tot
    loop ck h out ck.init (String.ofList (line.toList.drop 5)) 0 false false { tot with cases := tot.cases + 1 }
  else
    -- after the first DIFF of a case the model state is no longer meaningful, but the property monitors keep
    -- their own books on the implementation's outputs: keep stepping so that they can still turn the
    -- disagreement into a concrete failing input (further DIFFs of the case are not reported)
    let (op, impl) := splitArrow line
    -- the harness could not set the case up for a reason of the machine (address in use, …): the rest of the
    -- case says nothing about the code; it is counted and skipped
    if isEnvFailure impl || skip then
      if !skip then out.putStrLn s!"NOTE case={caseId} line={lineNo} key=env-error"
      loop ck h out st caseId (lineNo + 1) dead true { tot with lines := tot.lines + 1, env := tot.env + (if skip then 0 else 1) }
    else
    let r := ck.step st (fields op) impl
    let mut tot := { tot with lines := tot.lines + 1 }
    let mut dead := dead
    match r.model with
    | some m =>
      if m != impl && !dead then
        out.putStrLn s!"DIFF case={caseId} line={lineNo} op={op} model={m} impl={impl}"
        tot := { tot with diffs := tot.diffs + 1 }
        dead := true
    | none => pure ()
    match r.note with
    | some k => out.putStrLn s!"NOTE case={caseId} line={lineNo} key={k}"
    | none => pure ()
    -- a panic of the real code is a concrete failing input for every property
    -- (the property's own monitor may classify it more precisely: its verdict wins)
    let mon := if impl.startsWith "PANIC" then r.monitor.orElse (fun _ => some ("panic", impl)) else r.monitor
    match mon with
    | some (k, msg) =>
      out.putStrLn s!"MONITOR case={caseId} line={lineNo} key={k} op={op} msg={msg}"
      tot := { tot with monitor := tot.monitor + 1 }
    | none => pure ()
    loop ck h out r.state caseId (lineNo + 1) dead false tot
where
  finishCase (st : ck.σ) (skipped : Bool) (tot : Tot) : IO Tot := do
    if skipped then return tot
    match ck.finish st with
    | some (k, msg) =>
      out.putStrLn s!"MONITOR case={caseId} line=end key={k} op=- msg={msg}"
      return { tot with monitor := tot.monitor + 1 }
    | none => return tot

def main (args : List String) : IO UInt32 := do
  match args with
  | [pid] =>
    match checkerFor? pid with
    | none => IO.eprintln s!"serfdriver: no checker for {pid}"; return 2
    | some ck =>
      let stdin ← IO.getStdin
      let stdout ← IO.getStdout
      let tot ← loop ck stdin stdout ck.init "-" 0 false false {}
      stdout.putStrLn s!"SUMMARY cases={tot.cases} lines={tot.lines} diffs={tot.diffs} monitor={tot.monitor} env={tot.env}"
      return 0
  | _ => IO.eprintln "usage: serfdriver <property-id> < trace"; return 2
