import SerfModel.Check.NodeCommon
/-!
C03 checker (ops: see NodeCommon / harness/node.go).

Monitor, on the IMPLEMENTATION's observations only.  "Has begun leaving" is the monitor's own
bookkeeping: a `lv` (Leave), `sd` (Shutdown) op, or memberlist reporting the local node dead
(`nl self`, which memberlist does only from inside Leave) has occurred in the case.
  self-not-alive   the node has not begun leaving and does not list itself as alive
  no-refutation    a leave / force-leave / left-by-merge claim about the running local node with a
                   Lamport time newer than the node's own status time (and below 2^64-1, where a
                   greater time exists) was not answered by a queued join with a greater time
-/
namespace SerfModel.Check.C03
open SerfModel SerfModel.Check SerfModel.Node SerfModel.Check.NodeCommon

structure St where
  base : Base := {}
  begunLeaving : Bool := false
  deriving Inhabited

def kvNat (impl : String) (k : String) : Option Nat :=
  (impl.splitOn " ").findSome? fun t => match t.splitOn "=" with
    | [k', v] => if k' == k then v.toNat? else none
    | _ => none

def step (s : St) (f : List String) (impl : String) : LineOut St :=
  -- `ml2 a b prune`: two claims about the running local node back to back; monitored only (last op of a case)
  if f.head? == some "ml2" then
    match f with
    | [_, a, b, _] =>
      match a.toNat?, b.toNat?, kvNat impl "maxjoin" with
      | some a, some b, some mj =>
        let own := (s.base.prev.ltimeOf selfName).getD 0
        let newest := max a b
        let m : Option (String × String) :=
          if !(impl.splitOn " ").contains "self=alive" then some ("self-not-alive", "after two claims the node does not list itself as alive")
          else if !s.begunLeaving && own < newest && min a b + 2 ≤ newest && newest < two64 - 1 && !(newest < mj) then
            some ("no-refutation", s!"claims about the running local node at times {a} and {b}: newest refuting join carries {mj}")
          else none
        { state := s, model := none, monitor := m }
      | _, _, _ => { state := s, model := some "refute2 …" }
    | _ => { state := s, model := some "bad-op" }
  else
  let (n', out, h) := modelLine s.base.node f
  match h with
  | .bad => { state := s, model := some out }
  | .localState => { state := s, model := some out }
  | .sync2 _ => { state := s, model := some out }
  | _ =>
    match parseObs impl with
    | none => { state := { s with base := { s.base with node := n' } }, model := some out, monitor := some ("malformed", impl) }
    | some o =>
      let begun := s.begunLeaving || beginsLeaving h
      let alive : Option (String × String) :=
        if !begun && o.statusOf selfName != some .alive then
          some ("self-not-alive", "the node has not begun leaving but does not list itself as alive")
        else none
      let refute : Option (String × String) :=
        (refutationFailure begun s.base.prev o h).map fun msg => ("no-refutation", msg)
      { state := { base := { node := n', prev := o }, begunLeaving := begun }, model := some out,
        monitor := firstSome [alive, refute] }

def checker : Checker := { σ := St, init := {}, step := step }

end SerfModel.Check.C03
