import SerfModel.Check.Core
import SerfModel.Model.Keyring
/-!
C22 checker.  A real Serf node with a memberlist keyring and a keyring file.

  `init <keys> <0|1|2>`           initial ring (primary first; `_` = no encryption), keyring file configured? (2: configured, not yet written)
  `install|use|remove <hexkey>`   the request, through `KeyManager` (a real internal query, handled by
                                  handleInstallKey / handleUseKey / handleRemoveKey, response awaited)
  `raw install|use|remove <hex>`  an internal query with an empty / undecodable payload, injected through NotifyMsg
  `restart`                       shut the node down, load the keyring file with the agent's real loader, start a new node on it

Output of every op: `<status> ring=<keys> primary=<key> file=<keys|NONE|ERR>` with
status ∈ ok | badlen | absent | primary | nokeyring | sent (raw) | err…;  `ring`/`primary` =
`Keyring.GetKeys()` / `GetPrimaryKey()` of the real keyring, `file` = the keys of the keyring a fresh
`agent.Create` loads from the keyring file (the real loader), in its ring order.

The monitor judges the implementation's outputs: with a keyring file configured, after every
request the file must load into exactly the ring (same keys, same order, so same primary);
the primary is the first key; a rejected request changes neither ring nor file.
-/
namespace SerfModel.Check.C22
open SerfModel SerfModel.Check SerfModel.Keyring

structure St where
  m : Option Node := none
  implRing : String := "_"
  implFile : String := "NONE"
  /-- the keyring file is expected to exist and match: from the start when the node started on it, otherwise
  (file configured but not yet written: init mode 2) from the first request answered `ok` on -/
  fileDue : Bool := true
  deriving Inhabited

def parseKeys (s : String) : Option (List Key) :=
  if s == "_" then some [] else (s.splitOn ",").mapM bytesOfHex?

def showKeys (l : List Key) : String :=
  if l.isEmpty then "_" else ",".intercalate (l.map hexOfBytes)

def showNode (status : String) (n : Node) : String :=
  let primary := match n.ring with
    | p :: _ => hexOfBytes p
    | [] => "_"
  let file := match n.file with
    | none => "NONE"
    | some f => match load f with
      | some r => showKeys r
      | none => "ERR"
  s!"{status} ring={showKeys n.ring} primary={primary} file={file}"

def field? (pre : String) (s : String) : Option String :=
  if s.startsWith pre then some (String.ofList (s.toList.drop pre.length)) else none

structure Impl where
  status : String
  ring : String
  primary : String
  file : String

def parseImpl (impl : String) : Option Impl :=
  match impl.splitOn " " with
  | [st, r, p, f] =>
    match field? "ring=" r, field? "primary=" p, field? "file=" f with
    | some r, some p, some f => some ⟨st, r, p, f⟩
    | _, _, _ => none
  | _ => none

def monitor (s : St) (hasFile : Bool) (isInit : Bool) (i : Impl) : Option (String × String) :=
  let head := match i.ring.splitOn "," with
    | h :: _ => h
    | [] => "_"
  if i.primary != head then
    some ("primary-not-first", s!"GetPrimaryKey {i.primary} is not the first key of {i.ring}")
  else if !isInit && i.status != "ok" && (i.ring != s.implRing || i.file != s.implFile) then
    some ("rejected-changed", s!"request answered {i.status} changed ring {s.implRing} -> {i.ring} / file {s.implFile} -> {i.file}")
  else if hasFile && (s.fileDue || (!isInit && i.status == "ok")) && i.ring != "_" && i.file != i.ring then
    some ("file-mismatch", s!"keyring file loads {i.file}, the node's ring is {i.ring}")
  else none

def opOf? : String → Option Op
  | "install" => some .install
  | "use" => some .use
  | "remove" => some .remove
  | _ => none

def step (s : St) (op : List String) (impl : String) : LineOut St :=
  let i? := parseImpl impl
  let upd (s : St) : St := match i? with
    | some i => { s with implRing := i.ring, implFile := i.file, fileDue := s.fileDue || (i.status == "ok" && op.head? != some "init") }
    | none => s
  let mon (hasFile isInit : Bool) := match i? with
    | some i => monitor s hasFile isInit i
    | none => some ("malformed", impl)
  match op with
  | ["init", ks, hf] =>
    match parseKeys ks with
    | none => { state := s, model := some "bad-op" }
    | some keys =>
      let hasFile := hf == "1" || hf == "2"   -- 2: the file is configured but does not exist yet
      -- the harness writes the initial file and loads it with the real loader
      let ring? : Option Ring := if keys.isEmpty then some [] else load keys
      match ring? with
      | none => { state := s, model := some "init-failed" }
      | some ring =>
        let n : Node := { ring := ring, file := if hf == "1" && !keys.isEmpty then some keys else none, hasFile := hasFile }
        let m := if impl.startsWith "init-failed" then
            some ("valid-file-refused", s!"the loader refused a keyring file of {keys.length} valid entries")
          else match i? with
            | some i => monitor { s with fileDue := hf != "2" } hasFile true i
            | none => some ("malformed", impl)
        { state := upd { s with m := some n, fileDue := hf != "2" }, model := some (showNode "ok" n), monitor := m }
  | ["restart"] =>
    match s.m with
    | none => { state := s, model := some "bad-op" }
    | some n =>
      match n.file.bind load with
      | none => { state := { s with m := none }, model := some "restart-failed" }
      | some r =>
        let n' : Node := { n with ring := r }
        let m := match i? with
          | some i =>
            if i.ring != s.implRing then
              some ("restart-mismatch", s!"ring before the restart {s.implRing}, after it {i.ring}")
            else monitor s n.hasFile true i
          | none => some ("restart-mismatch", s!"the node did not come back on its own keyring file: {impl}")
        { state := upd { s with m := some n' }, model := some (showNode "ok" n'), monitor := m }
  | [o, k] =>
    match s.m, opOf? o, bytesOfHex? k with
    | some n, some op, some key =>
      let (n', st) := handle n op (some key)
      { state := upd { s with m := some n' }, model := some (showNode st.toString n'), monitor := mon n.hasFile false }
    | _, _, _ => { state := s, model := some "bad-op" }
  | ["raw", o, _] =>
    match s.m, opOf? o with
    | some n, some op =>
      let (n', _) := handle n op none
      -- the response is not observable here: the status is `sent`; judged as a rejected request
      let m := match i? with
        | some i => monitor s n.hasFile false { i with status := "decode" }
        | none => some ("malformed", impl)
      { state := upd { s with m := some n' }, model := some (showNode "sent" n'), monitor := m }
    | _, _ => { state := s, model := some "bad-op" }
  | _ => { state := s, model := some "bad-op" }

def checker : Checker := { σ := St, init := {}, step := step }

end SerfModel.Check.C22
