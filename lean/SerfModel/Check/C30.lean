import SerfModel.Check.Core
import SerfModel.Model.AgentTags
import SerfModel.Gen.AgentSetTags
import SerfModel.Gen.AgentTagsSrc
/-!
C30 checker.  A real agent with a tags file; tag edits through the real RPC path.

  `init <tags>`        write the tags file, create + start the agent
  `edit <set> <del>`   RPC `tags` request (client.UpdateTags)
  `restart`            shut the agent down, create + start a new one on the same tags file

`<tags>` = `_` or `hexkey:hexval,…` (sorted by key), `<del>` = `_` or `hexkey,…`.
Output of every op: `<status> eff=<tags> conf=<tags> file=<tags|ERR> metalen=<n> meta=<hex|*>`
or `start-failed`, where status ∈ ok | toolarge | err, `eff` = Serf().LocalMember().Tags,
`conf` = SerfConfig().Tags, `file` = the tags a fresh `agent.Create` loads from the file,
`metalen`/`meta` = the node's real gossip meta data (meta only when ≤ 1 tag: map order).

The monitor re-states the property on the implementation's outputs, with its own
statement of the edit algebra (filter/append, not the model's fold): an accepted edit
yields exactly (previous − deleted) + set, a rejected one leaves the tags in effect
unchanged and is rejected only when over the limit, and the file always loads to the
tags in effect.  The one known deviation has its own key `tags-file-ahead`.
-/
namespace SerfModel.Check.C30
open SerfModel SerfModel.Check SerfModel.AgentTags

structure St where
  /-- model: heap view (live map, gossiped tags, file) -/
  m : Option AgentTags.Heap := none
  /-- monitor: what the implementation last reported -/
  implEff : Tags := []
  implFile : Option Tags := some []
  started : Bool := false
  deriving Inhabited

def parsePair (s : String) : Option (Bytes × Bytes) :=
  match s.splitOn ":" with
  | [k, v] => match bytesOfHex? k, bytesOfHex? v with
    | some kb, some vb => some (kb, vb)
    | _, _ => none
  | _ => none

def parseTags (s : String) : Option Tags :=
  if s == "_" then some [] else (s.splitOn ",").mapM parsePair

def parseKeys (s : String) : Option (List Bytes) :=
  if s == "_" then some [] else (s.splitOn ",").mapM bytesOfHex?

def showTags (t : Tags) : String :=
  if t.isEmpty then "_" else
  ",".intercalate ((sortTags t).map fun p => hexOfBytes p.1 ++ ":" ++ hexOfBytes p.2)

def showState (status : String) (s : AgentTags.Heap) : String :=
  let metaHex := if s.gossiped.length ≤ 1 then hexOfBytes (encodeTags s.gossiped) else "*"
  s!"{status} eff={showTags s.gossiped} conf={showTags s.conf} file={showTags s.file} metalen={encodedSize s.gossiped} meta={metaHex}"

structure Impl where
  status : String
  eff : Tags
  conf : Tags
  file : Option Tags
  deriving Inhabited

def field? (pre : String) (s : String) : Option String :=
  if s.startsWith pre then some (String.ofList (s.toList.drop pre.length)) else none

def parseImpl (impl : String) : Option Impl :=
  match impl.splitOn " " with
  | [st, e, c, f, _, _] =>
    match (field? "eff=" e).bind parseTags, (field? "conf=" c).bind parseTags, field? "file=" f with
    | some eff, some conf, some fs =>
      if fs == "ERR" then some ⟨st, eff, conf, none⟩
      else match parseTags fs with
        | some ft => some ⟨st, eff, conf, some ft⟩
        | none => none
    | _, _, _ => none
  | _ => none

/-- The documented edit, stated independently of the model: the previous tags without the
deleted keys and without the keys being set, followed by the set tags. -/
def specEdit (old set : Tags) (del : List Bytes) : Tags :=
  old.filter (fun p => !del.contains p.1 && !(set.map (·.1)).contains p.1) ++ set

def sameTags (a b : Tags) : Bool := sortTags a == sortTags b

def monitorEdit (s : St) (set : Tags) (del : List Bytes) (i : Impl) : Option (String × String) :=
  let want := specEdit s.implEff set del
  if i.status == "ok" && !sameTags i.eff want then
    some ("edit-wrong", s!"accepted edit: tags in effect {showTags i.eff}, documented result {showTags want}")
  else if i.status == "toolarge" && !sameTags i.eff s.implEff then
    some ("rejected-edit-changed-tags", s!"rejected edit changed the tags in effect from {showTags s.implEff} to {showTags i.eff}")
  else if i.status == "toolarge" && fits want then
    some ("rejected-within-limit", s!"edit rejected although its result encodes to {encodedSize want} ≤ 512 bytes")
  else if i.status != "ok" && i.status != "toolarge" then
    some ("edit-error", s!"unexpected status {i.status}")
  else if !sameTags i.conf i.eff then
    some ("conf-mismatch", s!"SerfConfig().Tags {showTags i.conf} differ from the member's tags {showTags i.eff}")
  else match i.file with
    | none => some ("file-unloadable", "the tags file no longer loads")
    | some f =>
      if sameTags f i.eff then none
      else if i.status == "toolarge" && sameTags f want then
        some ("tags-file-ahead", s!"edit rejected (encoded size {encodedSize want} > 512) but the tags file already holds the rejected tags: next start loads {showTags f}, in effect {showTags i.eff}")
      else some ("file-mismatch", s!"tags file loads {showTags f}, in effect {showTags i.eff}")

def step (s : St) (op : List String) (impl : String) : LineOut St :=
  let sh := SerfModel.Gen.AgentSetTags.shape
  let i? := parseImpl impl
  let upd (s : St) : St := match i? with
    | some i => { s with implEff := i.eff, implFile := i.file }
    | none => s
  match op with
  | ["init", ts] =>
    match parseTags ts with
    | none => { state := s, model := some "bad-op" }
    | some t =>
      match heapRestart { conf := t, gossiped := t, file := t } with
      | none => { state := { s with m := none }, model := some "start-failed" }
      | some ms =>
        let mon := match i? with
          | some i => if sameTags i.eff t && i.file.map (sameTags t) == some true then none
                      else some ("init-mismatch", s!"agent started on tags file {showTags t} reports {showTags i.eff}")
          | none => some ("malformed", impl)
        { state := upd { s with m := some ms, started := true }, model := some (showState "ok" ms), monitor := mon }
  | ["edit", sets, dels] =>
    match s.m, parseTags sets, parseKeys dels with
    | some ms, some set, some del =>
      let (ms', ok) := AgentTags.heapStep ⟨SerfModel.Gen.AgentTagsSrc.freshMap⟩ sh ms ⟨set, del⟩
      let mon := match i? with
        | some i => monitorEdit s set del i
        | none => some ("malformed", impl)
      { state := upd { s with m := some ms' }, model := some (showState (if ok then "ok" else "toolarge") ms'), monitor := mon }
    | none, some _, some _ => { state := s, model := some "dead" }
    | _, _, _ => { state := s, model := some "bad-op" }
  | ["restart"] =>
    match s.m with
    | none => { state := s, model := some "dead" }
    | some ms =>
      let ahead := s.implFile.map (sameTags s.implEff) != some true
      match heapRestart ms with
      | none =>
        let mon := if impl == "start-failed" then
            (if ahead then some ("tags-file-ahead", "the agent does not start on the tags file it wrote: the file holds a rejected edit")
             else some ("restart-failed", "the agent does not start on its own tags file"))
          else none
        { state := { s with m := none }, model := some "start-failed", monitor := mon }
      | some ms' =>
        let mon := match i? with
          | some i =>
            if sameTags i.eff s.implEff then none
            else if ahead then some ("tags-file-ahead", s!"after the restart the tags are {showTags i.eff}, before it {showTags s.implEff}: the file held a rejected edit")
            else some ("restart-mismatch", s!"after the restart the tags are {showTags i.eff}, before it {showTags s.implEff}")
          | none =>
            if impl == "start-failed" then
              (if ahead then some ("tags-file-ahead", "the agent does not start on the tags file it wrote")
               else some ("restart-failed", "the agent does not start on its own tags file"))
            else some ("malformed", impl)
        { state := upd { s with m := some ms' }, model := some (showState "ok" ms'), monitor := mon }
  | _ => { state := s, model := some "bad-op" }

def checker : Checker := { σ := St, init := {}, step := step }

end SerfModel.Check.C30
