import SerfModel.Check.SnapCheck
/-!
C13 checker: the shared snapshot checker (Check/SnapCheck.lean), judging the lives
WITH a graceful leave: what the real NewSnapshotter recovers at `reopen` must be an
empty rejoin set when rejoin-after-leave is off (key `leave-not-remembered`) and the
set the events had produced at the moment of the leave when it is on (key
`leave-rejoin-set`); the in-memory alive map after every op must be what the events say.
-/
namespace SerfModel.Check.C13
open SerfModel.Check

def checker : Checker := SnapCheck.mkChecker { pid := "C13", judgeNoLeave := false, judgeLeave := true }

end SerfModel.Check.C13
