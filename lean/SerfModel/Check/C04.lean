import SerfModel.Check.NodeCommon
/-!
C04 checker, membership part (join / leave intents; ops: see NodeCommon / harness/node.go).

Monitor, on the IMPLEMENTATION's observations only.  Own bookkeeping: how often each message
was re-queued by NotifyMsg inside the current retention window of the member it is about.
A window ends when the member is erased (reaped, or pruned by a DIFFERENT message), when its
buffered intent is reaped, or when memberlist announces the (unknown) member anew; the erasing
prune message itself is counted inside the window.
  requeued-again        a message was re-queued a second time inside the window
  prune-requeued-twice  the same prune-leave was re-queued on its 1st and 2nd delivery (the member
                        it erased is unknown the second time)            — recorded finding
  requeued-not-recorded a message was re-queued although the node did not record its time (status time of the
                        member, or the buffered intent) — the next copy would be re-queued again
  merge-requeues        a state-sync merge queued something other than a refuting join of the local node
-/
namespace SerfModel.Check.C04
open SerfModel SerfModel.Check SerfModel.Node SerfModel.Check.NodeCommon

structure St where
  base : Base := {}
  /-- re-queue count per message (key: canonical string) with the member name -/
  counts : List (String × Name × Nat) := []
  deriving Inhabited

def dropAbout (c : List (String × Name × Nat)) (x : Name) (except : Option String) : List (String × Name × Nat) :=
  c.filter fun e => !(e.2.1 == x) || some e.1 == except

/-- `uevdup` / `qrydup`: the same user event / query delivered several times.  Expected: re-queued on the first
delivery only (never when the query disables re-broadcast), whatever its filters say. -/
def dupStep (s : St) (f : List String) (impl : String) : LineOut St :=
  let times := (f.getLast?.bind (·.toNat?)).getD 0
  let first := if f.head? == some "qrydup" && f[3]? == some "1" then 0 else 1
  let expect := "growth " ++ ",".intercalate ((List.range times).map fun i => if i == 0 then toString first else "0")
  let got : List Nat := ((String.ofList (impl.toList.drop 7)).splitOn ",").filterMap (·.toNat?)
  let total : Nat := got.foldl (· + ·) 0
  let m : Option (String × String) :=
    if !impl.startsWith "growth " then some ("malformed", impl)
    else if total > 1 then some ("requeued-again", s!"the same message was re-queued {total} times over {times} deliveries")
    else none
  { state := s, model := some expect, monitor := m }

/-- `uevalt`: two different user events (times `lt` and `lt + dist`) delivered alternately, lower first.  Each is
re-queued on its first delivery only: a repeat is either a duplicate in its slot (`dist` below the buffer size) or
too old (`dist` at least the buffer size, `EventBuf.tooOld`), never accepted again. -/
def altStep (s : St) (f : List String) (impl : String) : LineOut St :=
  let rounds := (f.getLast?.bind (·.toNat?)).getD 0
  let expect := "growth " ++ ",".intercalate ((List.range (2 * rounds)).map fun i => if i < 2 then "1" else "0")
  let got : List Nat := ((String.ofList (impl.toList.drop 7)).splitOn ",").filterMap (·.toNat?)
  let total : Nat := got.foldl (· + ·) 0
  let m : Option (String × String) :=
    if !impl.startsWith "growth " then some ("malformed", impl)
    else if total > 2 then some ("requeued-again", s!"two user events were re-queued {total} times over {2 * rounds} deliveries")
    else none
  { state := s, model := some expect, monitor := m }

def step (s : St) (f : List String) (impl : String) : LineOut St :=
  if f.head? == some "uevalt" then altStep s f impl else
  if f.head? == some "uevdup" || f.head? == some "qrydup" then dupStep s f impl else
  let (n', out, h) := modelLine s.base.node f
  match h with
  | .bad => { state := s, model := some out }
  | .localState => { state := s, model := some out }
  | .sync2 _ => { state := s, model := some out }
  | _ =>
    match parseObs impl with
    | none => { state := { s with base := { s.base with node := n' } }, model := some out, monitor := some ("malformed", impl) }
    | some o =>
      let prev := s.base.prev
      let delivered : Option Msg := match h with
        | .ops [op] => op.msg?
        | _ => none
      -- windows that ended in this step
      let gone := (prev.members.map (·.1)).filter (fun x => !o.knows x)
      let intentGone := (prev.intents.map (·.1)).filter (fun x => !(o.intents.map (·.1)).contains x)
      let rejoined := match h with
        | .ops [.nodeJoin x] => if prev.knows x then [] else [x]
        | _ => []
      let keep : Option String := match delivered with
        | some m => if m.isPrune then some (Msg.str m) else none
        | none => none
      let c1 := (gone ++ intentGone ++ rejoined).foldl (fun c x => dropAbout c x keep) s.counts
      -- was the delivered message re-queued?
      let (c2, verdict) : List (String × Name × Nat) × Option (String × String) :=
        match delivered with
        | some m =>
          if o.queue.contains m then
            let k := Msg.str m
            let cnt := ((alookup c1 k).map (·.2)).getD 0 + 1
            let c := ainsert c1 k (m.node, cnt)
            if cnt ≥ 2 then
              if m.isPrune && cnt == 2 then
                (c, some ("prune-requeued-twice", s!"prune-leave {k} re-queued on its 2nd delivery as well"))
              else (c, some ("requeued-again", s!"message {k} re-queued {cnt} times inside its retention window"))
            else (c, none)
          else (c1, none)
        | none => (c1, none)
      -- a re-queued message must be recorded (that is what stops the next copy), unless it is the prune that erased the member
      let recorded : Option (String × String) := match delivered with
        | some m =>
          let cov := match o.ltimeOf m.node with
            | some t => decide (m.ltime ≤ t)
            | none => match o.intents.find? (·.1 == m.node) with
              | some i => decide (m.ltime ≤ i.2.2)
              | none => false
          if o.queue.contains m && !cov && !(m.isPrune && prev.knows m.node && !o.knows m.node) then
            some ("requeued-not-recorded", s!"message {Msg.str m} was re-queued but the node recorded no time ≥ {m.ltime} for {m.node}: the next copy will be re-queued again")
          else none
        | none => none
      let mergeV : Option (String × String) := match h with
        | .ops [.merge ..] =>
          if o.queue.any (fun m => match m with | .join x _ => !(x == selfName) | _ => true) then
            some ("merge-requeues", "a state-sync merge queued a message other than the local node's refuting join")
          else none
        | _ => none
      { state := { base := { node := n', prev := o }, counts := c2 }, model := some out,
        monitor := firstSome [verdict, recorded, mergeV] }

def checker : Checker := { σ := St, init := {}, step := step }

end SerfModel.Check.C04
