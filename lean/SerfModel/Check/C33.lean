import SerfModel.Check.Core
import SerfModel.Model.Limits
/-!
C33 checker.  One real node per case (memberlist mock transport, recording).

  cfg <ueLimit> <qLimit> <rLimit> <nodeNameLen>   => ok | create-err          (Create rejects ueLimit > 9216)
  env                                             => <addr hex> <port>        (what LocalNode() reports; oracle for the model)
  event <nameLen> <payloadLen|n> <t|f>            => <status> delivered=<0|1> sent=<lens|->
        status: ok | err-cfg-before | err-hard-before | err-cfg-after | err-hard-after | err-other
        delivered: a UserEvent reached EventCh; sent: lengths of the messages taken from the broadcast queues
  witness <ltime>                                 => ok     (a remote user event with that Lamport time: moves the event clock)
  query <nameLen> <payloadLen|n> <nFilterNodes> <relayFactor> <t|f ack> <timeoutNs>
                                                  => ok delivered=<0|1> sent=<len> idw=<bytes of the random ID> | err-size delivered=0 sent=- | err-other
  bigmember <tagLen>                              => ok <port>   (one more alive member big-<n> whose tags {t: x…} make its record large)
  iquery <conflict k|installkey _|listkeys _|ping _> <t|f ack>
                                                  => ok sent=<len> idw=<w> resp=<sent|refused|none> pkts=<lens> | err-size sent=- | err-other
        an INTERNAL query (_serf_…) issued on the node; its own handler answers through respondWithMessageAndResponse.
        conflict answers (the Member record) are modelled exactly; key / ping answers are judged by the monitor only.
  members <k>                                     => ok     (k fake alive members, protocol 5, joined through the memberlist event delegate: relay targets)
  respond <payloadLen|n>                          => ok pkts=<lens of the response (type 5) and relay (type 9) packets written to the transport, in order>
                                                     | err-size pkts=<…> | err-other pkts=<…>

The model runs the statement lists of Gen/Limits.lean with exact encoded lengths from
the codec model.  The random query ID's width is an oracle (reported by the harness for
accepted queries; for rejected ones the model answers only when every width agrees).

MONITOR (implementation outputs only):
  * event ok ⇒ nameLen+payloadLen ≤ min(cfg,9216) and every sent length ≤ min(cfg,9216)   key event-oversize-accepted
  * event err ⇒ delivered=0 and nothing sent                                               key event-rejected-leak
  * query ok ⇒ sent length ≤ qLimit                                                        key query-oversize-sent
  * query err ⇒ delivered=0 and nothing sent                                               key query-rejected-leak
  * respond: every packet length (direct and relayed) ≤ rLimit                             key response-oversize-sent
A rejected-after-encoding event / a rejected query advances the node's own Lamport clock
(the time is taken with one atomic Increment when the message is built); that is not an
observable effect and is not flagged — the model's clock follows the generated clock step.
-/
namespace SerfModel.Check.C33
open SerfModel SerfModel.Check SerfModel.Msgpack SerfModel.Codec SerfModel.Limits SerfModel.LimitSteps

structure St where
  cfg : Cfg := ⟨0, 0, 0⟩
  alive : Bool := false
  nodeName : Bytes := []
  addr : Option Bytes := none
  port : Nat := 0
  eventClock : Nat := 1
  queryClock : Nat := 1
  /-- pending query (ltime, id width, timeout, relay factor) for `respond` -/
  pending : Option (Nat × Nat × Int × Nat) := none
  /-- fake alive members added through the event delegate -/
  fakes : Nat := 0
  /-- members with a large record: (port, length of the value of tag `t`), named big-1, big-2, … -/
  bigs : List (Nat × Nat) := []
  deriving Inhabited

def rep (c : UInt8) (n : Nat) : Bytes := List.replicate n c

def parseLenOpt (s : String) : Option (Option Nat) :=
  if s == "n" then some none else s.toNat?.map some

def optRep (c : UInt8) : Option Nat → Option Bytes
  | none => none
  | some n => some (rep c n)

/-- index of the first failing guard -/
def firstFail (env : Opnd → Nat) (gs : List (Opnd × Opnd)) : Option Nat :=
  let rec go (i : Nat) : List (Opnd × Opnd) → Option Nat
    | [] => none
    | (l, r) :: rest => if env l > env r then some i else go (i + 1) rest
  go 0 gs

def eventStatus : Option Nat → String
  | none => "ok"
  | some 0 => "err-cfg-before"
  | some 1 => "err-hard-before"
  | some 2 => "err-cfg-after"
  | some 3 => "err-hard-after"
  | some _ => "err-other"

def kv (impl key : String) : String :=
  match (impl.splitOn " ").find? (·.startsWith (key ++ "=")) with
  | some t => String.ofList (t.toList.drop (key.length + 1))
  | none => ""

def lens (s : String) : List Nat := if s == "-" || s == "" then [] else (s.splitOn ",").filterMap (·.toNat?)

def idOfWidth : Nat → Nat
  | 1 => 5
  | 2 => 200
  | 3 => 40000
  | _ => 2147483647

def mkQuery (s : St) (idw nameLen : Nat) (payload : Option Nat) (nFilter rf : Nat) (ack : Bool) (timeout : Int) : Query :=
  let names : List Bytes := if nFilter == 0 then [] else s.nodeName :: (List.range (nFilter - 1)).map (fun i => rep 102 (i + 1))
  let filters : Option (List (Option Bytes)) :=
    if nFilter == 0 then none else some [some (encodeMessage 0 (FilterNode.toMP (some names)))]
  { ltime := s.queryClock, id := idOfWidth idw, addr := s.addr, port := s.port, sourceNode := s.nodeName,
    filters := filters, flags := if ack then 1 else 0, relayFactor := rf, timeout := timeout,
    name := rep 113 nameLen, payload := optRep 112 payload }

def ascii (s : String) : Bytes := s.toUTF8.toList

/-- the answer of the `_serf_conflict` handler about member big-k: messageConflictResponseType (6) and
the msgpack encoding of the Member record (fields in sorted order) -/
def conflictAnswer (addr : Option Bytes) (k port tagLen : Nat) : Bytes :=
  encodeMessage 6 (.map [
    (.raw (ascii "Addr"), putBytes addr), (.raw (ascii "DelegateCur"), .uint 5), (.raw (ascii "DelegateMax"), .uint 5),
    (.raw (ascii "DelegateMin"), .uint 2), (.raw (ascii "Name"), .raw (ascii s!"big-{k}")), (.raw (ascii "Port"), .uint port),
    (.raw (ascii "ProtocolCur"), .uint 2), (.raw (ascii "ProtocolMax"), .uint 5), (.raw (ascii "ProtocolMin"), .uint 1),
    (.raw (ascii "Status"), .uint 1), (.raw (ascii "Tags"), .map [(.raw (ascii "t"), .raw (rep 120 tagLen))])])

def parseInt (s : String) : Option Int :=
  if s.startsWith "-" then (String.ofList (s.toList.drop 1)).toNat?.map (fun n => -(n : Int))
  else s.toNat?.map (fun n => (n : Int))

def step (s : St) (op : List String) (impl : String) : LineOut St :=
  let panicMon : Option (String × String) := if impl.startsWith "PANIC" then some ("limits-panic", impl) else none
  match op with
  | ["cfg", a, b, c, d] =>
    match a.toNat?, b.toNat?, c.toNat?, d.toNat? with
    | some ue, some q, some r, some nl =>
      if ue > hard then { state := { s with alive := false }, model := some "create-err", monitor := panicMon }
      else { state := { cfg := ⟨ue, q, r⟩, alive := true, nodeName := rep 78 nl }, model := some "ok", monitor := panicMon }
    | _, _, _, _ => { state := s, model := some "bad-op" }
  | ["env"] =>
    if !s.alive then { state := s, model := some "bad-op", monitor := panicMon } else
    match impl.splitOn " " with
    | [a, p] =>
      match bytesOfHex? a, p.toNat? with
      | some ab, some port => { state := { s with addr := some ab, port := port }, model := none, monitor := panicMon }
      | _, _ => { state := s, model := none, monitor := some ("malformed", impl) }
    | _ => { state := s, model := none, monitor := some ("malformed", impl) }
  | ["witness", t] =>
    if !s.alive then { state := s, model := some "bad-op", monitor := panicMon } else
    match t.toNat? with
    | some lt => { state := { s with eventClock := max s.eventClock (lt + 1) }, model := some "ok", monitor := panicMon }
    | none => { state := s, model := some "bad-op" }
  | ["event", a, b, c] =>
    if !s.alive then { state := s, model := some "bad-op", monitor := panicMon } else
    match a.toNat?, parseLenOpt b with
    | some nl, some pl =>
      let plen := pl.getD 0
      let enc := ueEncLen s.eventClock (rep 110 nl) (optRep 112 pl) (c == "t")
      let out := userEvent s.cfg nl plen enc
      let status := eventStatus (firstFail (ueEnv s.cfg nl plen enc) (guards Gen.Limits.userEvent))
      let model :=
        if out.ok then s!"{status} delivered={if out.effects.contains "handleUserEvent" then 1 else 0} sent={if out.effects.contains "QueueBroadcast" then toString enc else "-"}"
        else s!"{status} delivered=0 sent=-"
      let lim := min s.cfg.ueLimit 9216
      let st := firstTok impl
      let sent := lens (kv impl "sent")
      let mon :=
        match panicMon with
        | some m => some m
        | none =>
          if st == "ok" then
            if nl + plen > lim then some ("event-oversize-accepted", s!"name+payload = {nl + plen} accepted with limit {lim}")
            else if sent.any (· > lim) then some ("event-oversize-accepted", s!"a message of {sent} bytes was queued with limit {lim}")
            else none
          else if kv impl "delivered" != "0" || !sent.isEmpty then
            some ("event-rejected-leak", s!"rejected event ({st}) was delivered={kv impl "delivered"} sent={kv impl "sent"}")
          else none
      -- the event clock is stepped while the message is built: also for an event rejected after encoding
      let stepped : Bool := (clocks out.trace).contains "eventClock.Increment"
      { state := if stepped then { s with eventClock := s.eventClock + 1 } else s, model := some model, monitor := mon }
    | _, _ => { state := s, model := some "bad-op" }
  | ["query", a, b, c, d, e, f] =>
    if !s.alive then { state := s, model := some "bad-op", monitor := panicMon } else
    match a.toNat?, parseLenOpt b, c.toNat?, d.toNat?, parseInt f with
    | some nl, some pl, some nf, some rf, some to =>
      let st := firstTok impl
      let sent := lens (kv impl "sent")
      let mon :=
        match panicMon with
        | some m => some m
        | none =>
          if st == "ok" then
            if sent.any (· > s.cfg.qLimit) || sent.isEmpty then some ("query-oversize-sent", s!"query of {sent} bytes sent with limit {s.cfg.qLimit}")
            else none
          else if kv impl "delivered" != "0" || !sent.isEmpty then
            some ("query-rejected-leak", s!"rejected query was delivered={kv impl "delivered"} sent={kv impl "sent"}")
          else none
      let verdict (w : Nat) : Bool := (query s.cfg (qEncLen (mkQuery s w nl pl nf rf (e == "t") to))).ok
      -- the query clock is stepped while the message is built, whatever the size guard says afterwards
      let stepped : Bool := (clocks (query s.cfg 0).trace).contains "queryClock.Increment"
      let s' := if stepped then { s with queryClock := s.queryClock + 1 } else s
      match (kv impl "idw").toNat? with
      | some w =>
        let q := mkQuery s w nl pl nf rf (e == "t") to
        let enc := qEncLen q
        if (query s.cfg enc).ok then
          { state := { s' with pending := some (s.queryClock, w, to, rf) },
            model := some s!"ok delivered=1 sent={enc} idw={w}", monitor := mon }
        else { state := s', model := some "err-size delivered=0 sent=-", monitor := mon }
      | none =>
        if [1, 2, 3, 5].all (fun w => !verdict w) then { state := s', model := some "err-size delivered=0 sent=-", monitor := mon }
        else if [1, 2, 3, 5].all verdict then
          -- the implementation must have accepted and reported the width
          { state := s', model := some "ok delivered=1 sent=? idw=?", monitor := mon }
        else { state := s', model := none, monitor := mon }
    | _, _, _, _, _ => { state := s, model := some "bad-op" }
  | ["bigmember", n] =>
    if !s.alive then { state := s, model := some "bad-op", monitor := panicMon } else
    match n.toNat?, ((impl.splitOn " ").getD 1 "").toNat? with
    | some tagLen, some port =>
      { state := { s with bigs := s.bigs ++ [(port, tagLen)], fakes := s.fakes + 1 }, model := none, monitor := panicMon }
    | _, _ => { state := s, model := none, monitor := some ("malformed", impl) }
  | ["iquery", kind, arg, ack] =>
    if !s.alive then { state := s, model := some "bad-op", monitor := panicMon } else
    let st := firstTok impl
    let pk := lens (kv impl "pkts")
    let sent := lens (kv impl "sent")
    -- property monitor: whatever the query's name, no response above the limit, no query above its limit
    let mon :=
      match panicMon with
      | some m => some m
      | none =>
        if pk.any (· > s.cfg.rLimit) then
          some ("response-oversize-sent", s!"the answer to internal query {kind} went out with {pk} bytes, limit {s.cfg.rLimit}")
        else if st == "ok" && sent.any (· > s.cfg.qLimit) then
          some ("query-oversize-sent", s!"query of {sent} bytes sent with limit {s.cfg.qLimit}")
        else none
    let stepped : Bool := (clocks (query s.cfg 0).trace).contains "queryClock.Increment"
    let s' := if stepped then { s with queryClock := s.queryClock + 1 } else s
    if kind != "conflict" then
      -- key handlers / ping: answer texts are not modelled; the monitor judges the packets
      { state := s', model := none, monitor := mon }
    else
      match arg.toNat? with
      | none => { state := s, model := some "bad-op" }
      | some k =>
        match s.bigs[k - 1]? with
        | none => { state := s, model := some "bad-op" }
        | some (port, tagLen) =>
          let mk (w : Nat) : Query :=
            { ltime := s.queryClock, id := idOfWidth w, addr := s.addr, port := s.port, sourceNode := s.nodeName,
              filters := none, flags := if ack == "t" then 1 else 0, relayFactor := 0, timeout := 3600000000000,
              name := ascii "_serf_conflict", payload := some (ascii s!"big-{k}") }
          let verdict (w : Nat) : Bool := (query s.cfg (qEncLen (mk w))).ok
          match (kv impl "idw").toNat? with
          | some w =>
            let enc := qEncLen (mk w)
            if (query s.cfg enc).ok then
              let r : QueryResp := { ltime := s.queryClock, id := idOfWidth w, from_ := s.nodeName, flags := 0,
                                     payload := some (conflictAnswer s.addr k port tagLen) }
              let len := respEncLen r
              if (respondWith s.cfg len).effects.contains "SendToAddress" then
                { state := s', model := some s!"ok sent={enc} idw={w} resp=sent pkts={len}", monitor := mon }
              else { state := s', model := some s!"ok sent={enc} idw={w} resp=refused pkts=-", monitor := mon }
            else { state := s', model := some "err-size sent=-", monitor := mon }
          | none =>
            if [1, 2, 3, 5].all (fun w => !verdict w) then { state := s', model := some "err-size sent=-", monitor := mon }
            else if [1, 2, 3, 5].all verdict then { state := s', model := some "ok sent=? idw=?", monitor := mon }
            else { state := s', model := none, monitor := mon }
  | ["members", k] =>
    if !s.alive then { state := s, model := some "bad-op", monitor := panicMon } else
    match k.toNat? with
    | some n => { state := { s with fakes := s.fakes + n }, model := some "ok", monitor := panicMon }
    | none => { state := s, model := some "bad-op" }
  | ["respond", a] =>
    match parseLenOpt a, s.pending with
    | some pl, some (lt, w, to, rf) =>
      let r : QueryResp := { ltime := lt, id := idOfWidth w, from_ := s.nodeName, flags := 0, payload := optRep 114 pl }
      let len := respEncLen r
      let out := respondWith s.cfg len
      let pk := lens (kv impl "pkts")
      let mon :=
        match panicMon with
        | some m => some m
        | none => if pk.any (· > s.cfg.rLimit) then some ("response-oversize-sent", s!"response/relay packet of {pk} bytes with limit {s.cfg.rLimit}") else none
      if to < 10000000000 then
        -- the query's deadline (now + timeout) may have passed: the outcome depends on wall-clock time
        { state := { s with pending := if firstTok impl == "ok" then none else s.pending }, model := none, monitor := mon }
      else if out.effects.contains "SendToAddress" then
        -- relayResponse: relayFactor > 0 and at least relayFactor other members
        if rf > 0 && s.fakes ≥ rf then
          let hdr : RelayHdr := { ip := s.addr, port := (s.port : Int), zone := [], destName := s.nodeName }
          let rlen := relayEncLen hdr r
          if (relay s.cfg rlen).effects.contains "SendToAddress" then
            -- how many of the eligible members the random probing found is an oracle (≤ min rf fakes)
            let cnt := min (pk.length - 1) (min rf s.fakes)
            let all := len :: List.replicate cnt rlen
            { state := { s with pending := none }, model := some s!"ok pkts={",".intercalate (all.map toString)}", monitor := mon }
          else
            -- the direct response went out, the relay was refused: Respond reports the size error and
            -- the query stays open
            { state := s, model := some s!"err-size pkts={len}", monitor := mon }
        else { state := { s with pending := none }, model := some s!"ok pkts={len}", monitor := mon }
      else { state := s, model := some "err-size pkts=-", monitor := mon }
    | _, _ => { state := s, model := some "bad-op" }
  | _ => { state := s, model := some "bad-op" }
where
  firstTok (x : String) : String := (x.splitOn " ").headD ""

def checker : Checker := { σ := St, init := {}, step := step }

end SerfModel.Check.C33
