import SerfModel.Check.Core
import SerfModel.Model.AgentEventScript
/-!
C27 checker.  Ops (strings hex-encoded):

  `parse <spec>`                          ParseEventScript(spec) → `event/name/script;…`
  `invoke <event> <name> <ev>`            EventFilter{event,name}.Invoke(ev) → `true|false`
  `run <specs> <self> <selftags> <ev> <outlen> <seed> <exit> <limit>`
        the real ScriptEventHandler.HandleEvent with one shell script per spec (`!` = a spec
        without `=`); the script records that it ran, dumps its environment and stdin, prints
        `outlen` bytes of a fixed pattern and exits with `exit`.
        → `runs=<n0>,<n1>,… env=<hex|*|-> stdin=<hex|-> resp=<none|toolarge|hex> q=<ltime>:<id>:<from>|-`
        env = the SERF_* variables the script saw, sorted, NUL-joined (`-` when no script ran); q = the query's Lamport time,
        id and the responding node's name as reported by the real node (inputs to the model).

  `hconf <specs>` / `hupdate <specs>` / `hfire <self> <selftags> <ev>`
        one reloadable ScriptEventHandler per case: configure (Config.EventScripts), reload
        (UpdateScripts, also to the empty list `_`), fire an event while SelfFunc answers <self>/<selftags> → `ran=<id:count,…|-> env=<hex|->`
        (env = the SERF_* variables of the first script that ran);
        specs = `_` or `id:filterhex,…`, script `id` records its runs.

  `<ev>` = `mj|ml|mf|mu|mr/<member>+<member>…` with member = `name~addr~tags` (addr `a.b.c.d` or `nil`,
  tags `_` or `k:v,k:v`), `u/<name>/<ltime>/<payload>`, `q/<name>/<payload>`.

The monitor judges the implementation's own outputs: a script runs once per matching entry
(documented matching); every stdin line of a member event has four tab-separated fields and the
input has one newline-terminated line per member; a payload arrives unchanged with a final
newline; variable names are in `[A-Z0-9_]`; a query response is a suffix of the script's output
of at most 8192 bytes, sent only for a successful run with output.
-/
namespace SerfModel.Check.C27
open SerfModel SerfModel.Check SerfModel.EventScript

def hx (bs : Bytes) : String := hexOfBytes bs

def parseTags (s : String) : Option Tags :=
  if s == "_" then some [] else
  (s.splitOn ",").mapM fun p => match p.splitOn ":" with
    | [k, v] => match bytesOfHex? k, bytesOfHex? v with
      | some kb, some vb => some (kb, vb)
      | _, _ => none
    | _ => none

/-- the address as the MODEL renders it (`ipv4` / `nilAddr`), from the harness's `a.b.c.d` / `nil` -/
def addrBytes (s : String) : Bytes :=
  if s == "nil" then nilAddr else
  match (s.splitOn ".").map String.toNat? with
  | [some a, some c, some d, some e] => ipv4 a c d e
  | _ => b s

def parseMember (s : String) : Option Member :=
  match s.splitOn "~" with
  | [n, a, t] => match bytesOfHex? n, parseTags t with
    | some nb, some tg => some ⟨nb, addrBytes a, tg⟩
    | _, _ => none
  | _ => none

def kindOf? : String → Option Kind
  | "mj" => some .memberJoin | "ml" => some .memberLeave | "mf" => some .memberFailed
  | "mu" => some .memberUpdate | "mr" => some .memberReap | _ => none

/-- parse an event; a query's Lamport time comes from the implementation's output -/
def parseEvent (s : String) (qltime : Nat) : Option Event :=
  match s.splitOn "/" with
  | [k, ms] => match kindOf? k with
    | some kind => (if ms == "_" then some [] else (ms.splitOn "+").mapM parseMember).map (Event.member kind)
    | none => none
  | ["u", n, lt, p] => match bytesOfHex? n, lt.toNat?, bytesOfHex? p with
    | some nb, some l, some pb => some (.user nb l pb)
    | _, _, _ => none
  | ["q", n, p] => match bytesOfHex? n, bytesOfHex? p with
    | some nb, some pb => some (.query nb qltime pb)
    | _, _ => none
  | _ => none

def sanName (n : Bytes) : Bytes := (String.ofList (sanitizeChars (stringOfBytes n).toList)).toUTF8.toList

/-- bytewise order (Go `sort.Strings`) -/
def bytesLe : Bytes → Bytes → Bool
  | [], _ => true
  | _ :: _, [] => false
  | a :: as, c :: cs => if a < c then true else if c < a then false else bytesLe as cs

def insertB (x : Bytes) : List Bytes → List Bytes
  | [] => [x]
  | y :: ys => if bytesLe x y then x :: y :: ys else y :: insertB x ys

def sortB (l : List Bytes) : List Bytes := l.foldr insertB []

def joinNul : List Bytes → Bytes
  | [] => []
  | [x] => x
  | x :: rest => x ++ 0 :: joinNul rest

/-- The environment the script sees, sorted.  When two tags collapse into one variable name
os/exec keeps the entry added last, i.e. the survivor depends on Go's map iteration order: then
the implementation's environment is accepted (and reproduced) if it has exactly one entry per
distinct name and every entry is one of the model's candidates. -/
def showEnv (env : List (Bytes × Bytes)) (impl : Option Bytes) : String :=
  let names := env.map (·.1)
  let entries := env.map fun p => p.1 ++ EQ :: p.2
  if names.eraseDups.length == names.length then hx (joinNul (sortB entries))
  else match impl with
    | some ib =>
      let ie := splitOn 0 ib
      if ie.all entries.contains && ie.length == names.eraseDups.length &&
         (ie.map fun kv => (splitOn EQ kv).head?.getD []).eraseDups.length == ie.length && sortB ie == ie
      then hx ib else "collision-not-explained:" ++ hx (joinNul (sortB entries))
    | none => "collision-not-explained"

/-- the script's fixed output pattern -/
def patByte (seed i : Nat) : UInt8 := if i % 97 == 96 then 10 else UInt8.ofNat (33 + (i * 31 + seed) % 90)
def pattern (len seed : Nat) : Bytes := (List.range len).map (patByte seed)

def perms : List (Bytes × Bytes) → List (List (Bytes × Bytes))
  | [] => [[]]
  | x :: xs => (perms xs).flatMap fun p => (List.range (p.length + 1)).map fun i => p.take i ++ x :: p.drop i

/-- split into newline-terminated lines (the final piece, after the last newline, is kept apart) -/
def linesNL (s : Bytes) : List Bytes × Bytes :=
  let parts := splitOn NL s
  (parts.dropLast.map (· ++ [NL]), parts.getLast?.getD [])

/-- the model's member input, with each member's tags in the order the implementation's map
iteration produced (read off the implementation's line when some order reproduces it) -/
def memberStdinLike (ms : List Member) (impl : Bytes) : Bytes :=
  let (ls, _) := linesNL impl
  let rec go : List Member → List Bytes → Bytes
    | [], _ => []
    | m :: rest, ls =>
      let want := ls.head?.getD []
      let cands := (perms m.tags).map fun t => memberLine { m with tags := t }
      let line := if m.tags.length ≤ 4 && cands.contains want then want else memberLine m
      line ++ go rest ls.tail
  go ms ls

def matchesDoc (f : Filter) (e : Event) : Bool :=
  f.event == starB ||
  (f.event == e.kind.str &&
    (f.name.isEmpty || !(f.event == userB || f.event == queryB) || e.name? == some f.name))

def specEntries (spec : String) : Option (List (Filter × Bytes)) :=
  -- the harness appends `=<script>` (or, for `!`, uses the bare script): only the filter part matters
  if spec == "!" then some (parseEventScript [115]) else
  (bytesOfHex? spec).map fun f => parseEventScript (f ++ EQ :: [115])

def showResp : Resp → String
  | .none => "none" | .tooLarge => "toolarge" | .sent p => hx p

def field? (pre : String) (s : String) : Option String :=
  if s.startsWith pre then some (String.ofList (s.toList.drop pre.length)) else none

def okName (n : Bytes) : Bool := n.all fun c => (65 ≤ c && c ≤ 90) || (48 ≤ c && c ≤ 57) || c == 95

/-- checker state: the reloadable handler of the `hconf` / `hupdate` / `hfire` ops -/
structure St where
  /-- model: `ScriptEventHandler` (list in effect + pending list) -/
  hs : Option HandlerState := none
  /-- monitor's own bookkeeping: the specs given LAST (by `hconf` or `hupdate`), per script id -/
  lastSpecs : List (Nat × List (Filter × Bytes)) := []
  /-- monitor's own bookkeeping: what `SelfFunc` answered at earlier `hfire`s of this case -/
  prevSelves : List (Bytes × Tags) := []
  deriving Inhabited

/-- `_` or `id:filterhex,…` (`!` = a spec without `=`); the script of id `i` is the text `i` -/
def parseIdSpecs (sp : String) : Option (List (Nat × List (Filter × Bytes))) :=
  if sp == "_" then some [] else
  (sp.splitOn ",").mapM fun item => match item.splitOn ":" with
    | [i, f] => match i.toNat? with
      | some id =>
        let script := b (toString id)
        if f == "!" then some (id, parseEventScript script)
        else (bytesOfHex? f).map fun fb => (id, parseEventScript (fb ++ EQ :: script))
      | none => none
    | _ => none

def sameTagSet (a c : Tags) : Bool := a.all c.contains && c.all a.contains

def ranOf (ran : List (Nat × Nat)) (id : Nat) : Nat := ((ran.find? (·.1 == id)).map (·.2)).getD 0

def showRan (ran : List (Nat × Nat)) : String :=
  let r := ran.filter (·.2 > 0)
  if r.isEmpty then "-" else ",".intercalate (r.map fun p => s!"{p.1}:{p.2}")

def parseRan (sr : String) : Option (List (Nat × Nat)) :=
  if sr == "-" then some [] else
  (sr.splitOn ",").mapM fun item => match item.splitOn ":" with
    | [i, c] => match i.toNat?, c.toNat? with
      | some a, some n => some (a, n)
      | _, _ => none
    | _ => none

/-- Monitor for `parse`, stated on the implementation's entries without the model's parser:
nothing of the specification may be lost.  Re-rendering the entries (`event`, or `event:name`
for a non-empty name) and joining them with commas gives back the filter text before the first
`=` (`*` for none); an entry may differ from its item only by an empty name after `user:` /
`query:`.  Every entry carries the text after the first `=` (the whole text without `=`) as script. -/
def parseMonitor (v : Bytes) (impl : String) : Option (String × String) :=
  let (filt, script) := match cutEq v with
    | some (f, s) => (f, s)
    | none => ([], v)
  let items := splitOn COMMA (if filt.isEmpty then starB else filt)
  let ents : Option (List (Bytes × Bytes × Bytes)) := (impl.splitOn ";").mapM fun e =>
    match e.splitOn "/" with
    | [a, n, sc] => match bytesOfHex? a, bytesOfHex? n, bytesOfHex? sc with
      | some ab, some nb, some sb => some (ab, nb, sb)
      | _, _, _ => none
    | _ => none
  match ents with
  | none => some ("malformed", impl)
  | some es =>
    if es.length != items.length then
      some ("parse-roundtrip", s!"{es.length} entries for {items.length} comma-separated filter items")
    else if es.any (fun e => e.2.2 != script) then
      some ("parse-roundtrip", "an entry's script is not the text after the first '='")
    else
      let bad := (es.zip items).find? fun (e, item) =>
        let (ev, nm, _) := e
        !(if nm.isEmpty then (item == ev || item == ev ++ [COLON]) else item == ev ++ COLON :: nm)
      match bad with
      | some (e, item) => some ("parse-roundtrip",
          s!"filter item {hx item} parsed as event {hx e.1} name {hx e.2.1}: part of the item was lost")
      | none => none

def step (s : St) (op : List String) (impl : String) : LineOut St :=
  match op with
  | ["parse", spec] =>
    match bytesOfHex? spec with
    | none => { state := s, model := some "bad-op" }
    | some v =>
      let out := ";".intercalate ((parseEventScript v).map fun p => s!"{hx p.1.event}/{hx p.1.name}/{hx p.2}")
      { state := s, model := some out, monitor := parseMonitor v impl }
  | ["invoke", ev, name, e] =>
    match bytesOfHex? ev, bytesOfHex? name, parseEvent e 0 with
    | some evb, some nb, some event =>
      let f : Filter := ⟨evb, nb⟩
      let mon := if impl == toString (matchesDoc f event) then none
        else some ("filter-match", s!"Invoke returned {impl}, the documented matching says {matchesDoc f event}")
      { state := s, model := some (toString (invoke f event)), monitor := mon }
    | _, _, _ => { state := s, model := some "bad-op" }
  | ["run", specs, self, selftags, e, outlen, seed, exit, lim] =>
    -- implementation output fields
    let fs := impl.splitOn " "
    let get (pre : String) : Option String := fs.findSome? (field? pre)
    let (qlt, qid, qfrom) : Nat × Nat × Bytes := match (get "q=").map (·.splitOn ":") with
      | some [a, c, d] => (a.toNat?.getD 0, c.toNat?.getD 0, (bytesOfHex? d).getD [])
      | _ => (0, 0, [])
    match (specs.splitOn ",").mapM specEntries, bytesOfHex? self, parseTags selftags, parseEvent e qlt,
          outlen.toNat?, seed.toNat?, exit.toNat?, lim.toNat? with
    | some entries, some selfName, some selfTags, some event, some olen, some sd, some ex, some limit =>
      let env := envOf selfName selfTags sanName event
      let nul := hasNul env
      -- os/exec refuses an environment entry containing a NUL byte: no script starts
      let counts := entries.map fun es => (startedOf es env event).length
      let ran := counts.any (· > 0)
      let implStdin : Bytes := ((get "stdin=").bind bytesOfHex?).getD []
      let stdin := match event with
        | .member _ ms => memberStdinLike ms implStdin
        | _ => stdinOf event
      let out := pattern olen sd
      let isQ := match event with | .query .. => true | _ => false
      -- the response is decided by the last script that ran: all scripts print the same output
      let resp := if ran then respond limit isQ (ex == 0) out qlt qid qfrom.length else .none
      let qs := if isQ then s!"{qlt}:{qid}:{hx qfrom}" else "-"
      let model := s!"runs={",".intercalate (counts.map toString)} env={if ran then showEnv env ((get "env=").bind bytesOfHex?) else "-"} stdin={if ran then hx stdin else "-"} resp={showResp resp} q={qs}"
      -- monitor, on the implementation's fields
      let implRuns := (get "runs=").map (·.splitOn ",")
      let wantRuns := entries.map fun es => toString ((es.filter fun p => matchesDoc p.1 event).length)
      let mon : Option (String × String) :=
        if implRuns != some wantRuns then
          (if nul then some ("nul-in-env", s!"the environment would contain a NUL byte: no handler ran (runs {get "runs="}, documented {wantRuns})")
           else some ("runs-wrong", s!"scripts ran {get "runs="} times, documented matching gives {wantRuns}"))
        else if !(wantRuns.any (· != "0")) then none
        else
          let stdinBad : Option String := match event with
            | .member _ ms =>
              let (ls, tail) := linesNL implStdin
              if !tail.isEmpty then some "input does not end with a newline"
              else if ls.length != ms.length then some s!"{ls.length} lines for {ms.length} members"
              else if ls.any (fun l => (splitOn TAB l).length != 4) then some "a member line does not have exactly four tab-separated fields"
              else none
            | .user _ _ p | .query _ _ p =>
              if p.isEmpty then (if implStdin.isEmpty then none else some "input for an empty payload")
              else if implStdin.getLast? != some NL then some "input does not end with a newline"
              else if implStdin != (if p.getLast? == some NL then p else p ++ [NL]) then
                some "input is not the payload with a newline appended exactly when it lacks one"
              else none
          match stdinBad with
          | some m => some ("stdin-format", m)
          | none =>
            let envB := ((get "env=").bind bytesOfHex?).getD []
            let names := (splitOn 0 envB).map fun kv => (splitOn EQ kv).head?.getD []
            let simple (k : Bytes) : Bool := k.all fun c => (97 ≤ c && c ≤ 122) || (65 ≤ c && c ≤ 90) || (48 ≤ c && c ≤ 57) || c == 95
            let upper (k : Bytes) : Bytes := k.map fun c => if 97 ≤ c && c ≤ 122 then c - 32 else c
            let entriesB := splitOn 0 envB
            let tagVars := (names.filter fun n => (b "SERF_TAG_").isPrefixOf n).length
            if names.any (fun n => !okName n) then
              some ("env-name", "a SERF_* variable name has a character outside [A-Z0-9_]")
            else if tagVars != ((selfTags.map fun p => sanName p.1).eraseDups).length then
              some ("env-tag", s!"{tagVars} SERF_TAG_ variables for {((selfTags.map fun p => sanName p.1).eraseDups).length} distinct sanitised tag names")
            else if (selfTags.map fun p => sanName p.1).eraseDups.length == selfTags.length && selfTags.any (fun p => simple p.1 && !p.2.contains 0 &&
                !entriesB.contains (b "SERF_TAG_" ++ upper p.1 ++ EQ :: p.2)) then
              some ("env-tag", "a tag with a plain ASCII name is not visible as SERF_TAG_<UPPER-CASED NAME>=<value>")
            else if (!entriesB.contains (b "SERF_EVENT=" ++ event.kind.str) || !entriesB.contains (b "SERF_SELF_NAME=" ++ selfName)) then
              some ("env-fixed", "SERF_EVENT / SERF_SELF_NAME missing or wrong")
            else match get "resp=" with
              | some "none" => none
              | some "toolarge" => if isQ then none else some ("resp-unexpected", "response attempted for a non-query")
              | some h =>
                match bytesOfHex? h with
                | some p =>
                  if !isQ || ex != 0 || out.isEmpty then some ("resp-unexpected", "response sent although not a successful query run with output")
                  else if p.length != min out.length 8192 || !(p.isSuffixOf out) then some ("resp-not-last-8k", "the response is not the last 8192 bytes of the output (the whole output when shorter)")
                  else none
                | none => some ("malformed", impl)
              | none => some ("malformed", impl)
      { state := s, model := some model, monitor := mon }
    | _, _, _, _, _, _, _, _ => { state := s, model := some "bad-op" }
  | ["hconf", sp] =>
    match parseIdSpecs sp with
    | some specs => { state := { s with hs := some ⟨specs.flatMap (·.2), none⟩, lastSpecs := specs }, model := some "ok" }
    | none => { state := s, model := some "bad-op" }
  | ["hupdate", sp] =>
    match s.hs, parseIdSpecs sp with
    | some h, some specs => { state := { s with hs := some (updateScripts h (specs.flatMap (·.2))), lastSpecs := specs }, model := some "ok" }
    | _, _ => { state := s, model := some "bad-op" }
  | ["hfire", self, selftags, e] =>
    match s.hs, bytesOfHex? self, parseTags selftags, parseEvent e 0 with
    | some h, some selfName, some selfTags, some event =>
      let env := envOf selfName selfTags sanName event
      let (h', started) := handleEvent h env event
      let ids := (started.filterMap fun sc => (stringOfBytes sc).toNat?)
      let count (l : List Nat) : List (Nat × Nat) :=
        (l.eraseDups.map fun i => (i, l.count i))
      let sortIds (l : List (Nat × Nat)) : List (Nat × Nat) :=
        l.foldr (fun x acc => (acc.filter (·.1 < x.1)) ++ x :: (acc.filter (fun y => !(y.1 < x.1)))) []
      -- the scripts' environment: a function of what SelfFunc answers NOW
      let implEnv : Option Bytes := ((impl.splitOn " ").findSome? (field? "env=")).bind bytesOfHex?
      let model := "ran=" ++ showRan (sortIds (count ids)) ++ " env=" ++ (if started.isEmpty then "-" else showEnv env implEnv)
      let envMon : Option (String × String) :=
        match implEnv with
        | none => none
        | some ib =>
          if ib.isEmpty then none else
          let entries := splitOn 0 ib
          let role := lookupB selfTags roleB
          let wantFixed := [b "SERF_SELF_NAME=" ++ selfName, b "SERF_SELF_ROLE=" ++ role]
          let simple (k : Bytes) : Bool := !k.isEmpty && k.all fun c => (97 ≤ c && c ≤ 122) || (65 ≤ c && c ≤ 90) || (48 ≤ c && c ≤ 57) || c == 95
          let upper (k : Bytes) : Bytes := k.map fun c => if 97 ≤ c && c ≤ 122 then c - 32 else c
          let distinct := ((selfTags.map fun p => sanName p.1).eraseDups).length == selfTags.length
          let wantTags := if distinct then (selfTags.filter fun p => simple p.1 && !p.2.contains 0).map fun p => b "SERF_TAG_" ++ upper p.1 ++ EQ :: p.2 else []
          let tagVars := (entries.filter fun en => (b "SERF_TAG_").isPrefixOf en).length
          let bad := (wantFixed ++ wantTags).find? fun w => !entries.contains w
          let badCount := tagVars != ((selfTags.map fun p => sanName p.1).eraseDups).length
          if bad.isNone && !badCount then none else
          -- explained by an EARLIER answer of SelfFunc?
          let stale := s.prevSelves.any fun ps =>
            entries.contains (b "SERF_SELF_NAME=" ++ ps.1) && entries.contains (b "SERF_SELF_ROLE=" ++ lookupB ps.2 roleB) &&
            ((ps.2.filter fun p => simple p.1 && !p.2.contains 0).all fun p => entries.contains (b "SERF_TAG_" ++ upper p.1 ++ EQ :: p.2)) &&
            (ps.1 != selfName || !(sameTagSet ps.2 selfTags))
          if stale then some ("env-self-stale", s!"the script ran with the name/role/tags SelfFunc reported at an EARLIER event, not the current ones (name {hx selfName}, role {hx role}, {selfTags.length} tags)")
          else some ("env-self", s!"the script's SERF_SELF_* / SERF_TAG_* variables do not match SelfFunc's current answer (name {hx selfName}, role {hx role}, {selfTags.length} tags)")
      -- monitor: only ids of the specs given last may run, each as often as its entries match
      let mon : Option (String × String) := match ((impl.splitOn " ").findSome? (field? "ran=")).bind parseRan with
        | none => some ("malformed", impl)
        | some ran =>
          match ran.find? (fun p => p.2 > 0 && !(s.lastSpecs.any (·.1 == p.1))) with
          | some p => some ("unconfigured-handler-ran", s!"script {p.1} ran {p.2} time(s) although the handler list given last does not contain it")
          | none =>
            if hasNul env then (if ran.all (·.2 == 0) then some ("nul-in-env", "the environment would contain a NUL byte: no handler ran") else none)
            else match s.lastSpecs.find? (fun sp => ranOf ran sp.1 != (sp.2.filter fun en => matchesDoc en.1 event).length) with
              | some sp => some ("runs-wrong", s!"script {sp.1} ran {ranOf ran sp.1} time(s), the handler list given last has {(sp.2.filter fun en => matchesDoc en.1 event).length} matching entries")
              | none => none
      let mon := match mon with
        | some m => some m
        | none => envMon
      { state := { s with hs := some h', prevSelves := (selfName, selfTags) :: s.prevSelves }, model := some model, monitor := mon }
    | _, _, _, _ => { state := s, model := some "bad-op" }
  | _ => { state := s, model := some "bad-op" }

def checker : Checker := { σ := St, init := {}, step := step }

end SerfModel.Check.C27
