import SerfModel.Check.Core
import SerfModel.Model.ClockUse
import SerfModel.Gen.ClockUse
/-!
C06 checker.  The model keeps the node's event and query clocks (both start at 1:
`Create` increments once) and runs an originate call through the program denoted by
the *extracted* clock usage, followed by the local `handleUserEvent`/`handleQuery`
witness of the message's own time; incoming messages are witnessed.
The monitor judges the implementation's concurrent observations: all originated
times distinct, each caller's times strictly increasing, each time above the
largest incoming time whose processing had completed when the call began.
-/
namespace SerfModel.Check.C06
open SerfModel SerfModel.Check SerfModel.Atomic SerfModel.ClockUse

structure St where
  ev : W := 1#64
  q : W := 1#64
  /-- largest user-event / query time that went through the node (what the snapshot records) -/
  lastE : W := 0#64
  lastQ : W := 0#64
  /-- monitor (implementation outputs only): largest time originated or processed so far -/
  seenE : Nat := 0
  seenQ : Nat := 0
  deriving Inhabited

def maxW (a b : W) : W := if a < b then b else a

/-- a locally originated message must carry a time above everything originated or processed before -/
def monOriginate (seen : Nat) (impl : String) (what : String) : Option (String × String) :=
  match impl.toNat? with
  | some t => if t ≤ seen && seen > 0 then
      some ("not-later-than-processed", s!"an originated {what} got time {t}, not above {seen} already originated or processed (also across a restart)")
    else none
  | none =>
    if impl == "none" then some ("undelivered", s!"an originated {what} was accepted but not delivered locally (its time was not above the node's own cut-off)")
    else none

def originate (u : ClockUse) (c : W) : W × W :=
  let (c1, r) := runSeq (progs u) c .increment
  let lt := ltimeOf u (r.getD 0#64)
  -- local processing witnesses the message's own time
  let (c2, _) := runSeq (progs u) c1 (.witness lt)
  (c2, lt)

structure Obs where
  tid : Nat
  i : Nat
  lt : Option Nat
  floor : Nat
  deriving Inhabited

def parseObs (s : String) : Option Obs :=
  match s.splitOn ":" with
  | [ti, lt, fl] =>
    match ti.splitOn "." with
    | [t, i] => match t.toNat?, i.toNat?, fl.toNat? with
      | some t, some i, some fl => some ⟨t, i, lt.toNat?, fl⟩
      | _, _, _ => none
    | _ => none
  | _ => none

def monitorConc (obs : List Obs) : Option (String × String) :=
  match obs.find? (·.lt.isNone) with
  | some o => some ("undelivered", s!"call {o.tid}.{o.i} succeeded but its message was not delivered locally")
  | none =>
    let ts := obs.filterMap (·.lt)
    if ts.eraseDups.length != ts.length then
      some ("shared-ltime", s!"{ts.length - ts.eraseDups.length} originated messages share a Lamport time with another one")
    else
      match obs.find? (fun o => !(o.floor < o.lt.getD 0)) with
      | some o => some ("not-later-than-processed", s!"call {o.tid}.{o.i} got time {o.lt.getD 0}, not above {o.floor} processed before it began")
      | none =>
        let bad := obs.find? fun o => obs.any fun p => p.tid == o.tid && p.i < o.i && !(p.lt.getD 0 < o.lt.getD 0)
        match bad with
        | some o => some ("caller-order", s!"call {o.tid}.{o.i} got a time not above an earlier call of the same caller")
        | none => none

def step (s : St) (op : List String) (impl : String) : LineOut St :=
  match op with
  | ["ue", _] =>
    let (c, lt) := originate SerfModel.Gen.ClockUse.userEvent s.ev
    { state := { s with ev := c, lastE := maxW s.lastE lt, seenE := max s.seenE (impl.toNat?.getD 0) },
      model := some (toString lt.toNat), monitor := monOriginate s.seenE impl "user event" }
  | ["q", _] =>
    let (c, lt) := originate SerfModel.Gen.ClockUse.query s.q
    { state := { s with q := c, lastQ := maxW s.lastQ lt, seenQ := max s.seenQ (impl.toNat?.getD 0) },
      model := some (toString lt.toNat), monitor := monOriginate s.seenQ impl "query" }
  | ["inue", v] =>
    match v.toNat? with
    | some n => { state := { s with ev := (runSeq (progs SerfModel.Gen.ClockUse.userEvent) s.ev (.witness (BitVec.ofNat 64 n))).1,
                                    lastE := maxW s.lastE (BitVec.ofNat 64 n), seenE := max s.seenE n }, model := some "ok" }
    | none => { state := s, model := some "bad-op" }
  | ["inq", v] =>
    match v.toNat? with
    | some n => { state := { s with q := (runSeq (progs SerfModel.Gen.ClockUse.query) s.q (.witness (BitVec.ofNat 64 n))).1,
                                    lastQ := maxW s.lastQ (BitVec.ofNat 64 n), seenQ := max s.seenQ n }, model := some "ok" }
    | none => { state := s, model := some "bad-op" }
  | ["restart"] =>
    -- Shutdown and Create on the same snapshot: the clocks start at 1 and witness the recorded times
    { state := { s with ev := (runSeq (progs SerfModel.Gen.ClockUse.userEvent) 1#64 (.witness s.lastE)).1,
                        q := (runSeq (progs SerfModel.Gen.ClockUse.query) 1#64 (.witness s.lastQ)).1 }, model := some "ok" }
  | "conc" :: _ =>
    if impl.startsWith "obs " then
      let body := String.ofList (impl.toList.drop 4)
      match ((body.splitOn ",").filter (· ≠ "")).mapM parseObs with
      | some obs => { state := s, model := none, monitor := monitorConc obs }
      | none => { state := s, model := none, monitor := some ("malformed", "unparsable concurrent observations") }
    else { state := s, model := some "obs …" }
  | _ => { state := s, model := some "bad-op" }

def checker : Checker := { σ := St, init := {}, step := step }

end SerfModel.Check.C06
