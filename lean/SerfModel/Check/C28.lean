import SerfModel.Check.Core
/-!
C28 checker.  `race <kind> <stop|close> <iters> <seed> => closed k/n`: the implementation ran
n subscribe / Stop-or-Close races against a flooding server.  Expected (and the model's
output): every one of the n subscriber channels ended up closed, i.e. `closed n/n`; a panic
(send on closed channel, double close) kills the child process and is reported by the driver
as `PANIC`.  The interleaving model itself is exercised by the theorems (`SerfProofs.C28`) and
by the regenerated handler shapes; this checker judges the real client's observable outcome.
-/
namespace SerfModel.Check.C28
open SerfModel SerfModel.Check

def step (s : Unit) (op : List String) (impl : String) : LineOut Unit :=
  match op with
  | ["race", _kind, _end, iters, _seed] =>
    let expect := s!"closed {iters}/{iters}"
    let m := if impl.startsWith "closed " && impl != expect then
        some ("channel-not-closed", s!"not every subscriber channel was closed after Stop/Close: {impl}")
      else none
    { state := s, model := some expect, monitor := m }
  | _ => { state := s, model := some "bad-op" }

def checker : Checker := { σ := Unit, init := (), step := step }

end SerfModel.Check.C28
