import SerfModel.Check.Core
import SerfModel.Model.Lifecycle
import SerfModel.Gen.Lifecycle
/-!
C34 checker.  Sequential ops on one real node: `leave` `shutdown` `join` → `ok`/`err`
(`join`: `refused` when the lifecycle error is returned, else `attempted`), `state` → state name.
`conc <calls…> => obs <state samples>|<call:result,…>`: free-running concurrent calls with a
polling observer (monitored only).
-/
namespace SerfModel.Check.C34
open SerfModel SerfModel.Check SerfModel.Lifecycle

def P := SerfModel.Gen.Lifecycle.progs

structure St' where
  st : St := .alive
  /-- monitor: last state the implementation reported; a leave/shutdown has returned ok -/
  lastSeen : Nat := 0
  leaveDone : Bool := false
  shutdownDone : Bool := false
  begun : Bool := false
  deriving Inhabited

def rankOf? : String → Option Nat
  | "alive" => some 0 | "leaving" => some 1 | "left" => some 2 | "shutdown" => some 3 | _ => none

def showRes : Res → String | .ok => "ok" | .err => "err"

def monState (s : St') (impl : String) : St' × Option (String × String) :=
  match rankOf? impl with
  | none => (s, some ("malformed", impl))
  | some r =>
    if r < s.lastSeen then (s, some ("state-backwards", s!"state went from rank {s.lastSeen} back to {impl}"))
    else ({ s with lastSeen := r }, none)

def step (s : St') (op : List String) (impl : String) : LineOut St' :=
  match op with
  | ["state"] =>
    let (s', m) := monState s impl
    { state := s', model := some s.st.toString, monitor := m }
  | ["leave"] =>
    let (st, r) := callSeq P s.st .leave
    let m := if s.leaveDone && !s.shutdownDone && impl != "ok" then some ("leave-after-left", "a leave after a completed leave did not succeed") else none
    { state := { s with st := st, leaveDone := s.leaveDone || impl == "ok", begun := true }, model := some (showRes r), monitor := m }
  | ["shutdown"] =>
    let (st, r) := callSeq P s.st .shutdown
    let m := if s.shutdownDone && impl != "ok" then some ("shutdown-repeat", "a repeated shutdown did not succeed") else none
    { state := { s with st := st, shutdownDone := true, begun := true }, model := some (showRes r), monitor := m }
  | ["join"] =>
    let (st, r) := callSeq P s.st .join
    let m := if s.begun && impl != "refused" then some ("join-not-refused", "a join after a leave or shutdown had begun was not refused") else none
    { state := { s with st := st }, model := some (match r with | .ok => "attempted" | .err => "refused"), monitor := m }
  | ["joinduringleave"] =>
    -- a Join attempted while a Leave is in progress (state `leaving`): model = Leave's first region, then Join's
    let (st1, _) := execRegion (P.leave.headD []) .alive
    let (_, r) := callSeq P st1 .join
    let expect := (match r with | .ok => "attempted" | .err => "refused") ++ " left"
    let m := if impl.startsWith "attempted" then some ("join-not-refused", "a join issued while a leave was in progress was not refused")
             else if impl == "leaving-not-observed" || impl == "node-error" then none else none
    if impl == "leaving-not-observed" || impl == "node-error" then { state := s, model := none, note := some "setup-failed" }
    else { state := s, model := some expect, monitor := m }
  | ["leaveduringjoin"] =>
    -- leave:R,join:R <state>: a Leave called while an earlier Join is in flight, then a second Join
    if impl == "node-error" then { state := s, model := none, note := some "setup-failed" } else
    let (st, r) := callSeq P .alive .leave
    let (_, rj) := callSeq P st .join
    let expect := s!"leave:{showRes r},join:{match rj with | .ok => "attempted" | .err => "refused"} {st.toString}"
    let m := if (impl.splitOn "join:attempted").length > 1 then
        some ("join-not-refused", "a join called after a leave had begun (while an earlier join was still in flight) was not refused")
      else if (impl.splitOn "panic-").length > 1 then some ("panic", impl) else none
    { state := s, model := some expect, monitor := m }
  | ["leavestall"] =>
    -- obs s0,s1,…|leave:R,join:R with the leave's broadcasts timing out: states forward only, the join refused
    if impl == "node-error" then { state := s, model := none, note := some "setup-failed" } else
    match (String.ofList (impl.toList.drop 4)).splitOn "|" with
    | [samples, results] =>
      if !impl.startsWith "obs " then { state := s, model := some "obs …" } else
      let rs := (samples.splitOn ",").filter (· ≠ "")
      let m := rs.foldl (fun (acc : Nat × Option (String × String)) x =>
        match acc.2, rankOf? x with
        | some e, _ => (acc.1, some e)
        | none, none => (acc.1, some ("malformed", x))
        | none, some r => if r < acc.1 then (acc.1, some ("state-backwards", s!"observer saw rank {acc.1} then {x} around a Leave whose broadcast timed out")) else (r, none)) (0, none)
      let m2 := match m.2 with
        | some e => some e
        | none =>
          if (results.splitOn ",").any (fun r => (r.splitOn ":panic-").length > 1) then some ("panic", results)
          else if !(results.splitOn ",").contains "join:refused" then
            some ("join-not-refused", "a join after a leave had begun (its broadcast timed out) was not refused")
          else none
      -- model: Leave's regions run to the end whatever the broadcasts do (`C34_regions_forward`), Join is refused
      let (st, r) := callSeq P .alive .leave
      let (_, rj) := callSeq P st .join
      let expect := s!"leave:{showRes r},join:{match rj with | .ok => "attempted" | .err => "refused"}"
      { state := s, model := some ("obs " ++ samples ++ "|" ++ expect), monitor := m2 }
    | _ => { state := s, model := some "obs …" }
  | "conc" :: _ =>
    -- obs s0,s1,…|leave:ok,join:refused,…   (state samples in observation order)
    match (String.ofList (impl.toList.drop 4)).splitOn "|" with
    | [samples, results] =>
      if !impl.startsWith "obs " then { state := s, model := some "obs …" } else
      -- a call that panicked: the recorded finding (Leave racing Shutdown) or anything else
      if (results.splitOn ",").any (fun r => r.startsWith "leave:panic-leave-after-shutdown") then
        { state := s, model := none, monitor := some ("leave-shutdown-panic", "Leave() panicked inside memberlist (\"leave after shutdown\") because Shutdown() ran concurrently") }
      else if (results.splitOn ",").any (fun r => (r.splitOn ":panic-").length > 1) then
        { state := s, model := none, monitor := some ("panic", results) }
      else
      let rs := (samples.splitOn ",").filter (· ≠ "")
      let m := rs.foldl (fun (acc : Nat × Option (String × String)) x =>
        match acc.2, rankOf? x with
        | some e, _ => (acc.1, some e)
        | none, none => (acc.1, some ("malformed", x))
        | none, some r => if r < acc.1 then (acc.1, some ("state-backwards", s!"observer saw rank {acc.1} then {x}")) else (r, none)) (0, none)
      { state := s, model := none, monitor := m.2 }
    | _ => { state := s, model := some "obs …" }
  | _ => { state := s, model := some "bad-op" }

def checker : Checker := { σ := St', init := {}, step := step }

end SerfModel.Check.C34
