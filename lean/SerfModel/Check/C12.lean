import SerfModel.Check.C11
import SerfModel.Model.SnapshotFault
/-!
C12 checker (op language: harness/c12.go; one file operation of the life fails).
Model: `SerfModel.SnapshotFault`.  Per op the model's state, the operations it issued
and which one failed are compared with the implementation's.

MONITOR: (1) the implementation must not panic — key `fault-panic-nil-handles` when
the operation that failed (as the IMPLEMENTATION logged it) was compact()'s remove,
rename or reopen of the snapshot file, `fault-panic` otherwise; (2) if file operations
were performed by later ops after the fault, the state the real NewSnapshotter recovers
after shutdown must be the state the event inputs produce (`fault-not-resumed`).
-/
namespace SerfModel.Check.C12
open SerfModel SerfModel.Check SerfModel.Snapshot SerfModel.SnapshotFault SerfModel.Check.SnapCheck

structure St where
  m : Option FSnap := none
  async : Bool := false
  closed : Bool := false
  pendingFault : Option Nat := none
  rj : Bool := false
  -- monitor
  sp : SnapCheck.St := {}
  implFailed : Option String := none
  workAfterFault : Bool := false
  panicked : Bool := false
  deriving Inhabited

def showLog (l : List (FsOp × Bool)) : String :=
  if l.isEmpty then "-" else ",".intercalate (l.map fun p => (if p.2 then "" else "!") ++ C11.showOp p.1)

def mfs (st : FSnap) : FS := FS.applyAll {} st.done

def showF (st : FSnap) : String :=
  let fs := mfs st
  let buf := if st.writer then toString st.s.buf.length else "-1"
  s!"{showMem st.s.alive st.s.lastClock st.s.lastEventClock st.s.lastQueryClock} leaving={b01 st.s.leaving} off={st.s.offset} disk={diskLen fs} buf={buf}"

def badImplOp (s : String) : Bool := s == "rm:m" || s == "rn:t:m" || s == "oa:m"

/-- monitor bookkeeping from the implementation's `ops=` field -/
def noteOps (st : St) (implOps : String) : St :=
  let items := if implOps == "-" || implOps == "?" then [] else implOps.splitOn ","
  let failedHere := items.find? (·.startsWith "!")
  let performed := items.any fun i => !i.startsWith "!" && (i.startsWith "w:")
  match st.implFailed, failedHere with
  | none, some f => { st with implFailed := some (String.ofList (f.toList.drop 1)) }
  | some _, _ => if performed then { st with workAfterFault := true } else st
  | none, none => st

def panicVerdict (st : St) (modelFailed : Option String) : Option (String × String) :=
  -- which operation failed: as the implementation logged it; when the process died before it could
  -- report the op (real goroutines), the operation the fault index denotes in the model's log
  match st.implFailed.orElse (fun _ => modelFailed) with
  | some f =>
    if badImplOp f then some ("fault-panic-nil-handles",
      s!"the snapshotter panicked after the operation {f} of a compaction failed (s.buffered and s.fh are nil afterwards)")
    else some ("fault-panic", s!"the snapshotter panicked after the operation {f} failed")
  | none => some ("fault-panic", "the snapshotter panicked although no operation had failed")

def runF (st : St) (f : FSnap → FSnap) (specEvent : Option Ev) (impl : String) : LineOut St :=
  match st.m with
  | none => { state := st, model := some "bad-op" }
  | some m =>
    if st.closed then { state := st, model := some "bad-op" } else
    if m.panicked then
      { state := st, model := some (if st.async then "PANIC process-died" else "dead"),
        monitor := if impl.startsWith "PANIC" then panicVerdict st (m.failed.map C11.showOp) else none }
    else
      let before := m.log.length
      let m' := f m
      let ops := showLog (m'.log.drop before)
      let (implState, implOps) := C11.splitOps impl
      let sp' := match specEvent with
        | some e => specEv st.sp e
        | none => st.sp
      -- an event after the fault changed what the node knows: from then on recording must have resumed
      let changed := st.implFailed.isSome && showSpec sp'.spec != showSpec st.sp.spec
      let st1 := noteOps { st with m := some m', sp := sp', workAfterFault := st.workAfterFault || changed } implOps
      let implPanic := impl.startsWith "PANIC"
      let st2 := { st1 with panicked := st1.panicked || implPanic }
      let mon := if implPanic && !st.panicked then panicVerdict st2 (m'.failed.map C11.showOp)
        else if st.async || implPanic then none
        else judgeMem { pid := "C12", judgeNoLeave := true, judgeLeave := true } { sp' with async := false } implState
      let model :=
        if m'.panicked then (if st.async then "PANIC process-died" else "PANIC ops=" ++ ops)
        else if st.async then "ok ops=" ++ ops
        else showF m' ++ " ops=" ++ ops
      { state := st2, model := some model, monitor := mon }

def step (st : St) (op : List String) (impl : String) : LineOut St :=
  let bad : LineOut St := { state := st, model := some "bad-op" }
  match op with
  | ["fault", k] =>
    match k.toInt? with
    | some k => { state := { st with pendingFault := if k < 0 then none else some k.toNat }, model := some "ok" }
    | none => bad
  | ["new", mode, rj, mc] =>
    match parseBool rj, mc.toNat?, (if mode == "sync" then some false else if mode == "async" then some true else none) with
    | some rj, some mc, some async =>
      let m := fInit rj mc st.pendingFault
      let sp : SnapCheck.St := { rjWriter := rj }
      let st' : St := { m := some m, async := async, closed := false, pendingFault := st.pendingFault, rj := rj, sp := sp }
      let model := if async then "ok ops=oa:m" else showF m ++ " ops=oa:m"
      { state := st', model := some model }
    | _, _, _ => bad
  | "join" :: clk :: ms =>
    match clk.toNat?, ms.mapM parseMember with
    | some clk, some ms => runF st (fun m => fStep m (.ev (.join ms clk))) (some (.join ms clk)) impl
    | _, _ => bad
  | "gone" :: kind :: clk :: ns =>
    if kind != "leave" && kind != "failed" then bad else
    match clk.toNat?, ns.mapM charsOfHex? with
    | some clk, some ns => runF st (fun m => fStep m (.ev (.gone ns clk))) (some (.gone ns clk)) impl
    | _, _ => bad
  | ["memb", kind, clk] =>
    if kind != "update" && kind != "reap" then bad else
    match clk.toNat? with
    | some clk => runF st (fun m => fStep m (.ev (.memberOther clk))) (some (.memberOther clk)) impl
    | none => bad
  | ["user", lt] => match lt.toNat? with
    | some lt => runF st (fun m => fStep m (.ev (.user lt))) (some (.user lt)) impl
    | none => bad
  | ["query", lt] => match lt.toNat? with
    | some lt => runF st (fun m => fStep m (.ev (.query lt))) (some (.query lt)) impl
    | none => bad
  | ["leave"] => runF st (fun m => fStep m (.ev .leave)) (some .leave) impl
  | ["tick", clk] => if st.async then bad else match clk.toNat? with
    | some clk => runF st (fun m => fStep m (.ev (.clockTick clk))) (some (.clockTick clk)) impl
    | none => bad
  | ["time"] => if st.async then bad else runF st (fun m => fStep m (.ev .timePasses)) none impl
  | ["compact"] => if st.async then bad else runF st (fun m => fStep m (.ev .forceCompact)) none impl
  | ["rtime"] => if st.async then bad else runF st (fun m => fStep m .recoveryTimePasses) none impl
  | ["shutdown", clk] =>
    match clk.toNat? with
    | some clk =>
      let r := runF st (fun m => fShutdown m clk) (some (.clockTick clk)) impl
      let model := r.model.map fun s => if st.async && s.startsWith "ok ops=" then
          (match r.state.m with
           | some m' => showF m' ++ String.ofList (s.toList.drop 2)
           | none => s) else s
      { r with state := { r.state with closed := r.model != some "bad-op" }, model := model }
    | none => bad
  | ["reopen", rj, _mc] =>
    match st.m, parseBool rj with
    | some m, some rj =>
      if !st.closed then bad else
      if m.panicked then { state := st, model := some (if st.async then "PANIC process-died" else "dead"),
                           monitor := if impl.startsWith "PANIC" then panicVerdict st (m.failed.map C11.showOp) else none } else
      let rec' := recover rj (mfs m)
      let model := showMem rec'.alive rec'.clock rec'.eventClock rec'.queryClock
      let cfg : SnapCheck.Cfg := { pid := "C12", judgeNoLeave := true, judgeLeave := true }
      let verdict := judgeRestore cfg st.sp rj impl
      let mon := match st.implFailed with
        | none => verdict
        | some f => if st.workAfterFault then verdict.map fun v =>
            if f == "rn:t:m" then
              ("fault-rename-never-recovers", s!"after compact()'s rename failed the snapshot file is gone and every later compaction fails at remove (no such file); changes after the last attempt are lost: " ++ v.2)
            else ("fault-not-resumed", s!"after the operation {f} failed and later operations succeeded: " ++ v.2) else none
      { state := st, model := some model, monitor := if st.panicked then none else mon }
    | _, _ => bad
  | _ => bad

/-- After the first disagreement between model and implementation the model is no longer
compared (its state is unreliable) but the MONITOR keeps judging the implementation's
outputs, so that a broken implementation still yields a concrete failing input; the
disagreement itself is reported through the monitor channel (key `model-mismatch`). -/
def stepD (st : St × Bool) (op : List String) (impl : String) : LineOut (St × Bool) :=
  let r := step st.1 op impl
  if st.2 then { state := (r.state, true), model := none, monitor := r.monitor }
  else match r.model with
    | some m =>
      if m != impl then
        { state := (r.state, true), model := none,
          monitor := r.monitor.orElse fun _ => some ("model-mismatch",
            s!"model and implementation disagree: model [{(m.take 300).toString}] implementation [{(impl.take 300).toString}]") }
      else { state := (r.state, false), model := r.model, monitor := r.monitor }
    | none => { state := (r.state, false), model := none, monitor := r.monitor }

def checker : Checker := { σ := St × Bool, init := ({}, false), step := stepD }

end SerfModel.Check.C12
