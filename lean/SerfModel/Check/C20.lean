import SerfModel.Check.Core
import SerfModel.Model.Coord
/-!
C20 checker: the Vivaldi client and the ping delegate, `Float` instance, bit-for-bit.
Ops: see harness/c20.go.  The monitor re-states the property on the implementation's own outputs:
every accepted update returns a finite coordinate of the configured dimension with height ≥ HeightMin and
(while all accepted peers reported non-negative errors) error within [0, ErrorMax]; an observation is rejected
exactly when it is unacceptable (dimension, non-finite component, rtt outside [0, 10 s]) and then the client's
whole state dump is unchanged; the ping delegate caches the peer's coordinate iff the observation was accepted.
-/
namespace SerfModel.Check.C20
open SerfModel SerfModel.Check SerfModel.Coord FloatLike

abbrev C := Coordinate Float

def showFs (v : List Float) : String := if v.isEmpty then "-" else ",".intercalate (v.map showFloatBits)

def showCoord (c : C) : String :=
  s!"{showFs c.vec}/{showFloatBits c.error}/{showFloatBits c.adjustment}/{showFloatBits c.height}"

/-- outputs print every NaN as `nan` -/
def floatOfTok? (s : String) : Option Float :=
  if s == "nan" then some (Float.ofBits 0x7ff8000000000001) else floatOfHex? s

def parseFs (s : String) : Option (List Float) :=
  if s == "-" then some [] else (s.splitOn ",").mapM floatOfTok?

def parseCoord (s : String) : Option C :=
  match s.splitOn "/" with
  | [v, e, a, h] =>
    match parseFs v, floatOfTok? e, floatOfTok? a, floatOfTok? h with
    | some v, some e, some a, some h => some ⟨v, e, a, h⟩
    | _, _, _, _ => none
  | _ => none

def parseInt? (s : String) : Option Int :=
  match s.toList with
  | '-' :: r => (String.ofList r).toNat?.map fun n => -(n : Int)
  | _ => s.toNat?.map fun n => (n : Int)

def insertBy (lt : String → String → Bool) (x : String × List Float) : List (String × List Float) → List (String × List Float)
  | [] => [x]
  | y :: ys => if lt x.1 y.1 then x :: y :: ys else y :: insertBy lt x ys

def showState (cl : Client Float) : String :=
  let l := cl.latency.foldr (insertBy (fun a b => decide (a < b))) []
  let ls := if l.isEmpty then "-" else ";".intercalate (l.map fun (k, v) => s!"{hexOfString k}:{showFs v}")
  s!"c={showCoord cl.coord} i={cl.adjIndex} s={showFs cl.adjSamples} l={ls} r={cl.resets}"

def showReject : Reject → String
  | .dimension => "rej-dimension"
  | .invalid => "rej-invalid"
  | .rtt => "rej-rtt"

/-- coordinate.DefaultConfig (config.go:78), as bit patterns: 1.5, 0.25, 0.25, 10.0e-6, 150.0 -/
def defaultConfig : Config Float :=
  { dim := 8, errorMax := Float.ofBits 0x3ff8000000000000, ce := Float.ofBits 0x3fd0000000000000,
    cc := Float.ofBits 0x3fd0000000000000, adjWindow := 20, heightMin := Float.ofBits 0x3ee4f8b588e368f1,
    latencyFilterSize := 3, gravityRho := Float.ofBits 0x4062c00000000000 }

def showCfg (c : Config Float) : String :=
  s!"{c.dim} {hexOfNat c.errorMax.toBits.toNat} {hexOfNat c.ce.toBits.toNat} {hexOfNat c.cc.toBits.toNat} {c.adjWindow} {hexOfNat c.heightMin.toBits.toNat} {c.latencyFilterSize} {hexOfNat c.gravityRho.toBits.toNat}"

structure St where
  cfg : Config Float := defaultConfig
  node : Option (Node Float) := none
  isNode : Bool := false
  -- monitor bookkeeping, from the implementation's outputs only
  lastDump : String := ""
  lastDim : Nat := 0
  boundsOK : Bool := true
  lastSelf : String := "-"
  implCache : List (String × String) := []

/-- the state dump part of an implementation output: everything from the `c=` token on -/
def dumpOf (impl : String) : String :=
  " ".intercalate ((impl.splitOn " ").dropWhile (fun t => !t.startsWith "c="))

def field? (impl : String) (key : String) : Option String :=
  ((impl.splitOn " ").find? (·.startsWith (key ++ "="))).map fun t => String.ofList (t.toList.drop (key.length + 1))

def coordOfDump (impl : String) : Option C := (field? impl "c").bind parseCoord

def cfgOK (c : Config Float) : Bool :=
  c.dim > 0 && c.latencyFilterSize > 0 && finite c.errorMax && finite c.heightMin &&
  decide (0 ≤ c.errorMax) && decide (0 ≤ c.ce) && decide (c.ce ≤ 1)

/-- the monitor's own notion of an acceptable observation -/
def acceptable (dim : Nat) (c : C) (rtt : Int) : Bool :=
  c.vec.length == dim && c.vec.all (fun x => !x.isNaN && !x.isInf) &&
  !c.error.isNaN && !c.error.isInf && !c.adjustment.isNaN && !c.adjustment.isInf &&
  !c.height.isNaN && !c.height.isInf && decide (0 ≤ rtt) && decide (rtt ≤ 10000000000)

/-- invariant of the coordinate an accepted update returned -/
def judgeCoord (s : St) (boundsOK : Bool) (c : C) : Option (String × String) :=
  if !(c.vec.all (fun x => !x.isNaN && !x.isInf) && !c.error.isNaN && !c.error.isInf &&
       !c.adjustment.isNaN && !c.adjustment.isInf && !c.height.isNaN && !c.height.isInf) then
    some ("coord-not-finite", s!"the client's coordinate {showCoord c} has a non-finite component")
  else if c.vec.length != s.cfg.dim then
    some ("dim-changed", s!"the client's coordinate has {c.vec.length} dimensions, configured {s.cfg.dim}")
  else if cfgOK s.cfg && boundsOK && !(decide (s.cfg.heightMin ≤ c.height)) then
    some ("height-below-min", s!"height {c.height} (bits {showFloatBits c.height}) below HeightMin {s.cfg.heightMin} (bits {showFloatBits s.cfg.heightMin})")
  else if cfgOK s.cfg && boundsOK && !(decide (0 ≤ c.error) && decide (c.error ≤ s.cfg.errorMax)) then
    some ("error-out-of-range", s!"error {c.error} outside [0, {s.cfg.errorMax}] although all accepted peers reported non-negative errors")
  else none

def first (l : List (Option (String × String))) : Option (String × String) :=
  l.foldr (fun x acc => match x with | some v => some v | none => acc) none

/-- judge one observation (Update or ping) on the implementation's output -/
def judgeObs (s : St) (accepted : Bool) (acc : Bool) (other : C) (impl : String) : Option (String × String) × Bool :=
  let boundsOK := s.boundsOK && (!accepted || decide (0 ≤ other.error))
  let m :=
    if accepted && !acc then some ("accepted-unacceptable", "an observation with a wrong dimension, a non-finite component or an out-of-range rtt was accepted")
    else if !accepted && acc then some ("rejected-acceptable", "a well-formed observation was rejected")
    else if !accepted && dumpOf impl != s.lastDump then some ("reject-changed-state", s!"a rejected observation changed the client: before {s.lastDump} after {dumpOf impl}")
    else if accepted then
      match coordOfDump impl with
      | some c => judgeCoord s boundsOK c
      | none => some ("malformed", impl)
    else none
  (m, boundsOK)

def parseNat3 (a b c : String) : Option (Nat × Nat × Nat) :=
  match a.toNat?, b.toNat?, c.toNat? with
  | some a, some b, some c => some (a, b, c)
  | _, _, _ => none

def step (s : St) (op : List String) (impl : String) : LineOut St :=
  let bad : LineOut St := { state := s, model := some "bad-op" }
  match op with
  | ["new", dim, em, ce, cc, aw, hm, ls, rho] =>
    match parseNat3 dim aw ls, floatOfHex? em, floatOfHex? ce, floatOfHex? cc, floatOfHex? hm, floatOfHex? rho with
    | some (dim, aw, ls), some em, some ce, some cc, some hm, some rho =>
      let cfg : Config Float := { dim := dim, errorMax := em, ce := ce, cc := cc, adjWindow := aw, heightMin := hm,
                                  latencyFilterSize := ls, gravityRho := rho }
      match newNode cfg "" with
      | none => { state := { s with cfg := cfg, node := none }, model := some "err",
                  monitor := if impl != "err" && dim == 0 then some ("new-accepted-dim0", impl) else none }
      | some n =>
        { state := { s with cfg := cfg, node := some n, lastDump := dumpOf impl, lastDim := dim,
                            boundsOK := decide (0 ≤ em) && decide (hm ≤ hm) },
          model := some s!"ok {showState n.client}" }
    | _, _, _, _, _, _ => bad
  | ["node", name] =>
    match stringOfHex? name with
    | none => bad
    | some name =>
      match newNode defaultConfig name with
      | none => bad
      | some n =>
        { state := { s with cfg := defaultConfig, node := some n, isNode := true, lastDump := dumpOf impl, lastDim := 8,
                            lastSelf := showCoord n.client.coord },
          model := some s!"ok {showCfg defaultConfig} {showState n.client}" }
  | _ =>
  match s.node with
  | none => { state := s, model := some "no-client" }
  | some n =>
  match op with
  | ["upd", node, rtt, c, rnd] =>
    match stringOfHex? node, parseInt? rtt, parseCoord c, parseFs rnd with
    | some node, some rtt, some c, some rnd =>
      let (cl', r) := update s.cfg n.client node c rtt rnd
      let res := match r with | .ok => "ok" | .rejected x => showReject x | .panic => "panic"
      let implRes := (impl.splitOn " ").headD ""
      let (m, b) := judgeObs s (implRes == "ok") (acceptable s.lastDim c rtt) c impl
      let m := if implRes == "panic" then
                 (if s.cfg.latencyFilterSize == 0 then none else some ("panic", "Update panicked"))
               else m
      { state := { s with node := some { n with client := cl' }, lastDump := dumpOf impl, boundsOK := b },
        model := some s!"{res} {showState cl'}", monitor := m }
    | _, _, _, _ => bad
  | ["set", c] =>
    match parseCoord c with
    | none => bad
    | some c =>
      let (cl', r) := setCoordinate n.client c
      let res := match r with | none => "ok" | some x => showReject x
      let implOk := (impl.splitOn " ").headD "" == "ok"
      let acc := acceptable s.lastDim c 0
      let m :=
        if implOk && !acc then some ("set-accepted-unacceptable", "SetCoordinate accepted an incompatible or non-finite coordinate")
        else if !implOk && acc then some ("set-rejected-acceptable", "SetCoordinate rejected a compatible finite coordinate")
        else if !implOk && dumpOf impl != s.lastDump then some ("reject-changed-state", "a rejected SetCoordinate changed the client")
        else none
      -- an application-chosen coordinate may lie outside the bounds; from then on only finiteness and dimension are judged
      let b := s.boundsOK && (!implOk || (decide (0 ≤ c.error) && decide (c.error ≤ s.cfg.errorMax) && decide (s.cfg.heightMin ≤ c.height)))
      { state := { s with node := some { n with client := cl' }, lastDump := dumpOf impl, boundsOK := b },
        model := some s!"{res} {showState cl'}", monitor := m }
  | ["forget", node] =>
    match stringOfHex? node with
    | none => bad
    | some node =>
      let cl' := forgetNode n.client node
      { state := { s with node := some { n with client := cl' }, lastDump := dumpOf impl },
        model := some s!"ok {showState cl'}" }
  | ["dist", c] =>
    match parseCoord c with
    | none => bad
    | some c =>
      let out := match clientDistanceTo n.client c with
        | .ok ns => s!"ns {ns}"
        | .dimensionalityConflict => "panic-dim"
      let m := if c.vec.length != s.lastDim && impl != "panic-dim" then
                 some ("dim-mismatch-compared", s!"DistanceTo on a coordinate of another dimension answered {impl}")
               else if c.vec.length == s.lastDim && !impl.startsWith "ns " then
                 some ("dist-failed", s!"DistanceTo on a compatible coordinate answered {impl}")
               else none
      { state := s, model := some out, monitor := m }
  | ["ping", peer, rtt, kind, c, rnd] =>
    match stringOfHex? peer, parseInt? rtt, parseCoord c, parseFs rnd with
    | some peer, some rtt, some c, some rnd =>
      let payload? : Option (Payload Float) := match kind with
        | "empty" => some .empty | "badversion" => some .badVersion
        | "undecodable" => some .undecodable | "coord" => some (.coord c) | _ => none
      match payload? with
      | none => bad
      | some payload =>
        let (n', cached) := notifyPingComplete s.cfg n peer rtt payload rnd
        let showEntry (k : String) := match alookup n'.cache k with | some c => showCoord c | none => "-"
        let out := s!"cached={if cached then 1 else 0} peer={showEntry peer} self={showEntry n'.name} {showState n'.client}"
        let implCached := field? impl "cached" == some "1"
        let implPeer := (field? impl "peer").getD "?"
        let implSelf := (field? impl "self").getD "?"
        let acc := kind == "coord" && acceptable s.lastDim c rtt
        let prevPeer := if peer == n.name then s.lastSelf else (alookup s.implCache peer).getD "-"
        let (m0, b) := if kind == "coord" then judgeObs s implCached acc c impl else (none, s.boundsOK)
        let m := first [
          (if implCached != acc then some ("cache-iff-accepted", s!"peer coordinate cached={implCached} although the observation was {if acc then "acceptable" else "unacceptable"}") else none),
          (if implCached && peer != n.name && implPeer != showCoord c then some ("cache-wrong-coordinate", s!"cached {implPeer} for the peer, the payload carried {showCoord c}") else none),
          (if !implCached && implPeer != prevPeer then some ("cache-changed-on-reject", s!"cache entry of the peer changed from {prevPeer} to {implPeer} without an accepted observation") else none),
          (if !implCached && dumpOf impl != s.lastDump then some ("reject-changed-state", "a rejected ping changed the client") else none),
          (if implCached && some implSelf != (coordOfDump impl).map showCoord then some ("self-cache-stale", "the node's own cache entry differs from its client's coordinate after an accepted ping") else none),
          m0 ]
        { state := { s with node := some n', lastDump := dumpOf impl, boundsOK := b, lastSelf := implSelf,
                            implCache := ainsert s.implCache peer implPeer },
          model := some out, monitor := m }
    | _, _, _, _ => bad
  | _ => bad

def checker : Checker := { σ := St, init := {}, step := step }

end SerfModel.Check.C20
