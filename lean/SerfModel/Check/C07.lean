import SerfModel.Check.Core
import SerfModel.Model.QueryRoute
import SerfModel.Gen.QueryLocks
/-!
C07 checker.  One real node per case; query objects are numbered in creation order.

  `reg <lt> <id> <ack> <cap> <dl> <tm>`  hook `VerifRegisterQuery`: the real `newQueryResponse(cap, …)` +
        `registerQueryResponse`; `dl` = `far` | `past` (the object's deadline is already over), `tm` = `long`
        (the harness fires the timer closure's body: op `close`) | `short` (the real timer, 120 ms) → `ok`
  `query <ack>`                          the real `s.Query(…)` (long timeout) → `<lt> <id> <cap>`; the model's `.query` action
        predicts the Lamport time from its own query clock
  `qrace <n>`                            free-running: n goroutines call `s.Query` at once (40 ms timeout) → `ok` |
        `shared-time:<lt>` (two calls got one Lamport time) | `unclosed:<k>` (streams still open after the timeouts)
  `reply <lt> <id> <from> <ack> <tag>`   a `messageQueryResponse` through `Delegate.NotifyMsg` (the whole of
        `handleQueryResponse` runs) → `ok`
  `replyto <obj> <from> <ack> <tag>`     the same, addressed with the time and id of object <obj> → `ok`
  `close <obj>`                          hook `VerifCloseQuery` = body of the timer closure → `ok`
  `sleep`                                wait until every `short` timer has fired → `ok`
  `race <rounds>`                        free-running: per round a fresh query; one goroutine delivers acks/responses
        of distinct senders (through `Delegate.NotifyMsg`), another calls the public
        `QueryResponse.Close()` at a varying moment → `ok` | `panic:<msg>` | `dup:<what>`
  `drain <obj>`                          read what is in `AckCh()` / `ResponseCh()` without blocking
        → `a=<from,…> r=<from:tag,…> closed=<a><r>` (`-` = nothing; closed digits: the channel reported closed;
           an absent ack channel counts as `-` / `x`)

MODEL: `QueryRoute.act` — a reply is `arrive` followed by `replyStep`s to completion, at the granularity the
regenerated lock shapes (`Gen.QueryLocks`) give (the
harness cannot interleave the timer with the steps of a reply; those schedules are
covered by the theorems only).

MONITOR (own bookkeeping over the implementation's outputs): everything a drain
returns must be a reply that was injected with this object's Lamport time and id,
of the right kind, while the object was registered and not yet closed, not already
returned for the same sender; acks only if requested; after `close`/`sleep` the
channels must report closed exactly from then on, and deliver nothing new.
-/
namespace SerfModel.Check.C07
open SerfModel SerfModel.Check SerfModel.QueryRoute

structure MObj where
  lt : Nat
  id : Nat
  ack : Bool
  short : Bool
  /-- the deadline was over from the start: `Finished()` holds, nothing may be delivered -/
  past : Bool := false
  /-- the harness has closed the object (or its timer has fired) -/
  closed : Bool := false
  /-- replies injected while the object was open -/
  eligible : List Reply := []
  gotAck : List String := []
  gotResp : List String := []
  deriving Inhabited

structure St where
  /-- `serf.Create` increments the query clock once: a fresh node's clock stands at 1 -/
  sys : Sys := { clock := 1 }
  consumedA : List Nat := []   -- per object: acks already drained (model)
  consumedR : List Nat := []
  mon : List MObj := []
  deriving Inhabited

def bool? (s : String) : Option Bool := if s == "1" then some true else if s == "0" then some false else none

/-- the model's actions, at the granularity the regenerated lock shapes give -/
def act (s : Sys) (a : Action) : Sys := QueryRoute.act Gen.QueryLocks.shapes s a

def runActs (s : Sys) (as : List Action) : Sys := as.foldl act s

def parseItems (s : String) : Option (List (String × Nat)) :=
  if s == "-" then some [] else
  (s.splitOn ",").mapM fun e => match e.splitOn ":" with
    | [f] => (stringOfHex? f).map (·, 0)
    | [f, t] => match stringOfHex? f, t.toNat? with
      | some f, some t => some (f, t)
      | _, _ => none
    | _ => none

def dropPrefix (p s : String) : Option String :=
  if s.startsWith p then some (String.ofList (s.toList.drop p.length)) else none

def showItems (l : List String) : String := if l.isEmpty then "-" else ",".intercalate l

def setAt {α} (l : List α) (i : Nat) (a : α) : List α := l.set i a

def monitorDrain (o : MObj) (impl : String) : MObj × Option (String × String) :=
  match impl.splitOn " " with
  | [a, r, c] =>
    match (dropPrefix "a=" a).bind parseItems, (dropPrefix "r=" r).bind parseItems, dropPrefix "closed=" c with
    | some acks, some resps, some cl =>
      let o' := { o with gotAck := o.gotAck ++ acks.map (·.1), gotResp := o.gotResp ++ resps.map (·.1) }
      let bad : Option (String × String) :=
        if !o.ack && !acks.isEmpty then some ("ack-not-requested", "an ack was delivered for a query that did not request acks")
        else match acks.find? (fun x => o.gotAck.contains x.1) with
        | some x => some ("duplicate-ack", s!"second ack from {hexOfString x.1}")
        | none => match resps.find? (fun x => o.gotResp.contains x.1) with
          | some x => some ("duplicate-response", s!"second response from {hexOfString x.1}")
          | none =>
            if (acks.map (·.1)).eraseDups.length != acks.length then some ("duplicate-ack", "one drain returned two acks of one sender")
            else if (resps.map (·.1)).eraseDups.length != resps.length then some ("duplicate-response", "one drain returned two responses of one sender")
            else match acks.find? (fun x => !(o.eligible.any fun e => e.isAck && e.sender == x.1)) with
            | some x => some ("misrouted-or-late", s!"ack from {hexOfString x.1} was not sent to this query while it was open")
            | none => match resps.find? (fun x => !(o.eligible.any fun e => !e.isAck && e.sender == x.1 && e.tag == x.2)) with
              | some x => some ("misrouted-or-late", s!"response {hexOfString x.1}:{x.2} was not sent to this query while it was open")
              | none =>
                let want := (if o.ack then (if o.closed then "1" else "0") else "x") ++ (if o.closed then "1" else "0")
                if cl != want then
                  if o.closed then some ("not-closed", s!"channels report closed={cl} after the query timed out")
                  else some ("closed-early", s!"channels report closed={cl} although the query has not timed out")
                else none
      (o', bad)
    | _, _, _ => (o, some ("malformed", impl))
  | _ => (o, some ("malformed", impl))

def doRegister (s : St) (lt id : Nat) (ack : Bool) (cap : Nat) (past short : Bool) : St :=
  let idx := s.sys.objs.length
  let sys := act s.sys (.register lt id ack cap)
  let sys := if past then act sys (.deadline idx) else sys
  { sys := sys, consumedA := s.consumedA ++ [0], consumedR := s.consumedR ++ [0],
    mon := s.mon ++ [{ lt := lt, id := id, ack := ack, short := short, past := past }] }

def stepOp (s : St) (op : List String) (impl : String) : LineOut St :=
  match op with
  | ["reg", lt, id, ack, cap, dl, tm] =>
    match lt.toNat?, id.toNat?, bool? ack, cap.toNat? with
    | some lt, some id, some ack, some cap =>
      if (dl == "far" || dl == "past") && (tm == "long" || tm == "short") then
        { state := doRegister s lt id ack cap (dl == "past") (tm == "short"), model := some "ok" }
      else { state := s, model := some "bad-op" }
    | _, _, _, _ => { state := s, model := some "bad-op" }
  | ["query", ack] =>
    match bool? ack, impl.splitOn " " with
    | some ack, [lt, id, cap] =>
      match lt.toNat?, id.toNat?, cap.toNat? with
      | some lt, some id, some cap =>
        -- the model takes the time from its own query clock (`.query`); the node must have used the same
        let want := s.sys.clock
        let idx := s.sys.objs.length
        let sys := act s.sys (.query id ack cap)
        let st : St := { sys := sys, consumedA := s.consumedA ++ [0], consumedR := s.consumedR ++ [0],
                         mon := s.mon ++ [{ lt := want, id := id, ack := ack, short := false, past := false }] }
        let _ := idx
        { state := st, model := none,
          monitor := if lt != want then some ("query-time", s!"Query used Lamport time {lt}, the query clock stood at {want}") else none }
      | _, _, _ => { state := s, model := none, monitor := some ("malformed", impl) }
    | _, _ => { state := s, model := some "bad-op" }
  | ["qrace", n] =>
    -- free-running: n goroutines call Serf.Query at once (short real timeout); the times must be pairwise
    -- distinct and every query's streams closed once the timeouts are over
    match n.toNat? with
    | some n =>
      let sys := if n == 0 then s.sys else act s.sys (.witness (s.sys.clock + n - 1))
      let mon : Option (String × String) :=
        if impl == "ok" then none
        else if impl.startsWith "shared-time" then some ("shared-query-time", impl)
        else if impl.startsWith "unclosed" then some ("not-closed", impl)
        else some ("malformed", impl)
      { state := { s with sys := sys }, model := some "ok", monitor := mon }
    | none => { state := s, model := some "bad-op" }
  | ["reply", lt, id, from_, ack, tag] =>
    match lt.toNat?, id.toNat?, stringOfHex? from_, bool? ack, tag.toNat? with
    | some lt, some id, some sender, some ack, some tag =>
      let r : Reply := ⟨lt, id, sender, ack, tag⟩
      let sys := runActs s.sys [.arrive r, .replyStep, .replyStep, .replyStep, .replyStep, .replyStep]
      -- monitor: the reply is eligible for the object currently registered under its time (the newest open one) if ids match
      let mon := s.mon.map fun o => if o.lt == lt && o.id == id && !o.closed && !o.past then { o with eligible := o.eligible ++ [r] } else o
      { state := { s with sys := sys, mon := mon }, model := some "ok" }
    | _, _, _, _, _ => { state := s, model := some "bad-op" }
  | ["replyto", i, from_, ack, tag] =>
    match i.toNat?, stringOfHex? from_, bool? ack, tag.toNat? with
    | some i, some sender, some ack, some tag =>
      match s.mon[i]? with
      | some o0 =>
        let r : Reply := ⟨o0.lt, o0.id, sender, ack, tag⟩
        let sys := runActs s.sys [.arrive r, .replyStep, .replyStep, .replyStep, .replyStep, .replyStep]
        let mon := s.mon.map fun o => if o.lt == r.lt && o.id == r.id && !o.closed && !o.past then { o with eligible := o.eligible ++ [r] } else o
        { state := { s with sys := sys, mon := mon }, model := some "ok" }
      | none => { state := s, model := some "bad-op" }
    | _, _, _, _ => { state := s, model := some "bad-op" }
  | ["race", _rounds] =>
    -- free-running: replies delivered by one goroutine while another calls the public Close(); nothing may be
    -- sent on a closed stream (Go: panic "send on closed channel"), no sender twice on a stream
    let mon : Option (String × String) :=
      if impl == "ok" then none
      else if impl.startsWith "panic" then some ("send-after-close", impl)
      else if impl.startsWith "dup" then some ("duplicate-in-race", impl)
      else some ("malformed", impl)
    { state := s, model := some "ok", monitor := mon }
  | ["close", i] =>
    match i.toNat? with
    | some i =>
      let mon := match s.mon[i]? with
        | some o => s.mon.set i { o with closed := true }
        | none => s.mon
      { state := { s with sys := act s.sys (.timeout i), mon := mon }, model := some "ok" }
    | none => { state := s, model := some "bad-op" }
  | ["sleep"] =>
    let idxs := (List.range s.mon.length).filter fun i => match s.mon[i]? with
      | some o => o.short
      | none => false
    let sys := idxs.foldl (fun sys i => act (act sys (.deadline i)) (.timeout i)) s.sys
    let mon := s.mon.map fun o => if o.short then { o with closed := true } else o
    { state := { s with sys := sys, mon := mon }, model := some "ok" }
  | ["drain", i] =>
    match i.toNat? with
    | some i =>
      match s.sys.objs[i]?, s.mon[i]? with
      | some q, some o =>
        let ca := s.consumedA.getD i 0
        let cr := s.consumedR.getD i 0
        let newA := (q.ackLog.drop ca).map fun x => hexOfString x.r.sender
        let newR := (q.respLog.drop cr).map fun x => s!"{hexOfString x.r.sender}:{x.r.tag}"
        let cl := (if q.ackWanted then (if q.closed then "1" else "0") else "x") ++ (if q.closed then "1" else "0")
        let model := s!"a={showItems newA} r={showItems newR} closed={cl}"
        let sys := (List.replicate q.ackBuf (Action.consumeAck i) ++ List.replicate q.respBuf (Action.consumeResp i)).foldl act s.sys
        let (o', bad) := monitorDrain o impl
        { state := { sys := sys, consumedA := s.consumedA.set i q.ackLog.length, consumedR := s.consumedR.set i q.respLog.length,
                     mon := s.mon.set i o' },
          model := some model, monitor := bad }
      | _, _ => { state := s, model := some "bad-op" }
    | none => { state := s, model := some "bad-op" }
  | _ => { state := s, model := some "bad-op" }

/-- A panic of the real code (e.g. `close of closed channel`, `send on closed channel`) is a failure by itself. -/
def step (s : St) (op : List String) (impl : String) : LineOut St :=
  let r := stepOp s op impl
  if impl.startsWith "PANIC" then { r with monitor := some ("panic", impl) } else r

def checker : Checker := { σ := St, init := {}, step := step }

end SerfModel.Check.C07
