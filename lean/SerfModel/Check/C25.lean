import SerfModel.Check.Core
import SerfModel.Model.IpcStreams
/-!
C25 checker.

event stream over a token-gated recording client (hook constructor, real 512-slot channel):
  `es <filterhex> <seq>`            → `ok`
  `ev <kind> <namehex|-> <id>`      → `buf=<len(eventCh)> fl=<1 if the goroutine holds an event in Send>`
  `relfail`                         → the held event's Send fails (client gone): no record, the stream ends → `-`
  `halt`                            → Stop() while the case goes on dispatching events → `ok`
  `rel <k>`                         → the records the client received now, `seq:kind:namehex:id+…`
  `stop`                            → Stop() + drain: the remaining records
query stream over a hand-fed QueryResponse (timing free → not compared, monitor only):
  `qs <seq> <ack> <ms>` `qack <from>` `qresp <from> <payload>` `qclose` `qsleep <us>` `qend`
  `esrace <filterhex> <kind> <namehex|->` → Stop(); Stop(); HandleEvent on the real stream: `ok` | `panicked` | `sent`
  `esstress <filterhex> <n>`              → 4 goroutines × n HandleEvent racing one Stop(): `ok` | `panicked` | `sent-after-stop`
end to end over the socket:
  `e2e <filterhex> <seq> <names>`   → `rejected`, or the user-event / query records up to the end marker,
                                      `seq:u|q:namehex:idx+…` (names: hex = user event, q+hex = query)
  `e2eother`                        → number of non-user records (monitor only)
  `e2eq <seq> <ms> <ack> <respond> <delay>` → records `seq:type:fromhex:payloadhex+…` (monitor only)

The monitor keeps its own books (events fed, deliveries the hook reported as sent, the
stream's sequence number) and judges the implementation's records against them.
-/
namespace SerfModel.Check.C25
open SerfModel SerfModel.Check SerfModel.IpcStreams

def chanCap : Nat := ipcChanCap

structure St where
  filter : String := ""
  fs : List Filter := []
  seq : Nat := 0
  es : ES := {}
  held : Nat := 0
  released : Nat := 0
  fed : List Ev := []
  got : List Ev := []
  halted : Bool := false
  sendFailed : Bool := false
  qseq : Nat := 0
  qacks : List String := []
  qresps : List (String × String) := []
  deriving Inhabited

def joinOr (l : List String) : String := if l.isEmpty then "-" else "+".intercalate l

def showEv (seq : Nat) (e : Ev) : String :=
  if e.kind == "user" || e.kind == "query" then s!"{seq}:{e.kind}:{hexOfString e.name}:{e.id}"
  else s!"{seq}:{e.kind}:-:{e.id}"

/-- the stream goroutine takes the next event as soon as it is idle -/
def pickUp (s : St) : St :=
  if s.held == 0 && !s.es.buf.isEmpty && !s.es.dead then { s with es := esStep s.fs chanCap s.es .consume, held := 1 } else s

def releaseN : Nat → St → St
  | 0, s => s
  | n + 1, s => if s.held == 1 then releaseN n (pickUp { s with held := 0, released := s.released + 1 }) else s

/-- the send of the event the goroutine holds fails: that event is lost and `stream` returns
(the same state as if the goroutine's receive had been a `consumeFail`) -/
def failHeld (s : St) : St :=
  if s.held == 1 then
    { s with held := 0, sendFailed := true,
             es := { s.es with sent := s.es.sent.take s.released, lost := (s.es.sent.drop s.released).take 1, dead := true } }
  else s

def recordsSince (s0 s1 : St) : String :=
  joinOr (((s1.es.sent.take s1.released).drop s0.released).map (showEv s1.seq))

/-- the property's own reading of a filter string -/
def specWanted (filter : String) (e : Ev) : Bool :=
  let f := if filter == "" then "*" else filter
  (f.splitOn ",").any fun it =>
    it == "*" ||
    (if it.startsWith "user:" then e.kind == "user" && (dropPrefix it 5 == "" || dropPrefix it 5 == e.name)
     else if it.startsWith "query:" then e.kind == "query" && (dropPrefix it 6 == "" || dropPrefix it 6 == e.name)
     else it == e.kind)

/-- the harness adds its end-marker filter on the side that leaves the client's leading /
trailing characters at the edge of the string (harness/c25.go c25WrapFilter) -/
def wrapFilter (f : String) : String :=
  if f.startsWith " " then f ++ ",user:fin" else "user:fin," ++ f

/-- the property's own reading of which filter strings are valid: every comma-separated item
is an event type, `user:<name>` or `query:<name>` — exactly as written (no trimming, no case folding) -/
def specValid (filter : String) : Bool :=
  let f := if filter == "" then "*" else filter
  (f.splitOn ",").all fun it =>
    it.startsWith "user:" || it.startsWith "query:" ||
    ["*", "user", "query", "member-join", "member-leave", "member-failed", "member-update", "member-reap"].contains it

/-- `buf=<n> fl=<m>` → n + m: what the implementation reports as queued for the client -/
def pendingOf? (impl : String) : Option Nat :=
  match impl.splitOn " " with
  | [b, f] =>
    match (dropPrefix b 4).toNat?, (dropPrefix f 3).toNat? with
    | some x, some y => if b.startsWith "buf=" && f.startsWith "fl=" then some (x + y) else none
    | _, _ => none
  | _ => none

def isSubseq : List Ev → List Ev → Bool
  | [], _ => true
  | _ :: _, [] => false
  | a :: as, b :: bs => if a == b then isSubseq as bs else isSubseq (a :: as) bs

structure PRec where
  seq : Nat
  kind : String
  name : String
  last : String

def parseRec? (s : String) : Option PRec :=
  match s.splitOn ":" with
  | [a, k, n, i] => match a.toNat?, (if n == "-" then some "" else stringOfHex? n) with
    | some sq, some nm => some ⟨sq, k, nm, i⟩
    | _, _ => none
  | _ => none

def parseRecs? (impl : String) : Option (List PRec) :=
  if impl == "-" then some [] else (impl.splitOn "+").mapM parseRec?

/-- an event occurs more often in `got` than it was fed -/
def hasDuplicate (got fed : List Ev) : Bool :=
  got.any fun e => got.count e > fed.count e

def monitorStream (s : St) (impl : String) (final : Bool) : St × Option (String × String) :=
  match parseRecs? impl with
  | none => (s, some ("malformed", impl))
  | some rs =>
    let evs := rs.map fun r => ({ kind := r.kind, name := r.name, id := r.last.toNat?.getD 0 } : Ev)
    let got := s.got ++ evs
    let s' := { s with got := got }
    if rs.any (·.seq != s.seq) then (s', some ("stream-seq", s!"a record does not carry the stream's seq {s.seq}: {impl}"))
    else if evs.any (fun e => !specWanted s.filter e) then (s', some ("stream-filter", s!"a record does not match the filter: {impl}"))
    else if hasDuplicate got s.fed then
      (s', some ("stream-duplicate", s!"an event was streamed more often than it was dispatched (each matching event once): {impl}"))
    else if !isSubseq got (s.fed.filter (specWanted s.filter)) then (s', some ("stream-order", s!"records are not the fed events in order: {impl}"))
    else if final && !s.sendFailed && (s.fed.filter (specWanted s.filter)).length ≤ chanCap && got != s.fed.filter (specWanted s.filter) then
      (s', some ("stream-missing", s!"a matching event was not delivered although the buffer never overflowed"))
    else (s', none)

def isPrefix [BEq α] : List α → List α → Bool
  | [], _ => true
  | _ :: _, [] => false
  | a :: as, b :: bs => a == b && isPrefix as bs

def monitorQuery (seq : Nat) (impl : String) (acks : Option (List String)) (resps : Option (List (String × String)))
    (maxAcks maxResps : Nat) : Option (String × String) :=
  let items := if impl == "-" then [] else impl.splitOn "+"
  if impl.startsWith "TIMEOUT" then some ("query-done", s!"the query stream never completed: {impl}")
  else if items.contains "AFTER-RETURN" then some ("query-after-done", s!"records were sent after the stream returned: {impl}")
  else match items.mapM parseRec? with
    | none => some ("malformed", impl)
    | some rs =>
      if rs.any (·.seq != seq) then some ("query-seq", s!"a record does not carry the query's seq {seq}: {impl}")
      else
        let kinds := rs.map (·.kind)
        if kinds.getLast? != some "done" || (kinds.filter (· == "done")).length != 1 then
          some ("query-done", s!"the records do not end with exactly one done: {impl}")
        else if kinds.any (fun k => k != "ack" && k != "response" && k != "done") then some ("query-unreal", s!"unknown record type: {impl}")
        else
          let gotAcks := (rs.filter (·.kind == "ack")).map (·.name)
          let gotResps := (rs.filter (·.kind == "response")).map fun r => (r.name, r.last)
          let okA := match acks with
            | some l => isPrefix gotAcks l
            | none => gotAcks.length ≤ maxAcks && gotAcks.all (· != "")
          let okR := match resps with
            | some l => isPrefix gotResps l
            | none => gotResps.length ≤ maxResps && gotResps.all (fun r => r.1 != "" && r.2 == hexOfString "pong")
          if !okA || !okR then some ("query-unreal", s!"a record is not a real ack/response of this query (in delivery order): {impl}")
          else none

def step (s : St) (op : List String) (impl : String) : LineOut St :=
  match op with
  | ["es", f, q] =>
    match stringOfHex? f, q.toNat? with
    | some fl, some sq => { state := { filter := fl, fs := parseFilters fl, seq := sq }, model := some "ok" }
    | _, _ => { state := s, model := some "bad-op" }
  | ["ev", k, n, i] =>
    match (if n == "-" then some "" else stringOfHex? n), i.toNat? with
    | some nm, some id =>
      let e : Ev := { kind := k, name := nm, id := id }
      let s1 := pickUp { s with es := esStep s.fs chanCap s.es (.arrive e), fed := if s.halted then s.fed else s.fed ++ [e] }
      { state := s1, model := some s!"buf={s1.es.buf.length} fl={s1.held}",
        monitor :=
          if impl.startsWith "TIMEOUT" && specWanted s.filter e then
            some ("stream-missing", s!"an event matching the filter never reached the client of an idle stream: {impl}")
          else match pendingOf? impl with
            | some pend =>
              -- own books: matching events dispatched to the open stream, minus the records the client already has
              let owed := (s1.fed.filter (specWanted s.filter)).length - s.got.length
              if pend > owed then
                some ("stream-duplicate", s!"{pend} events are queued for the client but only {owed} matching events are outstanding (each matching event once): {impl}")
              else none
            | none => none }
    | _, _ => { state := s, model := some "bad-op" }
  | ["relfail"] =>
    -- the client's connection breaks: the Send of the held event fails, the stream goroutine returns
    let s1 := failHeld s
    let (s2, m) := monitorStream s1 impl false
    { state := s2, model := some "-", monitor := m }
  | ["halt"] =>
    -- Stop() while events keep being dispatched: from now on nothing is owed and nothing may enter
    { state := { s with es := esStep s.fs chanCap s.es .stop, halted := true }, model := some "ok" }
  | ["rel", k] =>
    match k.toNat? with
    | some n =>
      let s1 := releaseN n s
      let (s2, m) := monitorStream s1 impl false
      { state := s2, model := some (recordsSince s s1), monitor := m }
    | none => { state := s, model := some "bad-op" }
  | ["stop"] =>
    let s1 := releaseN (s.es.buf.length + 2) s
    let (s2, m) := monitorStream s1 impl true
    { state := s2, model := some (recordsSince s s1), monitor := m }
  | ["esrace", f, k, n] =>
    -- Stop(); Stop(); HandleEvent: the order the agent's eventLoop can produce
    match stringOfHex? f, (if n == "-" then some "" else stringOfHex? n) with
    | some fl, some nm =>
      let r := callRun goodShape (parseFilters fl) chanCap {} [.stop, .stop, .handle { kind := k, name := nm }]
      { state := s, model := some (if r.panicked then "panicked" else "ok"),
        monitor := if impl != "ok" then
            some ("event-after-stop-panic", s!"Stop(); Stop(); HandleEvent must neither panic nor send: {impl}") else none }
    | _, _ => { state := s, model := some "bad-op" }
  | ["esstress", f, _] =>
    -- HandleEvent from several goroutines while Stop runs: any interleaving of whole calls
    match stringOfHex? f with
    | some _ => { state := s, model := some "ok",
                  monitor := if impl != "ok" then
                    some ("event-after-stop-panic", s!"HandleEvent concurrent with Stop panicked or sent after Stop: {impl}") else none }
    | none => { state := s, model := some "bad-op" }
  | ["qs", q, _, _] =>
    match q.toNat? with
    | some sq => { state := { s with qseq := sq, qacks := [], qresps := [] }, model := some "ok" }
    | none => { state := s, model := some "bad-op" }
  | ["qack", f] =>
    match stringOfHex? f with
    | some src => { state := if impl == "sent" then { s with qacks := s.qacks ++ [src] } else s, model := none }
    | none => { state := s, model := some "bad-op" }
  | ["qresp", f, p] =>
    match stringOfHex? f with
    | some src => { state := if impl == "sent" then { s with qresps := s.qresps ++ [(src, p)] } else s, model := none }
    | none => { state := s, model := some "bad-op" }
  | ["qclose"] => { state := s, model := some "ok" }
  | ["qsleep", _] => { state := s, model := some "ok" }
  | ["qend"] => { state := s, model := none, monitor := monitorQuery s.qseq impl (some s.qacks) (some s.qresps) 0 0 }
  | ["e2e", f, q, names] =>
    match stringOfHex? f, q.toNat?, (splitNames names).mapM parseFired? with
    | some fl, some sq, some fired =>
      let full := wrapFilter fl
      let fs := parseFilters full
      let evs := (List.range fired.length).zip fired |>.map fun p => ({ kind := p.2.1, name := p.2.2, id := p.1 } : Ev)
      let tag := fun (e : Ev) => if e.kind == "query" then "q" else "u"
      let expect := if fs.all (·.valid) then joinOr ((evs.filter (wanted fs)).map fun e => s!"{sq}:{tag e}:{hexOfString e.name}:{e.id}")
                    else "rejected"
      -- the property, from the filter the client sent and the records on the stream only
      let bad :=
        if impl == "rejected" then
          (if specValid full then some ("stream-missing", s!"a valid filter was rejected: {full}") else none)
        else match parseRecs? impl with
        | some rs =>
          let recEvs := rs.map fun r => ({ kind := if r.kind == "q" then "query" else "user", name := r.name, id := r.last.toNat?.getD 0 } : Ev)
          if !specValid full then some ("stream-filter", s!"a stream was opened for a filter that is not valid as the client sent it: '{full}'")
          else if rs.any (·.seq != sq) then some ("stream-seq", s!"a record does not carry the stream's seq {sq}: {impl}")
          else if recEvs.any (fun e => !specWanted full e) then
            some ("stream-filter", s!"a record does not match the filter the client sent ('{full}'): {impl}")
          else if hasDuplicate recEvs evs then
            some ("stream-duplicate", s!"an event was streamed more often than it was fired (each matching event once): {impl}")
          else if recEvs != evs.filter (specWanted full) then
            some ("stream-missing", s!"the records are not exactly the events matching '{full}' fired while the stream was open, in order: {impl}")
          else none
        | none => if impl.startsWith "TIMEOUT" then some ("stream-missing", impl) else some ("malformed", impl)
      { state := { s with filter := fl }, model := some expect, monitor := bad }
    | _, _, _ => { state := s, model := some "bad-op" }
  | ["e2eother"] =>
    let allowed := (s.filter.splitOn ",").any fun it => it == "*" || it == "" || it.startsWith "member-" || it.startsWith "query"
    { state := s, model := none,
      monitor := if impl != "0" && impl != "-1" && !allowed then some ("stream-filter", s!"{impl} non-user records on a user-only stream") else none }
  | ["e2eq", q, _, a, r, _] =>
    match q.toNat? with
    | some sq => { state := s, model := none,
                   monitor := monitorQuery sq impl none none (if a == "1" then 1 else 0) (if r == "1" then 1 else 0) }
    | none => { state := s, model := some "bad-op" }
  | _ => { state := s, model := some "bad-op" }
where
  splitNames (s : String) : List String := if s.isEmpty then [] else s.splitOn ","
  parseFired? (t : String) : Option (String × String) :=
    if t.startsWith "q" then (stringOfHex? (dropPrefix t 1)).map fun n => ("query", n)
    else (stringOfHex? t).map fun n => ("user", n)

def checker : Checker := { σ := St, init := {}, step := step }

end SerfModel.Check.C25
