import SerfModel.Check.Core
import SerfModel.Model.UserCoalesce
/-!
C18 checker.  Two kinds of cases.

Direct (the real `userEventCoalescer` through the hook constructor):
  `ev <name> <lt> <c|n> <id>`   Handle, and Coalesce if handled   → `ok` | `pass`
  `oev <id>`                    an event of another kind           → `pass`
  `flush`                       → flushed events, grouped by name (names sorted), per name in the order sent:
                                  `name/lt/c|n/id,…` (`-` if none)
Loop (the real `coalesceLoop` goroutine around the real coalescer):
  `loop <coalesce_ms> <quiescent_ms>`  start                       → `ok`
  `lev …` / `loev <id>`         send on inCh; an event that is not a coalescable user event must come out
                                at once: → `fwd <items>` (everything that came out; `timeout` if nothing did);
                                a coalescable one → `ok`
  `lshutdown`                   close shutdownCh, wait for the goroutine → `out <items grouped by name>`
  `lwait`                       (short timers) wait for the timer-driven flush(es) → `got <items in arrival order>`
                                not compared with the model (flush points depend on real time): the monitor
                                accepts iff SOME placement of flush points explains the output.

Monitor (own bookkeeping on the implementation's outputs): `pend` = coalescable
events sent since the last flush observed; a flush must emit per name exactly
`newest pend name`; pass/handled verdicts must follow the coalesce flag; an
unhandled event must be forwarded alone, unchanged, immediately.
-/
namespace SerfModel.Check.C18
open SerfModel SerfModel.Check SerfModel.UserCoalesce SerfModel.CoalesceLoop

structure St where
  uc : UC := []
  loop : CoalesceLoop.St userCoalescer := CoalesceLoop.init userCoalescer
  /-- monitor: coalescable events sent since the last observed flush (oldest first) -/
  pend : List UserEv := []

instance : Inhabited St := ⟨{}⟩

def flagStr (b : Bool) : String := if b then "c" else "n"

/-- the payload field: decimal digits, or `e` (empty, non-nil payload) / `z` (nil payload): two
distinct events that byte-compare equal; they get ids outside the 64-bit range -/
def payloadE : Nat := 18446744073709551616
def payloadZ : Nat := 18446744073709551617

def showPayload (i : Nat) : String := if i == payloadE then "e" else if i == payloadZ then "z" else toString i

def parsePayload (s : String) : Option Nat :=
  if s == "e" then some payloadE else if s == "z" then some payloadZ else s.toNat?

def showU (u : UserEv) : String := s!"{hexOfString u.name}/{u.lt}/{flagStr u.coalesce}/{showPayload u.id}"

def showEv : Ev → String
  | .user u => showU u
  | .other i => s!"o/{i}"

def parseFlag : String → Option Bool
  | "c" => some true | "n" => some false | _ => none

def parseU (n lt f id : String) : Option UserEv :=
  match stringOfHex? n, lt.toNat?, parseFlag f, parsePayload id with
  | some name, some l, some c, some i => some ⟨name, l, c, i⟩
  | _, _, _, _ => none

def parseItem (s : String) : Option Ev :=
  match s.splitOn "/" with
  | ["o", i] => i.toNat?.map Ev.other
  | [n, lt, f, id] => (parseU n lt f id).map Ev.user
  | _ => none

def parseItems (s : String) : Option (List Ev) :=
  if s == "-" then some [] else (s.splitOn ",").mapM parseItem

def insertSorted (s : String) : List String → List String
  | [] => [s]
  | x :: xs => if s ≤ x then s :: x :: xs else x :: insertSorted s xs

def sortStrings (l : List String) : List String := l.foldr insertSorted []

/-- canonical flush output: non-user events first (in order), then user events grouped by
name, names ordered by their hex form, inside a name the order sent -/
def canon (out : List Ev) : String :=
  let others := out.filter (fun e => match e with | .other _ => true | _ => false)
  let users := out.filterMap (fun e => match e with | .user u => some u | _ => none)
  let names := sortStrings ((users.map (fun u => hexOfString u.name)).eraseDups)
  let grouped := names.flatMap (fun hn => users.filter (fun u => hexOfString u.name == hn))
  let items := others.map showEv ++ grouped.map showU
  if items.isEmpty then "-" else ",".intercalate items

def usersOf (out : List Ev) : List UserEv := out.filterMap (fun e => match e with | .user u => some u | _ => none)

/-- The property for one flush, on the implementation's output. -/
def monitorFlush (pend : List UserEv) (out : List Ev) : Option (String × String) :=
  if out.any (fun e => match e with | .other _ => true | _ => false) then
    some ("flush-foreign", "a flush emitted an event that is not a user event")
  else
    let us := usersOf out
    let names := ((pend ++ us).map (·.name)).eraseDups
    match names.find? (fun n => us.filter (·.name == n) != newest pend n) with
    | none => none
    | some n =>
      let got := us.filter (·.name == n)
      let want := newest pend n
      if got.any (fun o => !pend.contains o) then
        some ("extra-event", s!"name {hexOfString n}: flush emitted an event that was not received since the previous flush")
      else if got.any (fun o => o.lt != maxLt pend n) then
        some ("not-newest", s!"name {hexOfString n}: flush emitted an event older than the newest Lamport time received for the name")
      else if want.any (fun w => !got.contains w) then
        some ("lost-event", s!"name {hexOfString n}: an event carrying the newest Lamport time was not emitted")
      else if got.length < want.length then
        some ("lost-event", s!"name {hexOfString n}: {want.length} events carry the newest Lamport time (some of them equal in every field) but only {got.length} were emitted")
      else if got.length > want.length then
        some ("extra-event", s!"name {hexOfString n}: an event was emitted more often than it was received")
      else some ("order", s!"name {hexOfString n}: newest events emitted in the wrong order or multiplicity")

/-- all ways to cut a list into consecutive non-empty segments -/
def splits : List UserEv → List (List (List UserEv))
  | [] => [[]]
  | x :: xs =>
    (splits xs).flatMap (fun sp =>
      match sp with
      | [] => [[[x]]]
      | seg :: rest => [(x :: seg) :: rest, [x] :: seg :: rest])

/-- timer-driven flushes: is there a placement of flush points explaining the output? -/
def explained (pend : List UserEv) (us : List UserEv) : Bool :=
  let names := ((pend ++ us).map (·.name)).eraseDups
  (splits pend).any (fun sp => names.all (fun n => us.filter (·.name == n) == sp.flatMap (fun seg => newest seg n)))

def parseEvOp : List String → Option Ev
  | [n, lt, f, id] => (parseU n lt f id).map Ev.user
  | _ => none

def step (s : St) (op : List String) (impl : String) : LineOut St :=
  let bad : LineOut St := { state := s, model := some "bad-op" }
  match op with
  | "ev" :: rest =>
    match parseEvOp rest with
    | some (.user u) =>
      let want := if u.coalesce then "ok" else "pass"
      let mon := if impl == want then none
        else some ("handle", s!"Handle answered {impl} for a user event with coalesce flag {flagStr u.coalesce}")
      if handles (.user u) then
        { state := { s with uc := coalesce s.uc u, pend := s.pend ++ [u] }, model := some "ok", monitor := mon }
      else { state := s, model := some "pass", monitor := mon }
    | _ => bad
  | ["oev", i] =>
    match i.toNat? with
    | some _ =>
      { state := s, model := some "pass",
        monitor := if impl == "pass" then none else some ("handle", "an event that is not a user event was not passed through") }
    | none => bad
  | ["flush"] =>
    let r := flush s.uc
    let mon := match parseItems impl with
      | none => some ("malformed", impl)
      | some io => monitorFlush s.pend io
    { state := { s with uc := r.1, pend := [] }, model := some (canon (r.2.map Ev.user)), monitor := mon }
  | ["loop", _, _] => { state := s, model := some "ok" }
  | "lev" :: rest =>
    match parseEvOp rest with
    | some e =>
      let r := CoalesceLoop.step userCoalescer s.loop (.ev e)
      if handles e then
        match e with
        | .user u => { state := { s with loop := r.1, pend := s.pend ++ [u] }, model := some "ok",
                       monitor := if impl == "ok" then none else some ("malformed", impl) }
        | _ => bad
      else
        let mon := if impl == "timeout" then some ("held-back", s!"{showEv e} is not coalescable but was not forwarded")
          else if impl == "fwd " ++ showEv e then none
          else some ("passthrough-changed", s!"{showEv e} is not coalescable; expected it alone and unchanged, got {impl}")
        { state := { s with loop := r.1 }, model := some ("fwd " ++ canon r.2), monitor := mon }
    | none => bad
  | ["loev", i] =>
    match i.toNat? with
    | some id =>
      let e := Ev.other id
      let r := CoalesceLoop.step userCoalescer s.loop (.ev e)
      let mon := if impl == "timeout" then some ("held-back", s!"{showEv e} is not a user event but was not forwarded")
        else if impl == "fwd " ++ showEv e then none
        else some ("passthrough-changed", s!"{showEv e} is not a user event; expected it alone and unchanged, got {impl}")
      { state := { s with loop := r.1 }, model := some ("fwd " ++ canon r.2), monitor := mon }
    | none => bad
  | ["lshutdown"] =>
    let r := CoalesceLoop.step userCoalescer s.loop .shutdown
    let mon := if impl == "timeout" then some ("no-shutdown", "the loop did not return after shutdown")
      else if !impl.startsWith "out " then some ("malformed", impl)
      else match parseItems (String.ofList (impl.toList.drop 4)) with
        | none => some ("malformed", impl)
        | some io => monitorFlush s.pend io
    { state := { s with loop := r.1, pend := [] }, model := some ("out " ++ canon r.2), monitor := mon }
  | ["lwait"] =>
    -- the model flushes once here; the real loop may have flushed at any points in between
    let r := CoalesceLoop.step userCoalescer s.loop .quantum
    let mon := if !impl.startsWith "got " then some ("malformed", impl)
      else match parseItems (String.ofList (impl.toList.drop 4)) with
        | none => some ("malformed", impl)
        | some io =>
          if io.any (fun e => match e with | .other _ => true | _ => false) then
            some ("flush-foreign", "a flush emitted an event that is not a user event")
          else if io.isEmpty && !s.pend.isEmpty then
            some ("not-flushed", "coalesced events were pending but no timer-driven flush happened")
          else if explained s.pend (usersOf io) then none
          else match monitorFlush s.pend io with
            | some m => some m
            | none => some ("order", "timer-driven flush output not explained by any placement of flush points")
    { state := { s with loop := r.1, pend := [] }, model := none, monitor := mon }
  | _ => bad

def checker : Checker := { σ := St, init := {}, step := step }

end SerfModel.Check.C18
