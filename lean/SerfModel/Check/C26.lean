import SerfModel.Check.Core
import SerfModel.Model.Regex
import SerfModel.Gen.AnchorTemplate
/-!
C26 checker.

`filter <members> <tagfilters> <status> <name>` — the real `filterMembers` (hook
`VerifFilterMembers`).
  members    `_` | `<hexname>/<status>/<tags>,…`     tags `_` | `<hexk>:<hexv>;…`
  pattern    `<hexpat>~<wc><c>~<wm>~<fm>`  — the truth table of Go's `regexp` for this pattern,
             computed by the harness: `wc` = `^(?:pat)$` compiles, `c` = `pat` compiles on its
             own, `wm` / `fm` = one bit per member: `^(?:pat)$` MatchString(value) / `pat`
             (compiled alone, leftmost-longest) matches exactly the whole value; `_` if no members
  tagfilters `_` | `<hexkey>=<pattern>;…`
  output     `err` | `_` | `<hexname>,…` (the names of the members returned, in order)

The MODEL output is the interpreter `filterMembersS` on the REGENERATED shape of `filterMembers` /
`compileAnchored` (Gen/AnchorTemplate.lean) run on the engine given
by the table (Go's engine as oracle: `c` for the validation of the pattern alone, `wc`/`wm` for the
template-wrapped pattern).  The MONITOR judges the
implementation's output against the property using only the `c`/`fm` columns (what the pattern
means on its own): an invalid pattern must give `err`, otherwise exactly the members whose
name / status / requested tag values are fully matched.

`rx <ast> <hexword>,…` — ties the formal semantics to Go's `regexp`: the harness prints the AST
in RE2 syntax and reports, per word, MatchString of the printed pattern and of
`^(?:printed)$`; the model computes `search r w` and `fullMatch r w`.
  ast        prefix tokens joined by `,`: C A (binary) S P O G (unary) E B Z D, `c<codepoint>`,
             `k<0|1>:<lo>-<hi>:…`
-/
namespace SerfModel.Check.C26
open SerfModel SerfModel.Check SerfModel.Regex

structure Pat where
  pat : String
  wc : Bool
  c : Bool
  wm : List Bool
  fm : List Bool

def bitsOf (s : String) : List Bool := if s == "_" then [] else s.toList.map (· == '1')

def parsePat (s : String) : Option Pat :=
  match s.splitOn "~" with
  | [p, flags, wm, fm] =>
    match stringOfHex? p, flags.toList with
    | some pat, [a, b] => some ⟨pat, a == '1', b == '1', bitsOf wm, bitsOf fm⟩
    | _, _ => none
  | _ => none

def parseTagPair (s : String) : Option (String × String) :=
  match s.splitOn ":" with
  | [k, v] => match stringOfHex? k, stringOfHex? v with
    | some k, some v => some (k, v)
    | _, _ => none
  | _ => none

def parseMember (s : String) : Option Member :=
  match s.splitOn "/" with
  | [n, st, tg] =>
    match stringOfHex? n with
    | none => none
    | some name =>
      if tg == "_" then some ⟨name, st, []⟩
      else ((tg.splitOn ";").mapM parseTagPair).map fun t => ⟨name, st, t⟩
  | _ => none

def parseMembers (s : String) : Option (List Member) :=
  if s == "_" then some [] else (s.splitOn ",").mapM parseMember

def parseTagFilter (s : String) : Option (String × Pat) :=
  match s.splitOn "=" with
  | [k, p] => match stringOfHex? k, parsePat p with
    | some k, some p => some (k, p)
    | _, _ => none
  | _ => none

def parseTagFilters (s : String) : Option (List (String × Pat)) :=
  if s == "_" then some [] else (s.splitOn ";").mapM parseTagFilter

def showNames (ms : List Member) : String :=
  if ms.isEmpty then "_" else ",".intercalate (ms.map fun m => hexOfString m.name)

/-- the engine described by the table: `c` (valid alone), `wc` (wrapped compiles), `wm` (wrapped matches) -/
def engineOf (ms : List Member) (tags : List (String × Pat)) (status name : Pat) : Engine :=
  let pats := status :: name :: tags.map (·.2)
  let rows (p : Pat) (vals : List String) : List ((String × String) × Bool) := (vals.zip p.wm).map fun vb => ((p.pat, vb.1), vb.2)
  let tbl := rows status (ms.map (·.status)) ++ rows name (ms.map (·.name)) ++
    tags.flatMap fun tp => rows tp.2 (ms.map fun m => tagValue m tp.1)
  { validAlone := fun p => (alookup (pats.map fun x => (x.pat, x.c)) p).getD false
    compilesWrapped := fun p => (alookup (pats.map fun x => (x.pat, x.wc)) p).getD false
    matchStr := fun p v => (alookup tbl (p, v)).getD false }

/-- the property, from the `c` / `fm` columns only: `none` = an error is required -/
def expected (ms : List Member) (tags : List (String × Pat)) (status name : Pat) : Option (List Member) :=
  if !(status.c && name.c && tags.all fun tp => tp.2.c) then none
  else
    let idx := List.range ms.length
    let keep := idx.filter fun i =>
      (tags.all fun tp => tp.2.fm.getD i false) &&
      (status.pat == "" || status.fm.getD i false) &&
      (name.pat == "" || name.fm.getD i false)
    some (keep.filterMap fun i => ms[i]?)

def monitorFilter (ms : List Member) (tags : List (String × Pat)) (status name : Pat) (impl : String) :
    Option (String × String) :=
  match expected ms tags status name with
  | none =>
    if impl == "err" then none
    else if status.wc && name.wc && tags.all (fun tp => tp.2.wc) then
      some ("pattern-escapes-group", s!"a pattern that is not valid on its own was accepted (the template turned it into a valid one) and a list was returned: {impl}")
    else some ("invalid-pattern-accepted", s!"an invalid pattern did not yield an error: {impl}")
  | some exp =>
    if impl == "err" then some ("spurious-error", "all patterns are valid, yet the filter returned an error")
    else if impl != showNames exp then
      some ("not-exact", s!"returned {impl}, the members fully matching every requested filter are {showNames exp}")
    else none

/-! AST of the `rx` op -/
def parseRange (s : String) : Option (Char × Char) :=
  match s.splitOn "-" with
  | [a, b] => match a.toNat?, b.toNat? with
    | some a, some b => some (Char.ofNat a, Char.ofNat b)
    | _, _ => none
  | _ => none

def parseAst : Nat → List String → Option (Regex × List String)
  | 0, _ => none
  | _, [] => none
  | fuel + 1, tok :: rest =>
    let un (f : Regex → Regex) := (parseAst fuel rest).map fun (r, rest) => (f r, rest)
    let bin (f : Regex → Regex → Regex) :=
      match parseAst fuel rest with
      | some (r, rest) => (parseAst fuel rest).map fun (s, rest) => (f r s, rest)
      | none => none
    match tok with
    | "C" => bin .cat
    | "A" => bin .alt
    | "S" => un .star
    | "P" => un .plus
    | "O" => un .opt
    | "G" => un .group
    | "H" => un .group
    | "E" => some (.empty, rest)
    | "B" => some (.bot, rest)
    | "Z" => some (.eot, rest)
    | "D" => some (.any, rest)
    | _ =>
      match tok.toList with
      | 'c' :: cs => (String.ofList cs).toNat?.map fun n => (.char (Char.ofNat n), rest)
      | 'k' :: cs =>
        match (String.ofList cs).splitOn ":" with
        | neg :: rs => if rs.isEmpty then none else (rs.mapM parseRange).map fun rs => (.cls (neg == "1") rs, rest)
        | [] => none
      | _ => none

def bits (l : List Bool) : String := if l.isEmpty then "_" else String.ofList (l.map fun b => if b then '1' else '0')

def step (s : Unit) (op : List String) (impl : String) : LineOut Unit :=
  match op with
  | ["filter", sm, st, ss, sn] =>
    match parseMembers sm, parseTagFilters st, parsePat ss, parsePat sn with
    | some ms, some tags, some status, some name =>
      let e := engineOf ms tags status name
      let m := match filterMembersS Gen.AnchorTemplate.shape e ms (tags.map fun tp => (tp.1, tp.2.pat)) status.pat name.pat with
        | none => "err"
        | some l => showNames l
      { state := s, model := some m, monitor := monitorFilter ms tags status name impl }
    | _, _, _, _ => { state := s, model := some "bad-op" }
  | ["rx", ast, ws] =>
    let toks := ast.splitOn ","
    match parseAst (toks.length + 1) toks, (ws.splitOn ",").mapM stringOfHex? with
    | some (r, []), some words =>
      let ws := words.map (·.toList)
      { state := s, model := some (bits (ws.map (search r)) ++ " " ++ bits (ws.map (fullMatch r))) }
    | _, _ => { state := s, model := some "bad-op" }
  | _ => { state := s, model := some "bad-op" }

def checker : Checker := { σ := Unit, init := (), step := step }

end SerfModel.Check.C26
