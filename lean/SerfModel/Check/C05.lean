import SerfModel.Check.Core
import SerfModel.Model.EventBuf
/-!
C05 checker.  The harness drives a real single Serf node; ops:

  `cfg <N>`                                 create the node with EventBuffer = N            → `ok`
  `ev <lt> <name> <payload>`                user event message through `NotifyMsg` (payload `~` = nil on the wire)
  `ignore <0|1>`                            set the join-ignore flag (as `Join(_, true)` holds it) → `ok`
  `pp <eventLTime> <isJoin> <slot>…`        push/pull state through `MergeRemoteState`;
                                            slot = `nil` | `<lt>:<name>.<payload>;…` (possibly no events)

`ev` and `pp` answer `D=<lt/name/payload,…|-> rb=<k> clk=<event clock>`: the user
events that reached the application channel (in order), the growth of the event
broadcast queue, and the event clock afterwards.  Names and payloads are hex.

The monitor judges the property on the implementation's deliveries with its own
bookkeeping (what was received, what was delivered, the largest time seen, the
cut-off), not through the model.
-/
namespace SerfModel.Check.C05
open SerfModel SerfModel.Check SerfModel.EventBuf SerfModel.Atomic

abbrev Item := String × String

structure St where
  buf : Option (Buf Item) := none
  ignore : Bool := false
  -- monitor bookkeeping (natural numbers, no wrap-around)
  n : Nat := 0
  received : List (Nat × Item) := []
  delivered : List (Nat × Item) := []
  /-- lower bound of the event clock: 1 + the largest time seen -/
  clk : Nat := 1
  minT : Nat := 0
  /-- a time 2^64−1 has been received (the recorded wrap) -/
  wrapSeen : Bool := false

instance : Inhabited St := ⟨{}⟩

def maxW : Nat := 2 ^ 64 - 1

def showItem (p : W × Item) : String := s!"{p.1.toNat}/{p.2.1}/{p.2.2}"

def showOut (ds : List (W × Item)) (rb : Nat) (clk : W) : String :=
  let d := if ds.isEmpty then "-" else ",".intercalate (ds.map showItem)
  s!"D={d} rb={rb} clk={clk.toNat}"

def parseW (s : String) : Option W := s.toNat?.bind fun n => if n < 2 ^ 64 then some (BitVec.ofNat 64 n) else none

/-- `~` (nil payload on the wire) and `-` (empty payload) are the same event for
`userEvent.Equals`; the node reports both as `-`. -/
def normPayload (p : String) : String := if p == "~" then "-" else p

def parseSlot (s : String) : Option (Option (W × List Item)) :=
  if s == "nil" then some none else
  match s.splitOn ":" with
  | [t, evs] =>
    match parseW t with
    | none => none
    | some lt =>
      if evs == "" then some (some (lt, [])) else
      let items := (evs.splitOn ";").mapM fun e =>
        match e.splitOn "." with
        | [n, p] => some (n, normPayload p)
        | _ => none
      items.map fun is => some (lt, is)
  | _ => none

/-- Parse the implementation's `D=… rb=… clk=…`. -/
def parseImpl (impl : String) : Option (List (Nat × Item)) :=
  match impl.splitOn " " with
  | [d, _, _] =>
    if !d.startsWith "D=" then none else
    let body := String.ofList (d.toList.drop 2)
    if body == "-" then some [] else
    (body.splitOn ",").mapM fun it =>
      match it.splitOn "/" with
      | [t, n, p] => t.toNat?.map fun tn => (tn, (n, p))
      | _ => none
  | _ => none

/-- Monitor for one operation: `inputs` are the (time, item) pairs the operation
fed to the node in order, `implD` what the implementation handed to the
application during the operation. -/
def monitorOp (s : St) (inputs : List (Nat × Item)) (implD : List (Nat × Item)) : St × Option (String × String) :=
  -- spurious: delivered something that was not part of this operation
  let spurious := implD.find? fun d => !inputs.contains d
  -- at most once: walk the operation's inputs in order, matching the deliveries (a
  -- subsequence of the inputs); a delivery of something already delivered is a
  -- re-delivery, classified by whether a time 2^64−1 had been received before it
  let rec scan : List (Nat × Item) → List (Nat × Item) → List (Nat × Item) → Bool → Option (String × (Nat × Item))
    | _, [], _, _ => none
    | [], d :: _, seen, wrap =>
      if seen.contains d then some (if wrap then "redelivery-after-wrap" else "redelivered", d)
      else some ("delivery-order", d)
    | p :: rest, d :: ds, seen, wrap =>
      if p == d then
        if seen.contains d then some (if wrap then "redelivery-after-wrap" else "redelivered", d)
        else scan rest ds (d :: seen) (wrap || p.1 == maxW)
      else scan rest (d :: ds) seen (wrap || p.1 == maxW)
  let dup := scan inputs implD s.delivered s.wrapSeen
  let wrapNow := s.wrapSeen || inputs.any (fun p => p.1 == maxW)
  -- fresh events inside the window must be delivered (judged only while no wrap has been seen)
  let rec fresh : List (Nat × Item) → Nat → List (Nat × Item) → Option (Nat × Item)
    | [], _, _ => none
    | p :: rest, clk, recv =>
      let clk' := if p.1 + 1 > clk then p.1 + 1 else clk
      if !recv.contains p && p.1 ≥ s.minT && p.1 + s.n ≥ clk' && !implD.contains p then some p
      else fresh rest clk' (p :: recv)
  let missing := if wrapNow then none else fresh inputs s.clk s.received
  let clk' := inputs.foldl (fun c p => if p.1 + 1 > c then p.1 + 1 else c) s.clk
  let s' := { s with received := inputs.reverse ++ s.received, delivered := implD.reverse ++ s.delivered,
                     clk := clk', wrapSeen := wrapNow }
  -- nothing older than the join / restart cut-off is delivered
  let belowCut := implD.find? fun d => d.1 < s.minT
  let verdict : Option (String × String) :=
    match spurious, dup, missing with
    | some d, _, _ => some ("spurious-delivery", s!"delivered {d.1}/{d.2.1}/{d.2.2}, which this operation did not carry")
    | _, some (key, d), _ =>
      some (key, if key == "delivery-order" then s!"delivery {d.1}/{d.2.1}/{d.2.2} is out of order with respect to the operation's inputs"
                 else s!"user event {d.1}/{d.2.1}/{d.2.2} reached the application a second time")
    | _, _, some p => some ("fresh-not-delivered",
        s!"first-time event {p.1}/{p.2.1}/{p.2.2} inside the window and not below the cut-off was not delivered")
    | _, _, _ =>
      match belowCut with
      | some d => some ("below-cutoff-delivered", s!"user event {d.1}/{d.2.1}/{d.2.2} is older than the cut-off {s.minT} and was delivered")
      | none => none
  (s', verdict)

def natItems (l : List (W × Item)) : List (Nat × Item) := l.map fun p => (p.1.toNat, p.2)

def step (s : St) (op : List String) (impl : String) : LineOut St :=
  match op, s.buf with
  | ["cfg", n], none =>
    match n.toNat? with
    | some N => if N == 0 then { state := s, model := some "bad-op" } else
      { state := { s with buf := some (Buf.init N), n := N }, model := some "ok" }
    | none => { state := s, model := some "bad-op" }
  | ["ignore", v], some _ =>
    if v == "0" || v == "1" then { state := { s with ignore := v == "1" }, model := some "ok" }
    else { state := s, model := some "bad-op" }
  | ["ev", lt, name, payload0], some b =>
    match parseW lt with
    | none => { state := s, model := some "bad-op" }
    | some t =>
      let payload := normPayload payload0
      let (b', ds) := stepIn b (.gossip t (name, payload))
      let out := showOut ds ds.length b'.clock
      let s1 := { s with buf := some b' }
      match parseImpl impl with
      | none => { state := s1, model := some out, monitor := some ("malformed", impl) }
      | some implD =>
        let (s2, v) := monitorOp s1 [(t.toNat, (name, payload))] implD
        { state := s2, model := some out, monitor := v }
  | "pp" :: e :: j :: slots, some b =>
    match parseW e, slots.mapM parseSlot with
    | some ev, some image =>
      if j != "0" && j != "1" then { state := s, model := some "bad-op" } else
      let raise := j == "1" && s.ignore
      let (b', ds) := stepIn b (.pushPull ev raise image)
      let out := showOut ds 0 b'.clock
      -- monitor bookkeeping of the prelude: the remote clock is witnessed, the cut-off may rise
      let clk1 := if ev.toNat > s.clk then ev.toNat else s.clk
      let min1 := if raise && ev.toNat > s.minT then ev.toNat else s.minT
      let s1 := { s with buf := some b', clk := clk1, minT := min1 }
      match parseImpl impl with
      | none => { state := s1, model := some out, monitor := some ("malformed", impl) }
      | some implD =>
        let (s2, v) := monitorOp s1 (natItems (flatten image)) implD
        { state := s2, model := some out, monitor := v }
    | _, _ => { state := s, model := some "bad-op" }
  -- `conc g n seed => total=<t> distinct=<d>`: g goroutines deliver the same n events concurrently through
  -- NotifyMsg and MergeRemoteState on one real node; monitored only: nothing is delivered twice
  | "conc" :: _, some _ =>
    let kv := (impl.splitOn " ").filterMap fun t => match t.splitOn "=" with
      | [k, v] => v.toNat?.map fun n => (k, n)
      | _ => none
    match alookup kv "total", alookup kv "distinct" with
    | some t, some d =>
      { state := s, model := none,
        monitor := if t != d then some ("redelivered-concurrent", s!"{t - d} of {t} deliveries repeat an event already delivered (concurrent handling of the same event)") else none }
    | _, _ => { state := s, model := some "total=… distinct=…" }
  | _, _ => { state := s, model := some "bad-op" }

def checker : Checker := { σ := St, init := {}, step := step }

end SerfModel.Check.C05
