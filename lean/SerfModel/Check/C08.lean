import SerfModel.Check.Core
import SerfModel.Model.QueryHandle
import SerfModel.Gen.InternalQueries
/-!
C08 checker.  The harness drives a real single Serf node; ops:

  `cfg <N> <name> <tags>`     create the node: QueryBuffer = N, node name, tags `k:v,k:v` | `-`  → `ok`
  `tags <tags>`                 `SetTags` on the running node (same node, same buffers)          → `ok`
  `q <lt> <id> <flags> <name> F <raw>=<class>… R <expr>:<value>:<res>…`
        a query message through `NotifyMsg`.  `<raw>` are the filter bytes sent;
        `<class>` is what Go's msgpack decoder makes of them (`E` empty entry,
        `N[:<name>;…]` node list, `T:<tag>:<expr>` tag filter, `U` undecodable, `X`
        unknown type); the `R` table is Go's `regexp.MatchString(expr, value)` for the
        tag filters of this query against this node's tag values (`1`, `0`, `e` = does
        not compile) — the model's regex oracle.
        Answer: `app=<lt>/<name>|- ack=<lt>/<id>/<from>/<flags>,…|- rb=<k> clk=<query clock>`:
        the query that reached the APPLICATION channel, the ack packets captured at
        the memberlist transport, growth of the query broadcast queue, query clock.

All strings are hex (`-` = empty).  The monitor judges every clause of the
property on the implementation's outputs with its own bookkeeping.
-/
namespace SerfModel.Check.C08
open SerfModel SerfModel.Check SerfModel.EventBuf SerfModel.QueryHandle SerfModel.Atomic

/-- Hex fields stay hex (an injective renaming of strings); only the empty string
is normalised so that "missing tag = empty value" means the same on both sides. -/
def hx (s : String) : String := if s == "-" then "" else s
def unhx (s : String) : String := if s == "" then "-" else s

def internalHex : String := "5f736572665f"  -- "_serf_"

structure St where
  buf : Option (Buf Nat) := none
  cfg : NodeCfg := { name := "", tags := [] }
  -- monitor bookkeeping
  n : Nat := 0
  received : List (Nat × Nat) := []
  deliveredApp : List (Nat × Nat) := []
  rebroadcast : List (Nat × Nat) := []
  clk : Nat := 1
  wrapSeen : Bool := false

instance : Inhabited St := ⟨{}⟩

def maxW : Nat := 2 ^ 64 - 1

def parseTags (s : String) : Option (List (String × String)) :=
  if s == "-" then some [] else
  (s.splitOn ",").mapM fun kv =>
    match kv.splitOn ":" with
    | [k, v] => some (hx k, hx v)
    | _ => none

def parseClass (c : String) : Option Filter :=
  match c.splitOn ":" with
  | ["E"] => some .empty
  | ["U"] => some .undecodable
  | ["X"] => some .unknownType
  | ["N"] => some (.node [])
  | ["N", names] => some (.node ((names.splitOn ";").map hx))
  | ["T", t, e] => some (.tag (hx t) (hx e))
  | _ => none

def parseFilterTok (tok : String) : Option Filter :=
  match tok.splitOn "=" with
  | [_, c] => parseClass c
  | _ => none

def parseRe (tok : String) : Option ((String × String) × Option Bool) :=
  match tok.splitOn ":" with
  | [e, v, r] =>
    if r == "1" then some ((hx e, hx v), some true)
    else if r == "0" then some ((hx e, hx v), some false)
    else if r == "e" then some ((hx e, hx v), none)
    else none
  | _ => none

def mkOracle (tbl : List ((String × String) × Option Bool)) : Oracle := fun e v =>
  match tbl.find? (fun p => p.1 == (e, v)) with
  | some p => p.2
  | none => none

/-- Split the tail of a `q` line into filter tokens and regex-table tokens. -/
def splitFR (toks : List String) : Option (List String × List String) :=
  match toks with
  | "F" :: rest =>
    let fs := rest.takeWhile (· != "R")
    match rest.dropWhile (· != "R") with
    | "R" :: rs => some (fs, rs)
    | _ => none
  | _ => none

structure Impl where
  app : Option (Nat × String)
  acks : List String
  rb : Nat

def parseImpl (impl : String) : Option Impl :=
  match impl.splitOn " " with
  | [a, k, r, _] =>
    if !(a.startsWith "app=" && k.startsWith "ack=" && r.startsWith "rb=") then none else
    let ab := String.ofList (a.toList.drop 4)
    let kb := String.ofList (k.toList.drop 4)
    let rbv := (String.ofList (r.toList.drop 3)).toNat?
    let app : Option (Option (Nat × String)) :=
      if ab == "-" then some none else
      match ab.splitOn "/" with
      | [t, n] => t.toNat?.map fun tn => some (tn, n)
      | _ => none
    match app, rbv with
    | some ap, some rb => some { app := ap, acks := if kb == "-" then [] else kb.splitOn ",", rb := rb }
    | _, _ => none
  | _ => none

/-- The property, judged on one query operation of the implementation. -/
def monitorQ (s : St) (re : Oracle) (q : QueryMsg) (nameTok : String) (im : Impl) : St × Option (String × String) :=
  let key := (q.lt.toNat, q.id)
  let clk' := if key.1 + 1 > s.clk then key.1 + 1 else s.clk
  let wrapNow := s.wrapSeen || key.1 == maxW
  let seenBefore := s.received.contains key
  let fresh := !seenBefore && key.1 + s.n ≥ clk' && !wrapNow
  let sel := q.filters.all (passes re s.cfg)
  let internal := nameTok.startsWith internalHex
  let appD := im.app.isSome
  let expectAck := s!"{key.1}/{q.id}/{unhx s.cfg.name}/1"
  let fail (k m : String) : Option (String × String) := some (k, m)
  let verdict : Option (String × String) :=
    if appD && internal then fail "internal-leaked" "a query with the internal name prefix reached the application"
    else if im.app.isSome && im.app != some (key.1, nameTok) then fail "wrong-delivery" "the delivered query is not the one received"
    else if (appD || !im.acks.isEmpty) && !sel then fail "filter-bypassed" "delivered or acknowledged although a filter does not select this node"
    else if appD && s.deliveredApp.contains key then
      fail (if s.wrapSeen then "redelivery-after-wrap" else "query-redelivered") s!"query {key.1}/{q.id} reached the application a second time"
    else if fresh && sel && !internal && !appD then fail "selected-not-delivered" "first-time query inside the window selected by all filters was not delivered"
    else if !im.acks.isEmpty && !q.ack then fail "ack-unasked" "acknowledged although the ack flag is not set"
    else if im.acks.length > 1 then fail "ack-twice" "more than one ack for one query message"
    else if !im.acks.isEmpty && im.acks != [expectAck] then fail "ack-malformed" s!"ack {im.acks} is not {expectAck}"
    else if !im.acks.isEmpty && seenBefore && !s.wrapSeen then fail "ack-twice" "a duplicate of a query was acknowledged again"
    else if fresh && sel && q.ack && im.acks.isEmpty then fail "ack-missing" "selected first-time query with the ack flag was not acknowledged"
    else if !internal && !im.acks.isEmpty && !appD then fail "ack-without-delivery" "acknowledged but not delivered"
    else if im.rb > 0 && q.noBroadcast then fail "rebroadcast-disabled-ignored" "re-broadcast although the query disables it"
    else if im.rb > 1 then fail "rebroadcast-multiple" "queued more than one re-broadcast"
    else if im.rb > 0 && s.rebroadcast.contains key then
      fail (if s.wrapSeen then "redelivery-after-wrap" else "rebroadcast-twice") s!"query {key.1}/{q.id} was re-broadcast a second time"
    else if fresh && !q.noBroadcast && im.rb == 0 then fail "rebroadcast-missing" "first-time query inside the window was not re-broadcast"
    else none
  let s' := { s with received := key :: s.received,
                     deliveredApp := if appD then key :: s.deliveredApp else s.deliveredApp,
                     rebroadcast := if im.rb > 0 then key :: s.rebroadcast else s.rebroadcast,
                     clk := clk', wrapSeen := wrapNow }
  (s', verdict)

def step (s : St) (op : List String) (impl : String) : LineOut St :=
  match op, s.buf with
  | ["cfg", n, name, tags], none =>
    match n.toNat?, parseTags tags with
    | some N, some tg =>
      if N == 0 || name == "-" then { state := s, model := some "bad-op" } else
      { state := { s with buf := some (Buf.init N), n := N, cfg := { name := hx name, tags := tg } }, model := some "ok" }
    | _, _ => { state := s, model := some "bad-op" }
  | ["tags", tags], some _ =>
    -- `SetTags` on the SAME node: later queries are judged against the tags now in effect
    match parseTags tags with
    | some tg => { state := { s with cfg := { s.cfg with tags := tg } }, model := some "ok" }
    | none => { state := s, model := some "bad-op" }
  | "q" :: lt :: id :: flags :: name :: rest, some b =>
    match lt.toNat?, id.toNat?, flags.toNat?, splitFR rest with
    | some t, some qid, some fl, some (ftoks, rtoks) =>
      match ftoks.mapM parseFilterTok, rtoks.mapM parseRe with
      | some filters, some tbl =>
        if t ≥ 2 ^ 64 then { state := s, model := some "bad-op" } else
        let re := mkOracle tbl
        let q : QueryMsg := { lt := BitVec.ofNat 64 t, id := qid, flags := fl, name := hx name, filters := filters }
        let (b', o) := handleQuery re s.cfg b q
        -- what `serfQueries.stream` forwards of the node's event channel (real name, not hex)
        let chan : List AppEv := if o.delivered then [.query q.lt ((stringOfHex? name).getD "")] else []
        -- routed by the shape regenerated from serf/internal_query.go (= `forwardedToApp`, C08_forwarded_is_route)
        let fwd := chan.filter fun e => match e with
          | .query _ nm => route SerfModel.Gen.InternalQueries.stream SerfModel.Gen.InternalQueries.switch true nm == .app
          | .other _ => true
        let app := if fwd.isEmpty then "-" else s!"{t}/{name}"
        let ack := if o.acked then s!"{t}/{qid}/{unhx s.cfg.name}/1" else "-"
        let out := s!"app={app} ack={ack} rb={if o.rebroadcast then 1 else 0} clk={b'.clock.toNat}"
        let s1 := { s with buf := some b' }
        match parseImpl impl with
        | none => { state := s1, model := some out, monitor := some ("malformed", impl) }
        | some im =>
          let (s2, v) := monitorQ s1 re q name im
          { state := s2, model := some out, monitor := v }
      | _, _ => { state := s, model := some "bad-op" }
    | _, _, _, _ => { state := s, model := some "bad-op" }
  | _, _ => { state := s, model := some "bad-op" }

def checker : Checker := { σ := St, init := {}, step := step }

end SerfModel.Check.C08
