import SerfModel.Check.Core
import SerfModel.Model.Codec
/-!
C32 checker.  Tokens: byte strings hex (`-` empty), `n` = Go nil, `_` = empty
container, lists `,`-separated, numbers decimal, booleans `t`/`f`.

  enc <kind> <fields…>        => <hex of encodeMessage/encodeFilter> <fields Go decoded from those bytes | err>
  dec <kind> <hex>            => ok <fields> | err          (hex WITHOUT the leading type byte)
  tags <proto> <tags>         => <hex of encodeTags> <decodeTags of it, sorted>
  dectags <hex>               => <decodeTags, sorted>
  relayenc <ip> <port> <zone> <name> <qresp fields…>   => <hex of encodeRelayMessage>
  relay <ip> <port> <zone> <name> <qresp fields…>      => <relay hex> <hex of encodeMessage(qresp)> <bytes the
                                                         destination received through the real NotifyMsg | none>
  meta <proto> <tags>         => acc|rej <len(encodeTags)>   (real SetTags on a live node)

kinds: join leave userevent query qresp pushpull filternode filtertag.
The model's output must be byte-identical.  Go map iteration order is an oracle:
for `tags` and `enc pushpull` the model encodes the entries in the order found in the
implementation's bytes (when that is a permutation of the input), so the comparison
stays byte-exact.

MONITOR (on the implementation's own outputs, no model involved):
  * enc: the fields Go decoded equal the fields that were encoded             key roundtrip-<kind>
  * tags: proto ≥ 3 → decoded = input; proto < 3 → decoded = {role ↦ input role}
          (role starting with 0xFF on proto < 3 → key role-ff-proto2; anything else → tags-roundtrip)
  * relay: the destination received exactly encodeMessage(qresp), and the relay
           message ends with those bytes                                      key relay-exact
  * meta: accepted ⇔ encoded length ≤ 512                                     key meta-limit
  * any `PANIC` output                                                        key codec-panic
-/
namespace SerfModel.Check.C32
open SerfModel SerfModel.Check SerfModel.Msgpack SerfModel.Codec

/-! ### tokens -/

def showOB : Option Bytes → String
  | none => "n"
  | some b => hexOfBytes b

def parseOB (s : String) : Option (Option Bytes) :=
  if s == "n" then some none else (bytesOfHex? s).map some

def showBool (b : Bool) : String := if b then "t" else "f"
def parseBool (s : String) : Option Bool := if s == "t" then some true else if s == "f" then some false else none

def parseInt (s : String) : Option Int :=
  if s.startsWith "-" then (String.ofList (s.toList.drop 1)).toNat?.map (fun n => -(n : Int))
  else s.toNat?.map (fun n => (n : Int))

def showList {α} (sep : String) (f : α → String) : Option (List α) → String
  | none => "n"
  | some [] => "_"
  | some xs => sep.intercalate (xs.map f)

def parseList {α} (sep : String) (p : String → Option α) (s : String) : Option (Option (List α)) :=
  if s == "n" then some none
  else if s == "_" then some (some [])
  else ((s.splitOn sep).mapM p).map some

def showKV (p : Bytes × Nat) : String := s!"{hexOfBytes p.1}:{p.2}"
def parseKV (s : String) : Option (Bytes × Nat) :=
  match s.splitOn ":" with
  | [k, v] => match bytesOfHex? k, v.toNat? with
    | some kb, some n => some (kb, n)
    | _, _ => none
  | _ => none

def showTag (p : Bytes × Bytes) : String := s!"{hexOfBytes p.1}:{hexOfBytes p.2}"
def parseTag (s : String) : Option (Bytes × Bytes) :=
  match s.splitOn ":" with
  | [k, v] => match bytesOfHex? k, bytesOfHex? v with
    | some kb, some vb => some (kb, vb)
    | _, _ => none
  | _ => none

def insertSorted (s : String) : List String → List String
  | [] => [s]
  | x :: xs => if s ≤ x then s :: x :: xs else x :: insertSorted s xs
def sortStrings (l : List String) : List String := l.foldr insertSorted []

def showSortedList {α} (f : α → String) : Option (List α) → String
  | none => "n"
  | some [] => "_"
  | some xs => ",".intercalate (sortStrings (xs.map f))

def showUEvent (e : UEvent) : String := s!"{hexOfBytes e.name}:{showOB e.payload}"
def parseUEvent (s : String) : Option UEvent :=
  match s.splitOn ":" with
  | [a, b] => match bytesOfHex? a, parseOB b with
    | some n, some p => some { name := n, payload := p }
    | _, _ => none
  | _ => none

def showUEvents : Option UEvents → String
  | none => "n"
  | some e => s!"{e.ltime}/{showList "|" showUEvent e.events}"
def parseUEvents (s : String) : Option (Option UEvents) :=
  if s == "n" then some none else
  match s.splitOn "/" with
  | [a, b] => match a.toNat?, parseList "|" parseUEvent b with
    | some lt, some evs => some (some { ltime := lt, events := evs })
    | _, _ => none
  | _ => none

/-! ### kinds -/

/-- canonical field tokens of each kind (maps sorted) -/
def showJoin (m : Join) : String := s!"{m.ltime} {hexOfBytes m.node}"
def showLeave (m : Leave) : String := s!"{m.ltime} {hexOfBytes m.node} {showBool m.prune}"
def showUserEv (m : UserEv) : String := s!"{m.ltime} {hexOfBytes m.name} {showOB m.payload} {showBool m.cc}"
def showQuery (m : Query) : String :=
  s!"{m.ltime} {m.id} {showOB m.addr} {m.port} {hexOfBytes m.sourceNode} {showList "," showOB m.filters} {m.flags} {m.relayFactor} {m.timeout} {hexOfBytes m.name} {showOB m.payload}"
def showQResp (m : QueryResp) : String := s!"{m.ltime} {m.id} {hexOfBytes m.from_} {m.flags} {showOB m.payload}"
def showPushPull (m : PushPull) : String :=
  s!"{m.ltime} {showSortedList showKV m.statusLTimes} {showList "," hexOfBytes m.leftMembers} {m.eventLTime} {showList ";" showUEvents m.events} {m.queryLTime}"
def showFilterNode (m : FilterNode) : String := showList "," hexOfBytes m
def showFilterTag (m : FilterTag) : String := s!"{hexOfBytes m.tag} {hexOfBytes m.expr}"

def parseJoin : List String → Option Join
  | [a, b] => match a.toNat?, bytesOfHex? b with
    | some lt, some n => some { ltime := lt, node := n }
    | _, _ => none
  | _ => none
def parseLeave : List String → Option Leave
  | [a, b, c] => match a.toNat?, bytesOfHex? b, parseBool c with
    | some lt, some n, some p => some { ltime := lt, node := n, prune := p }
    | _, _, _ => none
  | _ => none
def parseUserEv : List String → Option UserEv
  | [a, b, c, d] => match a.toNat?, bytesOfHex? b, parseOB c, parseBool d with
    | some lt, some n, some p, some cc => some { ltime := lt, name := n, payload := p, cc := cc }
    | _, _, _, _ => none
  | _ => none
def parseQuery : List String → Option Query
  | [a, b, c, d, e, f, g, h, i, j, k] =>
    match a.toNat?, b.toNat?, parseOB c, d.toNat?, bytesOfHex? e, parseList "," parseOB f with
    | some lt, some id, some addr, some port, some src, some fl =>
      match g.toNat?, h.toNat?, parseInt i, bytesOfHex? j, parseOB k with
      | some flags, some rf, some to, some nm, some pl =>
        some { ltime := lt, id := id, addr := addr, port := port, sourceNode := src, filters := fl, flags := flags,
               relayFactor := rf, timeout := to, name := nm, payload := pl }
      | _, _, _, _, _ => none
    | _, _, _, _, _, _ => none
  | _ => none
def parseQResp : List String → Option QueryResp
  | [a, b, c, d, e] => match a.toNat?, b.toNat?, bytesOfHex? c, d.toNat?, parseOB e with
    | some lt, some id, some fr, some fl, some p => some { ltime := lt, id := id, from_ := fr, flags := fl, payload := p }
    | _, _, _, _, _ => none
  | _ => none
def parsePushPull : List String → Option PushPull
  | [a, b, c, d, e, f] =>
    match a.toNat?, parseList "," parseKV b, parseList "," bytesOfHex? c, d.toNat?, parseList ";" parseUEvents e, f.toNat? with
    | some lt, some st, some left, some elt, some evs, some qlt =>
      some { ltime := lt, statusLTimes := st, leftMembers := left, eventLTime := elt, events := evs, queryLTime := qlt }
    | _, _, _, _, _, _ => none
  | _ => none
def parseFilterNode : List String → Option FilterNode
  | [a] => parseList "," bytesOfHex? a
  | _ => none
def parseFilterTag : List String → Option FilterTag
  | [a, b] => match bytesOfHex? a, bytesOfHex? b with
    | some t, some e => some { tag := t, expr := e }
    | _, _ => none
  | _ => none

def showR {α} (f : α → String) : R α → Option String
  | .ok a => some ("ok " ++ f a)
  | .err => some "err"
  | .exotic => none

/-- model decode of a body (no type byte) for a kind → canonical output; `none` = not compared -/
def decKind (kind : String) (body : Bytes) : Option (Option String) :=
  let buf : Bytes := 0 :: body
  match kind with
  | "join" => some (showR showJoin (decodeBody Join.ofMP buf))
  | "leave" => some (showR showLeave (decodeBody Leave.ofMP buf))
  | "userevent" => some (showR showUserEv (decodeBody UserEv.ofMP buf))
  | "query" => some (showR showQuery (decodeBody Query.ofMP buf))
  | "qresp" => some (showR showQResp (decodeBody QueryResp.ofMP buf))
  | "pushpull" => some (showR showPushPull (decodeBody PushPull.ofMP buf))
  | "filternode" => some (showR showFilterNode (decodeBody FilterNode.ofMP buf))
  | "filtertag" => some (showR showFilterTag (decodeBody FilterTag.ofMP buf))
  | _ => none

/-- reorder an association list like `order` when that is a permutation of its keys -/
def reorderLike {β} (input : List (Bytes × β)) (order : List Bytes) : List (Bytes × β) :=
  if order.length != input.length then input else
  match order.mapM (fun k => (input.find? (·.1 == k))) with
  | some l => if input.all (fun p => order.contains p.1) then l else input
  | none => input

/-- (type byte, body) of a kind given its field tokens; for pushpull the map order follows `implBody` -/
def encKind (kind : String) (toks : List String) (implBody : Bytes) : Option (UInt8 × MP × String) :=
  match kind with
  | "join" => (parseJoin toks).map fun m => (1, m.toMP, showJoin m)
  | "leave" => (parseLeave toks).map fun m => (0, m.toMP, showLeave m)
  | "userevent" => (parseUserEv toks).map fun m => (3, m.toMP, showUserEv m)
  | "query" => (parseQuery toks).map fun m => (4, m.toMP, showQuery m)
  | "qresp" => (parseQResp toks).map fun m => (5, m.toMP, showQResp m)
  | "pushpull" => (parsePushPull toks).map fun m =>
      let order : List Bytes :=
        match decodeBody PushPull.ofMP (0 :: implBody) with
        | .ok im => (im.statusLTimes.getD []).map (·.1)
        | _ => []
      let m' := { m with statusLTimes := m.statusLTimes.map fun kvs => reorderLike kvs order }
      (2, m'.toMP, showPushPull m)
  | "filternode" => (parseFilterNode toks).map fun m => (0, FilterNode.toMP m, showFilterNode m)
  | "filtertag" => (parseFilterTag toks).map fun m => (1, m.toMP, showFilterTag m)
  | _ => none

def parseTags (s : String) : Option (Option Tags) := parseList "," parseTag s
def showTags (t : Tags) : String := showSortedList showTag (some t)

def firstTok (s : String) : String := (s.splitOn " ").headD ""
def restToks (s : String) : String := " ".intercalate ((s.splitOn " ").drop 1)

def parseHdr (a b c d : String) : Option RelayHdr :=
  match parseOB a, parseInt b, bytesOfHex? c, bytesOfHex? d with
  | some ip, some port, some zone, some nm => some { ip := ip, port := port, zone := zone, destName := nm }
  | _, _, _, _ => none

def isSuffix (s l : Bytes) : Bool := s.length ≤ l.length && l.drop (l.length - s.length) == s

def panicMon (impl : String) : Option (String × String) :=
  if impl.startsWith "PANIC" then some ("codec-panic", impl) else none

def stepStateless (_ : Unit) (op : List String) (impl : String) : LineOut Unit :=
  match op with
  | "enc" :: kind :: toks =>
    let implBody : Bytes := ((bytesOfHex? (firstTok impl)).getD []).drop 1
    match encKind kind toks implBody with
    | none => { state := (), model := some "bad-op" }
    | some (t, body, canon) =>
      let bytes := encodeMessage t body
      let back := match decKind kind (bytes.drop 1) with
        | some (some s) => if s.startsWith "ok " then String.ofList (s.toList.drop 3) else s
        | _ => "err"
      let mon :=
        match panicMon impl with
        | some m => some m
        | none =>
          if restToks impl == canon then none
          else some ("roundtrip-" ++ kind, s!"encoded {canon} but the receiver decodes {restToks impl}")
      { state := (), model := some s!"{hexOfBytes bytes} {back}", monitor := mon }
  | ["dec", kind, hex] =>
    match bytesOfHex? hex with
    | none => { state := (), model := some "bad-op" }
    | some body =>
      if body.any exoticByte then { state := (), model := none, monitor := panicMon impl } else
      match decKind kind body with
      | none => { state := (), model := some "bad-op" }
      | some r => { state := (), model := r, monitor := panicMon impl }
  | ["tags", p, tg] =>
    match p.toNat?, parseTags tg with
    | some proto, some tags =>
      let implBytes := (bytesOfHex? (firstTok impl)).getD []
      let order := (decodeTags implBytes).1.map (·.1)
      let tags' := tags.map fun t => reorderLike t order
      let bytes := encodeTags proto tags'
      let (dt, _) := decodeTags bytes
      let expected : Tags := if proto < 3 then [(kRole, tagLookup (tags.getD []) kRole)] else tags.getD []
      let mon :=
        match panicMon impl with
        | some m => some m
        | none =>
          if restToks impl == showTags expected then none
          else if proto < 3 && (tagLookup (tags.getD []) kRole).head? == some 255 then
            some ("role-ff-proto2", s!"protocol {proto} role {hexOfBytes (tagLookup (tags.getD []) kRole)} decodes as {restToks impl}")
          else some ("tags-roundtrip", s!"tags {showTags expected} decode as {restToks impl}")
      { state := (), model := some s!"{hexOfBytes bytes} {showTags dt}", monitor := mon }
    | _, _ => { state := (), model := some "bad-op" }
  | ["dectags", hex] =>
    match bytesOfHex? hex with
    | none => { state := (), model := some "bad-op" }
    | some buf =>
      let (dt, clean) := decodeTags buf
      if buf.any exoticByte || !clean then { state := (), model := none, monitor := panicMon impl }
      else { state := (), model := some (showTags dt), monitor := panicMon impl }
  | "relayenc" :: a :: b :: c :: d :: toks =>
    match parseHdr a b c d, parseQResp toks with
    | some hdr, some m => { state := (), model := some (hexOfBytes (encodeRelay hdr 5 m.toMP)), monitor := panicMon impl }
    | _, _ => { state := (), model := some "bad-op" }
  | "relay" :: a :: b :: c :: d :: toks =>
    match parseHdr a b c d, parseQResp toks with
    | some hdr, some m =>
      let relay := encodeRelay hdr 5 m.toMP
      let direct := encodeMessage 5 m.toMP
      let fwd := match relayForward relay with
        | .ok (_, raw) => hexOfBytes raw
        | _ => "none"
      let mon :=
        match panicMon impl with
        | some x => some x
        | none =>
          match impl.splitOn " " with
          | [r, dct, f] =>
            if f == dct && (match bytesOfHex? r, bytesOfHex? dct with
                            | some rb, some db => isSuffix db rb
                            | _, _ => false) then none
            else some ("relay-exact", s!"destination received {f}, the reply was {dct}")
          | _ => some ("relay-exact", "malformed output " ++ impl)
      { state := (), model := some s!"{hexOfBytes relay} {hexOfBytes direct} {fwd}", monitor := mon }
    | _, _ => { state := (), model := some "bad-op" }
  | ["metaeff", p, tg] =>
    -- impl: `<advertised meta before> <advertised meta after> <acc|rej>`; judged by the monitor only:
    -- a refused tag set leaves the advertised meta data unchanged, an accepted one is what is advertised
    match p.toNat?, parseTags tg with
    | some proto, some tags =>
      let expected : Tags := if proto < 3 then [(kRole, tagLookup (tags.getD []) kRole)] else tags.getD []
      let enc := showTags expected
      let mon :=
        match panicMon impl with
        | some x => some x
        | none =>
          match impl.splitOn " " with
          | [prev, adv, v] =>
            if prev == "PANIC-NodeMeta" || adv == "PANIC-NodeMeta" then
              some ("meta-unadvertisable", "the node can no longer produce its meta data (tags in effect exceed the limit)")
            else if v == "rej" && prev != adv then some ("meta-refused-but-applied", "a refused tag set changed the advertised meta data")
            else if v == "acc" && adv != enc then some ("meta-accepted-not-advertised", "an accepted tag set is not what the node advertises")
            else if v != "acc" && v != "rej" then some ("meta-limit", "malformed output " ++ impl)
            else none
          | _ => some ("meta-limit", "malformed output " ++ impl)
      { state := (), model := none, monitor := mon }
    | _, _ => { state := (), model := some "bad-op" }
  | ["meta", p, tg] =>
    match p.toNat?, parseTags tg with
    | some proto, some tags =>
      let len := (encodeTags proto tags).length
      let verdict := if tagsAccepted proto tags then "acc" else "rej"
      let mon :=
        match panicMon impl with
        | some x => some x
        | none =>
          match impl.splitOn " " with
          | [v, l] =>
            match l.toNat? with
            | some n => if (v == "acc") == (decide (n ≤ 512)) && (v == "acc" || v == "rej") then none
                        else some ("meta-limit", s!"tags of encoded length {n}: {v}")
            | none => some ("meta-limit", "malformed output " ++ impl)
          | _ => some ("meta-limit", "malformed output " ++ impl)
      { state := (), model := some s!"{verdict} {len}", monitor := mon }
    | _, _ => { state := (), model := some "bad-op" }
  | _ => { state := (), model := some "bad-op" }

/-! ### a member's life as seen by a receiver (real memberlist event delegate of a real node)

  mjoin <name> <senderProto> <tags>    NotifyJoin with Meta = the sender's real encodeTags(tags)
  mupdate <name> <senderProto> <tags>  NotifyUpdate with the new Meta
  mleave <name> <t|f graceful>         (leave intent first when graceful, then) NotifyLeave
      => <status> <Members()[name].Tags, sorted>     | none (unknown member)

Model: the receiver shows the decode of the LATEST meta it was given for that member and
nothing else (C32_tags_v3 / C32_tags_v2_partial); a leave does not touch the tags.
MONITOR (own bookkeeping of what each member last announced): the shown tags equal the
tags the member last encoded (protocol ≥ 3: all of them; before: its role)   key tags-not-latest-meta -/

structure MemberView where
  name : Bytes
  status : String
  tags : Tags

structure St where
  /-- model: the receiver's member table -/
  members : List MemberView := []
  /-- monitor: what each member last announced (expected tags at any receiver) -/
  announced : List (Bytes × Tags) := []
  deriving Inhabited

def setMember (ms : List MemberView) (m : MemberView) : List MemberView :=
  if ms.any (·.name == m.name) then ms.map (fun x => if x.name == m.name then m else x) else ms ++ [m]

def expectedAt (proto : Nat) (tags : Option Tags) : Tags :=
  if proto < 3 then [(kRole, tagLookup (tags.getD []) kRole)] else tags.getD []

def sortedTagTokens (t : Tags) : String := showTags t

def lifeMonitor (announced : List (Bytes × Tags)) (name : Bytes) (impl : String) : Option (String × String) :=
  match panicMon impl with
  | some m => some m
  | none =>
    match announced.find? (·.1 == name) with
    | none => if impl == "none" then none else some ("tags-not-latest-meta", s!"a member that never joined is shown as {impl}")
    | some (_, exp) =>
      let shown := restToks impl
      if shown == showTags exp then none
      else if (tagLookup exp kRole).head? == some 255 && exp.length == 1 then
        some ("role-ff-proto2", s!"role {hexOfBytes (tagLookup exp kRole)} is shown as {shown}")
      else some ("tags-not-latest-meta", s!"member {hexOfBytes name} last announced {showTags exp} but the receiver shows {shown}")

def step (s : St) (op : List String) (impl : String) : LineOut St :=
  match op with
  | [kind, n, p, tg] =>
    if kind == "mjoin" || kind == "mupdate" then
      match bytesOfHex? n, p.toNat?, parseTags tg with
      | some name, some proto, some tags =>
        let known := s.members.find? (·.name == name)
        if kind == "mupdate" && known.isNone then
          { state := s, model := some "none", monitor := lifeMonitor s.announced name impl }
        else
          let shown := (decodeTags (encodeTags proto tags)).1
          let status := if kind == "mjoin" then "alive" else (known.map (·.status)).getD "alive"
          let ann := (s.announced.filter (fun q => !(q.1 == name))) ++ [(name, expectedAt proto tags)]
          { state := { members := setMember s.members ⟨name, status, shown⟩, announced := ann },
            model := some s!"{status} {showTags shown}", monitor := lifeMonitor ann name impl }
      | _, _, _ => { state := s, model := some "bad-op" }
    else
      let r := stepStateless () op impl
      { state := s, model := r.model, monitor := r.monitor }
  | ["mleave", n, g] =>
    match bytesOfHex? n with
    | some name =>
      match s.members.find? (·.name == name) with
      | none => { state := s, model := some "none", monitor := lifeMonitor s.announced name impl }
      | some m =>
        let status := if m.status == "alive" then (if g == "t" then "left" else "failed") else m.status
        { state := { s with members := setMember s.members { m with status := status } },
          model := some s!"{status} {showTags m.tags}", monitor := lifeMonitor s.announced name impl }
    | none => { state := s, model := some "bad-op" }
  | _ =>
    let r := stepStateless () op impl
    { state := s, model := r.model, monitor := r.monitor }

def checker : Checker := { σ := St, init := {}, step := step }

end SerfModel.Check.C32
