import SerfModel.Check.Core
import SerfModel.Model.Pipeline
/-!
C16 checker.  One case = one REAL serf node (serf.Create) in one configuration.

  `cfg <snapshot> <usercoalesce> <membercoalesce>`   create the node          → `emit join/<self>/0`
  `join <name> <ver>`     eventDelegate.NotifyJoin                             → `emit <kind>/<name>/<ver>` | `emit -`
  `leave <name>`          eventDelegate.NotifyLeave                            → same
  `update <name> <ver>`   eventDelegate.NotifyUpdate                           → same
  `intent <name>`         delegate.NotifyMsg(leave intent, next Lamport time)  → same
  `burst <name> <n> <v0>` n NotifyUpdate in a row, versions v0…               → `emitn <k>` (k = n or 0)
  `race <name> <mode> <ver>`  TWO goroutines on the same member: A = a memberlist notification, held at
                          the metrics call that precedes its event send; B = a gossiped leave intent sent
                          while A is held.  mode `fail-intent`: A = NotifyLeave of a live member (alive→failed),
                          B makes it failed→left.  mode `update-intent`: A = NotifyUpdate of a failed member.
                          The status history is A's change then B's → `emit <A's event>,<leave event>` | `emit -`
  `raceloop <name> <rounds>`  per round: NotifyJoin, then NotifyLeave and a leave intent from two goroutines
                          with nothing held; → `rounds <r> bad <b> first <kinds of the first bad round>`: a round is
                          bad when the kinds received for it are not an in-order part of join,failed,leave ending in leave
  `prune <name>` / `forceprune <name>`  a leave intent with the Prune flag, gossiped (delegate.NotifyMsg) or
                          local (Serf.RemoveFailedNodePrune): the member is erased; a failed member first
                          becomes left → `emit leave/…,reap/…`; otherwise `emit reap/…` | `emit -` (unknown)
  `uev <name> <c|n> <id>` Serf.UserEvent                                       → `ok`
  `query <0|1> <id>`      Serf.Query (1 = internal `_serf_ping`)               → `ok`
  `pause` / `resume`      the application stops / resumes reading EventCh      → `ok`
  `wait`                  wait until EventCh is quiet                          → `recv <items in arrival order>`
  `shutdown`              Serf.Shutdown, then wait until quiet                 → `recv <items>`
  `end`                                                                        → `members <name>:<status>,…` (sorted)

The `emit` outputs are the status changes the harness caused, as observed on the real
node (Members() before/after); the model side is a small table of the handlers'
emission rules.  `recv` is compared with the pipeline model run on the same emitted
history where the outcome does not depend on timing (no coalescing, or at most one
event since the previous quiet point; no pause, no shutdown); otherwise `model := none`.

MONITOR (on the implementation's outputs only): per member, everything received so
far is a subsequence of everything emitted so far; at a quiet point with no drops the
last received kind per member equals the last emitted kind; at `end` (directly after a
quiet point, nothing dropped) the status inside the last record delivered for each member
matches the member's status (alive → leaving is the one change without an event).
-/
namespace SerfModel.Check.C16
open SerfModel SerfModel.Check SerfModel.MemberCoalesce SerfModel.UserCoalesce SerfModel.Pipeline

inductive Status where
  | alive | leaving | left | failed
  deriving DecidableEq, Repr

def Status.toString : Status → String
  | .alive => "alive" | .leaving => "leaving" | .left => "left" | .failed => "failed"

def Status.code : Status → Nat
  | .alive => 0 | .leaving => 1 | .left => 2 | .failed => 3

/-- identity of the member record carried by an event: 4 * version + status inside the record -/
def recV (ver : Nat) (st : Status) : Nat := 4 * ver + st.code

def statusOfV (v : Nat) : String :=
  match v % 4 with | 0 => "alive" | 1 => "leaving" | 2 => "left" | _ => "failed"

structure St where
  started : Bool := false
  cfg : Cfg := ⟨false, false, false⟩
  /-- model: handler table — member ↦ (status, version) and buffered leave intents -/
  members : List (String × (Status × Nat)) := []
  intents : List String := []
  /-- model: the pipeline -/
  pipe : Pipe := { todo := [], stages := [] }
  nuser : Nat := 0
  /-- events put into the pipeline since the last quiet point -/
  sinceWait : Nat := 0
  /-- timing-dependent from here on (paused reader or shutdown seen) -/
  lossy : Bool := false
  paused : Bool := false
  down : Bool := false
  /-- monitor: what the implementation said it emitted / delivered -/
  emitted : List MEv := []
  received : List MEv := []
  /-- members whose events were consumed (and judged) inside a `raceloop` op -/
  exempt : List String := []

instance : Inhabited St := ⟨{}⟩

def showM (e : MEv) : String := s!"{e.kind.toString}/{hexOfString e.name}/{e.ver}"

def showP : PEv → String
  | .member e => showM e
  | .user u => s!"u/{hexOfString u.name}/{u.id}"
  | .query _ id => s!"q/{id}"

def showList (l : List String) : String := if l.isEmpty then "-" else ",".intercalate l

def parseItem (s : String) : Option PEv :=
  match s.splitOn "/" with
  | ["q", i] => i.toNat?.map (PEv.query false)
  | ["u", n, i] => match stringOfHex? n, i.toNat? with
    | some name, some id => some (.user ⟨name, 0, false, id⟩)
    | _, _ => none
  | [k, n, v] => match Kind.ofString? k, stringOfHex? n, v.toNat? with
    | some kind, some name, some ver => some (.member ⟨kind, name, ver⟩)
    | _, _, _ => none
  | _ => none

def parseItems (s : String) : Option (List PEv) :=
  if s == "-" then some [] else (s.splitOn ",").mapM parseItem

def membersOf (l : List PEv) : List MEv :=
  l.filterMap (fun e => match e with | .member x => some x | _ => none)

def isSublist : List MEv → List MEv → Bool
  | [], _ => true
  | _ :: _, [] => false
  | a :: as, b :: bs => if a == b then isSublist as bs else isSublist (a :: as) bs

def forM (m : String) (l : List MEv) : List MEv := l.filter (·.name == m)

def lastKindM (m : String) (l : List MEv) : Option Kind := (forM m l).getLast?.map (·.kind)

/-- subsequence per member, on the implementation's own record -/
def monitorOrder (emitted received : List MEv) : Option (String × String) :=
  let names := (received.map (·.name)).eraseDups
  match names.find? (fun m => !isSublist (forM m received) (forM m emitted)) with
  | none => none
  | some m =>
    let r := forM m received
    let e := forM m emitted
    if r.any (fun x => !e.contains x) then
      some ("invented", s!"member {hexOfString m}: received an event that was never emitted for it")
    else if r.eraseDups.length != r.length && e.eraseDups.length == e.length then
      some ("duplicate", s!"member {hexOfString m}: an event was delivered more than once")
    else some ("reordered", s!"member {hexOfString m}: events received out of the order they happened")

def monitorLast (emitted received : List MEv) : Option (String × String) :=
  let names := (emitted.map (·.name)).eraseDups
  match names.find? (fun m => lastKindM m received != lastKindM m emitted) with
  | none => none
  | some m => some ("last-mismatch", s!"member {hexOfString m}: pipeline quiet, nothing dropped, but the last event received does not match the last status change")

/-! model side -/

def emitModel (s : St) (e : Option MEv) : St × String :=
  match e with
  | none => (s, "emit -")
  | some x =>
    ({ s with pipe := { s.pipe with todo := s.pipe.todo ++ [.member x] }, sinceWait := s.sinceWait + 1 }, "emit " ++ showM x)

/-- schedule used at a quiet point: everything emitted, then every stage (upstream first) drains
its queue and, if it is a coalescer, its quiescent timer fires -/
def drainStage (p : Pipe) (k : Nat) : Pipe :=
  let n := match p.stages[k]? with | some sq => sq.2.length | none => 0
  let p := (List.replicate n (Step.at k .take)).foldl Pipe.step p
  p.step (.at k .quiescent)

def drain (p : Pipe) (down : Bool) : Pipe :=
  let p := (List.replicate p.todo.length Step.emit).foldl Pipe.step p
  let idx := (List.range p.stages.length).reverse
  idx.foldl (fun p k => let p := drainStage p k; if down then p.step (.at k .shutdown) else p) p

def statusLine (members : List (String × (Status × Nat))) : String :=
  let items := members.map (fun p => s!"{hexOfString p.1}:{p.2.1.toString}")
  let sorted := items.foldr (fun s acc =>
    let rec ins (s : String) : List String → List String
      | [] => [s]
      | x :: xs => if s ≤ x then s :: x :: xs else x :: ins s xs
    ins s acc) []
  "members " ++ showList sorted

def parseStatuses (s : String) : Option (List (String × String)) :=
  if !s.startsWith "members " then none else
  let body := String.ofList (s.toList.drop 8)
  if body == "-" then some [] else
  (body.splitOn ",").mapM (fun it => match it.splitOn ":" with
    | [n, st] => (stringOfHex? n).map (fun name => (name, st))
    | _ => none)

/-- the status inside the last record delivered vs. the member's status now; the one status change
that has no event is alive → leaving (a leave intent for a live member) -/
def recordMatchesStatus (inRecord now : String) : Bool :=
  inRecord == now || (inRecord == "alive" && now == "leaving")

/-- what the kind of an event says about the member (an update says nothing) -/
def kindMatchesStatus (k : Kind) (now : String) : Bool :=
  match k with
  | .join => now == "alive" || now == "leaving"
  | .leave => now == "left"
  | .failed => now == "failed"
  | _ => false

/-- An event (kind + member record) matches the member's status if its kind denotes that status or
the record inside it shows it.  (Both are needed: an update has no status of its own, and a join
delivered for a member with a buffered leave intent carries a record that says `leaving`.) -/
def monitorStatuses (received : List MEv) (sts : List (String × String)) : Option (String × String) :=
  match sts.find? (fun p =>
      match (forM p.1 received).getLast? with
      | some e => !(recordMatchesStatus (statusOfV e.ver) p.2 || kindMatchesStatus e.kind p.2)
      | none => true) with
  | some p => some ("status-mismatch", s!"member {hexOfString p.1} is {p.2} but the last event delivered for it says otherwise (or none was delivered)")
  | none => none

/-- a member that is no longer in the member list (erased by a prune or the reaper): the last thing
the application heard about it must be its reap -/
def monitorGone (emitted received : List MEv) (sts : List (String × String)) : Option (String × String) :=
  let gone := ((emitted.map (·.name)).eraseDups).filter (fun n => !(sts.any (fun p => p.1 == n)))
  match gone.find? (fun n => lastKindM n received != some .reap) with
  | some n => some ("reaped-mismatch", s!"member {hexOfString n} was erased from the member list, but the last event delivered for it is not its reap")
  | none => none

def recordEmit (s : St) (impl : String) : St × Option (String × String) :=
  if impl == "emit -" then (s, none)
  else if impl.startsWith "emit " then
    match parseItems (String.ofList (impl.toList.drop 5)) with
    | some l =>
      if l.all (fun e => match e with | .member _ => true | _ => false) then
        ({ s with emitted := s.emitted ++ membersOf l }, none)
      else (s, some ("malformed", impl))
    | none => (s, some ("malformed", impl))
  else (s, some ("malformed", impl))

def step (s : St) (op : List String) (impl : String) : LineOut St :=
  let bad : LineOut St := { state := s, model := some "bad-op" }
  let memberOp (s : St) (e : Option MEv) : LineOut St :=
    let (s1, out) := emitModel s e
    let (s2, mon) := recordEmit s1 impl
    { state := s2, model := some out, monitor := mon }
  let memberOp2 (s : St) (e1 e2 : MEv) : LineOut St :=
    let (s1, _) := emitModel s (some e1)
    let (s2, _) := emitModel s1 (some e2)
    let (s3, mon) := recordEmit s2 impl
    { state := s3, model := some ("emit " ++ showM e1 ++ "," ++ showM e2), monitor := mon }
  match op with
  | ["race", n, mode, v] =>
    match stringOfHex? n, v.toNat? with
    | some name, some ver =>
      match mode, alookup s.members name with
      | "fail-intent", some (.alive, cur) =>
        memberOp2 { s with members := ainsert s.members name (.left, cur) }
          ⟨.failed, name, recV cur .failed⟩ ⟨.leave, name, recV cur .left⟩
      | "update-intent", some (.failed, _) =>
        memberOp2 { s with members := ainsert s.members name (.left, ver) }
          ⟨.update, name, recV ver .failed⟩ ⟨.leave, name, recV ver .left⟩
      | "fail-intent", _ => memberOp s none
      | "update-intent", _ => memberOp s none
      | _, _ => bad
    | _, _ => bad
  | ["raceloop", n, r] =>
    match stringOfHex? n, r.toNat? with
    | some name, some rounds =>
      -- every round ends with the member `left`; the events of the rounds are consumed by the op itself
      let s1 := { s with members := if rounds == 0 then s.members else ainsert s.members name (.left, rounds),
                         exempt := name :: s.exempt }
      let want := s!"rounds {rounds} bad 0 first -"
      { state := s1, model := some want,
        monitor := if impl == want then none
          else some ("race-order", s!"member {hexOfString name}: with a notification and a leave intent in flight together, events arrived out of status order: {impl}") }
    | _, _ => bad
  | ["cfg", a, b, c] =>
    if s.started then bad else
    match a.toNat?, b.toNat?, c.toNat? with
    | some a, some b, some c =>
      let cfg : Cfg := ⟨a != 0, b != 0, c != 0⟩
      let self : MEv := ⟨.join, "self", recV 0 .alive⟩
      let s0 : St := { s with started := true, cfg := cfg, members := [("self", (.alive, 0))],
                              pipe := initPipe cfg [] }
      memberOp s0 (some self)
    | _, _, _ => bad
  | ["join", n, v] =>
    match stringOfHex? n, v.toNat? with
    | some name, some ver =>
      let st : Status := match alookup s.members name with
        | some _ => .alive
        | none => if s.intents.contains name then .leaving else .alive
      memberOp { s with members := ainsert s.members name (st, ver) } (some ⟨.join, name, recV ver st⟩)
    | _, _ => bad
  | ["leave", n] =>
    match stringOfHex? n with
    | some name =>
      match alookup s.members name with
      | some (.leaving, ver) => memberOp { s with members := ainsert s.members name (.left, ver) } (some ⟨.leave, name, recV ver .left⟩)
      | some (.alive, ver) => memberOp { s with members := ainsert s.members name (.failed, ver) } (some ⟨.failed, name, recV ver .failed⟩)
      | _ => memberOp s none
    | none => bad
  | ["update", n, v] =>
    match stringOfHex? n, v.toNat? with
    | some name, some ver =>
      match alookup s.members name with
      | some (st, _) => memberOp { s with members := ainsert s.members name (st, ver) } (some ⟨.update, name, recV ver st⟩)
      | none => memberOp s none
    | _, _ => bad
  | ["intent", n] =>
    match stringOfHex? n with
    | some name =>
      match alookup s.members name with
      | none => memberOp { s with intents := name :: s.intents } none
      | some (.alive, ver) => memberOp { s with members := ainsert s.members name (.leaving, ver) } none
      | some (.failed, ver) => memberOp { s with members := ainsert s.members name (.left, ver) } (some ⟨.leave, name, recV ver .left⟩)
      | some _ => memberOp s none
    | none => bad
  | [pr, n] =>
    if pr == "prune" || pr == "forceprune" then
      match stringOfHex? n with
      | some name =>
        match alookup s.members name with
        | none => memberOp { s with intents := name :: s.intents } none
        | some (.failed, ver) =>
          memberOp2 { s with members := aerase s.members name }
            ⟨.leave, name, recV ver .left⟩ ⟨.reap, name, recV ver .left⟩
        | some (.left, ver) => memberOp { s with members := aerase s.members name } (some ⟨.reap, name, recV ver .left⟩)
        | some (_, ver) => memberOp { s with members := aerase s.members name } (some ⟨.reap, name, recV ver .leaving⟩)
      | none => bad
    else bad
  | ["burst", n, cnt, v0] =>
    match stringOfHex? n, cnt.toNat?, v0.toNat? with
    | some name, some k, some ver0 =>
      match alookup s.members name with
      | some (st, _) =>
        let evs : List MEv := (List.range k).map (fun i => ⟨.update, name, recV (ver0 + i) st⟩)
        let s1 := { s with members := ainsert s.members name (st, ver0 + k - 1),
                           pipe := { s.pipe with todo := s.pipe.todo ++ evs.map PEv.member },
                           sinceWait := s.sinceWait + k }
        let ok := impl == s!"emitn {k}"
        { state := { s1 with emitted := if ok then s1.emitted ++ evs else s1.emitted }, model := some s!"emitn {k}" }
      | none => { state := s, model := some "emitn 0" }
    | _, _, _ => bad
  | ["uev", n, f, i] =>
    match stringOfHex? n, i.toNat? with
    | some name, some id =>
      let u : UserEv := ⟨name, s.nuser + 1, f == "c", id⟩
      { state := { s with nuser := s.nuser + 1, pipe := { s.pipe with todo := s.pipe.todo ++ [.user u] },
                          sinceWait := s.sinceWait + 1 }, model := some "ok" }
    | _, _ => bad
  | ["query", b, i] =>
    match i.toNat? with
    | some id =>
      { state := { s with pipe := { s.pipe with todo := s.pipe.todo ++ [.query (b == "1") id] },
                          sinceWait := s.sinceWait + 1 }, model := some "ok" }
    | none => bad
  | ["pause"] => { state := { s with paused := true, lossy := true }, model := some "ok" }
  | ["resume"] => { state := { s with paused := false }, model := some "ok" }
  | [w] =>
    if w == "wait" || w == "shutdown" then
      let down := w == "shutdown"
      let p := drain s.pipe (down && !s.down)
      let newly := p.recv
      let lossy := s.lossy || down || s.down
      let deterministic := !lossy && ((!s.cfg.userCoalesce && !s.cfg.memberCoalesce) || s.sinceWait ≤ 1)
      let model := if deterministic then some ("recv " ++ showList (newly.map showP)) else none
      let s1 := { s with pipe := { p with recv := [] }, sinceWait := 0, lossy := lossy, down := s.down || down }
      if !impl.startsWith "recv " then { state := s1, model := model, monitor := some ("malformed", impl) } else
      match parseItems (String.ofList (impl.toList.drop 5)) with
      | none => { state := s1, model := model, monitor := some ("malformed", impl) }
      | some got =>
        let received := s.received ++ membersOf got
        let mon := match monitorOrder s.emitted received with
          | some m => some m
          | none => if lossy || s.paused then none else monitorLast s.emitted received
        { state := { s1 with received := received }, model := model, monitor := mon }
    else if w == "end" then
      let mon := match parseStatuses impl with
        | none => some ("malformed", impl)
        | some sts => if s.lossy || s.sinceWait != 0 then none else (match monitorStatuses s.received (sts.filter (fun p => !s.exempt.contains p.1)) with
            | some m => some m
            | none => monitorGone (s.emitted.filter (fun e => !s.exempt.contains e.name)) s.received sts)
      { state := s, model := some (statusLine s.members), monitor := mon }
    else bad
  | _ => bad

def checker : Checker := { σ := St, init := {}, step := step }

end SerfModel.Check.C16
