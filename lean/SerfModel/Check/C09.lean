import SerfModel.Check.Core
import SerfModel.Model.Handlers
/-!
C09 checker.  `inj <entry> <hex…> => ok`: one network input was handed to a real node's delegate
and the node's process survived it (the harness attributes a dead worker process to the exact
input and reports `CRASH <function>` there).  `alive => serving`: Members/Stats/State still answer
and a fresh user event is still delivered.  `inj closerace <rounds> <lanes> <seed> => ok`: replies were
delivered through NotifyMsg while the application closed the queries early, for that many rounds (a
schedule-dependent search); `send-on-closed-channel round=N` is the panic of the delivering goroutine
(monitor key `crash-send-on-closed`; the skeleton's `site_QueryResponse_send…` sites are the same event).

Model output: for `inj msg`/`inj merge*`/`inj ping`/member metadata/`inj respopen` the control skeleton
`SerfModel.Handlers.handle` is run on the input's bytes with a decoder that rejects everything (the type-byte dispatch and the length
guards are exercised; `Props/C09.lean` proves the outcome is never `.panic` for ANY decoder); the
prediction is `ok` unless the skeleton reaches a `.panic` site.  The monitor judges the
implementation's own output: anything but `ok`/`serving` fails, keyed by the crashing function.
-/
namespace SerfModel.Check.C09
open SerfModel SerfModel.Check SerfModel.Handlers

/-- per case: has the node been created (first real input), and was it created with zero-size buffers -/
structure St where
  started : Bool := false
  zeroBuffers : Bool := false

def skeletonOutcome (inp : Input) : String :=
  match (handle defaultCfg rejectAll initState inp).2 with
  | .panic s => "MODEL-PANIC " ++ s
  | _ => "ok"

/-- a message at Lamport time 2^64-1 on a node whose buffers have the given size: the model's own verdict -/
def wrapOutcome (zero : Bool) (query : Bool) : String :=
  let st : State := if zero then { eventBuf := [], queryBuf := [] } else initState
  let o := if query then
      (handleQuery rejectAll st { ltime := twoPow64 - 1, id := 1, name := [], payload := [], filters := [], ack := false, noBroadcast := false }).2
    else (handleUserEvent st (twoPow64 - 1)).2
  match o with
  | .panic _ => "divide-by-zero"
  | _ => "ok"

def predict (s : St) (op : List String) : String :=
  match op with
  | ["inj", "wrapevent"] => wrapOutcome s.zeroBuffers false
  | ["inj", "wrapquery"] => wrapOutcome s.zeroBuffers true
  | ["inj", "msg", h] =>
    match bytesOfHex? h with
    | some b => skeletonOutcome (.msg (b.map (·.toNat)))
    | none => "bad-op"
  | ["inj", m, h] =>
    if m == "merge0" || m == "merge1" then
      match bytesOfHex? h with
      | some b => skeletonOutcome (.merge (b.map (·.toNat)))
      | none => "bad-op"
    else "ok"
  | ["inj", "ping", _rtt, _name, h] =>
    match bytesOfHex? h with
    | some b => skeletonOutcome (.ping (b.map (·.toNat)))
    | none => "bad-op"
  | ["inj", "respopen", _flags, _from, h] =>
    match bytesOfHex? h with
    | some b =>
      let p := b.map (·.toNat)
      if skeletonOutcome (.conflictReply p) == "ok" then skeletonOutcome (.keyReply p) else skeletonOutcome (.conflictReply p)
    | none => "bad-op"
  | ["inj", _kind, _name, _addr, metaHex, _port, _state] =>
    match bytesOfHex? metaHex with
    | some b => skeletonOutcome (.metadata (b.map (·.toNat)))
    | none => "bad-op"
  | "inj" :: _ => "ok"
  | ["alive"] => "serving"
  | _ => "bad-op"

def keyOf (impl : String) : String :=
  match impl.splitOn " " with
  | "send-on-closed-channel" :: _ => "crash-send-on-closed"
  | "CRASH" :: site :: _ => "crash-" ++ site
  | "PANIC" :: _ => "panic"
  | _ => "not-serving"

def step (s : St) (op : List String) (impl : String) : LineOut St :=
  let s' : St := match op with
    | ["inj", "zerobuffers"] => if s.started then s else { s with zeroBuffers := true }
    | ["inj", "slowquery"] => s
    | _ => { s with started := true }
  -- the division by zero of a node that was configured with zero-size buffers is the predicted consequence of the
  -- violated configuration precondition, not a reaction to network input
  let excused := impl == "divide-by-zero" && s.zeroBuffers
  let bad := !(impl == "ok" || impl == "serving" || impl == "bad-op" || impl == "skipped-node-does-not-start" || excused)
  { state := s', model := some (predict s op),
    monitor := if bad then some (keyOf impl, s!"the node did not survive / stopped serving: {impl}") else none }

def checker : Checker := { σ := St, init := {}, step := step }

end SerfModel.Check.C09
