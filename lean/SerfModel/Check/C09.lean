import SerfModel.Check.Core
import SerfModel.Model.Handlers
/-!
C09 checker.  `inj <entry> <hex…> => ok`: one network input was handed to a real node's delegate
and the node's process survived it (the harness attributes a dead worker process to the exact
input and reports `CRASH <function>` there).  `alive => serving`: Members/Stats/State still answer
and a fresh user event is still delivered.

Model output: for `inj msg`/`inj merge*` the control skeleton `SerfModel.Handlers.handle` is run on
the input's bytes with a decoder that rejects everything (the type-byte dispatch and the length
guards are exercised; `Props/C09.lean` proves the outcome is never `.panic` for ANY decoder); the
prediction is `ok` unless the skeleton reaches a `.panic` site.  The monitor judges the
implementation's own output: anything but `ok`/`serving` fails, keyed by the crashing function.
-/
namespace SerfModel.Check.C09
open SerfModel SerfModel.Check SerfModel.Handlers

def predict (op : List String) : String :=
  match op with
  | ["inj", "msg", h] =>
    match bytesOfHex? h with
    | some b => match (handle defaultCfg rejectAll initState (.msg (b.map (·.toNat)))).2 with
      | .panic s => "MODEL-PANIC " ++ s
      | _ => "ok"
    | none => "bad-op"
  | ["inj", m, h] =>
    if m == "merge0" || m == "merge1" then
      match bytesOfHex? h with
      | some b => match (handle defaultCfg rejectAll initState (.merge (b.map (·.toNat)))).2 with
        | .panic s => "MODEL-PANIC " ++ s
        | _ => "ok"
      | none => "bad-op"
    else "ok"
  | "inj" :: _ => "ok"
  | ["alive"] => "serving"
  | _ => "bad-op"

def keyOf (impl : String) : String :=
  match impl.splitOn " " with
  | "CRASH" :: site :: _ => "crash-" ++ site
  | _ => "not-serving"

def step (s : Unit) (op : List String) (impl : String) : LineOut Unit :=
  let bad := !(impl == "ok" || impl == "serving" || impl == "bad-op")
  { state := s, model := some (predict op),
    monitor := if bad then some (keyOf impl, s!"the node did not survive / stopped serving: {impl}") else none }

def checker : Checker := { σ := Unit, init := (), step := step }

end SerfModel.Check.C09
