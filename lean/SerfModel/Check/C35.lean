import SerfModel.Check.Core
import SerfModel.Model.Relay
/-!
C35 checker.  Ops:

  `sel <k> <self> <members>`   hook `VerifKRandomMembers(k, members, relay filter)`;
                                members = `name:status:pmax,…` (`-` = none), the position is the record's identity
                                → chosen positions in selection order `i,j,…` (`-` = none)
  `self <name>`                 real node: its name → `ok`
  `join|fail|leaving <name> …`  real node: membership notifications → `ok` (not judged here)
  `members`                     real node: `s.Members()` sorted by name `name:status:pmax,…`
  `respond <k>` / `ackq <k>`    real node: a query with relay factor k arrives and is answered / acknowledged;
                                → the destinations of the packets sent, in order: `O` (origin) or `R:<name>`

The real random source cannot be seeded, so no line is compared for equality.
The MONITOR judges the implementation's choice: at most k, distinct names, every
choice a listed member that is alive, protocol ≥ 5, not self; nothing when fewer
than k+1 members are known; exactly one packet to the origin, first.  In addition
it constructs an oracle (`picks`) under which the MODEL makes the same choice and
fails (`not-producible`) if there is none.
-/
namespace SerfModel.Check.C35
open SerfModel SerfModel.Check SerfModel.Relay

structure St where
  self : String := ""
  members : List Member := []
  deriving Inhabited

def parseMember (tag : Nat) (s : String) : Option Member :=
  match s.splitOn ":" with
  | [n, st, p] => match stringOfHex? n, st.toNat?, p.toNat? with
    | some name, some status, some pmax => some ⟨name, status, pmax, tag⟩
    | _, _, _ => none
  | _ => none

def parseMembersAux : List String → Nat → Option (List Member)
  | [], _ => some []
  | s :: rest, i => do
    let m ← parseMember i s
    let ms ← parseMembersAux rest (i + 1)
    pure (m :: ms)

def parseMembers (s : String) : Option (List Member) :=
  if s == "-" then some [] else parseMembersAux (s.splitOn ",") 0

def parseIdx (s : String) : Option (List Nat) :=
  if s == "-" then some [] else (s.splitOn ",").mapM (·.toNat?)

def hasDup : List String → Bool
  | [] => false
  | x :: xs => xs.contains x || hasDup xs

/-- The property on one selection `chosen` (positions in `ms`). -/
def judge (k : Nat) (ms : List Member) (self : String) (chosen : List Nat) : Option (String × String) :=
  match chosen.mapM (fun i => ms[i]?) with
  | none => some ("not-a-member", "a selected member is not in the member list")
  | some sel =>
    if sel.length > k then some ("too-many", s!"{sel.length} members selected for relay factor {k}")
    else if hasDup (sel.map (·.name)) then some ("same-name-twice", "two selected members share a name")
    else match sel.find? (fun m => m.name == self) with
    | some _ => some ("relay-via-self", "the node selected itself as a relay")
    | none => match sel.find? (fun m => m.status != statusAlive) with
      | some m => some ("not-alive", s!"selected member {hexOfString m.name} has status {m.status}")
      | none => match sel.find? (fun m => m.protoMax < 5) with
        | some m => some ("old-protocol", s!"selected member {hexOfString m.name} has ProtocolMax {m.protoMax}")
        | none =>
          -- an oracle under which the model makes the same selection
          let n := ms.length
          let waste : Option Nat :=
            match chosen with
            | i :: _ => some i
            | [] => ms.findIdx? (ineligible self)
          if sel.length < k && n > 0 && waste.isNone then
            some ("missed-selection", "nothing selected although every probe hits an eligible member")
          else
            let picks := chosen ++ List.replicate (3 * n - chosen.length) (waste.getD 0)
            let r := kRandomMembers k ms (ineligible self) picks
            if r.map (·.tag) == sel.map (·.tag) then none
            else some ("not-producible", "the model cannot make this selection under any oracle")

def parseDests (s : String) : Option (List (Option String)) :=
  if s == "-" then some [] else
  (s.splitOn ",").mapM fun d =>
    if d == "O" then some none
    else match d.splitOn ":" with
      | ["R", n] => (stringOfHex? n).map some
      | _ => none

def judgeSends (st : St) (k : Nat) (impl : String) : Option (String × String) :=
  match parseDests impl with
  | none => some ("malformed", impl)
  | some ds =>
    if ds.head? != some none then some ("origin-not-first", "the first packet does not go to the origin")
    else if (ds.filter (·.isNone)).length != 1 then some ("origin-count", "the origin did not get exactly one direct packet")
    else
      let relays := ds.filterMap id
      if k == 0 && !relays.isEmpty then some ("relay-factor-zero", "relayed with relay factor 0")
      else if st.members.length < k + 1 && !relays.isEmpty then
        some ("gate", s!"relayed although only {st.members.length} members are known for relay factor {k}")
      else if hasDup relays then some ("same-name-twice", "two relays share a name")
      else
        match relays.mapM (fun n => st.members.findIdx? (·.name == n)) with
        | none => some ("not-a-member", "relayed through a node that is not a known member")
        | some idx => judge k st.members st.self idx

def step (s : St) (op : List String) (impl : String) : LineOut St :=
  match op with
  | ["sel", k, self, ms] =>
    match k.toNat?, stringOfHex? self, parseMembers ms with
    | some k, some self, some ms =>
      match parseIdx impl with
      | none => { state := s, model := none, monitor := some ("malformed", impl) }
      | some chosen => { state := s, model := none, monitor := judge k ms self chosen }
    | _, _, _ => { state := s, model := some "bad-op" }
  | ["self", n] =>
    match stringOfHex? n with
    | some n => { state := { s with self := n }, model := some "ok" }
    | none => { state := s, model := some "bad-op" }
  | "join" :: _ => { state := s, model := some "ok" }
  | "fail" :: _ => { state := s, model := some "ok" }
  | "leaving" :: _ => { state := s, model := some "ok" }
  | ["members"] =>
    match parseMembers impl with
    | some ms => { state := { s with members := ms }, model := none }
    | none => { state := s, model := none, monitor := some ("malformed", impl) }
  | [kind, k] =>
    if kind == "respond" || kind == "ackq" then
      match k.toNat? with
      | some k => { state := s, model := none, monitor := judgeSends s k impl }
      | none => { state := s, model := some "bad-op" }
    else { state := s, model := some "bad-op" }
  | _ => { state := s, model := some "bad-op" }

def checker : Checker := { σ := St, init := {}, step := step }

end SerfModel.Check.C35
