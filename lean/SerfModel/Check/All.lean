import SerfModel.Check.Core
import SerfModel.Check.C19
namespace SerfModel.Check

def checkerFor? : String → Option Checker
  | "C19" => some C19.checker
  | _ => none

end SerfModel.Check
