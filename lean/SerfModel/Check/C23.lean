import SerfModel.Check.Core
import SerfModel.Model.KeyAgg
/-!
C23 checker.  Ops:

  `agg <numNodes> <from>/<cls> …`   hook `VerifStreamKeyResp` (the real `streamKeyResp` on a pre-filled, closed channel)
        cls = `T<payload>` (empty or wrong type byte) | `U<payload>` (right type byte, does not decode)
            | `D<0|1>/<msg>/<primary>/<key>.<key>…` (`_` = no keys) payload built by the real encoder
            | `R<payload>/D<0|1>/<msg>/<primary>/<keys>` a hand-encoded msgpack map that omits some fields
              (an older or minimal reply), followed by what it decodes to — absent fields are zero values
        → `<numResp> <numErr> k=<key:n,…> p=<key:n,…> m=<from:I|F|M<msg>,…>` (sorted, `-` = empty)
  `listkeys <flavour>`              a real node (recording transport, own packets looped back) runs `ListKeys()`
        → `<numNodes> <numResp> <numErr> err=<none|fail:e/n|miss:r/n|other> k=<key:n,…> p=<key:n,…>`
  `klist <limit> <actual> <sfull> <s1>,<s2>,… <keylen> <node> <lt> <id>`   hook `VerifKeyListResponse` (the real truncation loop)
        sfull = size of the untruncated reply, s_j = size of the reply showing j keys with the notice for j,
        both from the real encoders, independently of the loop (`-` = none)
        → `ok <rawLen> <shown> <-|t<i>/<n>|?> prefix=<0|1>` | `err`

MONITOR (on the implementation's outputs, own bookkeeping):
  agg: numResp = min(#replies, numNodes) (all if numNodes = 0); numErr = #T + #U + #D0 among the consumed;
       every key count = number of listings among the consumed decodable replies; same for primaries;
  listkeys: error ⇔ numErr ≠ 0 ∨ numResp ≠ numNodes, and of the right kind;
  klist: a reply that is sent fits, shows a prefix, its length is the length the encoders give for what it
       shows, it carries the notice `shown/actual` when it shows fewer keys; if nothing is sent, neither the
       full reply nor any of the prefixes M…1 fits — in particular not one key when 25 ≤ limit.
-/
namespace SerfModel.Check.C23
open SerfModel SerfModel.Check SerfModel.KeyAgg

def insertSorted (s : String) : List String → List String
  | [] => [s]
  | x :: xs => if s ≤ x then s :: x :: xs else x :: insertSorted s xs

def sortStrings (l : List String) : List String := l.foldr insertSorted []

def showList (l : List String) : String := if l.isEmpty then "-" else ",".intercalate (sortStrings l)

def parsePayload (parts : List String) : Option Payload :=
  match parts with
  | [c] =>
    match c.toList with
    | 'T' :: _ => some .badType
    | 'U' :: _ => some .undecodable
    | _ => none
  | [r, d, msg, prim, keys] =>
    -- `R<payload>`: a hand-encoded msgpack map that may OMIT fields; what follows is what it decodes to
    -- (absent fields are zero values: Result false, Message "", no keys, PrimaryKey "")
    if r.startsWith "R" then parsePayload [d, msg, prim, keys] else none
  | [d, msg, prim, keys] =>
    let res := if d == "D1" then some true else if d == "D0" then some false else none
    let ks : Option (List String) := if keys == "_" then some [] else (keys.splitOn ".").mapM stringOfHex?
    match res, stringOfHex? msg, stringOfHex? prim, ks with
    | some r, some m, some p, some ks => some (.decoded ⟨r, m, ks, p⟩)
    | _, _, _, _ => none
  | _ => none

def parseNR (s : String) : Option NR :=
  match s.splitOn "/" with
  | f :: rest => match stringOfHex? f, parsePayload rest with
    | some sender, some p => some ⟨sender, p⟩
    | _, _ => none
  | [] => none

def showMsg : Msg → String
  | .invalidType => "I"
  | .decodeFailed => "F"
  | .text s => "M" ++ hexOfString s

def showAgg (r : KeyResponse) : String :=
  s!"{r.numResp} {r.numErr} k=" ++ showList (r.keys.map fun p => s!"{hexOfString p.1}:{p.2}") ++
  " p=" ++ showList (r.primary.map fun p => s!"{hexOfString p.1}:{p.2}") ++
  " m=" ++ showList (r.messages.map fun p => s!"{hexOfString p.1}:{showMsg p.2}")

def parseCounts (s : String) : Option (List (String × Nat)) :=
  if s == "-" then some [] else
  (s.splitOn ",").mapM fun e => match e.splitOn ":" with
    | [k, n] => match stringOfHex? k, n.toNat? with
      | some k, some n => some (k, n)
      | _, _ => none
    | _ => none

def dropPrefix (p s : String) : Option String :=
  if s.startsWith p then some (String.ofList (s.toList.drop p.length)) else none

def monitorAgg (numNodes : Nat) (rs : List NR) (impl : String) : Option (String × String) :=
  match impl.splitOn " " with
  | [a, b, k, p, _m] =>
    match a.toNat?, b.toNat?, (dropPrefix "k=" k).bind parseCounts, (dropPrefix "p=" p).bind parseCounts with
    | some numResp, some numErr, some keys, some prim =>
      let usedRs := if numNodes == 0 then rs else rs.take numNodes
      let isFailed : NR → Bool := fun r => match r.payload with
        | .decoded n => !n.result
        | _ => true
      let decoded : List NodeKeyResp := usedRs.filterMap fun r => match r.payload with
        | .decoded n => some n
        | _ => none
      if numResp != usedRs.length then
        some ("reply-count", s!"reports {numResp} replies, {usedRs.length} were consumable for {numNodes} members")
      else if numErr != (usedRs.filter isFailed).length then
        some ("failure-count", s!"reports {numErr} failures, {(usedRs.filter isFailed).length} replies failed or were undecodable")
      else
        let allKeys := (decoded.flatMap (·.keys)).eraseDups
        let wantKey := fun k => (decoded.map fun n => n.keys.count k).sum
        match allKeys.find? (fun k => (alookup keys k).getD 0 != wantKey k) with
        | some k => some ("key-count", s!"key {hexOfString k}: reported {(alookup keys k).getD 0}, listed {wantKey k} times")
        | none =>
          match keys.find? (fun e => wantKey e.1 != e.2) with
          | some e => some ("key-count", s!"key {hexOfString e.1}: reported {e.2}, listed {wantKey e.1} times")
          | none =>
            let wantPrim := fun k => (decoded.filter (·.primary == k)).length
            match (decoded.map (·.primary)).find? (fun k => (alookup prim k).getD 0 != wantPrim k) with
            | some k => some ("primary-count", s!"primary key {hexOfString k}: reported {(alookup prim k).getD 0}, named by {wantPrim k}")
            | none =>
              match prim.find? (fun e => wantPrim e.1 != e.2) with
              | some e => some ("primary-count", s!"primary key {hexOfString e.1}: reported {e.2}, named by {wantPrim e.1}")
              | none => none
    | _, _, _, _ => some ("malformed", impl)
  | _ => some ("malformed", impl)

def monitorListKeys (impl : String) : Option (String × String) :=
  match impl.splitOn " " with
  | [a, b, c, e, k, p] =>
    match a.toNat?, b.toNat?, c.toNat?, dropPrefix "err=" e, (dropPrefix "k=" k).bind parseCounts,
        (dropPrefix "p=" p).bind parseCounts with
    | some numNodes, some numResp, some numErr, some err, some keys, some prim =>
      let want :=
        if numErr != 0 then s!"fail:{numErr}/{numNodes}"
        else if numResp != numNodes then s!"miss:{numResp}/{numNodes}"
        else "none"
      if (keys ++ prim).any (fun e => e.2 > numResp) then
        some ("key-count", s!"a key is reported on more nodes than replied ({numResp})")
      else if err == want then none
      else if err == "none" then some ("missing-error", s!"no error although numErr={numErr}, numResp={numResp}, numNodes={numNodes}")
      else if want == "none" then some ("spurious-error", s!"error {err} although every one of {numNodes} members replied without failure")
      else some ("wrong-error", s!"error {err}, expected {want}")
    | _, _, _, _, _, _ => some ("malformed", impl)
  | _ => some ("malformed", impl)

def parseSizes (s : String) : Option (List Nat) :=
  if s == "-" then some [] else (s.splitOn ",").mapM (·.toNat?)

/-- Size function of the case: `sfull` for the untruncated reply, `s_j` for j keys with notice j. -/
def tableSize (actual sfull : Nat) (sizes : List Nat) : SizeFn := fun n notice =>
  match notice with
  | none => if n == actual then sfull else 0
  | some j => if n == j && 1 ≤ j then sizes.getD (j - 1) 0 else 0

def showNotice (actual : Nat) : Notice → String
  | none => "-"
  | some i => s!"t{i}/{actual}"

def showKL (actual : Nat) : KLResult → String
  | .ok rawLen shown notice => s!"ok {rawLen} {shown} {showNotice actual notice} prefix=1"
  | .error => "err"

def monitorKList (limit actual sfull : Nat) (sizes : List Nat) (impl : String) : Option (String × String) :=
  let m := min (limit / 25) actual
  if impl == "err" then
    if sfull ≤ limit then some ("fits-but-nothing-sent", s!"the untruncated reply ({sfull} bytes) fits the limit {limit} but nothing was sent")
    else
      match (List.range m).find? (fun j => sizes.getD j (limit + 1) ≤ limit) with
      | some j =>
        if j == 0 then some ("one-key-fits-but-nothing-sent", s!"a reply showing one key ({sizes.getD 0 0} bytes) fits the limit {limit} but nothing was sent")
        else some ("fits-but-nothing-sent", s!"a reply showing {j + 1} keys fits the limit {limit} but nothing was sent")
      | none => none
  else
    match impl.splitOn " " with
    | ["ok", r, s, n, p] =>
      match r.toNat?, s.toNat? with
      | some rawLen, some shown =>
        if rawLen > limit then some ("over-limit", s!"reply of {rawLen} bytes exceeds the limit {limit}")
        else if p != "prefix=1" then some ("not-a-prefix", "the keys shown are not a prefix of the node's keys")
        else if shown > actual then some ("not-a-prefix", "more keys shown than the node has")
        else if shown < actual && n != s!"t{shown}/{actual}" then
          some ("truncation-notice", s!"shows {shown} of {actual} keys but the message says {n}")
        else if n != "-" && n != s!"t{shown}/{actual}" then
          some ("truncation-notice", s!"shows {shown} of {actual} keys but the message says {n}")
        else
          let want : Option Nat := if n == "-" then some sfull else if shown ≥ 1 then sizes[shown - 1]? else none
          match want with
          | none => some ("never-tried", s!"a reply showing {shown} keys with a notice is not among the loop's attempts")
          | some w =>
            if w != rawLen then some ("length", s!"reply is {rawLen} bytes, the encoders give {w} for what it shows")
            else none
      | _, _ => some ("malformed", impl)
    | _ => some ("malformed", impl)

def step (s : Unit) (op : List String) (impl : String) : LineOut Unit :=
  match op with
  | "agg" :: n :: rs =>
    match n.toNat?, rs.mapM parseNR with
    | some numNodes, some rs =>
      { state := s, model := some (showAgg (streamKeyResp numNodes rs)), monitor := monitorAgg numNodes rs impl }
    | _, _ => { state := s, model := some "bad-op" }
  | ["listkeys", _] => { state := s, model := none, monitor := monitorListKeys impl }
  | "klist" :: l :: a :: sf :: sz :: _ =>
    match l.toNat?, a.toNat?, sf.toNat?, parseSizes sz with
    | some limit, some actual, some sfull, some sizes =>
      let r := keyListResponse (tableSize actual sfull sizes) limit actual
      { state := s, model := some (showKL actual r), monitor := monitorKList limit actual sfull sizes impl }
    | _, _, _, _ => { state := s, model := some "bad-op" }
  | _ => { state := s, model := some "bad-op" }

def checker : Checker := { σ := Unit, init := (), step := step }

end SerfModel.Check.C23
