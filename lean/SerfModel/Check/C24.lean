import SerfModel.Check.Core
import SerfModel.Model.IpcGate
import SerfModel.Model.IpcCodec
/-!
C24 checker.  One case = one connection to a real agent's IPC listener.

  `conn <keyhex>`   the listener's auth key (`-` = none)                      → `ok`
  `obj <text>`      one msgpack object written by the client (IpcCodec text) → `ok`
  `run`             write everything, half-close, read the reply stream to EOF, then
                    collect the agent-side observations →
       `R=<seq>:<err>:<data>+…|E=<agent calls from the agent's log>+…|V=<events delivered to an
        agent event handler>+…|T=<agent tags>|S=<alive|down>`
  `recs`            number of stream records (event/log/query records) seen on the socket → not
                    compared (timing), judged by the monitor.

The monitor judges the implementation's own outputs with its own bookkeeping: it only
looks at which strings the client's objects mention (no handshake mentioned / the key
never mentioned) and at well-formed rejected requests, never at the model.
-/
namespace SerfModel.Check.C24
open SerfModel SerfModel.Check SerfModel.IpcGate SerfModel.IpcCodec

structure St where
  key : String := ""
  objs : List Obj := []
  deriving Inhabited

def errName : Err → String
  | .ok | .handler => "ok"
  | .handshakeRequired => "hs-required"
  | .authRequired => "auth-required"
  | .invalidToken => "bad-token"
  | .unsupportedVersion => "bad-version"
  | .duplicateHandshake => "dup-handshake"
  | .unsupportedCommand => "bad-command"

def joinOr (l : List String) : String := if l.isEmpty then "-" else "+".intercalate l

def showReplies (outs : List Out) : String :=
  joinOr (outs.filterMap fun o => match o with
    | .reply s e d => some s!"{s}:{errName e}:{if d then 1 else 0}"
    | _ => none)

def colon (args : String) : String := ":".intercalate (args.splitOn ",")

/-- agent methods that write a log line when called -/
def showCalls (outs : List Out) : String :=
  joinOr (outs.filterMap fun o => match o with
    | .effect "event" a => some ("event:" ++ (a.splitOn ",").headD "")
    | .effect "query" a => some ("query:" ++ ((a.splitOn ",").drop 5).headD "")
    | .effect "join" a => some ("join:" ++ colon a)
    | .effect "force-leave" a => some ("force-leave:" ++ colon a)
    | .effect "leave" _ => some "leave"
    | .effect "install-key" _ => some "install-key"
    | .effect "use-key" _ => some "use-key"
    | .effect "remove-key" _ => some "remove-key"
    | .effect "list-keys" _ => some "list-keys"
    | _ => none)

def showEvents (outs : List Out) : String :=
  joinOr (outs.filterMap fun o => match o with
    | .effect "event" a => some ("u:" ++ colon a)
    | .effect "query" a => some ("q:" ++ ":".intercalate ((a.splitOn ",").drop 5))
    | _ => none)

def dropFirst (s : String) : String := String.ofList (s.toList.drop 1)

/-- `handleTags`: keep the current tags not listed in DeleteTags, then copy Tags over them -/
def applyTags (cur : List (String × String)) (args : String) : List (String × String) :=
  match args.splitOn "," with
  | [d, l] =>
    let dels := splitNonEmpty (dropFirst l) ";"
    let sets := (splitNonEmpty (dropFirst d) ";").filterMap fun kv =>
      match kv.splitOn ":" with
      | [k, v] => some (k, v)
      | _ => none
    let kept := cur.filter fun p => !dels.contains p.1
    sets.foldl (fun acc p => ainsert acc p.1 p.2) kept
  | _ => cur

def showTags (outs : List Out) : String :=
  let t := outs.foldl (fun cur o => match o with
    | .effect "tags" a => applyTags cur a
    | _ => cur) []
  let sorted := t.foldr insertSorted []
  if sorted.isEmpty then "-" else ";".intercalate (sorted.map fun p => p.1 ++ ":" ++ p.2)

def showState (outs : List Out) : String :=
  if outs.any (fun o => match o with | .effect "leave" _ => true | _ => false) then "down" else "alive"

def modelRun (s : St) : String :=
  let outs := run codec s.key s.objs
  s!"R={showReplies outs}|E={showCalls outs}|V={showEvents outs}|T={showTags outs}|S={showState outs}"

/-! monitor -/

def atomMentions (w : String) : Atom → Bool
  | .str s => s == w
  | _ => false

def valMentions (w : String) : Val → Bool
  | .atom a => atomMentions w a
  | .list l => l.any (atomMentions w)
  | .dict d => d.any fun kv => kv.1 == w || atomMentions w kv.2

def objMentions (w : String) : Obj → Bool
  | .scalar a => atomMentions w a
  | .arr l => l.any (valMentions w)
  | .map m => m.any fun kv => kv.1 == w || valMentions w kv.2
  | .bad => false

def section? (impl : String) (name : String) : Option (List String) :=
  ((impl.splitOn "|").find? (·.startsWith (name ++ "="))).map fun s =>
    let body := String.ofList (s.toList.drop (name.length + 1))
    if body == "-" then [] else body.splitOn "+"

structure Reply where
  seq : Nat
  err : String
  data : Bool

def parseReply? (s : String) : Option Reply :=
  match s.splitOn ":" with
  | [a, e, d] => a.toNat?.map fun n => ⟨n, e, d == "1"⟩
  | _ => none

/-- a top-level map that is a complete request header: (Command, Seq) -/
def fullHeader? : Obj → Option (String × Nat)
  | .map kvs =>
    match alookup kvs "Command", alookup kvs "Seq" with
    | some (.atom (.str c)), some (.atom (.int n)) => if n ≥ 0 then some (c, n.toNat) else none
    | _, _ => none
  | _ => none

/-- a map whose Command (if present) is a string other than handshake/auth and whose Seq (if
present) is a non-negative integer: decoded as a header it cannot fail and stays gated -/
def tameHeader : Obj → Bool
  | .map kvs =>
    (match alookup kvs "Command" with
     | none => true
     | some (.atom (.str c)) => c != "handshake" && c != "auth"
     | _ => false) &&
    (match alookup kvs "Seq" with
     | none => true
     | some (.atom (.int n)) => n ≥ 0 && n < 18446744073709551616
     | _ => false) &&
    (kvs.map (·.1)).eraseDups.length == kvs.length
  | _ => false

/-- could be decoded as a handshake request with Version = 1 (the only supported version):
a map with Version = 1, or an array whose first element is 1 -/
def isVersionOneBody : Obj → Bool
  | .map kvs => kvs.any fun kv => kv.1 == "Version" && (match kv.2 with | .atom (.int 1) => true | _ => false)
  | .arr (.atom (.int 1) :: _) => true
  | _ => false

def isGoodHandshake : List Obj → Option (List Obj)
  | h :: b :: rest =>
    match fullHeader? h, b with
    | some ("handshake", _), .map [("Version", .atom (.int 1))] => some rest
    | _, _ => none
  | _ => none

def monitorRun (s : St) (impl : String) : Option (String × String) :=
  match section? impl "R", section? impl "E", section? impl "V", section? impl "T", section? impl "S" with
  | some rs, some es, some vs, some ts, some st =>
    match rs.mapM parseReply? with
    | none => some ("malformed", impl)
    | some replies =>
      let quiet := es.isEmpty && vs.isEmpty && ts.isEmpty && st == ["alive"] && replies.all (!·.data)
      -- a successful handshake needs a request named "handshake" AND a body whose Version is 1
      let noHs := !s.objs.any (objMentions "handshake") || !s.objs.any isVersionOneBody
      let noKey := s.key != "" && !s.objs.any (objMentions s.key)
      if noHs && !(quiet && replies.all (fun r => r.err == "hs-required" || r.err == "bad-version") &&
            (replies.filter (·.err == "hs-required")).length ≤ 1 &&
            (s.objs.any (objMentions "handshake") || replies.all (·.err == "hs-required"))) then
        some ("effect-before-handshake", s!"no handshake with the supported version was ever sent on this connection, yet the agent did: {impl}")
      else if noKey && !(quiet && (replies.filter (·.err == "ok")).length ≤ 1) then
        some ("effect-before-auth", s!"the key was never presented, yet the agent did: {impl}")
      else
        -- a complete first request other than a handshake: exactly its error reply
        let first : Option (String × String) := match s.objs with
          | o :: _ => match fullHeader? o with
            | some (c, n) =>
              if c != "handshake" && !(replies.length == 1 && replies.all (fun r => r.seq == n && r.err == "hs-required")) then
                some ("reject-reply", s!"first request {c}/{n} before the handshake must get exactly one 'Handshake required' reply with its seq: {impl}")
              else none
            | none => none
          | [] => none
        match first with
        | some f => some f
        | none =>
          -- after a valid handshake, never authenticated: every complete tame request gets 'Authentication required'
          match (if noKey then isGoodHandshake s.objs else none) with
          | some rest =>
            if rest.all tameHeader && (rest.head?.bind fullHeader?).isSome then
              match (rest.filterMap fullHeader?).find? (fun cn => !replies.any (fun r => r.seq == cn.2 && r.err == "auth-required")) with
              | some (c, n) => some ("reject-reply", s!"request {c}/{n} before authentication got no 'Authentication required' reply: {impl}")
              | none => none
            else none
          | none => none
  | _, _, _, _, _ => some ("malformed", impl)

def step (s : St) (op : List String) (impl : String) : LineOut St :=
  match op with
  | ["conn", k] =>
    match stringOfHex? k with
    | some key => { state := { s with key := key }, model := some "ok" }
    | none => { state := s, model := some "bad-op" }
  | ["obj", t] =>
    match parseObj? t with
    | some o => { state := { s with objs := s.objs ++ [o] }, model := some "ok" }
    | none => { state := s, model := some "bad-op" }
  | ["run"] => { state := s, model := some (modelRun s), monitor := monitorRun s impl }
  | ["recs"] =>
    match impl.toNat? with
    | none => { state := s, model := none, monitor := some ("malformed", impl) }
    | some n =>
      let allowed := s.objs.any (objMentions "handshake") && (s.key == "" || s.objs.any (objMentions s.key)) &&
        (s.objs.any (objMentions "stream") || s.objs.any (objMentions "monitor") || s.objs.any (objMentions "query"))
      { state := s, model := none,
        monitor := if n > 0 && !allowed then some ("stream-before-auth", s!"{n} stream records although no stream can have been accepted") else none }
  | _ => { state := s, model := some "bad-op" }

def checker : Checker := { σ := St, init := {}, step := step }

end SerfModel.Check.C24
