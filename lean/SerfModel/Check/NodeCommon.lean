import SerfModel.Check.Core
import SerfModel.Model.Node
/-!
Shared part of the checkers of the single-node membership properties (C02, C03, C04, C15):
parsing of the harness ops (see harness/node.go), the model's answer in the harness's
canonical format, and a parser for the implementation's observation line, on which the
per-property monitors do their own bookkeeping.

Harness op → model ops.  Every harness op is followed by "run all pending refuting joins"
(the harness waits for the goroutine).  `lv` is `Leave()`: leaveBegin, memberlist's
NotifyLeave of the local node, leaveEnd (only when the node was SerfAlive).
All wall stamps the real code takes itself (`time.Now()` for buffered intents) are the case
start, i.e. 0 in the harness's hour units.
-/
namespace SerfModel.Check.NodeCommon
open SerfModel SerfModel.Check SerfModel.Node

def selfName : Name := "self"
def cfg : Config := { reconnect := 3, tombstone := 5, intentTimeout := 2 }
def initNode : Node := Node.init selfName cfg

def insertSorted (s : String) : List String → List String
  | [] => [s]
  | x :: xs => if s ≤ x then s :: x :: xs else x :: insertSorted s xs
def sortStrings (l : List String) : List String := l.foldr insertSorted []
def joinOrDash (l : List String) : String := if l.isEmpty then "-" else ",".intercalate l

def Status.str : Status → String
  | .alive => "alive" | .leaving => "leaving" | .left => "left" | .failed => "failed"
def Status.ofStr? : String → Option Status
  | "alive" => some .alive | "leaving" => some .leaving | "left" => some .left | "failed" => some .failed | _ => none
def Life.str : Life → String
  | .alive => "alive" | .leaving => "leaving" | .left => "left" | .shutdown => "shutdown"
def EvKind.str : EvKind → String
  | .join => "join" | .leave => "leave" | .failed => "failed" | .update => "update" | .reap => "reap"
def EvKind.ofStr? : String → Option EvKind
  | "join" => some .join | "leave" => some .leave | "failed" => some .failed | "update" => some .update
  | "reap" => some .reap | _ => none

def Msg.str : Msg → String
  | .join x t => s!"J:{hexOfString x}:{t}"
  | .leave x t p => s!"L:{hexOfString x}:{t}:{if p then 1 else 0}"

def parseLT (s : String) : Option Nat :=
  match s.toNat? with
  | some v => if v < two64 then some v else none
  | none => none

def parseSmall (s : String) : Option Nat :=
  match s.toNat? with
  | some v => if v < 4294967296 then some v else none
  | none => none

def parseBool01 : String → Option Bool
  | "0" => some false | "1" => some true | _ => none

def splitList (s : String) : List String := if s == "-" then [] else s.splitOn ","

def parsePair (s : String) (val : String → Option Nat) : Option (Name × Nat) :=
  match s.splitOn ":" with
  | [a, b] => match stringOfHex? a, val b with
    | some n, some v => some (n, v)
    | _, _ => none
  | _ => none

/-- The override function of a `rp` op: listed members get the listed timeout. -/
def ovOf (l : List (Name × Nat)) : Name → Nat → Nat := fun x t => (alookup l x).getD t

/-- A parsed harness op. -/
inductive HOp where
  | ops (l : List Op)          -- plain model ops
  | leave (at_ : Nat)
  | localState
  | sync2 (x : Name)           -- push/pull of this node's LocalState to a fresh peer that knows x as alive
  | bad

def hasDupKeys (l : List (Name × Nat)) : Bool := (l.map (·.1)).eraseDups.length != l.length

def parseOp (f : List String) : HOp :=
  match f with
  | ["nj", n] => match stringOfHex? n with
    | some x => .ops [.nodeJoin x] | none => .bad
  | ["nl", n, t] => match stringOfHex? n, parseSmall t with
    | some x, some a => .ops [.nodeLeave x a] | _, _ => .bad
  -- how memberlist says the node went away (StateDead / StateLeft) makes no difference to Serf:
  -- leaving + ANY death notification = left, alive + any = failed
  | ["nl", n, t, st] => match stringOfHex? n, parseSmall t with
    | some x, some a => if st == "d" || st == "l" then .ops [.nodeLeave x a] else .bad | _, _ => .bad
  | ["s2", n] => match stringOfHex? n with
    | some x => .sync2 x | none => .bad
  | ["nu", n] => match stringOfHex? n with
    | some x => .ops [.nodeUpdate x] | none => .bad
  | ["mj", n, t] => match stringOfHex? n, parseLT t with
    | some x, some lt => .ops [.joinMsg x lt 0] | _, _ => .bad
  | ["ml", n, t, p] => match stringOfHex? n, parseLT t, parseBool01 p with
    | some x, some lt, some pr => .ops [.leaveMsg x lt pr 0] | _, _, _ => .bad
  | ["mg", t, st, lf] =>
    match parseLT t, (splitList st).mapM (parsePair · parseLT), (splitList lf).mapM stringOfHex? with
    | some lt, some status, some left =>
      if hasDupKeys status || (left.filter (· == selfName)).length > 1 then .bad
      else .ops [.merge lt status left 0]
    | _, _, _ => .bad
  | ["fl", n, p] => match stringOfHex? n, parseBool01 p with
    | some x, some pr => .ops [.forceLeave x pr 0] | _, _ => .bad
  -- a claim about the local node delivered while a Join() call is in flight: a Join in flight does not
  -- change claim handling, and a Join that contacts nobody broadcasts nothing
  | ["jl", t, p] => match parseLT t, parseBool01 p with
    | some lt, some pr => .ops [.leaveMsg selfName lt pr 0] | _, _ => .bad
  | ["oj"] => .ops [.ownJoin 0]
  | ["lv", t] => match parseSmall t with
    | some a => .leave a | none => .bad
  | ["sd"] => .ops [.shutdown]
  | ["rp", t, ov] => match parseSmall t, (splitList ov).mapM (parsePair · parseSmall) with
    | some now, some l => .ops [.reap now (ovOf l)] | _, _ => .bad
  | ["ls"] => .localState
  | _ => .bad

/-- What one harness op made visible, according to the model. -/
structure Vis where
  node : Node
  events : List (EvKind × Name) := []
  queue : List Msg := []

def applyOp (v : Vis) (op : Op) : Vis :=
  let r := step v.node op
  let q := match op.msg? with
    | some m => if r.2.rebroadcast then [m] else []
    | none => []
  { node := r.1, events := v.events ++ r.2.events, queue := v.queue ++ q ++ r.2.queued }

def drainPending : Nat → Vis → Vis
  | 0, v => v
  | k + 1, v => if v.node.pending.isEmpty then v else drainPending k (applyOp v (.runPending 0))

def applyOps (n : Node) (ops : List Op) : Vis :=
  let v := ops.foldl applyOp { node := n }
  drainPending (v.node.pending.length + 1) v

def expand (n : Node) : HOp → List Op
  | .ops l => l
  | .leave a => if n.life = .alive then [.leaveBegin 0, .nodeLeave n.name a, .leaveEnd] else []
  | _ => []

def showVis (v : Vis) : String :=
  let n := v.node
  let ev := joinOrDash (v.events.map fun e => s!"{EvKind.str e.1}:{hexOfString e.2}")
  let q := joinOrDash (sortStrings (v.queue.map Msg.str))
  let ms := joinOrDash (sortStrings (n.members.map fun p => s!"{hexOfString p.1}:{Status.str p.2.status}:{p.2.ltime}"))
  let f := joinOrDash (n.failed.map hexOfString)
  let l := joinOrDash (n.left.map hexOfString)
  let is := joinOrDash (sortStrings (n.intents.map fun p => s!"{hexOfString p.1}:{if p.2.isLeave then "L" else "J"}:{p.2.ltime}"))
  s!"ev={ev} q={q} m={ms} f={f} l={l} sf={statsFailed n} sl={statsLeft n} sm={statsMembers n} i={is} c={n.clock} s={Life.str n.life}"

def showLocalState (n : Node) : String :=
  let ss := joinOrDash (sortStrings (n.members.map fun p => s!"{hexOfString p.1}:{p.2.ltime}"))
  s!"lt={n.clock} st={ss} left={joinOrDash (n.left.map hexOfString)}"

/-- The implementation's observation line, parsed. -/
structure Obs where
  events : List (EvKind × Name) := []
  queue : List Msg := []
  members : List (Name × Status × Nat) := []
  /-- buffered intents: name, isLeave, ltime -/
  intents : List (Name × Bool × Nat) := []
  sf : Nat := 0
  sl : Nat := 0
  sm : Nat := 0
  life : String := ""
  clock : Nat := 0
  deriving Inhabited

def parseEvent (s : String) : Option (EvKind × Name) :=
  match s.splitOn ":" with
  | [k, n] => match EvKind.ofStr? k, stringOfHex? n with
    | some kind, some x => some (kind, x) | _, _ => none
  | _ => none

def parseMsg (s : String) : Option Msg :=
  match s.splitOn ":" with
  | ["J", n, t] => match stringOfHex? n, t.toNat? with
    | some x, some lt => some (.join x lt) | _, _ => none
  | ["L", n, t, p] => match stringOfHex? n, t.toNat?, parseBool01 p with
    | some x, some lt, some pr => some (.leave x lt pr) | _, _, _ => none
  | _ => none

def parseMember (s : String) : Option (Name × Status × Nat) :=
  match s.splitOn ":" with
  | [n, st, t] => match stringOfHex? n, Status.ofStr? st, t.toNat? with
    | some x, some status, some lt => some (x, status, lt) | _, _, _ => none
  | _ => none

def parseIntent (s : String) : Option (Name × Bool × Nat) :=
  match s.splitOn ":" with
  | [n, k, t] => match stringOfHex? n, t.toNat? with
    | some x, some lt => if k == "L" then some (x, true, lt) else if k == "J" then some (x, false, lt) else none
    | _, _ => none
  | _ => none

def fieldVal (fs : List String) (key : String) : Option String :=
  (fs.find? (·.startsWith (key ++ "="))).map fun s => String.ofList (s.toList.drop (key.length + 1))

def parseObs (impl : String) : Option Obs := do
  let fs := fields impl
  let ev ← (splitList (← fieldVal fs "ev")).mapM parseEvent
  let q ← (splitList (← fieldVal fs "q")).mapM parseMsg
  let ms ← (splitList (← fieldVal fs "m")).mapM parseMember
  let is ← (splitList (← fieldVal fs "i")).mapM parseIntent
  let sf ← (← fieldVal fs "sf").toNat?
  let sl ← (← fieldVal fs "sl").toNat?
  let sm ← (← fieldVal fs "sm").toNat?
  let c ← (← fieldVal fs "c").toNat?
  let s ← fieldVal fs "s"
  pure { events := ev, queue := q, members := ms, intents := is, sf := sf, sl := sl, sm := sm, life := s, clock := c }

/-- Model side of one trace line: new node and the canonical output. -/
def modelLine (n : Node) (f : List String) : Node × String × HOp :=
  let h := parseOp f
  if n.life = .shutdown then (n, (match h with | .bad => "bad-op" | _ => "after-shutdown"), .bad) else
  match h with
  | .bad => (n, "bad-op", h)
  | .localState => (n, showLocalState n, h)
  | .sync2 x =>
    -- a fresh peer that memberlist told about x, merging this node's LocalState (clock, every member's status time, left list)
    let peer := (step (Node.init "peer" cfg) (.nodeJoin x)).1
    let p' := (step peer (.merge n.clock (n.members.map fun q => (q.1, q.2.ltime)) n.left 0)).1
    let view := match alookup p'.members x with
      | some m => s!"{Status.str m.status}:{m.ltime}"
      | none => "absent"
    (n, s!"peer={view}", h)
  | _ =>
    let v := applyOps n (expand n h)
    (v.node, showVis v, h)

/-- First monitor failure wins. -/
def firstSome {α} : List (Option α) → Option α
  | [] => none
  | some a :: _ => some a
  | none :: r => firstSome r

/-- State shared by all node checkers: the model node plus the previous observation of the
implementation (for monitors that compare consecutive observations). -/
structure Base where
  node : Node := initNode
  prev : Obs := { members := [(selfName, .alive, 0)], sm := 1, life := "alive", clock := 1 }
  deriving Inhabited

def Obs.ltimeOf (o : Obs) (x : Name) : Option Nat := (o.members.find? (·.1 == x)).map (·.2.2)
def Obs.statusOf (o : Obs) (x : Name) : Option Status := (o.members.find? (·.1 == x)).map (·.2.1)
def Obs.knows (o : Obs) (x : Name) : Bool := (o.members.find? (·.1 == x)).isSome

/-- the Lamport time of the leave claim about the local node carried by a harness op, if any -/
def selfClaim (prev : Obs) : HOp → Option Nat
  | .ops [.leaveMsg x lt _ _] => if x == selfName then some lt else none
  | .ops [.forceLeave x _ _] => if x == selfName then some prev.clock else none
  | .ops [.merge _ status left _] =>
    if left.contains selfName then some ((((alookup status selfName).getD 0) + 1) % two64) else none
  | _ => none

/-- ops by which the local node begins leaving (Leave, Shutdown, memberlist reporting it dead) -/
def beginsLeaving : HOp → Bool
  | .leave _ => true
  | .ops [.shutdown] => true
  | .ops [.nodeLeave x _] => x == selfName
  | _ => false

/-- The refutation rule judged on the implementation's observations: a claim about the running local
node (not begun leaving) with a time newer than its own status time and below 2^64-1 must be answered
by a queued join of the local node with a STRICTLY greater time.  Returns the message of a failure. -/
def refutationFailure (begun : Bool) (prev cur : Obs) (h : HOp) : Option String :=
  match selfClaim prev h with
  | some lt =>
    if !begun && lt < two64 - 1 && (match prev.ltimeOf selfName with | some t => decide (t < lt) | none => false)
       && !(cur.queue.any fun m => match m with | .join x t => x == selfName && decide (lt < t) | _ => false) then
      some s!"claim about the running local node at time {lt} was not refuted by a join with a greater time (queued: {cur.queue.map Msg.str})"
    else none
  | none => none

end SerfModel.Check.NodeCommon
