import SerfModel.Check.NodeCommon
/-!
C02 checker, per-step clauses on one node (ops: see NodeCommon / harness/node.go).

Monitor, on the IMPLEMENTATION's observations only (previous vs. current observation):
  ltime-decreased       a member listed before and after a step has a smaller status time after it
  stale-intent-applied  a join / leave intent whose Lamport time is not newer than the member's
                        status time changed the member's status or status time, or was re-queued
  newer-intent-not-recorded  a newer join / leave intent about a listed member (other than a leave claim about the
                        running local node, which is refuted instead) did not become the member's status time
  rejoined-stuck-leaving  a join intent about a member that memberlist reports up is ignored because its Lamport
                        time EQUALS the status time set by the artificial leave intent of a merge (stale LeftMembers
                        entry of a peer, time StatusLTimes+1): the running member stays `leaving`   — recorded finding
  stale-buffered-intent-applied  a join / leave intent about a member that is not listed yet, whose Lamport time is
                        not newer than the intent already buffered for it, replaced the buffered intent or was re-queued
  join-ignores-buffered-intent  memberlist announces a not-yet-listed member: its status / status time are not those of
                        the newest intent delivered for it while unlisted (leave ⇒ leaving, join ⇒ alive, at that time;
                        alive at 0 when nothing is buffered)
  localstate-missing-status-time / localstate-missing-left  LocalState (the push/pull image) lacks the status time of a
                        listed member (left members included) or a left member in LeftMembers
  claim-not-outdated    a leave / force-leave / left-by-merge claim about the running local node, newer than its status
                        time, was answered by no join with a STRICTLY greater Lamport time: the refutation is not newer
                        than the claim, every other member discards it and keeps the claim (resolution by Lamport time fails)
  leaving-down-not-left / alive-down-not-failed  memberlist's death notification (worded StateDead or StateLeft) about a
                        leaving member must make it left, about an alive member failed
  localstate-left-not-left  LocalState lists a member in LeftMembers that this node does not list as left
  sync-invents-leave    a fresh peer merging this node's LocalState must receive a non-left member as a join intent at this
                        node's status time (a left member as a leave at that time + 1)
  merge-stale-applied   same, for an entry of a push/pull merge (left member ⇒ leave at t+1, else join at t)
-/
namespace SerfModel.Check.C02
open SerfModel SerfModel.Check SerfModel.Node SerfModel.Check.NodeCommon

structure St where
  base : Base := {}
  /-- monitor: last memberlist notification per member (true = NotifyJoin) -/
  mlUp : List (Name × Bool) := []
  /-- monitor: members that a merge's artificial leave intent (LeftMembers entry, time StatusLTimes+1)
  turned from alive to leaving while memberlist reports them up, with that artificial time -/
  artLeave : List (Name × Nat) := []
  /-- monitor: for members not (yet) listed, the newest intent delivered while unlisted — (isLeave, time);
  a later intent replaces it only when strictly newer; forgotten when the node's buffered intent is reaped -/
  best : List (Name × Bool × Nat) := []
  /-- monitor: the local node has begun leaving (Leave / Shutdown / memberlist death notice) -/
  begun : Bool := false
  deriving Inhabited

def monotone (prev cur : Obs) : Option (String × String) :=
  match prev.members.find? (fun m => match cur.ltimeOf m.1 with | some t => decide (t < m.2.2) | none => false) with
  | some m => some ("ltime-decreased", s!"status time of {m.1} went from {m.2.2} to {cur.ltimeOf m.1}")
  | none => none

def unchanged (prev cur : Obs) (x : Name) : Bool :=
  prev.statusOf x == cur.statusOf x && prev.ltimeOf x == cur.ltimeOf x

def stale (prev cur : Obs) (h : HOp) : Option (String × String) :=
  match h with
  | .ops [op] =>
    match op.msg? with
    | some m =>
      (match prev.ltimeOf m.node with
      | some t =>
        if m.ltime ≤ t && (!unchanged prev cur m.node || cur.queue.contains m) then
          some ("stale-intent-applied", s!"intent {Msg.str m} is not newer than status time {t} but took effect")
        else if t < m.ltime && !(m.node == selfName && prev.life == "alive" && (match m with | .leave .. => true | _ => false))
             && (match cur.ltimeOf m.node with | some t' => t' != m.ltime | none => false) then
          some ("newer-intent-not-recorded", s!"intent {Msg.str m} is newer than status time {t} but the member's status time is {cur.ltimeOf m.node} afterwards")
        else none
      | none => none)
    | none =>
      (match op with
      | .merge _ status left _ =>
        -- claims a merge makes about known members, with their effective Lamport times
        let claims := left.map (fun x => (x, (((alookup status x).getD 0) + 1) % two64)) ++
                      status.filter (fun p => !left.contains p.1)
        -- a name claimed once, staler than what is recorded: nothing about it may change
        (match claims.find? (fun c => (claims.filter (·.1 == c.1)).length == 1 &&
              (match prev.ltimeOf c.1 with | some t => decide (c.2 ≤ t) | none => false) && !unchanged prev cur c.1) with
        | some c => some ("merge-stale-applied", s!"merge entry about {c.1} at time {c.2} is not newer but took effect")
        | none => none)
      | _ => none)
  | _ => none

/-- the intents (name, isLeave, time) a harness op delivers, in processing order -/
def deliveredIntents (prev : Obs) : HOp → List (Name × Bool × Nat)
  | .ops [.forceLeave x _ _] => [(x, true, prev.clock)]      -- local force-leave: claim at the clock
  | .ops [.ownJoin _] => [(selfName, false, prev.clock)]
  | .leave _ => if prev.life == "alive" then [(selfName, true, prev.clock)] else []
  | .ops [.joinMsg x t _] => [(x, false, t)]
  | .ops [.leaveMsg x t _ _] => [(x, true, t)]
  | .ops [.merge _ status left _] =>
    left.map (fun x => (x, true, (((alookup status x).getD 0) + 1) % two64)) ++
    (status.filter (fun p => !left.contains p.1)).map (fun p => (p.1, false, p.2))
  | _ => []

/-- newest-wins bookkeeping for members that are not listed: strictly newer replaces -/
def updBest (prev : Obs) (best : List (Name × Bool × Nat)) (i : Name × Bool × Nat) : List (Name × Bool × Nat) :=
  if prev.knows i.1 then best else
  match alookup best i.1 with
  | some b => if b.2 < i.2.2 then ainsert best i.1 i.2 else best
  | none => ainsert best i.1 i.2

/-- a stale intent about an unlisted member must leave the buffered intent alone and not be re-queued -/
def staleBuffered (prev cur : Obs) (h : HOp) : Option (String × String) :=
  match h with
  | .ops [op] =>
    (match op.msg? with
    | some m =>
      if prev.knows m.node || cur.knows m.node then none else
      (match prev.intents.find? (·.1 == m.node) with
      | some b =>
        if m.ltime ≤ b.2.2 && (cur.intents.find? (·.1 == m.node) != some b || cur.queue.contains m) then
          some ("stale-buffered-intent-applied", s!"intent {Msg.str m} is not newer than the buffered intent at time {b.2.2} for {m.node} but replaced it or was re-queued")
        else none
      | none => none)
    | none => none)
  | _ => none

/-- what memberlist's announcement of an unlisted member must produce -/
def joinFromBuffer (best : List (Name × Bool × Nat)) (prev cur : Obs) (h : HOp) : Option (String × String) :=
  match h with
  | .ops [.nodeJoin x] =>
    if prev.knows x then none else
    let want : Status × Nat :=
      match prev.intents.find? (·.1 == x), alookup best x with
      | some _, some b => (if b.1 then .leaving else .alive, b.2)   -- an intent is still buffered: the newest one delivered decides
      | some b, none => (if b.2.1 then .leaving else .alive, b.2.2)
      | none, _ => (.alive, 0)
    if cur.statusOf x != some want.1 || cur.ltimeOf x != some want.2 then
      some ("join-ignores-buffered-intent", s!"{x} announced by memberlist: expected {Status.str want.1} at time {want.2} (newest intent delivered while it was not listed), the node lists {(cur.statusOf x).map Status.str} at {cur.ltimeOf x}")
    else none
  | _ => none

def step (s : St) (f : List String) (impl : String) : LineOut St :=
  let (n', out, h) := modelLine s.base.node f
  match h with
  | .bad => { state := s, model := some out }
  | .localState =>
    -- LocalState must carry the status time of EVERY listed member (left ones too: MergeRemoteState makes the
    -- leave intent of a left member at StatusLTimes[name] + 1) and every name of the left list
    let fs := fields impl
    let st := (fieldVal fs "st").map fun v => (splitList v).filterMap (parsePair · (·.toNat?))
    let lf := (fieldVal fs "left").map fun v => (splitList v).filterMap stringOfHex?
    let m : Option (String × String) := match st, lf with
      | some st, some lf =>
        match s.base.prev.members.find? (fun mem => alookup st mem.1 != some mem.2.2) with
        | some mem => some ("localstate-missing-status-time", s!"LocalState does not carry status time {mem.2.2} of listed member {mem.1} (it carries {alookup st mem.1})")
        | none =>
          -- (a left list holding only the empty name prints like the empty list: such a member is not judged here)
          match (s.base.prev.members.filter (fun mem => mem.2.1 == .left && mem.1 != "")).find? (fun mem => !lf.contains mem.1) with
          | some mem => some ("localstate-missing-left", s!"LocalState does not list left member {mem.1} in LeftMembers")
          | none =>
            -- … and ONLY those: a member that is alive / leaving / failed must travel as a join time, or the receiver
            -- invents a leave intent at its time + 1
            match lf.find? (fun x => s.base.prev.statusOf x != some .left) with
            | some x => some ("localstate-left-not-left", s!"LocalState lists {x} in LeftMembers although this node lists it as {(s.base.prev.statusOf x).map Status.str}")
            | none => none
      | _, _ => some ("malformed", impl)
    { state := s, model := some out, monitor := m }
  | .sync2 x =>
    -- what a fresh peer (knowing x as alive at time 0) holds after merging this node's LocalState: a member this
    -- node does NOT list as left reaches it as a JOIN intent at this node's status time; a left one as a leave at +1
    let want : Option String := match s.base.prev.statusOf x, s.base.prev.ltimeOf x with
      | some .left, some t => some (if (t + 1) % two64 = 0 then "alive:0" else s!"leaving:{(t + 1) % two64}")
      | some _, some t => some s!"alive:{t}"
      | _, _ => some "alive:0"
    let m : Option (String × String) :=
      if some impl != want.map (fun w => "peer=" ++ w) then
        some ("sync-invents-leave", s!"after a push/pull of this node's state a fresh peer holds {impl} for {x}; this node lists it as {(s.base.prev.statusOf x).map Status.str} at {s.base.prev.ltimeOf x}, so the peer must hold peer={want}")
      else none
    { state := s, model := some out, monitor := m }
  | _ =>
    match parseObs impl with
    | none => { state := { s with base := { s.base with node := n' } }, model := some out, monitor := some ("malformed", impl) }
    | some o =>
      let prev := s.base.prev
      let mlUp := match h with
        | .ops [.nodeJoin x] => ainsert s.mlUp x true
        | .ops [.nodeLeave x _] => ainsert s.mlUp x false
        | _ => s.mlUp
      -- artificial leaves of this merge that turned a memberlist-alive member from alive to leaving
      let art0 := s.artLeave.filter fun e => o.statusOf e.1 == some .leaving && o.ltimeOf e.1 == some e.2
      let art := match h with
        | .ops [.merge _ status left _] =>
          left.foldl (fun acc x =>
            let t := (((alookup status x).getD 0) + 1) % two64
            if prev.statusOf x == some .alive && o.statusOf x == some .leaving && o.ltimeOf x == some t
               && (alookup mlUp x).getD (x == selfName) then ainsert acc x t else acc) art0
        | _ => art0
      let stuck : Option (String × String) := match h with
        | .ops [.joinMsg x t _] =>
          if alookup s.artLeave x == some t && o.statusOf x == some .leaving && (alookup mlUp x).getD false then
            some ("rejoined-stuck-leaving", s!"join intent of {x} at time {t} ignored: a merge's artificial leave already set status time {t}; memberlist reports {x} up, the node lists it as leaving")
          else none
        | _ => none
      -- buffered-intent bookkeeping: newest delivered intent per unlisted member; forgotten when the node's buffer entry was reaped
      let best0 := (deliveredIntents prev h).foldl (updBest prev) s.best
      let best := best0.filter fun e => !((prev.intents.find? (·.1 == e.1)).isSome && (o.intents.find? (·.1 == e.1)).isNone)
      -- memberlist's death notification, however memberlist words it (dead / left): leaving ⇒ left, alive ⇒ failed
      let down : Option (String × String) := match h with
        | .ops [.nodeLeave x _] =>
          (match prev.statusOf x, o.statusOf x with
          | some .leaving, some .left => none
          | some .leaving, st => some ("leaving-down-not-left", s!"{x} had announced its leave (leaving) and went down, but is listed as {st.map Status.str} instead of left")
          | some .alive, some .failed => none
          | some .alive, st => some ("alive-down-not-failed", s!"{x} was alive and went down, but is listed as {st.map Status.str} instead of failed")
          | _, _ => none)
        | _ => none
      let begun := s.begun || beginsLeaving h
      let outdated : Option (String × String) := (refutationFailure begun prev o h).map fun msg => ("claim-not-outdated", msg)
      { state := { base := { node := n', prev := o }, mlUp := mlUp, artLeave := art, best := best, begun := begun }, model := some out,
        monitor := firstSome [stuck, monotone prev o, stale prev o h, staleBuffered prev o h, joinFromBuffer s.best prev o h, outdated, down] }

def checker : Checker := { σ := St, init := {}, step := step }

end SerfModel.Check.C02
