import SerfModel.Check.Core
import SerfModel.Model.LogWriters
import SerfModel.Gen.AgentSync
/-!
C29 checker.
GatedWriter (sequential differential; model = the interleaving semantics run single-threaded
under the regenerated skeleton):
  `gw <hex>` → ok      `gflush` → ok      `gout` → lines received by the underlying writer
  `gconc …`  → `out <tid.phase.i>,…`  a free-running concurrent run (monitored only)
logWriter:
  `lnew <cap>` `lw <hex>` `lreg <id>` `ldereg <id>` → ok    `lget <id>` → lines handler id received
-/
namespace SerfModel.Check.C29
open SerfModel SerfModel.Check SerfModel.LogWriters

structure St where
  g : Sys := Sys.init [[]]
  lw : LW := LW.new 1
  /-- monitor (gated): lines written so far, whether flush was called -/
  gAll : List String := []
  gFlushed : Bool := false
  /-- monitor (logWriter): capacity, all lines so far, registration point per live handler -/
  cap : Nat := 1
  lAll : List String := []
  lReg : List (Nat × Nat) := []
  deriving Inhabited

def sk := SerfModel.Gen.AgentSync.gated

/-- run one op to completion on thread 0 -/
def gDo (s : Sys) (op : Op) : Sys :=
  let s1 := { s with threads := s.threads.map fun th => { th with todo := th.todo ++ [op] } }
  run sk s1 (List.replicate (4 + s.buf.length) 0)

def showLines (ls : List String) : String :=
  if ls.isEmpty then "-" else ",".intercalate (ls.map hexOfString)

def parseLines (s : String) : Option (List String) :=
  if s == "-" then some [] else (s.splitOn ",").mapM stringOfHex?

structure CLine where
  tid : Nat
  phase : Nat
  i : Nat
  deriving DecidableEq, Inhabited

def parseCLine (s : String) : Option CLine :=
  match s.splitOn "." with
  | [a, b, c] => match a.toNat?, b.toNat?, c.toNat? with
    | some x, some y, some z => some ⟨x, y, z⟩
    | _, _, _ => none
  | _ => none

/-- Are the `i` indices of one (tid, phase) stream increasing by one from 0? -/
def inOrder (ls : List CLine) (tid phase n : Nat) : Bool :=
  ((ls.filter fun l => l.tid == tid && l.phase == phase).map (·.i)) == List.range n

def monitorConc (w n1 n2 : Nat) (out : List CLine) : Option (String × String) :=
  if out.length != w * (n1 + n2) then
    some ("line-lost-or-duplicated", s!"{w} writers × ({n1}+{n2}) lines were written, the output has {out.length}")
  else if !((List.range w).all fun t => inOrder out t 1 n1 && inOrder out t 2 n2) then
    some ("writer-order", "a writer's lines are missing, duplicated or out of order in the output")
  else
    -- every phase-1 line (Write returned before Flush was called) precedes every phase-2 line
    let firstP2 := out.findIdx (fun l => l.phase == 2)
    if (out.drop firstP2).any (fun l => l.phase == 1) then
      some ("overtaken", "a line written after the gate opened precedes a line written before it")
    else none

def step (s : St) (op : List String) (impl : String) : LineOut St :=
  match op with
  | ["gw", h] =>
    match stringOfHex? h with
    | some t => { state := { s with g := gDo s.g (.write t), gAll := s.gAll ++ [t] }, model := some "ok" }
    | none => { state := s, model := some "bad-op" }
  | ["gflush"] => { state := { s with g := gDo s.g .flush, gFlushed := true }, model := some "ok" }
  | ["gout"] =>
    let m := match parseLines impl with
      | none => some ("malformed", impl)
      | some got =>
        if s.gFlushed then
          if got != s.gAll then some ("gated-output", s!"after the gate opened the output is not the written lines in order") else none
        else if got != [] then some ("gated-early", "output before the gate opened") else none
    { state := s, model := some (showLines (s.g.out.map (·.text))), monitor := m }
  | ["gconc", w, n1, n2, _seed] =>
    match w.toNat?, n1.toNat?, n2.toNat? with
    | some w, some n1, some n2 =>
      if impl.startsWith "out " then
        let body := String.ofList (impl.toList.drop 4)
        match ((body.splitOn ",").filter (· ≠ "")).mapM parseCLine with
        | some out => { state := s, model := none, monitor := monitorConc w n1 n2 out }
        | none => { state := s, model := none, monitor := some ("malformed", "unparsable concurrent output") }
      else { state := s, model := some "out …" }
    | _, _, _ => { state := s, model := some "bad-op" }
  | ["grounds", _, _, _] =>
    { state := s, model := none,
      monitor := if impl == "lost=0 dup=0" then none
                 else if impl.startsWith "lost=" then some ("line-lost-or-duplicated", s!"racing the gate opening: {impl}")
                 else some ("malformed", impl) }
  | ["lattach", _, _, k] =>
    -- monitors attach and detach while several goroutines log: Write and RegisterHandler are each one critical
    -- section of the same lock (`C29_logwriter_skeleton`), so a monitor receives a contiguous stretch of the write
    -- order: per writer consecutive numbers, nothing twice (`C29_monitor_backlog`)
    let expect := s!"attaches={k} dup=0 gap=0 back=0"
    let m := if impl == expect then none
      else if !impl.startsWith "attaches=" then some ("malformed", impl)
      else if (impl.splitOn "dup=0").length < 2 then some ("attach-duplicate", s!"a monitor received a line twice while attaching under load: {impl}")
      else some ("attach-gap", s!"a monitor missed or re-ordered lines while attached under load: {impl}")
    { state := s, model := some expect, monitor := m }
  | ["lconc", c, k] =>
    -- k lines "o0".."o(k-1)" logged, then a monitor attaches while one more line is logged by another goroutine:
    -- RegisterHandler holds the writer's lock over the whole replay of the backlog (extracted lock shape,
    -- `C29_logwriter_skeleton`), so the attach and the write are serialised and, in either order, the monitor sees
    -- the buffered lines before the new one.
    match c.toNat?, k.toNat? with
    | some c, some k =>
      let lw := (List.range k).foldl (fun (lw : LW) i => lw.write s!"o{i}") (LW.new c)
      let lw := (lw.register 0).write "new"
      let expect := match alookup lw.handlers 0 with
        | some ls => showLines ls
        | none => "none"
      let m := match parseLines impl with
        | none => some ("malformed", impl)
        | some got =>
          let idx := got.findIdx (· == "new")
          if (got.drop (idx + 1)).any (· != "new") then
            some ("attach-overtaken", "a line logged while a monitor was attaching reached it before older buffered lines")
          else none
      { state := s, model := some expect, monitor := m }
    | _, _ => { state := s, model := some "bad-op" }
  | ["lnew", c] =>
    match c.toNat? with
    | some c => { state := { s with lw := LW.new c, cap := c, lAll := [], lReg := [] }, model := some "ok" }
    | none => { state := s, model := some "bad-op" }
  | ["lw", h] =>
    match stringOfHex? h with
    | some t => { state := { s with lw := s.lw.write t, lAll := s.lAll ++ [t] }, model := some "ok" }
    | none => { state := s, model := some "bad-op" }
  | ["lreg", i] =>
    match i.toNat? with
    | some i =>
      let reg := if (alookup s.lReg i).isSome then s.lReg else s.lReg ++ [(i, s.lAll.length)]
      { state := { s with lw := s.lw.register i, lReg := reg }, model := some "ok" }
    | none => { state := s, model := some "bad-op" }
  | ["ldereg", i] =>
    match i.toNat? with
    | some i => { state := { s with lw := s.lw.deregister i, lReg := aerase s.lReg i }, model := some "ok" }
    | none => { state := s, model := some "bad-op" }
  | ["lget", i] =>
    match i.toNat? with
    | some i =>
      let modelOut := match alookup s.lw.handlers i with
        | some ls => showLines ls
        | none => "none"
      -- monitor: backlog = last min(k,cap) lines before registration, then every later line
      let m := match alookup s.lReg i, parseLines impl with
        | some k, some got =>
          let pre := s.lAll.take k
          let expect := pre.drop (k - s.cap) ++ s.lAll.drop k
          if got != expect then
            some ("monitor-backlog",
                  s!"handler {i} received {got.length} lines, expected the last {min k s.cap} buffered lines then {s.lAll.length - k} later ones")
          else none
        | _, _ => none
      { state := s, model := some modelOut, monitor := m }
    | none => { state := s, model := some "bad-op" }
  | _ => { state := s, model := some "bad-op" }

def checker : Checker := { σ := St, init := {}, step := step }

end SerfModel.Check.C29
