import SerfModel.Check.Core
import SerfModel.Model.MemberCoalesce
/-!
C17 checker.  Ops:
  `ev <kind> <name>:<ver> …`  one member event (names hex-encoded) → `ok`
  `flush`                     → the flushed events, sorted, as `kind/name/ver,…` (`-` if none)
The monitor re-states the property on the implementation's own outputs: every
flush reports each member at most once, with the latest event since the previous
flush, nothing for members without a new event, and suppresses exactly the events
of the same non-update kind as the last one *the implementation* reported.
-/
namespace SerfModel.Check.C17
open SerfModel SerfModel.Check SerfModel.MemberCoalesce

structure St where
  mc : MC := {}
  /-- monitor: events since the previous flush (oldest first) -/
  pending : List MEv := []
  /-- monitor: kind the implementation last reported per member -/
  seen : List (String × Kind) := []
  deriving Inhabited

def parseMember (kind : Kind) (s : String) : Option MEv :=
  match s.splitOn ":" with
  | [n, v] => match stringOfHex? n, v.toNat? with
    | some name, some ver => some ⟨kind, name, ver⟩
    | _, _ => none
  | _ => none

def showEv (e : MEv) : String := s!"{e.kind.toString}/{hexOfString e.name}/{e.ver}"

def parseEv (s : String) : Option MEv :=
  match s.splitOn "/" with
  | [k, n, v] => match Kind.ofString? k, stringOfHex? n, v.toNat? with
    | some kind, some name, some ver => some ⟨kind, name, ver⟩
    | _, _, _ => none
  | _ => none

def insertSorted (s : String) : List String → List String
  | [] => [s]
  | x :: xs => if s ≤ x then s :: x :: xs else x :: insertSorted s xs

def sortStrings (l : List String) : List String := l.foldr insertSorted []

def showOut (out : List MEv) : String :=
  if out.isEmpty then "-" else ",".intercalate (sortStrings (out.map showEv))

def lastFor (q : List MEv) (n : String) : Option MEv := (q.filter (·.name == n)).getLast?

/-- The property, evaluated on one flush of the implementation. -/
def monitorFlush (s : St) (out : List MEv) : Option (String × String) :=
  let names := out.map (·.name)
  if names.eraseDups.length != names.length then some ("member-twice", "a flush reported a member more than once")
  else
    match out.find? (fun o => lastFor s.pending o.name != some o) with
    | some o =>
      if (lastFor s.pending o.name).isNone then
        some ("stale-event", s!"flush reported {showEv o} although the member had no new event since the previous flush")
      else some ("not-latest", s!"flush reported {showEv o}, which is not the latest event received for that member")
    | none =>
      let pendNames := (s.pending.map (·.name)).eraseDups
      match pendNames.find? (fun n =>
          match lastFor s.pending n with
          | some e => (out.contains e) == suppressed s.seen e
          | none => false) with
      | some n => some ("suppression", s!"member {hexOfString n}: latest event wrongly suppressed or wrongly reported")
      | none => none

def step (s : St) (op : List String) (impl : String) : LineOut St :=
  match op with
  | "ev" :: k :: ms =>
    match Kind.ofString? k with
    | none => { state := s, model := some "bad-op" }
    | some kind =>
      match ms.mapM (parseMember kind) with
      | none => { state := s, model := some "bad-op" }
      | some evs =>
        { state := { s with mc := evs.foldl coalesce s.mc, pending := s.pending ++ evs }, model := some "ok" }
  | ["flush"] =>
    let (mc', out) := flush s.mc
    let implOut : Option (List MEv) := if impl == "-" then some [] else (impl.splitOn ",").mapM parseEv
    match implOut with
    | none => { state := { s with mc := mc' }, model := some (showOut out), monitor := some ("malformed", impl) }
    | some io =>
      let m := monitorFlush s io
      let seen' := io.foldl (fun acc e => ainsert acc e.name e.kind) s.seen
      { state := { mc := mc', pending := [], seen := seen' }, model := some (showOut out), monitor := m }
  | _ => { state := s, model := some "bad-op" }

def checker : Checker := { σ := St, init := {}, step := step }

end SerfModel.Check.C17
