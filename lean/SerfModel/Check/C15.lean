import SerfModel.Check.NodeCommon
/-!
C15 checker (ops: see NodeCommon / harness/node.go).

Monitor, on the IMPLEMENTATION's observations only (own bookkeeping: the previous
observation and the leave times the harness supplied):
  names-unique    Members() lists a name twice
  failed-count    Stats()["failed"] ≠ number of members listed as failed
  left-count      Stats()["left"]   ≠ number of members listed as left
  members-count   Stats()["members"] ≠ number of members listed
  failed-reaped-early  a reaper tick erased a failed member before the (overridden) reconnect timeout had passed since
                  its LATEST failure (e.g. a member that flapped keeps the stamp of its first failure)
  reap-inexact    a reaper tick did not remove exactly the failed members past the (overridden)
                  reconnect timeout and the left members past the (overridden) tombstone timeout
  vanish-events   the members that disappeared in a step are not exactly the reap events of the step
  prune-stays     a newer prune claim about a known member (not the running local node) left it listed
-/
namespace SerfModel.Check.C15
open SerfModel SerfModel.Check SerfModel.Node SerfModel.Check.NodeCommon

structure St where
  base : Base := {}
  /-- monitor: leave times supplied by the harness, per member -/
  leaveTimes : List (Name × Nat) := []
  deriving Inhabited

def countSt (o : Obs) (s : Status) : Nat := (o.members.filter (fun m => m.2.1 = s)).length

def consistency (o : Obs) : Option (String × String) :=
  let names := o.members.map (·.1)
  if names.eraseDups.length != names.length then some ("names-unique", "Members() lists a name twice")
  else if o.sf != countSt o .failed then
    some ("failed-count", s!"Stats failed={o.sf} but {countSt o .failed} members are listed as failed")
  else if o.sl != countSt o .left then
    some ("left-count", s!"Stats left={o.sl} but {countSt o .left} members are listed as left")
  else if o.sm != o.members.length then
    some ("members-count", s!"Stats members={o.sm} but {o.members.length} members are listed")
  else none

/-- members that disappeared = reap events, each exactly once -/
def vanish (prev cur : Obs) : Option (String × String) :=
  let gone := (prev.members.map (·.1)).filter (fun x => !(cur.members.map (·.1)).contains x)
  let reaps := (cur.events.filter (fun e => e.1 = .reap)).map (·.2)
  if sortStrings (gone.map hexOfString) != sortStrings (reaps.map hexOfString) then
    some ("vanish-events", s!"disappeared: {gone}, reap events: {reaps}")
  else none

def reapExact (s : St) (now : Nat) (ov : Name → Nat → Nat) (cur : Obs) : Option (String × String) :=
  let due := s.base.prev.members.filter fun m =>
    let lt := (alookup s.leaveTimes m.1).getD 0
    (m.2.1 = .failed && decide (now - lt > ov m.1 cfg.reconnect)) ||
    (m.2.1 = .left && decide (now - lt > ov m.1 cfg.tombstone))
  let expect := (s.base.prev.members.filter (fun m => !due.contains m)).map (·.1)
  -- a FAILED member that is not yet past its timeout (counted from its LATEST failure) was erased
  let early := (s.base.prev.members.filter (fun m => !due.contains m && m.2.1 = .failed)).filter (fun m => !cur.knows m.1)
  if !early.isEmpty then
    some ("failed-reaped-early", s!"reaper at {now}: failed member(s) {early.map (·.1)} erased before the reconnect timeout after their latest failure (leave times {early.map fun m => (alookup s.leaveTimes m.1).getD 0})")
  else if sortStrings (expect.map hexOfString) != sortStrings (cur.members.map fun m => hexOfString m.1) then
    some ("reap-inexact", s!"reaper at {now}: expected to keep {expect}, implementation lists {cur.members.map (·.1)}")
  else none

def pruneGone (s : St) (x : Name) (lt : Nat) (cur : Obs) : Option (String × String) :=
  match s.base.prev.members.find? (·.1 == x) with
  | some m =>
    if m.2.2 < lt && !(x == selfName && s.base.prev.life == "alive") && (cur.members.map (·.1)).contains x then
      some ("prune-stays", s!"member {x} is still listed after a newer prune claim")
    else none
  | none => none

def step (s : St) (f : List String) (impl : String) : LineOut St :=
  let (n', out, h) := modelLine s.base.node f
  match h with
  | .bad => { state := s, model := some out }
  | .localState => { state := s, model := some out }
  | .sync2 _ => { state := s, model := some out }
  | _ =>
    match parseObs impl with
    | none => { state := { s with base := { s.base with node := n' } }, model := some out, monitor := some ("malformed", impl) }
    | some o =>
      -- leave times the harness installed in this step
      let lts := match h with
        | .ops [.nodeLeave x a] =>
          match s.base.prev.members.find? (·.1 == x) with
          | some m => if m.2.1 = .alive ∨ m.2.1 = .leaving then ainsert s.leaveTimes x a else s.leaveTimes
          | none => s.leaveTimes
        | .leave a =>
          match s.base.prev.members.find? (·.1 == selfName) with
          | some m => if s.base.prev.life == "alive" ∧ (m.2.1 = .alive ∨ m.2.1 = .leaving) then ainsert s.leaveTimes selfName a else s.leaveTimes
          | none => s.leaveTimes
        | _ => s.leaveTimes
      let specific := match h with
        | .ops [.reap now ov] => reapExact s now ov o
        | .ops [.leaveMsg x lt true _] => pruneGone s x lt o
        | .ops [.forceLeave x true _] => pruneGone s x s.base.prev.clock o
        | _ => none
      let m := firstSome [consistency o, vanish s.base.prev o, specific]
      { state := { base := { node := n', prev := o }, leaveTimes := lts }, model := some out, monitor := m }

def checker : Checker := { σ := St, init := {}, step := step }

end SerfModel.Check.C15
