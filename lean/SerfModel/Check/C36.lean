import SerfModel.Check.Core
import SerfModel.Model.Conflict
/-!
C36 checker.  Ops:

  `r <payload>/<class>`                      one reply of the coming conflict → `ok`
  `vote <flavour> <selfaddr> <selfport>`     the conflict runs with these replies → `alive m/r` | `shutdown m/r`

`payload` is the reply payload handed to the real node; `class` says what the bytes
after the type byte decode to (`X` error, `N` nil member, `A<addr>:<port>`): it
instantiates the model's decoder parameter for this case (the real msgpack decoder
runs inside the real `resolveNodeConflict`).

MODEL: `Conflict.tally` / `shutsDown` on the payload list.  MONITOR (own
bookkeeping, the property as stated): v = replies whose first byte is the
conflict-response type and whose rest decodes; m = those naming the node's own
address and port; the implementation must have shut down iff ¬ (2·m > v), and must
have logged exactly these tallies.
-/
namespace SerfModel.Check.C36
open SerfModel SerfModel.Check SerfModel.Conflict

def parseClass (s : String) : Option (Option (Option MAddr)) :=
  if s == "X" then some none
  else if s == "N" then some (some none)
  else match s.toList with
    | 'A' :: rest =>
      match (String.ofList rest).splitOn ":" with
      | [a, p] => match bytesOfHex? a, p.toNat? with
        | some addr, some port => some (some (some ⟨addr, port⟩))
        | _, _ => none
      | _ => none
    | _ => none

def parseReply (s : String) : Option (Bytes × Option (Option MAddr)) :=
  match s.splitOn "/" with
  | [p, c] => match bytesOfHex? p, parseClass c with
    | some payload, some cls => some (payload, cls)
    | _, _ => none
  | _ => none

/-- The decoder of this case: a table from "bytes after the type byte" to the class. -/
def tableDecoder (rs : List (Bytes × Option (Option MAddr))) : Decoder := fun rest =>
  match rs.find? (fun r => r.1.drop 1 == rest) with
  | some r => r.2
  | none => none

def parseImpl (s : String) : Option (Bool × Nat × Nat) :=
  match s.splitOn " " with
  | [st, t] =>
    match t.splitOn "/" with
    | [m, r] => match m.toNat?, r.toNat? with
      | some m, some r =>
        if st == "alive" then some (false, m, r) else if st == "shutdown" then some (true, m, r) else none
      | _, _ => none
    | _ => none
  | _ => none

abbrev St := List (Bytes × Option (Option MAddr))

def step (s : St) (op : List String) (impl : String) : LineOut St :=
  match op with
  | ["r", r] =>
    match parseReply r with
    | some rep => { state := s ++ [rep], model := some "ok" }
    | none => { state := s, model := some "bad-op" }
  | ["vote", _flavour, a, p] =>
    match bytesOfHex? a, p.toNat?, some s with
    | some addr, some port, some replies =>
      let decode := tableDecoder replies
      let t := tally decode addr port (replies.map (·.1))
      let down := shutsDown t
      let model := (if down then "shutdown " else "alive ") ++ s!"{t.matching}/{t.responses}"
      -- monitor
      let valid := replies.filter (fun r => r.1.head? == some conflictResponseType && r.2.isSome)
      let v := valid.length
      let m := (valid.filter (fun r => match r.2 with
        | some (some ma) => ipEqual ma.addr addr && ma.port == port
        | _ => false)).length
      let mon : Option (String × String) :=
        match parseImpl impl with
        | none => some ("malformed", impl)
        | some (implDown, im, ir) =>
          if implDown && 2 * m > v then
            some ("shutdown-with-majority", s!"{m} of {v} valid replies name this node (a strict majority) but it shut down")
          else if !implDown && !(2 * m > v) then
            some ("alive-without-majority", s!"only {m} of {v} valid replies name this node (no strict majority) but it stayed up")
          else if ir != v then some ("valid-count", s!"the node counted {ir} valid replies, there were {v}")
          else if im != m then some ("mine-count", s!"the node counted {im} replies naming it, there were {m}")
          else none
      { state := [], model := some model, monitor := mon }
    | _, _, _ => { state := s, model := some "bad-op" }
  | _ => { state := s, model := some "bad-op" }

def checker : Checker := { σ := St, init := [], step := step }

end SerfModel.Check.C36
