import SerfModel.Check.Core
import SerfModel.Model.Atomic
import SerfModel.Gen.Lamport
/-!
C19 checker.  Sequential ops (`time`, `inc`, `witness v`) are run through the
*generated* clock programs and compared with the real clock; the monitor checks,
on the implementation's own outputs, the three clauses of the property.
Concurrent observations (`cobs tid op arg result`) are only monitored.
-/
namespace SerfModel.Check.C19
open SerfModel SerfModel.Atomic SerfModel.Check

structure St where
  clock : W := 0#64
  /-- last value the implementation showed (sequential part) -/
  lastSeen : Option Nat := none
  incsSeen : List Nat := []
  /-- per-thread last observation of the concurrent part -/
  thrLast : List (Nat × Nat) := []
  deriving Inhabited

def P := SerfModel.Gen.Lamport.progs

def maxW : Nat := 2 ^ 64 - 1

/-- Monitor for one sequential observation `obs` (the clock value the
implementation reported after the operation). -/
def monitorSeq (s : St) (op : String) (arg : Nat) (obs : Nat) : St × Option (String × String) :=
  let back : Option (String × String) :=
    match s.lastSeen with
    | some l => if obs < l then
        some (if op == "witness" && arg == maxW then "witness-max" else "backwards",
              s!"clock moved backwards: {l} -> {obs} after {op} {arg}")
      else none
    | none => none
  let dup : Option (String × String) :=
    if op == "inc" && s.incsSeen.contains obs then some ("inc-duplicate", s!"Increment returned {obs} twice") else none
  let wit : Option (String × String) :=
    if op == "witness" && !(arg < obs) then
      some (if arg == maxW then "witness-max" else "witness-not-past",
            s!"after Witness({arg}) the clock reads {obs}, not greater")
    else none
  let s' := { s with lastSeen := some obs, incsSeen := if op == "inc" then obs :: s.incsSeen else s.incsSeen }
  (s', back <|> dup <|> wit)

/-- One concurrent observation by goroutine `tid`: op ∈ time|inc|witness, result = value
read (for witness: a `Time()` read by the same goroutine right after). -/
def stepCobs (s : St) (item : List String) : LineOut St :=
  match item with
  | [tid, cop, arg, res] =>
    match tid.toNat?, arg.toNat?, res.toNat? with
    | some t, some a, some r =>
      let last := alookup s.thrLast t
      let back := match last with
        | some l => if r < l then some ("conc-backwards", s!"goroutine {t} saw {l} then {r}") else none
        | none => none
      let dup := if cop == "inc" && s.incsSeen.contains r then some ("conc-inc-duplicate", s!"Increment returned {r} twice") else none
      let wit := if cop == "witness" && a != maxW && !(a < r) then some ("conc-witness-not-past", s!"after Witness({a}) read {r}") else none
      { state := { s with thrLast := ainsert s.thrLast t r, incsSeen := if cop == "inc" then r :: s.incsSeen else s.incsSeen },
        model := none, monitor := back <|> dup <|> wit }
    | _, _, _ => { state := s, model := some "bad-op" }
  | _ => { state := s, model := some "bad-op" }

def step (s : St) (op : List String) (impl : String) : LineOut St :=
  match op with
  | ["set", v] =>
    match v.toNat? with
    | some n => { state := { s with clock := BitVec.ofNat 64 n, lastSeen := none, incsSeen := [] }, model := some "ok" }
    | none => { state := s, model := some "bad-op" }
  | ["time"] =>
    let (c, r) := runSeq P s.clock .time
    let out := match r with | some v => toString v.toNat | none => "none"
    let (s', m) := match impl.toNat? with
      | some o => monitorSeq s "time" 0 o
      | none => (s, some ("malformed", "non-numeric implementation output"))
    { state := { s' with clock := c }, model := some out, monitor := m }
  | ["inc"] =>
    let (c, r) := runSeq P s.clock .increment
    let out := match r with | some v => toString v.toNat | none => "none"
    let (s', m) := match impl.toNat? with
      | some o => monitorSeq s "inc" 0 o
      | none => (s, some ("malformed", "non-numeric implementation output"))
    { state := { s' with clock := c }, model := some out, monitor := m }
  | ["witness", v] =>
    match v.toNat? with
    | some n =>
      let (c, _) := runSeq P s.clock (.witness (BitVec.ofNat 64 n))
      let (s', m) := match impl.toNat? with
        | some o => monitorSeq s "witness" n o
        | none => (s, some ("malformed", "non-numeric implementation output"))
      { state := { s' with clock := c }, model := some (toString c.toNat), monitor := m }
    | none => { state := s, model := some "bad-op" }
  -- `conc g n seed => obs t op arg res;…`: a whole free-running run; fold the monitor over it
  | "conc" :: _ =>
    let body := if impl.startsWith "obs " then String.ofList (impl.toList.drop 4) else ""
    let items := (body.splitOn ";").filter (· ≠ "")
    let (s', m) := items.foldl (fun (acc : St × Option (String × String)) item =>
      match acc.2 with
      | some _ => acc
      | none =>
        let r := stepCobs acc.1 (fields item)
        (r.state, r.monitor <|> (if r.model == some "bad-op" then some ("malformed", item) else none))) (s, none)
    if impl.startsWith "obs " then { state := s', model := none, monitor := m }
    else { state := s, model := some "obs …" }
  | _ => { state := s, model := some "bad-op" }

def checker : Checker := { σ := St, init := {}, step := step }

end SerfModel.Check.C19
