import SerfModel.Check.SnapCheck
/-!
C10 checker: the shared snapshot checker (Check/SnapCheck.lean), judging the lives
WITHOUT a graceful leave: after every op the implementation's in-memory state must be
what the events say, and what the real NewSnapshotter recovers at `reopen` must be
exactly that state (keys `memory-state`, `restore-mismatch`, `name-with-newline`).
-/
namespace SerfModel.Check.C10
open SerfModel.Check

def checker : Checker := SnapCheck.mkChecker { pid := "C10", judgeNoLeave := true, judgeLeave := false }

end SerfModel.Check.C10
