/-
The checker interface shared by all properties.  A checker consumes the trace the
Go harness produced by running the real code — one line `op… => implOutput` per
operation — and, per line, (1) computes the model's output for the same
operation (correspondence) and (2) advances the property's monitor on what the
*implementation* did.  `serfdriver` (Driver/Main.lean) is generic over this.
-/
import SerfModel.Prelude.Basic
namespace SerfModel.Check

/-- Result of feeding one trace line to a checker. -/
structure LineOut (σ : Type) where
  state : σ
  /-- the model's canonical output; `none` = this line is not compared -/
  model : Option String
  /-- a monitor failure: (key, message).  The key identifies the failing input class
  (matched against known_findings.json). -/
  monitor : Option (String × String) := none
  /-- an informational note (key), counted in the evidence; e.g. `inconclusive` -/
  note : Option String := none

structure Checker where
  σ : Type
  init : σ
  step : σ → List String → String → LineOut σ
  /-- called at the end of a case (for monitors that judge whole histories) -/
  finish : σ → Option (String × String) := fun _ => none

end SerfModel.Check
