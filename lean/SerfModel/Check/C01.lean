import SerfModel.Check.Core
import SerfModel.Check.C02
/-!
C01 checker.  The ops of a scenario update the ground truth (which nodes run, which left
gracefully, crashed, were force-left); at `settle` the implementation prints every running
node's Serf view and memberlist's own alive list.  The monitor states the property on those
views: every running node lists every running node as alive; a member that left gracefully is
listed as left, a crashed one as failed, a crashed-and-force-left one as left (a member may be
absent only where it is not running).  When memberlist itself has not converged to the truth
(its alive list at some running node differs from the running set) the run is *inconclusive*
— that part is memberlist's, not Serf's — and is counted, not reported.
-/
namespace SerfModel.Check.C01
open SerfModel SerfModel.Check

inductive Truth where
  | running | left | crashed | forceleft
  deriving DecidableEq, Repr, Inhabited

structure St where
  truth : List Truth := []
  /-- nodes that left gracefully or were force-left at some point of the scenario (and may have restarted since) -/
  everLeft : List Nat := []
  dead : Bool := false     -- the harness could not set the scenario up (node/join error): rest is skipped
  /-- a SINGLE-OBSERVER case (first op `single`): one real node driven through its delegates (harness/node.go); judged
  by the per-observer transition monitors of the C02 checker (the observer-local half of C01: a graceful leaver that
  goes down is listed left however memberlist words the death, a crashed one failed, status times, LocalState) -/
  single : Option SerfModel.Check.C02.St := none
  deriving Inhabited

def nameOf (i : Nat) : String := s!"n{i}"

def parseViews (s : String) : List (String × List (String × String)) :=
  (s.splitOn ";").filterMap fun p =>
    match p.splitOn "=" with
    | [n, body] => some (n, (body.splitOn ",").filterMap fun it =>
        match it.splitOn ":" with
        | [m, st] => some (m, st)
        | _ => none)
    | _ => none

def parseMl (s : String) : List (String × List String) :=
  (s.splitOn ";").filterMap fun p =>
    match p.splitOn "=" with
    | [n, body] => some (n, (body.splitOn ",").filter (· ≠ ""))
    | _ => none

def setTruth (s : St) (i : Nat) (t : Truth) : St := { s with truth := s.truth.set i t }

def isRunning (s : St) (i : Nat) : Bool := s.truth.getD i .crashed == .running

def runningNames (s : St) : List String :=
  (List.range s.truth.length).filter (isRunning s) |>.map nameOf

/-- The property on one settled observation. -/
def monitorSettle (s : St) (views : List (String × List (String × String))) (ml : List (String × List String)) :
    Option (String × String) ⊕ Unit :=
  let run := runningNames s
  -- memberlist truthful?
  let mlOK := run.all fun a =>
    match alookup ml a with
    | some l => run.all (l.contains ·) && l.all (run.contains ·)
    | none => false
  let bad : Option (String × String) := run.findSome? fun a =>
    match alookup views a with
    | none => some ("observer-missing", s!"running node {a} printed no view")
    | some v =>
      (List.range s.truth.length).findSome? fun m =>
        let st := alookup v (nameOf m)
        match s.truth.getD m .crashed, st with
        | .running, some "alive" => none
        | .running, some x =>
          -- the recorded finding: a member that left (or was force-left) and came back is stuck `leaving`
          -- at a peer that merged a stale "left" claim after seeing it alive again
          some (if x == "leaving" && s.everLeft.contains m then "rejoined-stuck-leaving" else "running-not-alive",
                s!"{a} lists running {nameOf m} as {x}")
        | .running, none => some ("running-absent", s!"{a} does not list running {nameOf m}")
        | .left, some "left" => none
        | .left, none => none
        | .left, some x => some ("left-not-left", s!"{a} lists gracefully left {nameOf m} as {x}")
        | .crashed, some "failed" => none
        | .crashed, none => none
        | .crashed, some x =>
          -- candidate finding (Cluster model: `stale_left_counterexample`): a member that left, came back and then
          -- crashed ends `left` once a peer that missed its second life spreads its stale "left" entry
          some (if x == "left" && s.everLeft.contains m then "crashed-after-rejoin-shown-left" else "crashed-not-failed",
                s!"{a} lists crashed {nameOf m} as {x}")
        | .forceleft, some "left" => none
        | .forceleft, none => none
        | .forceleft, some x => some ("forceleft-not-left", s!"{a} lists crashed and force-left {nameOf m} as {x}")
  match bad with
  | none => .inl none
  | some b => if mlOK then .inl (some b) else .inr ()

def step (s : St) (op : List String) (impl : String) : LineOut St :=
  if op == ["single"] then { state := { s with single := some {} }, model := some "ok" } else
  match s.single with
  | some ns =>
    let r := SerfModel.Check.C02.step ns op impl
    { state := { s with single := some r.state }, model := r.model, monitor := r.monitor }
  | none =>
  if s.dead then { state := s, model := none } else
  -- a set-up failure of the harness (sockets, join under load) makes the rest of the case inconclusive
  if impl == "node-error" || impl == "join-failed" then
    { state := { s with dead := true }, model := none, note := some "setup-failed" } else
  -- an op the harness refuses (e.g. `kill` of a node that is not running, produced when a case is shrunk) makes the
  -- case ill-formed: what the model would expect afterwards does not describe what was run
  if impl == "bad-op" then { state := { s with dead := true }, model := none, note := some "ill-formed-case" } else
  match op with
  | ["nodes", k] =>
    match k.toNat? with
    | some k => { state := { truth := List.replicate k .running, everLeft := [] }, model := some "ok" }
    | none => { state := s, model := some "bad-op" }
  | ["join", _, _] => { state := s, model := some "ok" }
  | ["leave", a] =>
    match a.toNat? with
    | some a => { state := { setTruth s a .left with everLeft := a :: s.everLeft }, model := some "ok" }
    | none => { state := s, model := some "bad-op" }
  | ["kill", a] =>
    match a.toNat? with
    | some a => { state := setTruth s a .crashed, model := some "ok" }
    | none => { state := s, model := some "bad-op" }
  | ["restart", a, _] =>
    match a.toNat? with
    | some a => { state := setTruth s a .running, model := some "ok" }
    | none => { state := s, model := some "bad-op" }
  | ["partition", _] => { state := s, model := some "ok" }
  | ["heal"] => { state := s, model := some "ok" }
  | ["forceleave", _, b] =>
    match b.toNat? with
    | some b => { state := (if s.truth.getD b .running == .crashed then { setTruth s b .forceleft with everLeft := b :: s.everLeft } else s), model := some "ok" }
    | none => { state := s, model := some "bad-op" }
  | ["sleep", _] => { state := s, model := some "ok" }
  | "settle" :: _ =>
    match impl.splitOn " | ml " with
    | [v, m] =>
      if !v.startsWith "views " then { state := s, model := some "views …" } else
      let views := parseViews (String.ofList (v.toList.drop 6))
      match monitorSettle s views (parseMl m) with
      | .inl r => { state := s, model := none, monitor := r }
      | .inr () => { state := s, model := none, note := some "inconclusive-memberlist-not-converged" }
    | _ => { state := s, model := some "views …" }
  | _ => { state := s, model := some "bad-op" }

def checker : Checker := { σ := St, init := {}, step := step }

end SerfModel.Check.C01
