import SerfModel.Check.SnapCheck
/-!
C11 checker (op language: harness/c11.go; the real Snapshotter runs through the
file-system shim).  Per life op: the shared snapshot checker on the state part and
the model's operation list against the implementation's (`ops=`).  At `crashall` the
model recovers from `FS.crashAt` at every operation index / cut and the result is
compared with what the real NewSnapshotter recovered from the copy of the directory.

MONITOR (own bookkeeping from the op inputs and the implementation's outputs): the
fine-grained list of states the events produce (one per recorded change); for a crash
inside op i the recovered state must be one of the states between the last one known
to be completely written (the implementation reported an empty write buffer) and the
last state of op i.  Keys: `crash-between-remove-and-rename` (the snapshot file does
not exist although data had been written), `crash-loses-written-state`,
`torn-tail-append` (one more life after a cut write does not record its join),
`stale-compact-file` (a path.compact left behind by the crash leaks into the next compaction).
-/
namespace SerfModel.Check.C11
open SerfModel SerfModel.Check SerfModel.Snapshot SerfModel.Check.SnapCheck

def pathCh : Path → String
  | .main => "m"
  | .tmp => "t"

def showOp : FsOp → String
  | .openAppend p => "oa:" ++ pathCh p
  | .openTrunc p => "ot:" ++ pathCh p
  | .write .tmp d => s!"w:t:{d.length}"
  | .write .main d => "w:m:" ++ hexOfChars d
  | .flush p => "f:" ++ pathCh p
  | .sync p => "s:" ++ pathCh p
  | .close p => "c:" ++ pathCh p
  | .remove p => "rm:" ++ pathCh p
  | .rename a b => "rn:" ++ pathCh a ++ ":" ++ pathCh b
  | .truncate p n => s!"tr:{pathCh p}:{n}"

def showOps (ops : List FsOp) : String :=
  if ops.isEmpty then "-" else ",".intercalate (ops.map showOp)

structure EvRec where
  startOp : Nat      -- implementation op index where this trace op starts
  endOp : Nat
  lastSpec : Nat     -- index of the last specification state of this op
  lbBefore : Nat     -- index of the last state known to be completely written before this op
  deriving Inhabited

structure St where
  inner : SnapCheck.St := {}
  rj : Bool := false
  mc : Nat := 0
  ops : List FsOp := []          -- model: OS operations of the life so far
  -- monitor
  specs : List RecState := [{}]  -- fine-grained states the inputs produce
  cur : RecState := {}
  implKinds : List String := []  -- implementation: operation kinds so far
  evs : List EvRec := []
  lb : Nat := 0
  deriving Inhabited

def cfg : SnapCheck.Cfg := { pid := "C11", judgeNoLeave := true, judgeLeave := false }

/-- the states after every recorded change of one event, in order -/
def fineStates (cur : RecState) : Ev → List RecState
  | .join ms clk =>
    let r := ms.foldl (fun (acc : RecState × List RecState) p =>
      let n := { acc.1 with alive := ainsert acc.1.alive p.1 p.2 }
      (n, acc.2 ++ [n])) (cur, [])
    let c := { r.1 with clock := max r.1.clock (lastSeen clk) }
    r.2 ++ [c]
  | .gone ns clk =>
    let r := ns.foldl (fun (acc : RecState × List RecState) n =>
      let n' := { acc.1 with alive := aerase acc.1.alive n }
      (n', acc.2 ++ [n'])) (cur, [])
    let c := { r.1 with clock := max r.1.clock (lastSeen clk) }
    r.2 ++ [c]
  | .memberOther clk => [{ cur with clock := max cur.clock (lastSeen clk) }]
  | .user lt => [{ cur with eventClock := max cur.eventClock lt }]
  | .query lt => [{ cur with queryClock := max cur.queryClock lt }]
  | .clockTick clk => [{ cur with clock := max cur.clock (lastSeen clk) }]
  | _ => []

def splitOps (impl : String) : String × String :=
  match impl.splitOn " ops=" with
  | [a, b] => (a, b)
  | _ => (impl, "?")

def evOfOp (op : List String) : Option Ev :=
  match op with
  | "join" :: clk :: ms => match clk.toNat?, ms.mapM parseMember with
    | some clk, some ms => some (.join ms clk)
    | _, _ => none
  | "gone" :: _ :: clk :: ns => match clk.toNat?, ns.mapM charsOfHex? with
    | some clk, some ns => some (.gone ns clk)
    | _, _ => none
  | ["memb", _, clk] => clk.toNat?.map .memberOther
  | ["user", lt] => lt.toNat?.map .user
  | ["query", lt] => lt.toNat?.map .query
  | ["tick", clk] => clk.toNat?.map .clockTick
  | ["shutdown", clk] => clk.toNat?.map .clockTick
  | _ => none

def cuts (n : Nat) : List Nat :=
  let c := [1, n / 2, n - 1].filter fun c => 1 ≤ c && c < n
  let c := c.eraseDups
  c.foldr (fun x acc => (acc.filter (· < x)) ++ [x] ++ (acc.filter (· > x))) []

def zzName : Name := ['z', 'z']
def zzAddr : Addr := ['1', '0', '.', '9', '.', '9', '.', '9', ':', '1']

def insertBytes (s : List Char) : List (List Char) → List (List Char)
  | [] => [s]
  | x :: xs => if hexOfChars s ≤ hexOfChars x then s :: x :: xs else x :: insertBytes s xs

/-- byte-wise order of names (Go's sort.Strings) -/
def sortBytes (l : List (List Char)) : List (List Char) := l.foldr insertBytes []

def showRec (fs : FS) (r : RecState) : String :=
  s!"{b01 fs.main.isSome}{b01 fs.tmp.isSome};{showAlive r.alive};{r.clock};{r.eventClock};{r.queryClock}"

def modelEntry (st : St) (k cut : Nat) (kind : String) : String :=
  let fs := FS.crashAt {} st.ops k cut
  if kind == "r" then s!"{k}.{cut}.r={showRec fs (recover st.rj fs)}"
  else if kind == "c" then
    -- one more life: drop every recovered member (sorted by name), join zz, compact, shutdown
    let r0 := Snap.openOn st.rj st.mc fs
    let fs1 := fs.applyAll r0.2
    let names := sortBytes (r0.1.alive.map (·.1))
    let go := names.foldl (fun (acc : Snap × FS) n =>
      let r := Snapshot.step Order.id acc.1 (.gone [n] 1)
      (r.1, acc.2.applyAll r.2)) (r0.1, fs1)
    let r1 := Snapshot.step Order.id go.1 (.join [(zzName, zzAddr)] 1)
    let fs2 := go.2.applyAll r1.2
    let r2 := compact Order.id r1.1
    let fs3 := fs2.applyAll r2.2
    let r3 := shutdown Order.id r2.1 1
    let fs4 := fs3.applyAll r3.2
    s!"{k}.{cut}.c={showRec fs (recover st.rj fs4)}"
  else
    let r0 := Snap.openOn st.rj st.mc fs
    let fs1 := fs.applyAll r0.2
    let r1 := Snapshot.step Order.id r0.1 (.join [(zzName, zzAddr)] 1)
    let fs2 := fs1.applyAll r1.2
    let r2 := shutdown Order.id r1.1 1
    let fs3 := fs2.applyAll r2.2
    s!"{k}.{cut}.j={showRec fs (recover st.rj fs3)}"

def modelCrashAll (st : St) : String :=
  let n := st.ops.length
  let r := (List.range (n + 1)).foldl (fun (acc : List String × Nat) k =>
    let fsk := FS.crashAt {} st.ops k 0
    let base := [modelEntry st k 0 "r"]
    -- a `c` entry at the first three crash points where path.compact exists next to the snapshot
    let both := k < n && fsk.main.isSome && fsk.tmp.isSome && acc.2 < 3
    let base := if both then base ++ [modelEntry st k 0 "c"] else base
    let ents := match st.ops[k]? with
      | some (.write .main d) => base ++ (cuts d.length).flatMap fun c => [modelEntry st k c "r", modelEntry st k c "j"]
      | _ => base
    (acc.1 ++ ents, if both then acc.2 + 1 else acc.2)) ([], 0)
  s!"n={n} " ++ "|".intercalate r.1

structure Entry where
  k : Nat
  cut : Nat
  kind : String
  main : Bool
  alive : String
  c : String
  e : String
  q : String

def parseEntry (s : String) : Option Entry :=
  match s.splitOn "=" with
  | [a, b] => match a.splitOn ".", b.splitOn ";" with
    | [k, cut, kind], [flags, al, c, e, q] => match k.toNat?, cut.toNat? with
      | some k, some cut => some { k, cut, kind, main := flags.toList.head? == some '1', alive := al, c, e, q }
      | _, _ => none
    | _, _ => none
  | _ => none

def recKey (r : RecState) : String := s!"{showAlive r.alive};{r.clock};{r.eventClock};{r.queryClock}"
def entKey (e : Entry) : String := s!"{e.alive};{e.c};{e.e};{e.q}"

def judgeEntry (st : St) (all : List Entry) (e : Entry) : Option (String × String) :=
  let n := st.implKinds.length
  -- the trace op the crash falls into
  let (lb, ub) := match st.evs.find? (fun r => r.startOp ≤ e.k && e.k < r.endOp) with
    | some r => (r.lbBefore, r.lastSpec)
    | none => if e.k ≥ n then (st.lb, st.specs.length - 1) else (0, st.specs.length - 1)
  let wrote := (st.implKinds.take e.k).any (·.startsWith "w:")
  if e.kind == "r" then
    let allowed := ((st.specs.drop lb).take (ub + 1 - lb)).map recKey
    if allowed.contains (entKey e) then none
    else if !e.main && wrote then
      some ("crash-between-remove-and-rename",
        s!"crash before operation {e.k}: the snapshot file does not exist although data had been written; the restart recovers [{entKey e}], none of {allowed}")
    else some ("crash-loses-written-state",
        s!"crash before operation {e.k} (cut {e.cut}): the restart recovers [{entKey e}], which is none of the states between the last completely written one and the current one {allowed}")
  else if e.kind == "c" then
    match all.find? (fun r => r.kind == "r" && r.k == e.k && r.cut == e.cut) with
    | none => none
    | some r =>
      let want := showAlive [(zzName, zzAddr)]
      if e.alive == want && e.c == r.c && e.e == r.e && e.q == r.q then none
      else some ("stale-compact-file",
        s!"crash before operation {e.k} (path.compact left behind), then one more life that drops every member, joins zz and compacts: the next restart recovers [{entKey e}], expected alive [{want}] and the clocks of [{entKey r}]")
  else
    match all.find? (fun r => r.kind == "r" && r.k == e.k && r.cut == e.cut) with
    | none => none
    | some r =>
      match parseAlive r.alive with
      | none => some ("malformed", r.alive)
      | some a =>
        let want := showAlive (ainsert a zzName zzAddr)
        if e.alive == want && e.c == r.c && e.e == r.e && e.q == r.q then none
        else some ("torn-tail-append",
          s!"crash before operation {e.k} with the write cut after {e.cut} bytes, then one more life that joins zz: the next restart recovers [{entKey e}], expected alive [{want}]")

def step (st : St) (op : List String) (impl : String) : LineOut St :=
  match op with
  | ["createonly", _] =>
    -- restart through serf.Create with the snapshot bytes only in <snapshot>.compact (a) and as the snapshot (b):
    -- the clocks restored must be the same (not compared with the model: judged on the implementation's outputs)
    let mon := match impl.splitOn " " with
      | [a, b] =>
        if a.startsWith "a=" && b.startsWith "b=" then
          if String.ofList (a.toList.drop 2) == String.ofList (b.toList.drop 2) then none
          else some ("compact-only-not-recovered-by-create",
            s!"a node created on a directory holding only <snapshot>.compact restored clocks {a}, on the same bytes as the snapshot {b}")
        else some ("malformed", impl)
      | _ => some ("malformed", impl)
    { state := st, model := none, monitor := mon }
  | ["crashall"] =>
    let m := modelCrashAll st
    let ents := match impl.splitOn " " with
      | [_, body] => (body.splitOn "|").filterMap parseEntry
      | _ => []
    -- one verdict per line: an unexplained loss first, so that a recorded finding never masks it
    let verdicts := ents.filterMap (judgeEntry st ents)
    let pick (k : String) := verdicts.find? (·.1 == k)
    let mon := (pick "crash-loses-written-state").orElse fun _ => (pick "malformed").orElse fun _ =>
      (pick "crash-between-remove-and-rename").orElse fun _ => verdicts.head?
    { state := st, model := some m, monitor := mon }
  | _ =>
    let (implState, implOps) := splitOps impl
    let r := SnapCheck.step cfg st.inner op implState
    let newOps := osOps r.state.lastOps
    let isNew := op.head? == some "new"
    let st0 : St := if isNew then
        { inner := r.state, rj := op[2]? == some "1", mc := (op[3]?.bind (·.toNat?)).getD 0 }
      else { st with inner := r.state }
    let st1 := { st0 with ops := st0.ops ++ newOps }
    -- monitor bookkeeping
    let fine := match evOfOp op with
      | some ev => fineStates st1.cur ev
      | none => []
    let specs := st1.specs ++ fine
    let cur := fine.getLast?.getD st1.cur
    let kinds := if implOps == "-" || implOps == "?" then [] else implOps.splitOn ","
    let startOp := st1.implKinds.length
    let rec' : EvRec := { startOp, endOp := startOp + kinds.length, lastSpec := specs.length - 1, lbBefore := st1.lb }
    let lb := if kvOf implState "buf" == some "0" then specs.length - 1 else st1.lb
    let st2 := { st1 with specs, cur, implKinds := st1.implKinds ++ kinds, evs := st1.evs ++ [rec'], lb }
    let model := r.model.map fun m => if m == "bad-op" then m else m ++ " ops=" ++ showOps newOps
    { state := st2, model := model, monitor := r.monitor }

/-- After the first disagreement between model and implementation the model is no longer
compared (its state is unreliable) but the MONITOR keeps judging the implementation's
outputs, so that a broken implementation still yields a concrete failing input; the
disagreement itself is reported through the monitor channel (key `model-mismatch`). -/
def stepD (st : St × Bool) (op : List String) (impl : String) : LineOut (St × Bool) :=
  let r := step st.1 op impl
  if st.2 then { state := (r.state, true), model := none, monitor := r.monitor }
  else match r.model with
    | some m =>
      if m != impl then
        { state := (r.state, true), model := none,
          monitor := r.monitor.orElse fun _ => some ("model-mismatch",
            s!"model and implementation disagree: model [{(m.take 300).toString}] implementation [{(impl.take 300).toString}]") }
      else { state := (r.state, false), model := r.model, monitor := r.monitor }
    | none => { state := (r.state, false), model := none, monitor := r.monitor }

def checker : Checker := { σ := St × Bool, init := ({}, false), step := stepD }

end SerfModel.Check.C11
