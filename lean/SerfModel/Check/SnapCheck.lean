import SerfModel.Check.Core
import SerfModel.Model.Snapshot
/-!
Shared checker for the snapshot properties (C10, C13; op language in
harness/snapshot_common.go).  Per op it (1) runs the model (`SerfModel.Snapshot`,
order oracle = identity) and renders the model's state in the harness' format —
file bytes are compared modulo the order of the alive block a compaction writes
(Go map order), after which the implementation's bytes are adopted as the model's
file — and (2) advances a MONITOR that keeps its own specification state from the
op INPUTS only (which members are alive at which address; the largest clock /
event / query time observed) and judges what the IMPLEMENTATION reports: its
in-memory state after every op and the state the real NewSnapshotter recovers at
`reopen`.
-/
namespace SerfModel.Check.SnapCheck
open SerfModel SerfModel.Check SerfModel.Snapshot

def charsOfHex? (s : String) : Option (List Char) :=
  (bytesOfHex? s).map fun bs => bs.map fun b => Char.ofNat b.toNat

def hexOfChars (cs : List Char) : String := hexOfBytes (cs.map fun c => UInt8.ofNat c.toNat)

def insertSorted (s : String) : List String → List String
  | [] => [s]
  | x :: xs => if s ≤ x then s :: x :: xs else x :: insertSorted s xs

def sortStrings (l : List String) : List String := l.foldr insertSorted []

def showAlive (m : AMap) : String :=
  if m.isEmpty then "-" else
  ",".intercalate (sortStrings (m.map fun p => hexOfChars p.1 ++ ":" ++ hexOfChars p.2))

def b01 (b : Bool) : String := if b then "1" else "0"

/-- is `bs` the concatenation of the `lines` in some order? -/
def permConcat : Nat → List Char → List (List Char) → Bool
  | _, bs, [] => bs.isEmpty
  | 0, _, _ => false
  | f + 1, bs, ls =>
    (List.range ls.length).any fun i =>
      match ls[i]? with
      | some l => l.isPrefixOf bs && permConcat f (bs.drop l.length) (ls.eraseIdx i)
      | none => false

structure Cfg where
  pid : String
  /-- judge lives without a graceful leave (C10) -/
  judgeNoLeave : Bool
  /-- judge lives with a graceful leave (C13) -/
  judgeLeave : Bool

structure St where
  snap : Option Snap := none
  fs : FS := {}
  async : Bool := false
  closed : Bool := false
  /-- the file-system operations the model issued for the last op (used by the C11/C12 checkers) -/
  lastOps : List FsOp := []
  -- monitor
  spec : RecState := {}
  left : Bool := false
  rjWriter : Bool := false
  torn : Bool := false      -- the case started on a file whose last line is not newline-terminated
  badName : Bool := false   -- a member name with '\n' (or an address with ' ' / '\n') was recorded in this case
  deriving Inhabited

def showMem (alive : AMap) (c e q : Nat) : String :=
  s!"alive={showAlive alive} c={c} e={e} q={q}"

def diskLen (fs : FS) : String :=
  match fs.main with
  | some f => toString f.length
  | none => "-1"

def showState (s : Snap) (fs : FS) : String :=
  s!"{showMem s.alive s.lastClock s.lastEventClock s.lastQueryClock} leaving={b01 s.leaving} off={s.offset} disk={diskLen fs} buf={s.buf.length}"

def kvOf (impl : String) (k : String) : Option String :=
  (impl.splitOn " ").findSome? fun f =>
    if f.startsWith (k ++ "=") then some (String.ofList (f.toList.drop (k.length + 1))) else none

/-- the implementation's `alive=… c=… e=… q=…` prefix, as reported -/
def implMem (impl : String) : Option String :=
  match kvOf impl "alive", kvOf impl "c", kvOf impl "e", kvOf impl "q" with
  | some a, some c, some e, some q => some s!"alive={a} c={c} e={e} q={q}"
  | _, _, _, _ => none

def parseAlive (a : String) : Option AMap :=
  if a == "-" then some [] else
  (a.splitOn ",").mapM fun it => match it.splitOn ":" with
    | [n, ad] => match charsOfHex? n, charsOfHex? ad with
      | some n, some ad => some (n, ad)
      | _, _ => none
    | _ => none

/-- the state the implementation reports, parsed -/
def implRec (impl : String) : Option RecState :=
  match (kvOf impl "alive").bind parseAlive, (kvOf impl "c").bind (·.toNat?), (kvOf impl "e").bind (·.toNat?),
        (kvOf impl "q").bind (·.toNat?) with
  | some a, some c, some e, some q => some { alive := a, clock := c, eventClock := e, queryClock := q }
  | _, _, _, _ => none

def implAliveOnly (impl : String) : Option String := kvOf impl "alive"

def parseMember (s : String) : Option (Name × Addr) :=
  match s.splitOn "," with
  | [n, _, _, a] => match charsOfHex? n, charsOfHex? a with
    | some n, some a => some (n, a)
    | _, _ => none
  | _ => none

def wfName (n : Name) : Bool := !n.contains '\n'
def wfAddr (a : Addr) : Bool := !a.contains '\n' && !a.contains ' '

def lastSeen (clk : Nat) : Nat := (clk + 18446744073709551615) % 18446744073709551616

/-- monitor specification: effect of one input on the expected state -/
def specEv (st : St) : Ev → St
  | .join ms clk =>
    if st.left then st else
    let sp := ms.foldl (fun sp p => { sp with alive := ainsert sp.alive p.1 p.2 }) st.spec
    { st with spec := { sp with clock := max sp.clock (lastSeen clk) },
              badName := st.badName || ms.any fun p => !(wfName p.1 && wfAddr p.2) }
  | .gone ns clk =>
    if st.left then st else
    let sp := ns.foldl (fun sp n => { sp with alive := aerase sp.alive n }) st.spec
    { st with spec := { sp with clock := max sp.clock (lastSeen clk) }, badName := st.badName || ns.any fun n => !wfName n }
  | .memberOther clk => if st.left then st else { st with spec := { st.spec with clock := max st.spec.clock (lastSeen clk) } }
  | .user lt => if st.left then st else { st with spec := { st.spec with eventClock := max st.spec.eventClock lt } }
  | .query lt => if st.left then st else { st with spec := { st.spec with queryClock := max st.spec.queryClock lt } }
  | .clockTick clk => { st with spec := { st.spec with clock := max st.spec.clock (lastSeen clk) } }
  | .leave => { st with left := true, spec := { st.spec with alive := if st.rjWriter then st.spec.alive else [] } }
  | .timePasses => st
  | .forceCompact => st

def showSpec (sp : RecState) : String := showMem sp.alive sp.clock sp.eventClock sp.queryClock

/-- judge the implementation's reported in-memory state against the specification -/
def judgeMem (cfg : Cfg) (st : St) (impl : String) : Option (String × String) :=
  if st.async then none else
  match implMem impl with
  | none => some ("malformed", impl.take 200 |>.toString)
  | some m =>
    if m == showSpec st.spec then none
    else if st.left && !st.rjWriter && implAliveOnly impl == some (showAlive st.spec.alive) then none  -- clocks after a leave are not part of any property
    else some ("memory-state", s!"in-memory snapshot state [{m}] differs from what the events say [{showSpec st.spec}]")

/-- judge what the real NewSnapshotter recovered -/
def judgeRestore (cfg : Cfg) (st : St) (rj : Bool) (impl : String) : Option (String × String) :=
  if rj != st.rjWriter then none else
  if !st.left then
    if !cfg.judgeNoLeave then none else
    match implMem impl with
    | none => some ("malformed", impl.take 200 |>.toString)
    | some m =>
      if m == showSpec st.spec then none
      else if st.badName then
        some ("name-with-newline", s!"restart recovered [{m}], the node knew [{showSpec st.spec}] (a member name containing a newline was recorded)")
      else if st.torn then
        some ("torn-tail-append", s!"restart recovered [{m}], the node knew [{showSpec st.spec}] (the life started on a file ending in an unterminated line)")
      else some ("restore-mismatch", s!"restart recovered [{m}], the node knew [{showSpec st.spec}]")
  else
    if !cfg.judgeLeave then none else
    match implAliveOnly impl with
    | none => some ("malformed", impl.take 200 |>.toString)
    | some a =>
      if a == showAlive st.spec.alive then none
      else if st.badName then
        some ("name-with-newline", s!"restart after a leave would re-join [{a}], expected [{showAlive st.spec.alive}] (a member name containing a newline was recorded)")
      else if rj then some ("leave-rejoin-set", s!"restart after a leave (rejoin-after-leave on) would re-join [{a}], the set known at the leave was [{showAlive st.spec.alive}]")
      else some ("leave-not-remembered", s!"restart after a leave (rejoin-after-leave off) would re-join [{a}]")

/-- judge the bytes the implementation left in the snapshot file at shutdown: read with the
replay parser, they must give the state the events produced (evaluated on the
implementation's bytes, so a writer defect yields a concrete failing history even
when the model comparison already failed on the same line) -/
def judgeFile (cfg : Cfg) (st : St) (implF : List Char) : Option (String × String) :=
  if st.badName || st.torn then none else
  let r := replay st.rjWriter implF
  if !st.left then
    if !cfg.judgeNoLeave then none else
    let m := showMem r.alive r.clock r.eventClock r.queryClock
    if m == showSpec st.spec then none
    else some ("snapshot-file-stale", s!"the snapshot file written at shutdown replays to [{m}], the node knew [{showSpec st.spec}]")
  else
    if !cfg.judgeLeave then none else
    if showAlive r.alive == showAlive st.spec.alive then none
    else some ("leave-file-rejoin-set", s!"after a leave the snapshot file written at shutdown replays to the rejoin set [{showAlive r.alive}], expected [{showAlive st.spec.alive}]")

def fileMatches (s : Snap) (model impl : List Char) : Bool :=
  let lines := s.block.map fun p => printLine (.alive p.1 p.2)
  let b := lines.flatten.length
  impl.drop b == model.drop b && permConcat (lines.length + 1) (impl.take b) lines

def runEv (cfg : Cfg) (st : St) (ev : Ev) (impl : String) : LineOut St :=
  match st.snap with
  | none => { state := st, model := some "bad-op" }
  | some s =>
    if st.closed then { state := st, model := some "bad-op" } else
    let r := step Order.id s ev
    let fs := st.fs.applyAll r.2
    let st1 := specEv st ev
    let st2 := { st1 with snap := some r.1, fs := fs, lastOps := r.2 }
    if st.async then { state := st2, model := some "ok" }
    else { state := st2, model := some (showState r.1 fs), monitor := judgeMem cfg st2 impl }

def parseBool (s : String) : Option Bool := if s == "0" then some false else if s == "1" then some true else none

def step (cfg : Cfg) (st : St) (op : List String) (impl : String) : LineOut St :=
  let bad : LineOut St := { state := st, model := some "bad-op" }
  match op with
  | "new" :: mode :: rj :: mc :: rest =>
    match parseBool rj, mc.toNat?, (if mode == "sync" then some false else if mode == "async" then some true else none) with
    | some rj, some mc, some async =>
      let file : Option (Option (List Char)) := match rest with
        | [] => some none
        | [h] => (charsOfHex? h).map some
        | _ => none
      match file with
      | none => bad
      | some file =>
        let fs0 : FS := { main := file }
        let r := Snap.openOn rj mc fs0
        let fs := fs0.applyAll r.2
        -- the specification starts from what the implementation itself recovered from the given file
        let st' : St := { snap := some r.1, fs := fs, async := async, closed := false, lastOps := r.2, spec := (implRec impl).getD {},
                          left := false, rjWriter := rj, badName := false,
                          torn := match file with
                            | some f => f.getLast? != none && f.getLast? != some '\n'
                            | none => false }
        if async then { state := st', model := some "ok" }
        else { state := st', model := some (showState r.1 fs) }
    | _, _, _ => bad
  | ["burstleave", att, _burst, _mc] =>
    -- lives through the real goroutines: Leave() under a backlog, shutdown at once; the leave must be recorded
    let model := s!"ok n={att} recovered=-"
    let mon := if !cfg.judgeLeave then none else
      match kvOf impl "recovered" with
      | some "-" => none
      | some r => some ("leave-not-remembered",
          s!"Leave() while the snapshotter was busy, shutdown at once: a restart would re-join [{r}] (rejoin-after-leave off)")
      | none => some ("malformed", (impl.take 200).toString)
    { state := st, model := some model, monitor := mon }
  | "join" :: clk :: ms =>
    match clk.toNat?, ms.mapM parseMember with
    | some clk, some ms => runEv cfg st (.join ms clk) impl
    | _, _ => bad
  | "gone" :: kind :: clk :: ns =>
    if kind != "leave" && kind != "failed" then bad else
    match clk.toNat?, ns.mapM charsOfHex? with
    | some clk, some ns => runEv cfg st (.gone ns clk) impl
    | _, _ => bad
  | ["memb", kind, clk] =>
    if kind != "update" && kind != "reap" then bad else
    match clk.toNat? with
    | some clk => runEv cfg st (.memberOther clk) impl
    | none => bad
  | ["user", lt] => match lt.toNat? with
    | some lt => runEv cfg st (.user lt) impl
    | none => bad
  | ["query", lt] => match lt.toNat? with
    | some lt => runEv cfg st (.query lt) impl
    | none => bad
  | ["leave"] => runEv cfg st .leave impl
  | ["tick", clk] =>
    if st.async then bad else
    match clk.toNat? with
    | some clk => runEv cfg st (.clockTick clk) impl
    | none => bad
  | ["time"] => if st.async then bad else runEv cfg st .timePasses impl
  | ["compact"] => if st.async then bad else runEv cfg st .forceCompact impl
  | ["dump"] =>
    match st.snap with
    | none => bad
    | some s =>
      if st.async then bad else
      let mfile := st.fs.main
      let tmp := b01 st.fs.tmp.isSome
      let render (f : Option (List Char)) : String := match f with
        | some f => s!"file={hexOfChars f} tmp={tmp}"
        | none => s!"file=missing tmp={tmp}"
      match mfile, (kvOf impl "file").bind charsOfHex? with
      | some mf, some implF =>
        if fileMatches s mf implF && kvOf impl "tmp" == some tmp then
          { state := { st with fs := { st.fs with main := some implF } }, model := some impl }
        else { state := st, model := some (render mfile) }
      | _, _ => { state := st, model := some (render mfile) }
  | ["shutdown", clk] =>
    match st.snap, clk.toNat? with
    | some s, some clk =>
      if st.closed then bad else
      let r := shutdown Order.id s clk
      let fs := st.fs.applyAll r.2
      let st1 := specEv st (.clockTick clk)
      let mstate := showState r.1 fs
      let mfile := fs.main.getD []
      let st2 := { st1 with snap := some r.1, fs := fs, closed := true, lastOps := r.2 }
      let mon := judgeMem cfg { st2 with async := false } impl
      match impl.splitOn " file=" with
      | [istate, ifile] =>
        match charsOfHex? ifile with
        | some implF =>
          let mon := match mon with
            | some m => some m
            | none => judgeFile cfg st2 implF
          if istate == mstate && fileMatches r.1 mfile implF then
            { state := { st2 with fs := { fs with main := some implF } }, model := some impl, monitor := mon }
          else { state := st2, model := some (mstate ++ " file=" ++ hexOfChars mfile), monitor := mon }
        | none => { state := st2, model := some (mstate ++ " file=" ++ hexOfChars mfile), monitor := mon }
      | _ => { state := st2, model := some (mstate ++ " file=" ++ hexOfChars mfile), monitor := mon }
    | _, _ => bad
  | ["planttmp", hex] =>
    -- a compaction temp file left behind by an earlier failed compaction (only between shutdown and reopen)
    match st.snap, charsOfHex? hex with
    | some _, some b => if !st.closed then bad else { state := { st with fs := { st.fs with tmp := some b } }, model := some "ok" }
    | _, _ => bad
  | ["reopen", rj, mc] =>
    match st.snap, parseBool rj, mc.toNat? with
    | some _, some rj, some mc =>
      if !st.closed then bad else
      let r := Snap.openOn rj mc st.fs
      let fs := st.fs.applyAll r.2
      let mon := judgeRestore cfg st rj impl
      -- the next life: the specification keeps its own state when it has just been confirmed (no leave, same
      -- flag); otherwise it starts from what the implementation says it recovered
      let spec' := if !st.left && rj == st.rjWriter && mon.isNone then st.spec else (implRec impl).getD {}
      let st' : St := { st with snap := some r.1, fs := fs, async := false, closed := false, lastOps := r.2, spec := spec',
                                left := false, rjWriter := rj }
      { state := st', model := some (showState r.1 fs), monitor := mon }
    | _, _, _ => bad
  | _ => bad

def mkChecker (cfg : Cfg) : Checker := { σ := St, init := {}, step := step cfg }

end SerfModel.Check.SnapCheck
