import SerfModel.Check.Core
import SerfModel.Model.EventBuf
import SerfModel.Gen.RestartCutoff
/-!
C14 checker.  Model: the event and query de-duplication buffers (`SerfModel.EventBuf`), the
snapshot's recorded event/query clocks (the snapshotter records the largest time that passed
through the pipeline, i.e. of the *delivered* items), and `Create` on restart
(`minTime = last + 1`, clock = `Witness(last)` after the initial increment, empty buffers).
Monitor (on the implementation's outputs only): nothing delivered after a restart carries a
time at or below the largest time delivered before that restart.
-/
namespace SerfModel.Check.C14
open SerfModel SerfModel.Check SerfModel.EventBuf
open SerfModel.Atomic (W)

structure St where
  n : Nat := 4
  q : Nat := 4
  ev : Buf String := Buf.init 4
  qu : Buf Nat := Buf.init 4
  lastE : W := 0#64
  lastQ : W := 0#64
  /-- monitor: largest times the implementation delivered so far; cut-offs fixed at the last restart -/
  seenE : Nat := 0
  seenQ : Nat := 0
  cutE : Option Nat := none
  cutQ : Option Nat := none
  deriving Inhabited

def maxW (a b : W) : W := if a < b then b else a

def showE (ds : List (W × String)) : List String := ds.map fun d => s!"e/{d.1.toNat}/{hexOfString d.2}"
def showQ (ds : List (W × Nat)) : List String := ds.map fun d => s!"q/{d.1.toNat}/{hexOfString s!"q{d.2}"}"
def joinOut (l : List String) : String := if l.isEmpty then "-" else ",".intercalate l

/-- (kind, time) pairs of an implementation delivery list -/
def parseImpl (s : String) : List (String × Nat) :=
  if s == "-" then [] else (s.splitOn ",").filterMap fun it =>
    match it.splitOn "/" with
    | [k, t, _] => t.toNat?.map fun t => (k, t)
    | _ => none

def monitor (s : St) (impl : String) : St × Option (String × String) :=
  let items := parseImpl impl
  let bad := items.find? fun (k, t) =>
    match (if k == "e" then s.cutE else s.cutQ) with
    | some c => t ≤ c
    | none => false
  let s' := items.foldl (fun (acc : St) (k, t) =>
    if k == "e" then { acc with seenE := max acc.seenE t } else { acc with seenQ := max acc.seenQ t }) s
  (s', bad.map fun (k, t) =>
    let c := (if k == "e" then s.cutE else s.cutQ).getD 0
    (if c == 2 ^ 64 - 1 then "restart-cutoff-wrap" else "redelivered-after-restart",
     s!"after the restart a {k} with time {t} was delivered although the snapshot had recorded {c}"))

def step (s : St) (op : List String) (impl : String) : LineOut St :=
  match op with
  | ["cfg", n, q] =>
    match n.toNat?, q.toNat? with
    -- a node created with a snapshot path starts with cut-offs LastEventClock+1 = LastQueryClock+1 = 1 (empty snapshot)
    | some n, some q => { state := { n := n, q := q, ev := Buf.start n 1#64 1#64, qu := Buf.start q 1#64 1#64 }, model := some "ok" }
    | _, _ => { state := s, model := some "bad-op" }
  | ["cfgfull", n, q, _] =>
    -- the pre-existing snapshot file holds only lines the replay skips: same start as `cfg`
    match n.toNat?, q.toNat? with
    | some n, some q => { state := { n := n, q := q, ev := Buf.start n 1#64 1#64, qu := Buf.start q 1#64 1#64 }, model := some "ok" }
    | _, _ => { state := s, model := some "bad-op" }
  | ["ev", lt, h] =>
    match lt.toNat?, stringOfHex? h with
    | some lt, some name =>
      let (b, ds) := stepIn s.ev (.gossip (BitVec.ofNat 64 lt) name)
      let s1 := { s with ev := b, lastE := ds.foldl (fun a d => maxW a d.1) s.lastE }
      let (s2, m) := monitor s1 impl
      { state := s2, model := some (joinOut (showE ds)), monitor := m }
    | _, _ => { state := s, model := some "bad-op" }
  | ["q", lt, id] =>
    match lt.toNat?, id.toNat? with
    | some lt, some id =>
      let (b, ds) := stepIn s.qu (.gossip (BitVec.ofNat 64 lt) id)
      let s1 := { s with qu := b, lastQ := ds.foldl (fun a d => maxW a d.1) s.lastQ }
      let (s2, m) := monitor s1 impl
      { state := s2, model := some (joinOut (showQ ds)), monitor := m }
    | _, _ => { state := s, model := some "bad-op" }
  | ["pp", elt, j, img] =>
    match elt.toNat? with
    | some elt =>
      let slots : List (Option (W × List String)) :=
        if img == "-" then [] else (img.splitOn ";").filterMap fun it =>
          match it.splitOn ":" with
          | [t, h] => match t.toNat?, stringOfHex? h with
            | some t, some name => some (some (BitVec.ofNat 64 t, [name]))
            | _, _ => none
          | _ => none
      let (b, ds) := stepIn s.ev (.pushPull (BitVec.ofNat 64 elt) (j == "1") slots)
      -- the push/pull message also carries QueryLTime = 1: witness(0) on the query clock
      let qu := witnessRemote s.qu 1#64
      let s1 := { s with ev := b, qu := qu, lastE := ds.foldl (fun a d => maxW a d.1) s.lastE }
      let (s2, m) := monitor s1 impl
      { state := s2, model := some (joinOut (showE ds)), monitor := m }
    | none => { state := s, model := some "bad-op" }
  | ["plant", _] =>
    -- a restart that finds a left-over <snapshot>.compact beside the complete snapshot: same as a plain restart
    -- (NewSnapshotter uses the compacted file only when the snapshot itself is missing; C11 covers that path)
    let ce := witness 1#64 s.lastE
    let cq := witness 1#64 s.lastQ
    let s' := { s with ev := Buf.start s.n ce (s.lastE + BitVec.ofNat 64 Gen.RestartCutoff.event.minOffset),
                       qu := Buf.start s.q cq (s.lastQ + BitVec.ofNat 64 Gen.RestartCutoff.query.minOffset),
                       cutE := some s.seenE, cutQ := some s.seenQ }
    { state := s', model := some s!"clocks {ce.toNat} {cq.toNat}" }
  | ["restart"] =>
    let ce := witness 1#64 s.lastE
    let cq := witness 1#64 s.lastQ
    -- the cut-off offsets are the ones written in Create (regenerated: `Gen.RestartCutoff`)
    let s' := { s with ev := Buf.start s.n ce (s.lastE + BitVec.ofNat 64 Gen.RestartCutoff.event.minOffset),
                       qu := Buf.start s.q cq (s.lastQ + BitVec.ofNat 64 Gen.RestartCutoff.query.minOffset),
                       cutE := some s.seenE, cutQ := some s.seenQ }
    { state := s', model := some s!"clocks {ce.toNat} {cq.toNat}" }
  | _ => { state := s, model := some "bad-op" }

def checker : Checker := { σ := St, init := {}, step := step }

end SerfModel.Check.C14
